package verifdemo

import (
	"os"
	"os/exec"
	"testing"

	"github.com/truora/minidyn/interpreter"
	"github.com/truora/minidyn/types"
)

// C09: name resolution terminates. With ExpressionAttributeNames {"#a": "#a"}
// (the attribute is literally called "#a") and an item without that attribute
// the alias expansion recursed forever: fatal stack overflow, which recover()
// cannot catch, so the probe runs in a child process.
func TestC09AliasCycleTerminates(t *testing.T) {
	if os.Getenv("VERIF_ALIAS_CHILD") == "1" {
		li := interpreter.Language{}
		for _, names := range []map[string]string{{"#a": "#a"}, {"#a": "#b", "#b": "#a"}, {"#a": "x.#a"}} {
			_, _ = li.Match(interpreter.MatchInput{TableName: "t", Expression: "#a = :x", ExpressionType: interpreter.ExpressionTypeFilter,
				Item: map[string]*types.Item{"h": s("k")}, Attributes: map[string]*types.Item{":x": s("v")}, Aliases: names})
		}
		return
	}
	cmd := exec.Command(os.Args[0], "-test.run", "TestC09AliasCycleTerminates")
	cmd.Env = append(os.Environ(), "VERIF_ALIAS_CHILD=1", "GOMAXPROCS=2")
	out, err := cmd.CombinedOutput()
	if err != nil {
		if len(out) > 300 {
			out = out[:300]
		}
		t.Fatalf("evaluating #a = :x with a cyclic alias killed the process: %v\n%s", err, out)
	}
}
