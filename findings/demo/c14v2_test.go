package verifdemo

import (
	"context"
	"testing"

	"github.com/aws/aws-sdk-go-v2/aws"
	"github.com/aws/aws-sdk-go-v2/service/dynamodb"
	v2types "github.com/aws/aws-sdk-go-v2/service/dynamodb/types"
	v2 "github.com/truora/minidyn/aws-v2/client"
)

// C14: v2 input and output structures share no memory with the stored item.
func TestC14V2StoredItemIsolatedFromCallerMemory(t *testing.T) {
	ctx := context.Background()
	c := v2.NewClient()
	if err := v2.AddTable(ctx, c, "tbl", "h", ""); err != nil {
		t.Fatal(err)
	}
	bin := []byte("bytes")
	flag := &v2types.AttributeValueMemberBOOL{Value: true}
	bs := [][]byte{[]byte("one")}
	in := map[string]v2types.AttributeValue{"h": &v2types.AttributeValueMemberS{Value: "a"},
		"b": &v2types.AttributeValueMemberB{Value: bin}, "flag": flag, "bs": &v2types.AttributeValueMemberBS{Value: bs}}
	if _, err := c.PutItem(ctx, &dynamodb.PutItemInput{TableName: aws.String("tbl"), Item: in}); err != nil {
		t.Fatal(err)
	}
	bin[0] = 'X'
	flag.Value = false
	bs[0][0] = 'X'
	key := map[string]v2types.AttributeValue{"h": &v2types.AttributeValueMemberS{Value: "a"}}
	out, _ := c.GetItem(ctx, &dynamodb.GetItemInput{TableName: aws.String("tbl"), Key: key})
	if string(out.Item["b"].(*v2types.AttributeValueMemberB).Value) != "bytes" ||
		!out.Item["flag"].(*v2types.AttributeValueMemberBOOL).Value ||
		string(out.Item["bs"].(*v2types.AttributeValueMemberBS).Value[0]) != "one" {
		t.Fatalf("stored item changed through caller-owned input memory")
	}
	out.Item["b"].(*v2types.AttributeValueMemberB).Value[0] = 'Y'
	out.Item["bs"].(*v2types.AttributeValueMemberBS).Value[0][0] = 'Y'
	out2, _ := c.GetItem(ctx, &dynamodb.GetItemInput{TableName: aws.String("tbl"), Key: key})
	if string(out2.Item["b"].(*v2types.AttributeValueMemberB).Value) != "bytes" ||
		string(out2.Item["bs"].(*v2types.AttributeValueMemberBS).Value[0]) != "one" {
		t.Fatalf("stored item changed through a returned structure")
	}
}
