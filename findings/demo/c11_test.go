//go:build race

package verifdemo

import (
	"context"
	"fmt"
	"sync"
	"testing"

	"github.com/aws/aws-sdk-go-v2/aws"
	"github.com/aws/aws-sdk-go-v2/service/dynamodb"
	v2types "github.com/aws/aws-sdk-go-v2/service/dynamodb/types"
	v2 "github.com/truora/minidyn/aws-v2/client"
	"github.com/truora/minidyn/interpreter"
)

// C11 (run with -race): table management, helpers and batch calls are safe to
// use concurrently with data operations on one client.
func TestC11ManagementMethodsAreLocked(t *testing.T) {
	ctx := context.Background()
	c := v2.NewClient()
	if err := v2.AddTable(ctx, c, "base", "h", ""); err != nil {
		t.Fatal(err)
	}
	var wg sync.WaitGroup
	for g := 0; g < 4; g++ {
		wg.Add(2)
		go func(g int) {
			defer wg.Done()
			for i := 0; i < 50; i++ {
				name := fmt.Sprintf("t%d_%d", g, i)
				_ = v2.AddTable(ctx, c, name, "h", "")
				_, _ = c.DescribeTable(ctx, &dynamodb.DescribeTableInput{TableName: aws.String("base")})
				_ = v2.AddIndex(ctx, c, name, "idx", "g", "")
				_ = v2.ClearTable(c, name)
				_, _ = c.DeleteTable(ctx, &dynamodb.DeleteTableInput{TableName: aws.String(name)})
				c.SetInterpreter(interpreter.NewNativeInterpreter())
				_ = c.GetNativeInterpreter()
				_, _ = c.TransactWriteItems(ctx, &dynamodb.TransactWriteItemsInput{})
			}
		}(g)
		go func(g int) {
			defer wg.Done()
			for i := 0; i < 50; i++ {
				item := map[string]v2types.AttributeValue{"h": &v2types.AttributeValueMemberS{Value: fmt.Sprint(g, i)}}
				_, _ = c.PutItem(ctx, &dynamodb.PutItemInput{TableName: aws.String("base"), Item: item})
				_, _ = c.BatchWriteItem(ctx, &dynamodb.BatchWriteItemInput{RequestItems: map[string][]v2types.WriteRequest{"base": {{PutRequest: &v2types.PutRequest{Item: item}}}}})
				_, _ = c.BatchGetItem(ctx, &dynamodb.BatchGetItemInput{RequestItems: map[string]v2types.KeysAndAttributes{"base": {Keys: []map[string]v2types.AttributeValue{item}}}})
				v2.EmulateFailure(c, v2.FailureConditionNone)
				_, _ = c.Scan(ctx, &dynamodb.ScanInput{TableName: aws.String("base")})
			}
		}(g)
	}
	wg.Wait()
}
