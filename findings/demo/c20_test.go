package verifdemo

import (
	"testing"

	"github.com/truora/minidyn/interpreter"
	"github.com/truora/minidyn/types"
)

// C20: a registration fires for exactly the expression text it was registered
// under, up to surrounding and repeated whitespace; never for an anagram.
func TestC20NativeDispatchExactUpToWhitespace(t *testing.T) {
	n := interpreter.NewNativeInterpreter()
	n.AddMatcher("tbl", interpreter.ExpressionTypeFilter, "ab = :x", func(_, _ map[string]*types.Item) bool { return true })

	in := interpreter.MatchInput{TableName: "tbl", ExpressionType: interpreter.ExpressionTypeFilter}

	in.Expression = "ba = :x"
	if _, err := n.Match(in); err == nil {
		t.Errorf("matcher registered for %q fired for the anagram %q", "ab = :x", in.Expression)
	}

	in.Expression = "  ab  =\t:x\n"
	if _, err := n.Match(in); err != nil {
		t.Errorf("matcher registered for %q did not fire for %q: %v", "ab = :x", in.Expression, err)
	}

	in.Expression = "a b = :x"
	if _, err := n.Match(in); err == nil {
		t.Errorf("matcher registered for %q fired for %q", "ab = :x", in.Expression)
	}
}

// C20: a registration never fires for a different table, whatever the table names
// and expression texts contain (here the old separator of the registration key).
func TestC20NativeDispatchKeepsTablesApart(t *testing.T) {
	n := interpreter.NewNativeInterpreter()
	n.AddMatcher("tab|x", interpreter.ExpressionTypeFilter, "y", func(_, _ map[string]*types.Item) bool { return true })
	n.AddUpdater("tab|x", "y", func(_, _ map[string]*types.Item) {})

	if _, err := n.Match(interpreter.MatchInput{TableName: "tab", ExpressionType: interpreter.ExpressionTypeFilter, Expression: "x|y"}); err == nil {
		t.Errorf("matcher registered for table %q and %q fired for table %q and %q", "tab|x", "y", "tab", "x|y")
	}
	if err := n.Update(interpreter.UpdateInput{TableName: "tab", Expression: "x|y", Item: map[string]*types.Item{}}); err == nil {
		t.Errorf("updater registered for table %q and %q ran for table %q and %q", "tab|x", "y", "tab", "x|y")
	}
	if _, err := n.Match(interpreter.MatchInput{TableName: "tab|x", ExpressionType: interpreter.ExpressionTypeFilter, Expression: " y "}); err != nil {
		t.Errorf("the registered matcher did not fire: %v", err)
	}
}
