package verifdemo

import (
	"testing"

	"github.com/truora/minidyn/interpreter"
	"github.com/truora/minidyn/types"
)

// C20: a registration fires for exactly the expression text it was registered
// under, up to surrounding and repeated whitespace; never for an anagram.
func TestC20NativeDispatchExactUpToWhitespace(t *testing.T) {
	n := interpreter.NewNativeInterpreter()
	n.AddMatcher("tbl", interpreter.ExpressionTypeFilter, "ab = :x", func(_, _ map[string]*types.Item) bool { return true })

	in := interpreter.MatchInput{TableName: "tbl", ExpressionType: interpreter.ExpressionTypeFilter}

	in.Expression = "ba = :x"
	if _, err := n.Match(in); err == nil {
		t.Errorf("matcher registered for %q fired for the anagram %q", "ab = :x", in.Expression)
	}

	in.Expression = "  ab  =\t:x\n"
	if _, err := n.Match(in); err != nil {
		t.Errorf("matcher registered for %q did not fire for %q: %v", "ab = :x", in.Expression, err)
	}

	in.Expression = "a b = :x"
	if _, err := n.Match(in); err == nil {
		t.Errorf("matcher registered for %q fired for %q", "ab = :x", in.Expression)
	}
}
