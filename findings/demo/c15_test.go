package verifdemo

import (
	"context"
	"testing"

	"github.com/aws/aws-sdk-go-v2/service/dynamodb"
	v2types "github.com/aws/aws-sdk-go-v2/service/dynamodb/types"
	v2 "github.com/truora/minidyn/aws-v2/client"
)

// C15: v2 BatchWriteItem under emulated internal-server failure must report
// every request it did not apply as unprocessed (as the v1 client does).
func TestC15V2BatchWriteUnderFailureReportsUnprocessed(t *testing.T) {
	ctx := context.Background()
	c := v2.NewClient()
	if err := v2.AddTable(ctx, c, "tbl", "h", ""); err != nil {
		t.Fatal(err)
	}
	v2.EmulateFailure(c, v2.FailureConditionInternalServerError)
	out, err := c.BatchWriteItem(ctx, &dynamodb.BatchWriteItemInput{RequestItems: map[string][]v2types.WriteRequest{
		"tbl": {{PutRequest: &v2types.PutRequest{Item: map[string]v2types.AttributeValue{"h": &v2types.AttributeValueMemberS{Value: "a"}}}}},
	}})
	if err != nil {
		t.Fatalf("BatchWriteItem returned error %v instead of reporting the request as unprocessed", err)
	}
	if len(out.UnprocessedItems["tbl"]) != 1 {
		t.Fatalf("unprocessed = %v", out.UnprocessedItems)
	}
}

// C15: TransactWriteItems under an emulated failure returns the configured error.
func TestC15TransactReturnsConfiguredError(t *testing.T) {
	ctx := context.Background()
	c := v2.NewClient()
	v2.EmulateFailure(c, v2.FailureConditionInternalServerError)
	_, err := c.TransactWriteItems(ctx, &dynamodb.TransactWriteItemsInput{})
	var ise *v2types.InternalServerError
	if err == nil || !asISE(err, &ise) {
		t.Fatalf("TransactWriteItems under internal_server returned %v", err)
	}
}
