package verifdemo

import (
	"testing"

	"github.com/aws/aws-sdk-go/aws"
	"github.com/aws/aws-sdk-go/service/dynamodb"
	v1 "github.com/truora/minidyn/aws-v1/client"
)

// C14/C18: a BOOL returned after an UpdateItem pointed at the evaluator's
// package-level TRUE object; writing through it broke AND/OR in every client.
func TestC14BoolPointerDoesNotAliasEvaluatorSingleton(t *testing.T) {
	c := v1.NewClient()
	if err := v1.AddTable(c, "tbl", "h", ""); err != nil {
		t.Fatal(err)
	}
	key := map[string]*dynamodb.AttributeValue{"h": {S: aws.String("a")}}
	_, err := c.PutItem(&dynamodb.PutItemInput{TableName: aws.String("tbl"), Item: map[string]*dynamodb.AttributeValue{
		"h": {S: aws.String("a")}, "flag": {BOOL: aws.Bool(true)}, "nul": {NULL: aws.Bool(true)}}})
	if err != nil {
		t.Fatal(err)
	}
	_, err = c.UpdateItem(&dynamodb.UpdateItemInput{TableName: aws.String("tbl"), Key: key,
		UpdateExpression: aws.String("SET x = :x"), ExpressionAttributeValues: map[string]*dynamodb.AttributeValue{":x": {S: aws.String("1")}}})
	if err != nil {
		t.Fatal(err)
	}
	out, err := c.GetItem(&dynamodb.GetItemInput{TableName: aws.String("tbl"), Key: key})
	if err != nil {
		t.Fatal(err)
	}
	// the caller scribbles over what it was handed
	*out.Item["flag"].BOOL = false
	*out.Item["nul"].NULL = false

	// an unrelated client in the same process
	c2 := v1.NewClient()
	if err := v1.AddTable(c2, "other", "h", ""); err != nil {
		t.Fatal(err)
	}
	_, err = c2.PutItem(&dynamodb.PutItemInput{TableName: aws.String("other"), Item: map[string]*dynamodb.AttributeValue{"h": {S: aws.String("z")}},
		ConditionExpression: aws.String("attribute_not_exists(q) AND attribute_not_exists(r)")})
	if err != nil {
		t.Fatalf("true AND true evaluated to false in another client: %v", err)
	}
	again, _ := c.GetItem(&dynamodb.GetItemInput{TableName: aws.String("tbl"), Key: key})
	if !*again.Item["flag"].BOOL {
		t.Fatalf("stored BOOL changed by a write through a returned pointer")
	}
}

// C14: v1 input and output structures share no memory with the stored item.
func TestC14V1StoredItemIsolatedFromCallerMemory(t *testing.T) {
	c := v1.NewClient()
	if err := v1.AddTable(c, "tbl", "h", ""); err != nil {
		t.Fatal(err)
	}
	s := aws.String("orig")
	bin := []byte("bytes")
	in := map[string]*dynamodb.AttributeValue{"h": {S: aws.String("a")}, "s": {S: s}, "b": {B: bin},
		"l": {L: []*dynamodb.AttributeValue{{N: aws.String("1")}}}, "ss": {SS: []*string{aws.String("x")}}}
	if _, err := c.PutItem(&dynamodb.PutItemInput{TableName: aws.String("tbl"), Item: in}); err != nil {
		t.Fatal(err)
	}
	*s = "poked"
	bin[0] = 'X'
	*in["l"].L[0].N = "99"
	*in["ss"].SS[0] = "y"
	key := map[string]*dynamodb.AttributeValue{"h": {S: aws.String("a")}}
	out, _ := c.GetItem(&dynamodb.GetItemInput{TableName: aws.String("tbl"), Key: key})
	if *out.Item["s"].S != "orig" || string(out.Item["b"].B) != "bytes" || *out.Item["l"].L[0].N != "1" || *out.Item["ss"].SS[0] != "x" {
		t.Fatalf("stored item changed through caller-owned input memory: %v", out.Item)
	}
	*out.Item["s"].S = "poked2"
	out.Item["b"].B[0] = 'Y'
	out2, _ := c.GetItem(&dynamodb.GetItemInput{TableName: aws.String("tbl"), Key: key})
	if *out2.Item["s"].S != "orig" || string(out2.Item["b"].B) != "bytes" {
		t.Fatalf("stored item changed through a returned structure: %v", out2.Item)
	}
}

// C14: table metadata handed to the v1 CreateTable / UpdateTable (billing mode, index projection) is not
// shared with the caller: changing the caller's strings afterwards, or a DescribeTable result, changes nothing.
func TestC14V1TableMetadataIsolated(t *testing.T) {
	c := v1.NewClient()
	billing := "PAY_PER_REQUEST"
	ptype := "INCLUDE"
	nonKey := "extra"
	in := &dynamodb.CreateTableInput{
		TableName:   aws.String("tbl"),
		BillingMode: &billing,
		AttributeDefinitions: []*dynamodb.AttributeDefinition{
			{AttributeName: aws.String("h"), AttributeType: aws.String("S")},
			{AttributeName: aws.String("g"), AttributeType: aws.String("S")},
		},
		KeySchema: []*dynamodb.KeySchemaElement{{AttributeName: aws.String("h"), KeyType: aws.String("HASH")}},
		GlobalSecondaryIndexes: []*dynamodb.GlobalSecondaryIndex{{
			IndexName:  aws.String("idx"),
			KeySchema:  []*dynamodb.KeySchemaElement{{AttributeName: aws.String("g"), KeyType: aws.String("HASH")}},
			Projection: &dynamodb.Projection{ProjectionType: &ptype, NonKeyAttributes: []*string{&nonKey}},
		}},
	}
	if _, err := c.CreateTable(in); err != nil {
		t.Fatal(err)
	}
	// the caller reuses its strings
	billing = "PROVISIONED"
	ptype = "ALL"
	nonKey = "changed"
	d, err := c.DescribeTable(&dynamodb.DescribeTableInput{TableName: aws.String("tbl")})
	if err != nil {
		t.Fatal(err)
	}
	p := d.Table.GlobalSecondaryIndexes[0].Projection
	if *p.ProjectionType != "INCLUDE" || len(p.NonKeyAttributes) != 1 || *p.NonKeyAttributes[0] != "extra" {
		t.Errorf("projection after the caller changed its own strings: %s %v", *p.ProjectionType, *p.NonKeyAttributes[0])
	}
	// a pay-per-request table accepts a new index without throughput
	_, err = c.UpdateTable(&dynamodb.UpdateTableInput{TableName: aws.String("tbl"),
		AttributeDefinitions: []*dynamodb.AttributeDefinition{{AttributeName: aws.String("k"), AttributeType: aws.String("S")}},
		GlobalSecondaryIndexUpdates: []*dynamodb.GlobalSecondaryIndexUpdate{{Create: &dynamodb.CreateGlobalSecondaryIndexAction{
			IndexName:  aws.String("idx2"),
			KeySchema:  []*dynamodb.KeySchemaElement{{AttributeName: aws.String("k"), KeyType: aws.String("HASH")}},
			Projection: &dynamodb.Projection{ProjectionType: aws.String("ALL")},
		}}}})
	if err != nil {
		t.Errorf("billing mode changed behind the table's back: %v", err)
	}
	// writing into a DescribeTable result does not reach the table
	*p.ProjectionType = "KEYS_ONLY"
	*p.NonKeyAttributes[0] = "poked"
	d2, _ := c.DescribeTable(&dynamodb.DescribeTableInput{TableName: aws.String("tbl")})
	for _, g := range d2.Table.GlobalSecondaryIndexes {
		if *g.IndexName == "idx" && (*g.Projection.ProjectionType != "INCLUDE" || *g.Projection.NonKeyAttributes[0] != "extra") {
			t.Errorf("projection after a DescribeTable result was written to: %s %v", *g.Projection.ProjectionType, *g.Projection.NonKeyAttributes[0])
		}
	}
}
