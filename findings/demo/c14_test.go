package verifdemo

import (
	"testing"

	"github.com/aws/aws-sdk-go/aws"
	"github.com/aws/aws-sdk-go/service/dynamodb"
	v1 "github.com/truora/minidyn/aws-v1/client"
)

// C14/C18: a BOOL returned after an UpdateItem pointed at the evaluator's
// package-level TRUE object; writing through it broke AND/OR in every client.
func TestC14BoolPointerDoesNotAliasEvaluatorSingleton(t *testing.T) {
	c := v1.NewClient()
	if err := v1.AddTable(c, "tbl", "h", ""); err != nil {
		t.Fatal(err)
	}
	key := map[string]*dynamodb.AttributeValue{"h": {S: aws.String("a")}}
	_, err := c.PutItem(&dynamodb.PutItemInput{TableName: aws.String("tbl"), Item: map[string]*dynamodb.AttributeValue{
		"h": {S: aws.String("a")}, "flag": {BOOL: aws.Bool(true)}, "nul": {NULL: aws.Bool(true)}}})
	if err != nil {
		t.Fatal(err)
	}
	_, err = c.UpdateItem(&dynamodb.UpdateItemInput{TableName: aws.String("tbl"), Key: key,
		UpdateExpression: aws.String("SET x = :x"), ExpressionAttributeValues: map[string]*dynamodb.AttributeValue{":x": {S: aws.String("1")}}})
	if err != nil {
		t.Fatal(err)
	}
	out, err := c.GetItem(&dynamodb.GetItemInput{TableName: aws.String("tbl"), Key: key})
	if err != nil {
		t.Fatal(err)
	}
	// the caller scribbles over what it was handed
	*out.Item["flag"].BOOL = false
	*out.Item["nul"].NULL = false

	// an unrelated client in the same process
	c2 := v1.NewClient()
	if err := v1.AddTable(c2, "other", "h", ""); err != nil {
		t.Fatal(err)
	}
	_, err = c2.PutItem(&dynamodb.PutItemInput{TableName: aws.String("other"), Item: map[string]*dynamodb.AttributeValue{"h": {S: aws.String("z")}},
		ConditionExpression: aws.String("attribute_not_exists(q) AND attribute_not_exists(r)")})
	if err != nil {
		t.Fatalf("true AND true evaluated to false in another client: %v", err)
	}
	again, _ := c.GetItem(&dynamodb.GetItemInput{TableName: aws.String("tbl"), Key: key})
	if !*again.Item["flag"].BOOL {
		t.Fatalf("stored BOOL changed by a write through a returned pointer")
	}
}

// C14: v1 input and output structures share no memory with the stored item.
func TestC14V1StoredItemIsolatedFromCallerMemory(t *testing.T) {
	c := v1.NewClient()
	if err := v1.AddTable(c, "tbl", "h", ""); err != nil {
		t.Fatal(err)
	}
	s := aws.String("orig")
	bin := []byte("bytes")
	in := map[string]*dynamodb.AttributeValue{"h": {S: aws.String("a")}, "s": {S: s}, "b": {B: bin},
		"l": {L: []*dynamodb.AttributeValue{{N: aws.String("1")}}}, "ss": {SS: []*string{aws.String("x")}}}
	if _, err := c.PutItem(&dynamodb.PutItemInput{TableName: aws.String("tbl"), Item: in}); err != nil {
		t.Fatal(err)
	}
	*s = "poked"
	bin[0] = 'X'
	*in["l"].L[0].N = "99"
	*in["ss"].SS[0] = "y"
	key := map[string]*dynamodb.AttributeValue{"h": {S: aws.String("a")}}
	out, _ := c.GetItem(&dynamodb.GetItemInput{TableName: aws.String("tbl"), Key: key})
	if *out.Item["s"].S != "orig" || string(out.Item["b"].B) != "bytes" || *out.Item["l"].L[0].N != "1" || *out.Item["ss"].SS[0] != "x" {
		t.Fatalf("stored item changed through caller-owned input memory: %v", out.Item)
	}
	*out.Item["s"].S = "poked2"
	out.Item["b"].B[0] = 'Y'
	out2, _ := c.GetItem(&dynamodb.GetItemInput{TableName: aws.String("tbl"), Key: key})
	if *out2.Item["s"].S != "orig" || string(out2.Item["b"].B) != "bytes" {
		t.Fatalf("stored item changed through a returned structure: %v", out2.Item)
	}
}
