package verifdemo

import (
	"context"
	"errors"
	"sort"
	"strings"
	"testing"

	"github.com/aws/aws-sdk-go-v2/aws"
	"github.com/aws/aws-sdk-go-v2/service/dynamodb"
	v2types "github.com/aws/aws-sdk-go-v2/service/dynamodb/types"
	v2 "github.com/truora/minidyn/aws-v2/client"
)

type av = map[string]v2types.AttributeValue

func S(v string) v2types.AttributeValue { return &v2types.AttributeValueMemberS{Value: v} }
func N(v string) v2types.AttributeValue { return &v2types.AttributeValueMemberN{Value: v} }

func newTbl(t *testing.T, rangeKey string, gsi ...string) *v2.Client {
	t.Helper()
	ctx := context.Background()
	c := v2.NewClient()
	if err := v2.AddTable(ctx, c, "tbl", "h", rangeKey); err != nil {
		t.Fatal(err)
	}
	for _, g := range gsi {
		if err := v2.AddIndex(ctx, c, "tbl", "idx_"+g, g, ""); err != nil {
			t.Fatal(err)
		}
	}
	return c
}

func put(t *testing.T, c *v2.Client, item av) error {
	t.Helper()
	_, err := c.PutItem(context.Background(), &dynamodb.PutItemInput{TableName: aws.String("tbl"), Item: item})
	return err
}

func scanIdx(t *testing.T, c *v2.Client, idx string) []string {
	t.Helper()
	in := &dynamodb.ScanInput{TableName: aws.String("tbl")}
	if idx != "" {
		in.IndexName = aws.String(idx)
	}
	out, err := c.Scan(context.Background(), in)
	if err != nil {
		t.Fatal(err)
	}
	res := []string{}
	for _, it := range out.Items {
		res = append(res, render(it))
	}
	sort.Strings(res)
	return res
}

func render(it av) string {
	keys := []string{}
	for k := range it {
		keys = append(keys, k)
	}
	sort.Strings(keys)
	parts := []string{}
	for _, k := range keys {
		switch v := it[k].(type) {
		case *v2types.AttributeValueMemberS:
			parts = append(parts, k+"="+v.Value)
		case *v2types.AttributeValueMemberN:
			parts = append(parts, k+"=#"+v.Value)
		default:
			parts = append(parts, k+"=?")
		}
	}
	return strings.Join(parts, ",")
}

func idxCount(t *testing.T, c *v2.Client, idx string) int64 {
	out, err := c.DescribeTable(context.Background(), &dynamodb.DescribeTableInput{TableName: aws.String("tbl")})
	if err != nil {
		t.Fatal(err)
	}
	for _, g := range out.Table.GlobalSecondaryIndexes {
		if *g.IndexName == idx {
			return *g.ItemCount
		}
	}
	t.Fatalf("index %s not described", idx)
	return -1
}

func eq(a, b []string) bool { return strings.Join(a, "|") == strings.Join(b, "|") }

// C03: PutItem overwriting an item with a different index key.
func TestC03PutOverwriteChangesIndexKey(t *testing.T) {
	c := newTbl(t, "", "g")
	put(t, c, av{"h": S("1"), "g": S("x")})
	put(t, c, av{"h": S("2"), "g": S("y")})
	put(t, c, av{"h": S("1"), "g": S("z")})
	want := []string{"g=y,h=2", "g=z,h=1"}
	if got := scanIdx(t, c, "idx_g"); !eq(got, want) {
		t.Fatalf("index scan = %v, want %v", got, want)
	}
}

// C03: PutItem overwriting with the index key dropped.
func TestC03PutOverwriteDropsIndexKey(t *testing.T) {
	c := newTbl(t, "", "g")
	put(t, c, av{"h": S("1"), "g": S("x")})
	put(t, c, av{"h": S("2"), "g": S("y")})
	put(t, c, av{"h": S("2")})
	want := []string{"g=x,h=1"}
	if got := scanIdx(t, c, "idx_g"); !eq(got, want) {
		t.Fatalf("index scan = %v, want %v", got, want)
	}
	if n := idxCount(t, c, "idx_g"); n != 1 {
		t.Fatalf("index ItemCount = %d, want 1", n)
	}
}

func update(c *v2.Client, key av, expr string, vals av) error {
	_, err := c.UpdateItem(context.Background(), &dynamodb.UpdateItemInput{TableName: aws.String("tbl"), Key: key, UpdateExpression: aws.String(expr), ExpressionAttributeValues: vals})
	return err
}

// C03: UpdateItem removing / first setting an index key attribute.
func TestC03UpdateRemovesAndAddsIndexKey(t *testing.T) {
	c := newTbl(t, "", "g")
	put(t, c, av{"h": S("1"), "g": S("x")})
	put(t, c, av{"h": S("2"), "g": S("y")})
	if err := update(c, av{"h": S("1")}, "REMOVE g", nil); err != nil {
		t.Fatal(err)
	}
	if got, want := scanIdx(t, c, "idx_g"), []string{"g=y,h=2"}; !eq(got, want) {
		t.Fatalf("after REMOVE g: index scan = %v, want %v", got, want)
	}
	put(t, c, av{"h": S("3")})
	if err := update(c, av{"h": S("3")}, "SET g = :g", av{":g": S("a")}); err != nil {
		t.Fatal(err)
	}
	if got, want := scanIdx(t, c, "idx_g"), []string{"g=a,h=3", "g=y,h=2"}; !eq(got, want) {
		t.Fatalf("after SET g on an item without index key: index scan = %v, want %v", got, want)
	}
}

// C03: an index created after the data exists contains the existing items.
func TestC03IndexCreatedAfterDataIsBackfilled(t *testing.T) {
	c := newTbl(t, "")
	put(t, c, av{"h": S("1"), "g": S("x")})
	put(t, c, av{"h": S("2")})
	if err := v2.AddIndex(context.Background(), c, "tbl", "idx_g", "g", ""); err != nil {
		t.Fatal(err)
	}
	if got, want := scanIdx(t, c, "idx_g"), []string{"g=x,h=1"}; !eq(got, want) {
		t.Fatalf("index scan = %v, want %v", got, want)
	}
}

// C08: a PutItem rejected for an ill-typed index key leaves no trace.
func TestC08FailedPutLeavesNoTrace(t *testing.T) {
	c := newTbl(t, "", "g")
	err := put(t, c, av{"h": S("1"), "g": N("5")})
	if err == nil {
		t.Fatal("put with N-typed value for the S-typed index key succeeded")
	}
	if got := scanIdx(t, c, ""); len(got) != 0 {
		t.Fatalf("rejected PutItem left the item in the table: %v", got)
	}
	put(t, c, av{"h": S("2"), "g": S("y")})
	if err := update(c, av{"h": S("2")}, "SET g = :n, z = :n", av{":n": N("5")}); err == nil {
		t.Fatal("update giving the S-typed index key an N value succeeded")
	}
	if got, want := scanIdx(t, c, ""), []string{"g=y,h=2"}; !eq(got, want) {
		t.Fatalf("rejected UpdateItem changed the table: %v, want %v", got, want)
	}
}

// C13: distinct keys never collide.
func TestC13DistinctKeysDoNotCollide(t *testing.T) {
	c := newTbl(t, "r")
	put(t, c, av{"h": S("a.b"), "r": S("c"), "v": S("first")})
	put(t, c, av{"h": S("a"), "r": S("b.c"), "v": S("second")})
	if got := scanIdx(t, c, ""); len(got) != 2 {
		t.Fatalf("two distinct keys, table holds %v", got)
	}
	out, _ := c.GetItem(context.Background(), &dynamodb.GetItemInput{TableName: aws.String("tbl"), Key: av{"h": S("a.b"), "r": S("c")}})
	if render(out.Item) != "h=a.b,r=c,v=first" {
		t.Fatalf("GetItem(a.b, c) = %s", render(out.Item))
	}
}

// C05: a conditional DeleteItem is decided on the target item only.
func TestC05ConditionalDeleteLooksAtTargetOnly(t *testing.T) {
	c := newTbl(t, "")
	put(t, c, av{"h": S("1"), "v": S("a")})
	put(t, c, av{"h": S("2"), "v": S("b")})
	_, err := c.DeleteItem(context.Background(), &dynamodb.DeleteItemInput{TableName: aws.String("tbl"), Key: av{"h": S("2")},
		ConditionExpression: aws.String("v = :a"), ExpressionAttributeValues: av{":a": S("a")}})
	var ccf *v2types.ConditionalCheckFailedException
	if !errors.As(err, &ccf) {
		t.Fatalf("delete h=2 if v = a: err = %v, want ConditionalCheckFailedException (only the bystander h=1 has v = a)", err)
	}
	if got := scanIdx(t, c, ""); len(got) != 2 {
		t.Fatalf("table after refused delete: %v", got)
	}
	c2 := newTbl(t, "")
	_, err = c2.DeleteItem(context.Background(), &dynamodb.DeleteItemInput{TableName: aws.String("tbl"), Key: av{"h": S("2")},
		ConditionExpression: aws.String("attribute_not_exists(h)")})
	if err != nil {
		t.Fatalf("delete of an absent item if attribute_not_exists(h) on an empty table: %v", err)
	}
}

// C04: resuming after the boundary item was deleted still returns the rest.
func TestC04ResumeAfterBoundaryDeleted(t *testing.T) {
	c := newTbl(t, "r")
	for _, r := range []string{"a", "b", "c", "d"} {
		put(t, c, av{"h": S("p"), "r": S(r)})
	}
	q := &dynamodb.QueryInput{TableName: aws.String("tbl"), KeyConditionExpression: aws.String("h = :h"), ExpressionAttributeValues: av{":h": S("p")}, Limit: aws.Int32(2)}
	p1, err := c.Query(context.Background(), q)
	if err != nil || len(p1.Items) != 2 || len(p1.LastEvaluatedKey) == 0 {
		t.Fatalf("page 1: %v %v", p1, err)
	}
	c.DeleteItem(context.Background(), &dynamodb.DeleteItemInput{TableName: aws.String("tbl"), Key: av{"h": S("p"), "r": S("b")}})
	q.ExclusiveStartKey = p1.LastEvaluatedKey
	rest := []string{}
	for i := 0; i < 5; i++ {
		p, err := c.Query(context.Background(), q)
		if err != nil {
			t.Fatal(err)
		}
		for _, it := range p.Items {
			rest = append(rest, render(it))
		}
		if len(p.LastEvaluatedKey) == 0 {
			break
		}
		q.ExclusiveStartKey = p.LastEvaluatedKey
	}
	if want := []string{"h=p,r=c", "h=p,r=d"}; !eq(rest, want) {
		t.Fatalf("after deleting the boundary item the remaining pages returned %v, want %v", rest, want)
	}
}
