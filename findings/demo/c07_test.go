package verifdemo

import (
	"testing"

	"github.com/truora/minidyn/interpreter"
	"github.com/truora/minidyn/types"
)

func s(v string) *types.Item { return &types.Item{S: types.ToString(v)} }
func n(v string) *types.Item { return &types.Item{N: types.ToString(v)} }

func upd(t *testing.T, item map[string]*types.Item, expr string, vals map[string]*types.Item) error {
	t.Helper()
	li := interpreter.Language{}
	return li.Update(interpreter.UpdateInput{TableName: "t", Expression: expr, Item: item, Attributes: vals})
}

// C07: REMOVE of a top-level attribute removes it.
func TestC07RemoveTopLevelAttribute(t *testing.T) {
	item := map[string]*types.Item{"h": s("k"), "a": s("x"), "b": s("y")}
	if err := upd(t, item, "REMOVE a", nil); err != nil {
		t.Fatal(err)
	}
	if _, ok := item["a"]; ok {
		t.Fatalf("REMOVE a left the attribute in the item: %v", item)
	}
	if _, ok := item["b"]; !ok {
		t.Fatalf("REMOVE a dropped b")
	}
}

// C07: DELETE on an absent attribute is a no-op (it must not create it).
func TestC07DeleteOnAbsentAttributeIsNoop(t *testing.T) {
	item := map[string]*types.Item{"h": s("k")}
	err := upd(t, item, "DELETE nosuch :ss", map[string]*types.Item{":ss": {SS: []*string{types.ToString("x")}}})
	if err != nil {
		t.Fatal(err)
	}
	if _, ok := item["nosuch"]; ok {
		t.Fatalf("DELETE on an absent attribute created it: %v", item["nosuch"])
	}
}

// C07/C12: attributes the update does not target keep exactly their prior value.
func TestC07UntargetedNumberKeepsItsValue(t *testing.T) {
	item := map[string]*types.Item{"h": s("k"), "big": n("9007199254740993"), "dec": n("1.10")}
	if err := upd(t, item, "SET a = :x", map[string]*types.Item{":x": s("v")}); err != nil {
		t.Fatal(err)
	}
	if got := types.StringValue(item["big"].N); got != "9007199254740993" {
		t.Fatalf("untargeted number changed from 9007199254740993 to %s", got)
	}
	if got := types.StringValue(item["dec"].N); got != "1.10" {
		t.Fatalf("untargeted number rewritten from 1.10 to %s", got)
	}
}

// C07: every right-hand side reads the pre-update item.
func TestC07RightHandSidesReadPreUpdateItem(t *testing.T) {
	item := map[string]*types.Item{"h": s("k"), "a": s("old")}
	if err := upd(t, item, "SET a = :y, c = a", map[string]*types.Item{":y": s("new")}); err != nil {
		t.Fatal(err)
	}
	if got := types.StringValue(item["c"].S); got != "old" {
		t.Fatalf("c = a read the already updated a: %q", got)
	}
}

// C07: removing something that is not there is a no-op, also below the top level.
func TestC07RemoveOfAbsentNestedPathIsNoop(t *testing.T) {
	item := map[string]*types.Item{"h": s("k"), "m": {M: map[string]*types.Item{"k": s("x")}}, "l": {L: []*types.Item{s("a")}}}
	for _, e := range []string{"REMOVE m.nokey.deeper", "REMOVE nosuch.k", "REMOVE l[5].k", "REMOVE m.nokey[0]"} {
		if err := upd(t, item, e, nil); err != nil {
			t.Errorf("%q: %v", e, err)
		}
	}
	if len(item) != 3 || len(item["m"].M) != 1 || len(item["l"].L) != 1 {
		t.Errorf("the item changed: %v", item)
	}
}

// C07: DELETE of the last elements of a set removes the attribute (sets are never empty).
func TestC07DeleteEmptiesSet(t *testing.T) {
	item := map[string]*types.Item{"h": s("k"), "ss": {SS: []*string{types.ToString("a")}}}
	if err := upd(t, item, "DELETE ss :v", map[string]*types.Item{":v": {SS: []*string{types.ToString("a")}}}); err != nil {
		t.Fatal(err)
	}
	if v, ok := item["ss"]; ok {
		t.Errorf("DELETE of the only element left an empty set behind: %#v", v.SS)
	}
}

// C07: a right-hand side that names an attribute keeps the pre-update value although a later action of
// the same expression changes that attribute in place (fix 7b05456).
func TestC07RightHandSideSnapshot(t *testing.T) {
	li := interpreter.Language{}
	one := "1"
	str := func(x string) *string { return &x }
	item := map[string]*types.Item{"a": {N: &one}, "l": {L: []*types.Item{s("p"), s("q")}}, "ss": {SS: []*string{str("u"), str("w")}}}
	err := li.Update(interpreter.UpdateInput{TableName: "t", Expression: "SET b = a, cp = l, l[0] = :v, x = ss ADD a :one DELETE ss :s", Item: item,
		Attributes: map[string]*types.Item{":one": {N: &one}, ":v": s("NEW"), ":s": {SS: []*string{str("u")}}}})
	if err != nil {
		t.Fatal(err)
	}
	if *item["b"].N != "1" {
		t.Errorf("b = %s, the value of a before the update is 1", *item["b"].N)
	}
	if *item["cp"].L[0].S != "p" {
		t.Errorf("cp[0] = %s, the list before the update starts with p", *item["cp"].L[0].S)
	}
	if len(item["x"].SS) != 2 {
		t.Errorf("x has %d members, the set before the update has 2", len(item["x"].SS))
	}
	if *item["a"].N != "2" || *item["l"].L[0].S != "NEW" || len(item["ss"].SS) != 1 {
		t.Errorf("the targeted attributes did not receive their values")
	}
}

// C06/C07: an attribute keeps its own name even when it looks like a placeholder of the request;
// placeholders only stand for names inside the expression.
func TestC07AttributeNamedLikePlaceholder(t *testing.T) {
	for i := 0; i < 30; i++ { // the old behaviour depended on map iteration order
		item := map[string]*types.Item{"id": s("1"), "#id": s("zzz")}
		li := interpreter.Language{}
		r, err := li.Match(interpreter.MatchInput{TableName: "t", Expression: "#id = :v", ExpressionType: interpreter.ExpressionTypeFilter,
			Item: item, Attributes: map[string]*types.Item{":v": s("1")}, Aliases: map[string]string{"#id": "id"}})
		if err != nil || !r {
			t.Fatalf("#id = :v with #id -> id on an item that also has an attribute named \"#id\": res=%v err=%v, want true", r, err)
		}
	}
	item := map[string]*types.Item{"h": s("k"), "c": s("old")}
	li := interpreter.Language{}
	err := li.Update(interpreter.UpdateInput{TableName: "t", Expression: "SET #a = :x", Item: item, Attributes: map[string]*types.Item{":x": s("v")},
		Aliases: map[string]string{"#a": "#b", "#b": "c"}})
	if err != nil {
		t.Fatal(err)
	}
	if item["c"] == nil || *item["c"].S != "old" || item["#b"] == nil || *item["#b"].S != "v" {
		t.Errorf("SET #a = :x with #a -> \"#b\" must write the attribute named \"#b\" and leave c alone: %v", item)
	}
}
