package verifdemo

import (
	"fmt"
	"strings"
	"context"
	"testing"

	"github.com/aws/aws-sdk-go-v2/service/dynamodb"
	v2types "github.com/aws/aws-sdk-go-v2/service/dynamodb/types"
	v2 "github.com/truora/minidyn/aws-v2/client"

	v1sdk "github.com/aws/aws-sdk-go/service/dynamodb"
	v1aws "github.com/aws/aws-sdk-go/aws"
	v1 "github.com/truora/minidyn/aws-v1/client"
	"github.com/truora/minidyn/interpreter"
	"github.com/truora/minidyn/types"
)

// C09: a clause keyword may appear only once in an update expression.
func TestC09UpdateClauseKeywordOnlyOnce(t *testing.T) {
	li := interpreter.Language{}
	for _, e := range []string{"SET a = :x SET b = :x", "REMOVE a REMOVE b", "SET a = :x REMOVE b SET c = :x"} {
		item := map[string]*types.Item{"h": s("k"), "a": s("1"), "b": s("2")}
		err := li.Update(interpreter.UpdateInput{TableName: "t", Expression: e, Item: item, Attributes: map[string]*types.Item{":x": s("v")}})
		if err == nil {
			t.Errorf("%q accepted", e)
		}
	}
}

// C17: v1 Query without a key condition does not crash; v1 DescribeTable reports index item counts.
func TestC17V1QueryAndDescribe(t *testing.T) {
	c := v1.NewClient()
	if err := v1.AddTable(c, "tbl", "h", ""); err != nil {
		t.Fatal(err)
	}
	if err := v1.AddIndex(c, "tbl", "idx", "g", ""); err != nil {
		t.Fatal(err)
	}
	c.PutItem(&v1sdk.PutItemInput{TableName: v1aws.String("tbl"), Item: map[string]*v1sdk.AttributeValue{"h": {S: v1aws.String("1")}, "g": {S: v1aws.String("x")}}})
	func() {
		defer func() {
			if r := recover(); r != nil {
				t.Errorf("v1 Query without KeyConditionExpression crashed: %v", r)
			}
		}()
		c.Query(&v1sdk.QueryInput{TableName: v1aws.String("tbl")})
	}()
	d, err := c.DescribeTable(&v1sdk.DescribeTableInput{TableName: v1aws.String("tbl")})
	if err != nil {
		t.Fatal(err)
	}
	if len(d.Table.GlobalSecondaryIndexes) != 1 || d.Table.GlobalSecondaryIndexes[0].ItemCount == nil || *d.Table.GlobalSecondaryIndexes[0].ItemCount != 1 {
		t.Errorf("v1 DescribeTable index ItemCount: %v", d.Table.GlobalSecondaryIndexes)
	}
}

// C09/C18: reading through an index the table does not have is a validation error, not a crash.
func TestUnknownIndexIsRejected(t *testing.T) {
	c := v1.NewClient()
	if err := v1.AddTable(c, "tbl", "h", ""); err != nil {
		t.Fatal(err)
	}
	func() {
		defer func() {
			if r := recover(); r != nil {
				t.Errorf("Scan with an unknown IndexName crashed: %v", r)
			}
		}()
		_, err := c.Scan(&v1sdk.ScanInput{TableName: v1aws.String("tbl"), IndexName: v1aws.String("nosuch")})
		if err == nil {
			t.Errorf("Scan with an unknown IndexName succeeded")
		}
	}()
}

// C18: DescribeTable reports every index under its own name.
func TestC18DescribeTableIndexNames(t *testing.T) {
	c := v1.NewClient()
	if err := v1.AddTable(c, "tbl", "h", ""); err != nil {
		t.Fatal(err)
	}
	for _, n := range []string{"idx_a", "idx_b", "idx_c"} {
		if err := v1.AddIndex(c, "tbl", n, "g", ""); err != nil {
			t.Fatal(err)
		}
	}
	d, err := c.DescribeTable(&v1sdk.DescribeTableInput{TableName: v1aws.String("tbl")})
	if err != nil {
		t.Fatal(err)
	}
	seen := map[string]bool{}
	for _, g := range d.Table.GlobalSecondaryIndexes {
		seen[*g.IndexName] = true
	}
	if len(seen) != 3 {
		t.Errorf("DescribeTable of a table with indexes idx_a, idx_b, idx_c reports the names %v", seen)
	}
}

// C04/C13: an empty primary key value is rejected; before the fix the item was stored under the key ""
// and a paginated read that stopped on it never ended (resuming from "" restarts the read).
func TestC13EmptyKeyValueRejected(t *testing.T) {
	ctx := context.Background()
	c := v2.NewClient()
	if err := v2.AddTable(ctx, c, "tbl", "h", ""); err != nil {
		t.Fatal(err)
	}
	tbl := "tbl"
	_, err := c.PutItem(ctx, &dynamodb.PutItemInput{TableName: &tbl, Item: map[string]v2types.AttributeValue{"h": &v2types.AttributeValueMemberS{Value: ""}}})
	if err == nil {
		t.Fatalf("PutItem with an empty hash key value was accepted")
	}
	for _, h := range []string{"a", "b"} {
		if _, err := c.PutItem(ctx, &dynamodb.PutItemInput{TableName: &tbl, Item: map[string]v2types.AttributeValue{"h": &v2types.AttributeValueMemberS{Value: h}}}); err != nil {
			t.Fatal(err)
		}
	}
	lim := int32(1)
	var esk map[string]v2types.AttributeValue
	pages := 0
	for {
		o, err := c.Scan(ctx, &dynamodb.ScanInput{TableName: &tbl, Limit: &lim, ExclusiveStartKey: esk})
		if err != nil {
			t.Fatal(err)
		}
		pages++
		if len(o.LastEvaluatedKey) == 0 {
			break
		}
		if pages > 10 {
			t.Fatalf("the paginated scan does not end")
		}
		esk = o.LastEvaluatedKey
	}
}

// C13: an ExclusiveStartKey is a key of a request too: lacking a key attribute, giving it another type, or lacking
// the index key on a read through an index is a validation error, not a silent restart from the beginning.
func TestC13MalformedStartKeyRejected(t *testing.T) {
	ctx := context.Background()
	c := v2.NewClient()
	if err := v2.AddTable(ctx, c, "tbl", "h", "r"); err != nil {
		t.Fatal(err)
	}
	if err := v2.AddIndex(ctx, c, "tbl", "idx", "g", ""); err != nil {
		t.Fatal(err)
	}
	tbl, idx := "tbl", "idx"
	S := func(v string) v2types.AttributeValue { return &v2types.AttributeValueMemberS{Value: v} }
	N := func(v string) v2types.AttributeValue { return &v2types.AttributeValueMemberN{Value: v} }
	for _, k := range []string{"1", "2", "3"} {
		if _, err := c.PutItem(ctx, &dynamodb.PutItemInput{TableName: &tbl, Item: map[string]v2types.AttributeValue{"h": S("a"), "r": S(k), "g": S("x")}}); err != nil {
			t.Fatal(err)
		}
	}
	bad := []map[string]v2types.AttributeValue{
		{"h": S("a")},               // range attribute missing
		{"h": S("a"), "r": N("1")},  // wrong type
		{"zz": S("a"), "r": S("1")}, // hash attribute missing
	}
	for _, sk := range bad {
		if _, err := c.Scan(ctx, &dynamodb.ScanInput{TableName: &tbl, ExclusiveStartKey: sk}); err == nil {
			t.Errorf("Scan accepted the ExclusiveStartKey %v", sk)
		}
	}
	// a read through the index needs the index key as well
	if _, err := c.Scan(ctx, &dynamodb.ScanInput{TableName: &tbl, IndexName: &idx, ExclusiveStartKey: map[string]v2types.AttributeValue{"h": S("a"), "r": S("1")}}); err == nil {
		t.Errorf("index Scan accepted an ExclusiveStartKey without the index key")
	}
	// well-formed keys still work, also when nothing is stored under them
	o, err := c.Scan(ctx, &dynamodb.ScanInput{TableName: &tbl, ExclusiveStartKey: map[string]v2types.AttributeValue{"h": S("a"), "r": S("15")}})
	if err != nil || len(o.Items) != 2 {
		t.Errorf("resume after the absent key (a, 15): err=%v, %d items, want 2", err, len(o.Items))
	}
	o, err = c.Scan(ctx, &dynamodb.ScanInput{TableName: &tbl, IndexName: &idx, ExclusiveStartKey: map[string]v2types.AttributeValue{"h": S("a"), "r": S("1"), "g": S("x")}})
	if err != nil || len(o.Items) != 2 {
		t.Errorf("index resume after (a, 1): err=%v, %d items, want 2", err, len(o.Items))
	}
}

// C13/C18: UpdateTable cannot give a key attribute that is in use another type (the AddIndex helper declares
// every index attribute as S; over a number-typed table key that used to re-type the primary key: the
// stored items were no longer reachable with their own keys and reachable with string keys).
func TestC13UpdateTableCannotRetypeKey(t *testing.T) {
	ctx := context.Background()
	c := v2.NewClient()
	tbl := "tbl"
	_, err := c.CreateTable(ctx, &dynamodb.CreateTableInput{TableName: &tbl, BillingMode: v2types.BillingModePayPerRequest,
		AttributeDefinitions: []v2types.AttributeDefinition{{AttributeName: &[]string{"h"}[0], AttributeType: v2types.ScalarAttributeTypeN}},
		KeySchema:            []v2types.KeySchemaElement{{AttributeName: &[]string{"h"}[0], KeyType: v2types.KeyTypeHash}}})
	if err != nil {
		t.Fatal(err)
	}
	N := func(v string) v2types.AttributeValue { return &v2types.AttributeValueMemberN{Value: v} }
	S := func(v string) v2types.AttributeValue { return &v2types.AttributeValueMemberS{Value: v} }
	if _, err := c.PutItem(ctx, &dynamodb.PutItemInput{TableName: &tbl, Item: map[string]v2types.AttributeValue{"h": N("1"), "g": S("x")}}); err != nil {
		t.Fatal(err)
	}
	if err := v2.AddIndex(ctx, c, tbl, "idx", "g", "h"); err == nil {
		t.Errorf("an index that declares the number-typed table key h as a string was accepted")
	}
	o, err := c.GetItem(ctx, &dynamodb.GetItemInput{TableName: &tbl, Key: map[string]v2types.AttributeValue{"h": N("1")}})
	if err != nil || len(o.Item) == 0 {
		t.Errorf("the item is no longer reachable with its own key: err=%v", err)
	}
	if o, err := c.GetItem(ctx, &dynamodb.GetItemInput{TableName: &tbl, Key: map[string]v2types.AttributeValue{"h": S("1")}}); err == nil && len(o.Item) > 0 {
		t.Errorf("the item is reachable with a string key")
	}
	// a new attribute can still be defined, and an unchanged definition of the key is accepted
	if err := v2.AddIndex(ctx, c, tbl, "idx2", "g", ""); err != nil {
		t.Errorf("a plain new index was rejected: %v", err)
	}
}

// C09/C17: an UpdateItem without UpdateExpression is answered with an error by both clients; the v2 client used to
// dereference the nil pointer (a runtime fault).
func TestC17UpdateItemWithoutExpression(t *testing.T) {
	ctx := context.Background()
	c := v2.NewClient()
	if err := v2.AddTable(ctx, c, "tbl", "h", ""); err != nil {
		t.Fatal(err)
	}
	tbl := "tbl"
	func() {
		defer func() {
			if r := recover(); r != nil {
				if _, ok := r.(error); !ok || strings.Contains(fmt.Sprint(r), "nil pointer") {
					t.Errorf("v2 UpdateItem without UpdateExpression crashed: %v", r)
				}
			}
		}()
		_, err := c.UpdateItem(ctx, &dynamodb.UpdateItemInput{TableName: &tbl, Key: map[string]v2types.AttributeValue{"h": &v2types.AttributeValueMemberS{Value: "a"}}})
		if err == nil {
			t.Errorf("v2 UpdateItem without UpdateExpression succeeded")
		}
	}()
}

// C08: an UpdateTable that fails leaves nothing behind. Before the fix the changes applied before the failing one stayed
// (an index created in the same request was there afterwards) and so did the attribute definitions of the request (a
// later index on such an attribute, sent without a definition, was accepted), through both clients.
func TestC08FailingUpdateTableLeavesNoTrace(t *testing.T) {
	ctx := context.Background()
	str := func(s string) *string { return &s }
	mk := func(name, attr string) v2types.GlobalSecondaryIndexUpdate {
		return v2types.GlobalSecondaryIndexUpdate{Create: &v2types.CreateGlobalSecondaryIndexAction{IndexName: str(name),
			KeySchema:  []v2types.KeySchemaElement{{AttributeName: str(attr), KeyType: v2types.KeyTypeHash}},
			Projection: &v2types.Projection{ProjectionType: v2types.ProjectionTypeAll}}}
	}
	c := v2.NewClient()
	tbl := "tbl"
	if _, err := c.CreateTable(ctx, &dynamodb.CreateTableInput{TableName: &tbl, BillingMode: v2types.BillingModePayPerRequest,
		AttributeDefinitions: []v2types.AttributeDefinition{{AttributeName: str("h"), AttributeType: v2types.ScalarAttributeTypeS}},
		KeySchema:            []v2types.KeySchemaElement{{AttributeName: str("h"), KeyType: v2types.KeyTypeHash}}}); err != nil {
		t.Fatal(err)
	}
	indexes := func() int {
		d, err := c.DescribeTable(ctx, &dynamodb.DescribeTableInput{TableName: &tbl})
		if err != nil {
			t.Fatal(err)
		}
		return len(d.Table.GlobalSecondaryIndexes)
	}
	// the second change fails: the index of the first one must not be there
	_, err := c.UpdateTable(ctx, &dynamodb.UpdateTableInput{TableName: &tbl,
		AttributeDefinitions: []v2types.AttributeDefinition{{AttributeName: str("g"), AttributeType: v2types.ScalarAttributeTypeS}},
		GlobalSecondaryIndexUpdates: []v2types.GlobalSecondaryIndexUpdate{mk("ix", "g"),
			{Delete: &v2types.DeleteGlobalSecondaryIndexAction{IndexName: str("nosuch")}}}})
	if err == nil {
		t.Fatal("deleting an index that does not exist succeeded")
	}
	if n := indexes(); n != 0 {
		t.Errorf("v2: the failed UpdateTable left %d index(es)", n)
	}
	// ... nor the definition of g
	if _, err := c.UpdateTable(ctx, &dynamodb.UpdateTableInput{TableName: &tbl, GlobalSecondaryIndexUpdates: []v2types.GlobalSecondaryIndexUpdate{mk("ix", "g")}}); err == nil {
		t.Errorf("v2: an index on g was accepted without a definition: the definition of the failed request stayed")
	}
	// a request that goes through still takes effect as a whole
	if _, err := c.UpdateTable(ctx, &dynamodb.UpdateTableInput{TableName: &tbl,
		AttributeDefinitions:        []v2types.AttributeDefinition{{AttributeName: str("g"), AttributeType: v2types.ScalarAttributeTypeS}},
		GlobalSecondaryIndexUpdates: []v2types.GlobalSecondaryIndexUpdate{mk("ix", "g")}}); err != nil || indexes() != 1 {
		t.Errorf("v2: a valid UpdateTable: err=%v indexes=%d", err, indexes())
	}

	// the v1 client
	c1 := v1.NewClient()
	if err := v1.AddTable(c1, "tbl", "h", ""); err != nil {
		t.Fatal(err)
	}
	_, err = c1.UpdateTable(&v1sdk.UpdateTableInput{TableName: v1aws.String("tbl"),
		AttributeDefinitions: []*v1sdk.AttributeDefinition{{AttributeName: v1aws.String("g"), AttributeType: v1aws.String("S")}},
		GlobalSecondaryIndexUpdates: []*v1sdk.GlobalSecondaryIndexUpdate{
			{Create: &v1sdk.CreateGlobalSecondaryIndexAction{IndexName: v1aws.String("index"), KeySchema: []*v1sdk.KeySchemaElement{{AttributeName: v1aws.String("g"), KeyType: v1aws.String("HASH")}},
				Projection: &v1sdk.Projection{ProjectionType: v1aws.String("ALL")}, ProvisionedThroughput: &v1sdk.ProvisionedThroughput{ReadCapacityUnits: v1aws.Int64(1), WriteCapacityUnits: v1aws.Int64(1)}}},
			{Delete: &v1sdk.DeleteGlobalSecondaryIndexAction{IndexName: v1aws.String("nosuchindex")}}}})
	if err == nil || !strings.Contains(err.Error(), "ResourceNotFound") {
		t.Fatalf("v1: deleting an index that does not exist: %v", err)
	}
	d, err := c1.DescribeTable(&v1sdk.DescribeTableInput{TableName: v1aws.String("tbl")})
	if err != nil {
		t.Fatal(err)
	}
	if n := len(d.Table.GlobalSecondaryIndexes); n != 0 {
		t.Errorf("v1: the failed UpdateTable left %d index(es)", n)
	}
}

// C16: a :value placeholder that the request does not supply is rejected (before the fix 'v <> :missing' was true and the
// conditional write went through, 'SET w = :nosuch' succeeded), through both clients.
func TestC16UnsuppliedValueRejected(t *testing.T) {
	ctx := context.Background()
	c := v2.NewClient()
	if err := v2.AddTable(ctx, c, "tbl", "h", ""); err != nil {
		t.Fatal(err)
	}
	S := func(v string) v2types.AttributeValue { return &v2types.AttributeValueMemberS{Value: v} }
	tbl := "tbl"
	if _, err := c.PutItem(ctx, &dynamodb.PutItemInput{TableName: &tbl, Item: map[string]v2types.AttributeValue{"h": S("a"), "v": S("1")}}); err != nil {
		t.Fatal(err)
	}
	rejected := func(what string, f func() error) {
		defer func() {
			if r := recover(); r != nil && !strings.Contains(fmt.Sprint(r), "not defined") {
				t.Errorf("%s: %v", what, r)
			}
		}()
		if err := f(); err == nil {
			t.Errorf("%s was accepted", what)
		}
	}
	cond := "v <> :missing"
	rejected("v2 PutItem with a condition that uses an unsupplied :missing", func() error {
		_, err := c.PutItem(ctx, &dynamodb.PutItemInput{TableName: &tbl, Item: map[string]v2types.AttributeValue{"h": S("a"), "v": S("2")}, ConditionExpression: &cond})
		return err
	})
	ue := "SET w = :nosuch"
	rejected("v2 UpdateItem that assigns an unsupplied :nosuch", func() error {
		_, err := c.UpdateItem(ctx, &dynamodb.UpdateItemInput{TableName: &tbl, Key: map[string]v2types.AttributeValue{"h": S("a")}, UpdateExpression: &ue})
		return err
	})
	o, err := c.GetItem(ctx, &dynamodb.GetItemInput{TableName: &tbl, Key: map[string]v2types.AttributeValue{"h": S("a")}})
	if err != nil || len(o.Item) != 2 {
		t.Errorf("the item changed: %v %v", o, err)
	}
	// a supplied value is still fine
	if _, err := c.PutItem(ctx, &dynamodb.PutItemInput{TableName: &tbl, Item: map[string]v2types.AttributeValue{"h": S("a"), "v": S("2")}, ConditionExpression: &cond,
		ExpressionAttributeValues: map[string]v2types.AttributeValue{":missing": S("x")}}); err != nil {
		t.Errorf("a supplied value was rejected: %v", err)
	}
	c1 := v1.NewClient()
	if err := v1.AddTable(c1, "tbl", "h", ""); err != nil {
		t.Fatal(err)
	}
	rejected("v1 UpdateItem that assigns an unsupplied :nosuch", func() error {
		_, err := c1.UpdateItem(&v1sdk.UpdateItemInput{TableName: v1aws.String("tbl"), Key: map[string]*v1sdk.AttributeValue{"h": {S: v1aws.String("a")}}, UpdateExpression: &ue})
		return err
	})
}
