package verifdemo

import (
	"errors"

	v2types "github.com/aws/aws-sdk-go-v2/service/dynamodb/types"
)

func asISE(err error, target **v2types.InternalServerError) bool { return errors.As(err, target) }
