package verifdemo

import (
	"errors"
	"fmt"
	"strings"
	"testing"

	"github.com/truora/minidyn/interpreter"
	"github.com/truora/minidyn/types"
)

func match(expr string, item, vals map[string]*types.Item, names map[string]string) (res bool, err error, crashed interface{}) {
	defer func() { crashed = recover() }()
	li := interpreter.Language{}
	res, err = li.Match(interpreter.MatchInput{TableName: "t", Expression: expr, ExpressionType: interpreter.ExpressionTypeFilter, Item: item, Attributes: vals, Aliases: names})
	return
}

var tru = true

func baseItem() map[string]*types.Item {
	return map[string]*types.Item{"num": n("5"), "str": s("x"), "nul": {NULL: &tru}, "l": {L: []*types.Item{s("a")}}}
}

// C06/C09: evaluation never crashes with a runtime fault.
func TestC09NoRuntimeFaults(t *testing.T) {
	vals := map[string]*types.Item{":s": s("5"), ":x": s("a"), ":n": n("7")}
	for _, e := range []string{"num = :s", "num < :s", "num <> :s", "l[5] = :x", "l[:n] = :x", "attribute_exists()", "begins_with(str)",
		"attribute_type(str)", "contains(str)", "size()", "attribute_not_exists()", "", "   "} {
		used := map[string]*types.Item{}
		for k, v := range vals {
			used[k] = v
		}
		_, err, crashed := match(e, baseItem(), used, nil)
		if crashed != nil {
			t.Errorf("%q crashed: %v", e, crashed)
		}
		_ = err
	}
	item := baseItem()
	func() {
		defer func() {
			if r := recover(); r != nil {
				t.Errorf("update crashed: %v", r)
			}
		}()
		li := interpreter.Language{}
		for _, e := range []string{"SET a = if_not_exists(zz)", "SET a = list_append(l)", "SET a = if_not_exists()", ""} {
			_ = li.Update(interpreter.UpdateInput{TableName: "t", Expression: e, Item: item, Attributes: map[string]*types.Item{}})
		}
	}()
}

// C06: equality is type-sensitive; a missing list element is a missing attribute.
func TestC06TypeSensitiveEquality(t *testing.T) {
	vals := map[string]*types.Item{":s": s("5")}
	if r, err, c := match("num = :s", baseItem(), vals, nil); c != nil || err != nil || r {
		t.Errorf("num = :s (N vs S): res=%v err=%v crash=%v, want false", r, err, c)
	}
	if r, err, c := match("num <> :s", baseItem(), vals, nil); c != nil || err != nil || !r {
		t.Errorf("num <> :s (N vs S): res=%v err=%v crash=%v, want true", r, err, c)
	}
	vx := map[string]*types.Item{":x": s("a")}
	if r, err, c := match("l[5] = :x", baseItem(), vx, nil); c != nil || err != nil || r {
		t.Errorf("l[5] = :x past the end: res=%v err=%v crash=%v, want false", r, err, c)
	}
	if r, err, c := match("attribute_not_exists(l[5])", baseItem(), nil, nil); c != nil || err != nil || !r {
		t.Errorf("attribute_not_exists(l[5]): res=%v err=%v crash=%v, want true", r, err, c)
	}
}

// C06: a NULL-typed attribute exists.
func TestC06NullAttributeExists(t *testing.T) {
	if r, err, c := match("attribute_exists(nul)", baseItem(), nil, nil); c != nil || err != nil || !r {
		t.Errorf("attribute_exists(nul) on a NULL attribute: res=%v err=%v crash=%v, want true", r, err, c)
	}
	if r, err, c := match("attribute_not_exists(nul)", baseItem(), nil, nil); c != nil || err != nil || r {
		t.Errorf("attribute_not_exists(nul) on a NULL attribute: res=%v err=%v crash=%v, want false", r, err, c)
	}
	if r, err, c := match("attribute_not_exists(nosuch)", baseItem(), nil, nil); c != nil || err != nil || !r {
		t.Errorf("attribute_not_exists(nosuch): res=%v err=%v crash=%v, want true", r, err, c)
	}
	if r, err, c := match("attribute_type(nosuch, :t)", baseItem(), map[string]*types.Item{":t": s("NULL")}, nil); c != nil || err != nil || r {
		t.Errorf("attribute_type(nosuch, NULL): res=%v err=%v crash=%v, want false", r, err, c)
	}
}

// C09: a string that is not a complete sentence is rejected, not partly evaluated.
func TestC09TrailingTokensRejected(t *testing.T) {
	vals := map[string]*types.Item{":x": s("nomatch"), ":y": s("x")}
	for _, e := range []string{"str = :x str = :y", "str = :x and str = :y", "str = :y )", "str = :y str"} {
		r, err, c := match(e, baseItem(), vals, nil)
		if c != nil {
			t.Errorf("%q crashed: %v", e, c)
			continue
		}
		if err == nil {
			t.Errorf("%q accepted (result %v); it is not a sentence of the grammar", e, r)
		} else if !errors.Is(err, interpreter.ErrSyntaxError) {
			t.Errorf("%q: unexpected error class %v", e, err)
		}
	}
}

var _ = fmt.Sprint

// C09: a NUL byte inside the expression is an unknown character, not the end of the input.
func TestC09EmbeddedNulIsRejected(t *testing.T) {
	vals := map[string]*types.Item{":y": s("x")}
	r, err, c := match("str = :y\x00 this is (( garbage", baseItem(), vals, nil)
	if c != nil || err == nil {
		t.Errorf("expression with an embedded NUL followed by garbage: res=%v err=%v crash=%v, want a syntax error", r, err, c)
	}
}

// C09: operands, BETWEEN bounds, list indexes and map members must be names or placeholders;
// IN needs its parenthesised, non-empty list; a lone attribute in parentheses is not a condition.
func TestC09OperandPositionsTakeNamesOnly(t *testing.T) {
	vals := map[string]*types.Item{":x": s("x"), ":z": s("z")}
	item := map[string]*types.Item{"a": s("x"), "flag": {BOOL: &tru}, "mm": {M: map[string]*types.Item{"k": s("x")}}}
	for _, e := range []string{"a BETWEEN ( AND :z", "a BETWEEN :x AND )", "mm.= = :x", "a IN ()", "a IN :x :z)", "a IN a :x)", "(flag)", "mm[=] = :x", "a BETWEEN = AND :z"} {
		used := map[string]*types.Item{}
		for k, v := range vals {
			if strings.Contains(e, k) {
				used[k] = v
			}
		}
		r, err, c := match(e, item, used, nil)
		if c != nil || err == nil {
			t.Errorf("%q: res=%v err=%v crash=%v, want a syntax error", e, r, err, c)
		}
	}
	li := interpreter.Language{}
	for _, e := range []string{"SET a = :x ADD", "SET a = :x REMOVE", "REMOVE a SET"} {
		it := map[string]*types.Item{"a": s("x")}
		if err := li.Update(interpreter.UpdateInput{TableName: "t", Expression: e, Item: it, Attributes: map[string]*types.Item{":x": s("y")}}); err == nil {
			t.Errorf("%q accepted", e)
		}
	}
}

// C06: size of collections, paths into scalars, document paths as IN/BETWEEN operands, empty binary values.
func TestC06MoreSemantics(t *testing.T) {
	one, two := n("1"), n("2")
	item := map[string]*types.Item{"s": s("x"), "l": {L: []*types.Item{s("a"), s("b")}}, "m": {M: map[string]*types.Item{"k": s("x"), "n": one}},
		"ss": {SS: []*string{types.ToString("p"), types.ToString("q")}}, "eb": {B: []byte{}}}
	check := func(expr string, vals map[string]*types.Item, want bool) {
		t.Helper()
		r, err, c := match(expr, item, vals, nil)
		if c != nil || err != nil || r != want {
			t.Errorf("%q: res=%v err=%v crash=%v, want %v", expr, r, err, c, want)
		}
	}
	check("size(l) = :n", map[string]*types.Item{":n": two}, true)
	check("size(ss) = :n", map[string]*types.Item{":n": two}, true)
	check("size(m) > :n", map[string]*types.Item{":n": one}, true)
	check("m.k.x = :v", map[string]*types.Item{":v": s("x")}, false)
	check("attribute_not_exists(m.k.x)", nil, true)
	check("m.k[0] <> :v", map[string]*types.Item{":v": s("x")}, true)
	check("m.k IN (:v, :w)", map[string]*types.Item{":v": s("x"), ":w": s("y")}, true)
	check("l[1] IN (:v)", map[string]*types.Item{":v": s("a")}, false)
	check("m.n BETWEEN :a AND :b", map[string]*types.Item{":a": one, ":b": two}, true)
	check("s = :v", map[string]*types.Item{":v": s("x")}, true) // the item holds an empty binary
	check("attribute_type(eb, :t)", map[string]*types.Item{":t": s("B")}, true)
}

// C06: a set has no order; two binary sets with the same elements are equal however they were written,
// at the top level, inside a list, under IN and contains().
func TestC06BinarySetEqualityIgnoresOrder(t *testing.T) {
	item := map[string]*types.Item{"bs": {BS: [][]byte{[]byte("a"), []byte("b")}}, "l": {L: []*types.Item{{BS: [][]byte{[]byte("a"), []byte("b")}}}}}
	p := &types.Item{BS: [][]byte{[]byte("b"), []byte("a")}}
	for e, want := range map[string]bool{"bs = :v": true, "bs <> :v": false, "bs IN (:v)": true, "contains(l, :v)": true, "l[0] = :v": true, ":v = bs": true} {
		r, err, c := match(e, item, map[string]*types.Item{":v": p}, nil)
		if err != nil || c != nil || r != want {
			t.Errorf("%q: res=%v err=%v crash=%v, want %v", e, r, err, c, want)
		}
	}
}

// C06: begins_with and contains on an attribute the item does not have are false, not an error
// (a filter over items that only sometimes have the attribute; a condition on a key that holds nothing).
func TestC06FunctionsOnMissingAttribute(t *testing.T) {
	item := map[string]*types.Item{"s": s("abc")}
	for e, want := range map[string]bool{"begins_with(nosuch, :v)": false, "contains(nosuch, :v)": false, "NOT begins_with(nosuch, :v)": true,
		"begins_with(s, :v) OR contains(nosuch, :v)": true, "m.k.x = :v OR begins_with(m.k, :v)": false, "begins_with(s, :v)": true} {
		r, err, c := match(e, item, map[string]*types.Item{":v": s("a")}, nil)
		if err != nil || c != nil || r != want {
			t.Errorf("%q: res=%v err=%v crash=%v, want %v", e, r, err, c, want)
		}
	}
}
