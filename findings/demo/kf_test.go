//go:build knownfinding

package verifdemo

// Demonstrations of genuine defects that are recorded in known_findings.json
// rather than repaired (run with -tags knownfinding: they FAIL on the current tree).

import (
	"context"
	"errors"
	"testing"

	"github.com/aws/aws-sdk-go-v2/aws"
	"github.com/aws/aws-sdk-go-v2/service/dynamodb"
	"github.com/aws/smithy-go"
)

// Blocked: core TestUpdate asserts that "SET id = :id" on the hash key succeeds.
// C13: an update cannot change the key attributes.
func TestC13UpdateCannotChangeKey(t *testing.T) {
	c := newTbl(t, "")
	put(t, c, av{"h": S("1"), "v": S("x")})
	err := update(c, av{"h": S("1")}, "SET h = :n", av{":n": S("9")})
	var apiErr smithy.APIError
	if err == nil || !errors.As(err, &apiErr) || apiErr.ErrorCode() != "ValidationException" {
		t.Fatalf("SET h = :n on the hash key: err = %v, want ValidationException", err)
	}
	out, _ := c.GetItem(context.Background(), &dynamodb.GetItemInput{TableName: aws.String("tbl"), Key: av{"h": S("1")}})
	if render(out.Item) != "h=1,v=x" {
		t.Fatalf("item under key 1 is now %s", render(out.Item))
	}
}

