//go:build knownfinding

package verifdemo

// Demonstrations of genuine defects that are recorded in known_findings.json
// rather than repaired (run with -tags knownfinding: they FAIL on the current tree).

import (
	"context"
	"errors"
	"strings"
	"testing"

	"github.com/truora/minidyn/types"

	"github.com/aws/aws-sdk-go-v2/aws"
	"github.com/aws/aws-sdk-go-v2/service/dynamodb"
	v2types "github.com/aws/aws-sdk-go-v2/service/dynamodb/types"
	"github.com/aws/smithy-go"
	v2 "github.com/truora/minidyn/aws-v2/client"
)

// Blocked: core TestUpdate asserts that "SET id = :id" on the hash key succeeds.
// C13: an update cannot change the key attributes.
func TestC13UpdateCannotChangeKey(t *testing.T) {
	c := newTbl(t, "")
	put(t, c, av{"h": S("1"), "v": S("x")})
	err := update(c, av{"h": S("1")}, "SET h = :n", av{":n": S("9")})
	var apiErr smithy.APIError
	if err == nil || !errors.As(err, &apiErr) || apiErr.ErrorCode() != "ValidationException" {
		t.Fatalf("SET h = :n on the hash key: err = %v, want ValidationException", err)
	}
	out, _ := c.GetItem(context.Background(), &dynamodb.GetItemInput{TableName: aws.String("tbl"), Key: av{"h": S("1")}})
	if render(out.Item) != "h=1,v=x" {
		t.Fatalf("item under key 1 is now %s", render(out.Item))
	}
}

// Blocked: TestUpdateItemWithConditionalExpression (both clients) supplies :ntyp for an expression that uses
// :ntype and expects ConditionalCheckFailedException; language tests evaluate undefined :names as missing.
// C16: placeholders that were never supplied are rejected; "used" means used as a token.
func TestC16Placeholders(t *testing.T) {
	ctx := context.Background()
	c := newTbl(t, "")
	put(t, c, av{"h": S("1"), "v": S("a")})
	scan := func(filter string, names map[string]string, vals av) error {
		_, err := c.Scan(ctx, &dynamodb.ScanInput{TableName: aws.String("tbl"), FilterExpression: aws.String(filter), ExpressionAttributeNames: names, ExpressionAttributeValues: vals})
		return err
	}
	if err := scan("v = :nope", nil, nil); err == nil {
		t.Errorf("filter with the undefined value placeholder :nope accepted")
	}
	if err := scan("#nope = :v", nil, av{":v": S("a")}); err == nil {
		t.Errorf("filter with the undefined name placeholder #nope accepted")
	}
	if err := scan("v = :ab", nil, av{":ab": S("a"), ":a": S("a")}); err == nil {
		t.Errorf(":a is supplied but only :ab is used: accepted")
	}
	if err := scan("#vv = :a", map[string]string{"#vv": "v", "#v": "v"}, av{":a": S("a")}); err == nil {
		t.Errorf("#v is supplied but only #vv is used: accepted")
	}
	if err := scan("#v = :a", map[string]string{"#v": "v"}, av{":a": S("a")}); err != nil {
		t.Errorf("compliant request rejected: %v", err)
	}
}

// Blocked: language TestErrorHandling / TestUpdateEvalSyntaxError assert the error message
// "index operator not supported for ..." for a scalar at the root of a document path.
func TestC06PathIntoRootScalarIsMissing(t *testing.T) {
	item := map[string]*types.Item{"s": s("x")}
	for _, e := range []string{"attribute_not_exists(s.k)", "s[0] <> :v"} {
		r, err, c := match(e, item, map[string]*types.Item{":v": s("x")}, nil)
		if c != nil || err != nil || !r {
			t.Errorf("%q: res=%v err=%v crash=%v, want true", e, r, err, c)
		}
	}
}

// KF-C16-key-condition-shape: Query accepts conditions that are no key conditions.
func TestC16KeyConditionShape(t *testing.T) {
	ctx := context.Background()
	c := v2.NewClient()
	if err := v2.AddTable(ctx, c, "tbl", "h", "r"); err != nil {
		t.Fatal(err)
	}
	tbl := "tbl"
	for _, kc := range []string{"h > :h", "h = :h OR r = :h", "h = :h AND v = :h", "h = :h AND r <> :h", "NOT h = :h", "h IN (:h)"} {
		kc := kc
		_, err := c.Query(ctx, &dynamodb.QueryInput{TableName: &tbl, KeyConditionExpression: &kc,
			ExpressionAttributeValues: map[string]v2types.AttributeValue{":h": &v2types.AttributeValueMemberS{Value: "a"}}})
		if err == nil {
			t.Errorf("Query accepted the key condition %q", kc)
		}
	}
}

// KF-C12-sort-keys-by-text: number and binary sort keys are ordered by the text of their rendering.
func TestC12SortKeysByText(t *testing.T) {
	ctx := context.Background()
	c := v2.NewClient()
	tbl := "tbl"
	_, err := c.CreateTable(ctx, &dynamodb.CreateTableInput{TableName: &tbl, BillingMode: v2types.BillingModePayPerRequest,
		AttributeDefinitions: []v2types.AttributeDefinition{{AttributeName: aws.String("h"), AttributeType: v2types.ScalarAttributeTypeS}, {AttributeName: aws.String("r"), AttributeType: v2types.ScalarAttributeTypeN}},
		KeySchema:            []v2types.KeySchemaElement{{AttributeName: aws.String("h"), KeyType: v2types.KeyTypeHash}, {AttributeName: aws.String("r"), KeyType: v2types.KeyTypeRange}}})
	if err != nil {
		t.Fatal(err)
	}
	for _, r := range []string{"2", "10", "3"} {
		if _, err := c.PutItem(ctx, &dynamodb.PutItemInput{TableName: &tbl, Item: map[string]v2types.AttributeValue{"h": &v2types.AttributeValueMemberS{Value: "a"}, "r": &v2types.AttributeValueMemberN{Value: r}}}); err != nil {
			t.Fatal(err)
		}
	}
	kc := "h = :h"
	o, err := c.Query(ctx, &dynamodb.QueryInput{TableName: &tbl, KeyConditionExpression: &kc, ExpressionAttributeValues: map[string]v2types.AttributeValue{":h": &v2types.AttributeValueMemberS{Value: "a"}}})
	if err != nil {
		t.Fatal(err)
	}
	got := []string{}
	for _, it := range o.Items {
		got = append(got, it["r"].(*v2types.AttributeValueMemberN).Value)
	}
	if len(got) != 3 || got[0] != "2" || got[1] != "3" || got[2] != "10" {
		t.Errorf("sort keys 2, 3, 10 came back as %v", got)
	}
}

// KF-C09-unevaluated-expression: a key condition or filter that no stored item reaches is never parsed.
func TestC09UnevaluatedExpression(t *testing.T) {
	ctx := context.Background()
	c := v2.NewClient()
	if err := v2.AddTable(ctx, c, "tbl", "h", ""); err != nil {
		t.Fatal(err)
	}
	tbl := "tbl"
	vals := map[string]v2types.AttributeValue{":x": &v2types.AttributeValueMemberS{Value: "a"}}
	rejected := func(f func() error) (rej bool) {
		defer func() {
			if recover() != nil {
				rej = true
			}
		}()
		return f() != nil
	}
	bad := "this is ((( garbage"
	if !rejected(func() error {
		_, err := c.Scan(ctx, &dynamodb.ScanInput{TableName: &tbl, FilterExpression: &bad})
		return err
	}) {
		t.Errorf("Scan of an empty table accepted the filter %q", bad)
	}
	reserved := "status = :x"
	if !rejected(func() error {
		_, err := c.Scan(ctx, &dynamodb.ScanInput{TableName: &tbl, FilterExpression: &reserved, ExpressionAttributeValues: vals})
		return err
	}) {
		t.Errorf("Scan of an empty table accepted the reserved word in %q", reserved)
	}
	c.PutItem(ctx, &dynamodb.PutItemInput{TableName: &tbl, Item: map[string]v2types.AttributeValue{"h": &v2types.AttributeValueMemberS{Value: "b"}}})
	kc, flt := "h = :x", "v = :x AND"
	if !rejected(func() error {
		_, err := c.Query(ctx, &dynamodb.QueryInput{TableName: &tbl, KeyConditionExpression: &kc, FilterExpression: &flt, ExpressionAttributeValues: vals})
		return err
	}) {
		t.Errorf("Query whose key condition selects nothing accepted the filter %q", flt)
	}
}

// KF-C06-size-of-missing: size() of an attribute the item does not have is an error, not an operand without a value.
func TestC06SizeOfMissingAttribute(t *testing.T) {
	item := map[string]*types.Item{"s": s("x")}
	r, err, c := match("size(nosuch) > :v", item, map[string]*types.Item{":v": n("1")}, nil)
	if c != nil || err != nil || r {
		t.Errorf("size(nosuch) > :v on an item without nosuch: res=%v err=%v crash=%v, want false", r, err, c)
	}
}

// KF-C13-number-keys-by-text: two spellings of one number are two keys.
func TestC13NumberKeysByText(t *testing.T) {
	ctx := context.Background()
	c := v2.NewClient()
	tbl := "tbl"
	_, err := c.CreateTable(ctx, &dynamodb.CreateTableInput{TableName: &tbl, BillingMode: v2types.BillingModePayPerRequest,
		AttributeDefinitions: []v2types.AttributeDefinition{{AttributeName: aws.String("h"), AttributeType: v2types.ScalarAttributeTypeN}},
		KeySchema:            []v2types.KeySchemaElement{{AttributeName: aws.String("h"), KeyType: v2types.KeyTypeHash}}})
	if err != nil {
		t.Fatal(err)
	}
	put := func(n, v string) {
		if _, err := c.PutItem(ctx, &dynamodb.PutItemInput{TableName: &tbl, Item: map[string]v2types.AttributeValue{"h": &v2types.AttributeValueMemberN{Value: n}, "v": &v2types.AttributeValueMemberS{Value: v}}}); err != nil {
			t.Fatal(err)
		}
	}
	put("10", "first")
	put("10.0", "second")
	s, _ := c.Scan(ctx, &dynamodb.ScanInput{TableName: &tbl})
	if len(s.Items) != 1 {
		t.Errorf("the numbers 10 and 10.0 are stored as %d items", len(s.Items))
	}
	o, _ := c.GetItem(ctx, &dynamodb.GetItemInput{TableName: &tbl, Key: map[string]v2types.AttributeValue{"h": &v2types.AttributeValueMemberN{Value: "010"}}})
	if len(o.Item) == 0 {
		t.Errorf("GetItem with the spelling 010 does not find the item stored under 10")
	}
}

// KF-C16-unsupplied-placeholder: a #name placeholder the expressions use but the request does not supply is accepted.
func TestC16UnsuppliedPlaceholder(t *testing.T) {
	ctx := context.Background()
	c := v2.NewClient()
	if err := v2.AddTable(ctx, c, "tbl", "h", ""); err != nil {
		t.Fatal(err)
	}
	S := func(v string) v2types.AttributeValue { return &v2types.AttributeValueMemberS{Value: v} }
	tbl := "tbl"
	if _, err := c.PutItem(ctx, &dynamodb.PutItemInput{TableName: &tbl, Item: map[string]v2types.AttributeValue{"h": S("a"), "v": S("1")}}); err != nil {
		t.Fatal(err)
	}
	o, err := c.UpdateItem(ctx, &dynamodb.UpdateItemInput{TableName: &tbl, Key: map[string]v2types.AttributeValue{"h": S("a")},
		UpdateExpression: aws.String("SET #n = :v"), ExpressionAttributeValues: map[string]v2types.AttributeValue{":v": S("9")}, ReturnValues: v2types.ReturnValueAllNew})
	if err == nil {
		_, literal := o.Attributes["#n"]
		t.Errorf("SET #n = :v was accepted although the request supplies no names (an attribute literally named #n was written: %v)", literal)
	}
}

// KF-C09-empty-expression: an expression that is present but empty is not rejected.
func TestC09EmptyExpressionString(t *testing.T) {
	ctx := context.Background()
	c := v2.NewClient()
	if err := v2.AddTable(ctx, c, "tbl", "h", ""); err != nil {
		t.Fatal(err)
	}
	tbl := "tbl"
	S := func(v string) v2types.AttributeValue { return &v2types.AttributeValueMemberS{Value: v} }
	if _, err := c.PutItem(ctx, &dynamodb.PutItemInput{TableName: &tbl, Item: map[string]v2types.AttributeValue{"h": S("a")}}); err != nil {
		t.Fatal(err)
	}
	if o, err := c.Scan(ctx, &dynamodb.ScanInput{TableName: &tbl, FilterExpression: aws.String("")}); err == nil {
		t.Errorf("a Scan with an empty FilterExpression succeeded and returned %d item(s)", len(o.Items))
	}
	_, err := c.PutItem(ctx, &dynamodb.PutItemInput{TableName: &tbl, Item: map[string]v2types.AttributeValue{"h": S("a")}, ConditionExpression: aws.String("")})
	if err == nil || strings.Contains(err.Error(), "ConditionalCheckFailed") {
		t.Errorf("a PutItem with an empty ConditionExpression: %v (want a validation error)", err)
	}
}
