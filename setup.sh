#!/bin/sh
# MANIFEST.setup_cmd: build the framework from files on disk only (offline).
set -e
cd "$(dirname "$0")"
export GOFLAGS=-mod=mod GOPROXY=off GOSUMDB=off GOTOOLCHAIN=local
mkdir -p work evidence
(cd tools/gofacts && go build -o ../../work/gofacts .)
./work/gofacts -repo "${VERIF_REPO:-/repo}" -out lean/Minidyn/Generated
(cd lean && lake build Minidyn mdriver)
cp "${VERIF_REPO:-/repo}/go.sum" harness/go.sum
(cd harness && CGO_ENABLED=0 go build -tags verif -o ../work/mdharness . && CGO_ENABLED=1 go test -race -c -o ../work/racebin_warm ./race && rm -f ../work/racebin_warm)
echo "setup done"
