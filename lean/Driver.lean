/-
  mdriver — reads one JSON case per line on stdin, runs the executable model (and the
  specification's judges) on it and prints one JSON line with the model's outcome.
-/
import Minidyn.Codec
open Lean Minidyn Minidyn.Codec

def getField (j : Json) (k : String) : Except String Json :=
  match j.getObjVal? k with
  | .ok v => pure v
  | .error _ => throw s!"missing field {k}"

def optItem (j : Json) (k : String) : Except String Item :=
  match j.getObjVal? k with
  | .ok v => if v.isNull then pure [] else itemOfJson v
  | .error _ => pure []

def optNames (j : Json) (k : String) : Except String (List (Bytes × Bytes)) :=
  match j.getObjVal? k with
  | .ok v => if v.isNull then pure [] else namesOfJson v
  | .error _ => pure []

def handleMatch (j : Json) : Except String Json := do
  let expr ← hexOf (← getField j "expr")
  let item ← optItem j "item"
  let names ← optNames j "names"
  let values ← optItem j "values"
  match Interp.langMatch expr item names values with
  | .ok b => pure (Json.mkObj [("ok", Json.bool b)])
  | .error e => pure (Json.mkObj [("err", Json.str (ierrName e))])

def handleUpdate (j : Json) : Except String Json := do
  let expr ← hexOf (← getField j "expr")
  let item ← optItem j "item"
  let names ← optNames j "names"
  let values ← optItem j "values"
  match Interp.langUpdate expr item names values with
  | .ok it => pure (Json.mkObj [("ok", itemToJson it)])
  | .error e => pure (Json.mkObj [("err", Json.str (ierrName e))])

def handleNum (j : Json) : Except String Json := do
  let a ← hexOf (← getField j "a")
  let b ← hexOf (← getField j "b")
  match F64.ofText a, F64.ofText b with
  | some x, some y =>
    pure (Json.mkObj [("fa", Json.str (F64.format x)), ("fb", Json.str (F64.format y)),
      ("add", Json.str (F64.format (F64.add x y))), ("sub", Json.str (F64.format (F64.sub x y))),
      ("cmp", Json.num (match F64.cmp x y with | .lt => -1 | .eq => 0 | .gt => 1))])
  | _, _ => pure (Json.mkObj [("err", Json.str "parse")])

def handleHist (j : Json) : Except String Json := do
  let opsJ ← (← getField j "ops").getArr?
  let ops ← opsJ.toList.mapM opOfJson
  let run (sdk : Sdk) : Json :=
    let (_, outs) := Client.run { sdk := sdk } ops
    Json.arr (outs.map outToJson).toArray
  pure (Json.mkObj [("v1", run .v1), ("v2", run .v2)])

def handle (line : String) : String :=
  match Json.parse line with
  | .error e => (Json.mkObj [("driverError", Json.str e)]).compress
  | .ok j =>
    let id := (j.getObjVal? "id").toOption.getD Json.null
    let kind := ((j.getObjVal? "kind").toOption.bind (·.getStr?.toOption)).getD ""
    let r : Except String Json :=
      match kind with
      | "match" => handleMatch j
      | "update" => handleUpdate j
      | "num" => handleNum j
      | "hist" => handleHist j
      -- C14 / C11: the theorems (Tie.Sharing, Tie.Locks, Props.C14, Props.C11) predict that the
      -- dynamic search finds nothing; the harness-only cases are echoed with that prediction
      | "poke" => pure (Json.mkObj [("violations", Json.arr #[])])
      | "decomp" => pure (Json.mkObj [("violations", Json.arr #[])])
      | "race" => pure (Json.mkObj [("violations", Json.arr #[])])
      | k => throw s!"unknown kind {k}"
    match r with
    | .ok m => (Json.mkObj [("id", id), ("model", m)]).compress
    | .error e => (Json.mkObj [("id", id), ("driverError", Json.str e)]).compress

partial def loop (h : IO.FS.Stream) (out : IO.FS.Stream) : IO Unit := do
  let line ← h.getLine
  if line.isEmpty then return ()
  let l := line.trimRight
  if !l.isEmpty then out.putStrLn (handle l)
  loop h out

def main : IO Unit := do
  let stdin ← IO.getStdin
  let stdout ← IO.getStdout
  loop stdin stdout
  stdout.flush
