/-
  Minidyn.Lemmas.Search — Go's `sort.Search` (the literal binary-search loop) returns the
  first index whose predicate holds, for a monotone predicate; consequences for
  `sort.SearchStrings` on sorted lists.
-/
import Minidyn.Lemmas.Order
namespace Minidyn

theorem goSearchAux_spec (p : Nat → Bool) (mono : ∀ a b, a ≤ b → p a = true → p b = true) :
    ∀ fuel i j, i ≤ j → j - i < fuel → (∀ k, k < i → p k = false) → (∀ k, j ≤ k → p k = true) →
      i ≤ goSearchAux p fuel i j ∧ goSearchAux p fuel i j ≤ j ∧
      (∀ k, k < goSearchAux p fuel i j → p k = false) ∧ (∀ k, goSearchAux p fuel i j ≤ k → p k = true) := by
  intro fuel
  induction fuel with
  | zero => intro i j _ h; omega
  | succ f ih =>
    intro i j hij hf hlo hhi
    simp only [goSearchAux]
    by_cases hlt : i < j
    · simp only [hlt, if_true]
      have hmid : i ≤ (i + j) / 2 ∧ (i + j) / 2 < j := by omega
      by_cases hp : p ((i + j) / 2) = true
      · simp only [hp, Bool.not_true, Bool.false_eq_true, if_false]
        have := ih i ((i + j) / 2) hmid.1 (by omega) hlo (fun k hk => mono _ _ hk hp)
        refine ⟨this.1, by omega, this.2.2.1, this.2.2.2⟩
      · have hp' : p ((i + j) / 2) = false := by simpa using hp
        simp only [hp', Bool.not_false, if_true]
        have hlo' : ∀ k, k < (i + j) / 2 + 1 → p k = false := by
          intro k hk
          by_cases hk' : k < i
          · exact hlo k hk'
          · cases hpk : p k with
            | false => rfl
            | true => have := mono k ((i + j) / 2) (by omega) hpk; simp [this] at hp'
        have := ih ((i + j) / 2 + 1) j (by omega) (by omega) hlo' hhi
        refine ⟨by omega, this.2.1, this.2.2.1, this.2.2.2⟩
    · have : i = j := by omega
      subst this
      simp only [hlt, if_false]
      exact ⟨Nat.le_refl _, Nat.le_refl _, hlo, hhi⟩

theorem goSearch_spec (n : Nat) (p : Nat → Bool) (mono : ∀ a b, a ≤ b → p a = true → p b = true)
    (hbeyond : ∀ k, n ≤ k → p k = true) :
    goSearch n p ≤ n ∧ (∀ k, k < goSearch n p → p k = false) ∧ (∀ k, goSearch n p ≤ k → p k = true) := by
  have := goSearchAux_spec p mono (n + 1) 0 n (Nat.zero_le _) (by omega) (by intro k hk; omega) hbeyond
  exact ⟨this.2.1, this.2.2.1, this.2.2.2⟩

/-- in a sorted list every element at or after position `i` is ≥ the element at `i` -/
theorem sortedBy_getElem_le {l : List Bytes} (h : SortedBy Bytes.le l) :
    ∀ i j (hi : i < l.length) (hj : j < l.length), i ≤ j → Bytes.le l[i] l[j] = true := by
  induction l with
  | nil => intro i j hi; simp at hi
  | cons x xs ih =>
    intro i j hi hj hij
    have hs := (sortedBy_cons_iff Bytes.le_trans').mp h
    cases i with
    | zero =>
      cases j with
      | zero => exact Bytes.le_refl _
      | succ j' =>
        simp only [List.getElem_cons_zero, List.getElem_cons_succ]
        exact hs.1 _ (List.getElem_mem _)
    | succ i' =>
      cases j with
      | zero => omega
      | succ j' =>
        simp only [List.getElem_cons_succ]
        exact ih hs.2 i' j' (by simpa using hi) (by simpa using hj) (by omega)

/-- `sort.SearchStrings` on a sorted list: the result is the first position whose element is ≥ `x` -/
theorem searchStrings_spec {l : List Bytes} (h : SortedBy Bytes.le l) (x : Bytes) :
    searchStrings l x ≤ l.length ∧
    (∀ k (hk : k < l.length), k < searchStrings l x → Bytes.le x l[k] = false) ∧
    (∀ k (hk : k < l.length), searchStrings l x ≤ k → Bytes.le x l[k] = true) := by
  unfold searchStrings
  have mono : ∀ a b : Nat, a ≤ b →
      (match l[a]? with | some y => Bytes.le x y | none => true) = true →
      (match l[b]? with | some y => Bytes.le x y | none => true) = true := by
    intro a b hab ha
    by_cases hb : b < l.length
    · have ha' : a < l.length := by omega
      simp only [List.getElem?_eq_getElem ha'] at ha
      simp only [List.getElem?_eq_getElem hb]
      exact Bytes.le_trans ha (sortedBy_getElem_le h a b ha' hb hab)
    · simp [List.getElem?_eq_none (by omega : l.length ≤ b)]
  have beyond : ∀ k : Nat, l.length ≤ k → (match l[k]? with | some y => Bytes.le x y | none => true) = true := by
    intro k hk; simp [List.getElem?_eq_none hk]
  have sp := goSearch_spec l.length _ mono beyond
  refine ⟨sp.1, ?_, ?_⟩
  · intro k hk hlt
    have := sp.2.1 k hlt
    simpa [List.getElem?_eq_getElem hk] using this
  · intro k hk hle
    have := sp.2.2 k hle
    simpa [List.getElem?_eq_getElem hk] using this

/-- the position of a member of a sorted list without duplicates -/
theorem searchStrings_of_mem {l : List Bytes} (hs : SortedBy Bytes.le l) (x : Bytes) (hx : x ∈ l) :
    ∃ (h : searchStrings l x < l.length), l[searchStrings l x] = x := by
  have sp := searchStrings_spec hs x
  obtain ⟨i, hi, hix⟩ := List.getElem_of_mem hx
  have hle : searchStrings l x ≤ i := by
    rcases Nat.lt_or_ge i (searchStrings l x) with hlt | hge
    · have := sp.2.1 i hi hlt
      rw [hix, Bytes.le_refl] at this; cases this
    · exact hge
  have hlen : searchStrings l x < l.length := by omega
  refine ⟨hlen, ?_⟩
  have h1 := sp.2.2 _ hlen (Nat.le_refl _)
  have h2 := sortedBy_getElem_le hs _ i hlen hi hle
  rw [hix] at h2
  exact (Bytes.le_antisymm h1 h2).symm

end Minidyn
