/-
  Chains: lists in which every later element lies strictly "after" every earlier one, for an arbitrary strict
  order given as a Boolean relation.  The elements after a given position form a suffix; the elements after a
  member are exactly the rest of the list.  Used for the read order of a table (key strings) and of an index
  (pairs of index key and primary key).
-/
import Minidyn.Lemmas.Order
namespace Minidyn.Chain

structure StrictOrd {α : Type} (aft : α → α → Bool) : Prop where
  trans : ∀ {a b c}, aft a b = true → aft b c = true → aft a c = true
  irrefl : ∀ a, aft a a = false
  asymm : ∀ {a b}, aft a b = true → aft b a = false

variable {α : Type} {aft : α → α → Bool}

def IsChain (aft : α → α → Bool) : List α → Prop
  | [] => True
  | x :: xs => (∀ y ∈ xs, aft y x = true) ∧ IsChain aft xs

theorem split (so : StrictOrd aft) (s : α) : ∀ (l : List α), IsChain aft l →
    ∃ lo hi, l = lo ++ hi ∧ (∀ x ∈ lo, aft x s = false) ∧ (∀ x ∈ hi, aft x s = true) := by
  intro l
  induction l with
  | nil => intro _; exact ⟨[], [], rfl, by simp, by simp⟩
  | cons x xs ih =>
    intro hc
    cases hx : aft x s with
    | true =>
      refine ⟨[], x :: xs, rfl, by simp, ?_⟩
      intro y hy
      rcases List.mem_cons.1 hy with rfl | hy
      · exact hx
      · exact so.trans (hc.1 y hy) hx
    | false =>
      obtain ⟨lo, hi, he, hlo, hhi⟩ := ih hc.2
      refine ⟨x :: lo, hi, by rw [he]; rfl, ?_, hhi⟩
      intro y hy
      rcases List.mem_cons.1 hy with rfl | hy
      · exact hx
      · exact hlo y hy

theorem append : ∀ (a b : List α), IsChain aft (a ++ b) →
    IsChain aft a ∧ IsChain aft b ∧ ∀ x ∈ a, ∀ y ∈ b, aft y x = true := by
  intro a
  induction a with
  | nil => intro b h; exact ⟨trivial, h, by simp⟩
  | cons x xs ih =>
    intro b h
    obtain ⟨h1, h2, h3⟩ := ih b h.2
    refine ⟨⟨fun y hy => h.1 y (by simp [hy]), h1⟩, h2, ?_⟩
    intro z hz y hy
    rcases List.mem_cons.1 hz with rfl | hz
    · exact h.1 y (by simp [hy])
    · exact h3 z hz y hy

theorem after_member (so : StrictOrd aft) (pre post : List α) (k : α) (h : IsChain aft (pre ++ k :: post)) :
    (∀ x ∈ pre, aft x k = false) ∧ aft k k = false ∧ (∀ y ∈ post, aft y k = true) := by
  obtain ⟨_, h2, h3⟩ := append pre (k :: post) h
  refine ⟨?_, so.irrefl k, h2.1⟩
  intro x hx
  exact so.asymm (h3 x hx k (by simp))

theorem filter_split (p : α → Bool) (lo hi : List α) (h1 : ∀ x ∈ lo, p x = false) (h2 : ∀ x ∈ hi, p x = true) :
    (lo ++ hi).filter p = hi := by
  rw [List.filter_append]
  have : lo.filter p = [] := by
    rw [List.filter_eq_nil_iff]; intro x hx; simp [h1 x hx]
  rw [this, List.nil_append, List.filter_eq_self]
  exact h2

theorem snoc (x : α) : ∀ (l : List α), IsChain aft l → (∀ y ∈ l, aft x y = true) → IsChain aft (l ++ [x]) := by
  intro l
  induction l with
  | nil => intro _ _; exact ⟨by simp, trivial⟩
  | cons z zs ih =>
    intro h hx
    refine ⟨?_, ih h.2 (fun y hy => hx y (by simp [hy]))⟩
    intro y hy
    rcases List.mem_append.1 hy with hy | hy
    · exact h.1 y hy
    · have : y = x := by simpa using hy
      subst this; exact hx z (by simp)

/-- reversing a chain gives a chain for the converse relation -/
theorem reverse {bft : α → α → Bool} (hconv : ∀ a b, aft a b = true → bft b a = true) :
    ∀ (l : List α), IsChain aft l → IsChain bft l.reverse := by
  intro l
  induction l with
  | nil => intro _; trivial
  | cons x xs ih =>
    intro h
    simp only [List.reverse_cons]
    apply snoc x _ (ih h.2)
    intro y hy
    exact hconv y x (h.1 y (by simpa using hy))

/-- the keys after a member `k` of a chain `pre ++ k :: post`, selected by filtering, are `post` -/
theorem filter_after_member (so : StrictOrd aft) (pre post : List α) (k : α) (h : IsChain aft (pre ++ k :: post)) :
    (pre ++ k :: post).filter (fun x => aft x k) = post := by
  obtain ⟨h1, h2, h3⟩ := after_member so pre post k h
  have : pre ++ k :: post = (pre ++ [k]) ++ post := by simp
  rw [this]
  apply filter_split
  · intro x hx
    rcases List.mem_append.1 hx with hx | hx
    · exact h1 x hx
    · have : x = k := by simpa using hx
      rw [this]; exact h2
  · exact h3

end Minidyn.Chain
