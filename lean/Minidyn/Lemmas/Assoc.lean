/-
  Minidyn.Lemmas.Assoc — association lists behave like finite maps (Go maps).
-/
import Minidyn.Model.Basic
namespace Minidyn

variable {β : Type}

def keysOf (m : List (Bytes × β)) : List Bytes := m.map (·.1)

@[simp] theorem alookup_nil (k : Bytes) : alookup k ([] : List (Bytes × β)) = none := rfl

theorem alookup_ainsert_self (k : Bytes) (v : β) (m : List (Bytes × β)) : alookup k (ainsert k v m) = some v := by
  induction m with
  | nil => simp [ainsert, alookup]
  | cons p t ih =>
    obtain ⟨k', v'⟩ := p
    simp only [ainsert]
    by_cases h : (k' == k) = true
    · simp [h, alookup]
    · simp [h, alookup, ih]

theorem alookup_ainsert_ne {k k' : Bytes} (v : β) (m : List (Bytes × β)) (h : k' ≠ k) :
    alookup k' (ainsert k v m) = alookup k' m := by
  induction m with
  | nil =>
    have : (k == k') = false := by simpa using fun h' => h h'.symm
    simp [ainsert, alookup, this]
  | cons p t ih =>
    obtain ⟨k0, v0⟩ := p
    simp only [ainsert]
    by_cases h0 : (k0 == k) = true
    · have hk0 : k0 = k := by simpa using h0
      have : (k0 == k') = false := by subst hk0; simpa using fun h' => h h'.symm
      have h2 : (k == k') = false := by simpa using fun h' => h h'.symm
      simp [h0, alookup, this, h2]
    · simp [h0, alookup, ih]

theorem alookup_aerase_self (k : Bytes) (m : List (Bytes × β)) : alookup k (aerase k m) = none := by
  induction m with
  | nil => rfl
  | cons p t ih =>
    obtain ⟨k0, v0⟩ := p
    simp only [aerase]
    by_cases h0 : (k0 == k) = true
    · simp [h0, ih]
    · simp [h0, alookup, ih]

theorem alookup_aerase_ne {k k' : Bytes} (m : List (Bytes × β)) (h : k' ≠ k) :
    alookup k' (aerase k m) = alookup k' m := by
  induction m with
  | nil => rfl
  | cons p t ih =>
    obtain ⟨k0, v0⟩ := p
    simp only [aerase]
    by_cases h0 : (k0 == k) = true
    · have hk0 : k0 = k := by simpa using h0
      have : (k0 == k') = false := by subst hk0; simpa using fun h' => h h'.symm
      simp [h0, alookup, this, ih]
    · simp [h0, alookup, ih]

theorem ahas_iff_mem_keys (k : Bytes) (m : List (Bytes × β)) : ahas k m = true ↔ k ∈ keysOf m := by
  induction m with
  | nil => simp [ahas, keysOf]
  | cons p t ih =>
    obtain ⟨k0, v0⟩ := p
    simp only [ahas, alookup, keysOf, List.map_cons, List.mem_cons] at ih ⊢
    by_cases h0 : (k0 == k) = true
    · have : k0 = k := by simpa using h0
      simp [h0, this]
    · have hne : ¬ k = k0 := by intro h; apply h0; simp [h]
      simp [h0, hne, ih]

theorem ahas_eq_isSome (k : Bytes) (m : List (Bytes × β)) : ahas k m = (alookup k m).isSome := rfl

theorem keysOf_ainsert_of_has {k : Bytes} (v : β) {m : List (Bytes × β)} (h : ahas k m = true) :
    keysOf (ainsert k v m) = keysOf m := by
  induction m with
  | nil => simp [ahas] at h
  | cons p t ih =>
    obtain ⟨k0, v0⟩ := p
    simp only [ainsert]
    by_cases h0 : (k0 == k) = true
    · have : k0 = k := by simpa using h0
      simp [h0, keysOf, this]
    · have ht : ahas k t = true := by
        simp only [ahas, alookup, h0] at h
        simpa [ahas] using h
      simp [h0, keysOf] at ih ⊢
      exact ih ht

theorem keysOf_ainsert_of_not_has {k : Bytes} (v : β) {m : List (Bytes × β)} (h : ahas k m = false) :
    keysOf (ainsert k v m) = keysOf m ++ [k] := by
  induction m with
  | nil => simp [ainsert, keysOf]
  | cons p t ih =>
    obtain ⟨k0, v0⟩ := p
    simp only [ainsert]
    by_cases h0 : (k0 == k) = true
    · simp [ahas, alookup, h0] at h
    · have ht : ahas k t = false := by
        simp only [ahas, alookup, h0] at h
        simpa [ahas] using h
      simp [h0, keysOf] at ih ⊢
      exact ih ht

theorem mem_keysOf_aerase {k k' : Bytes} (m : List (Bytes × β)) :
    k' ∈ keysOf (aerase k m) ↔ (k' ∈ keysOf m ∧ k' ≠ k) := by
  rw [← ahas_iff_mem_keys, ← ahas_iff_mem_keys, ahas_eq_isSome, ahas_eq_isSome]
  by_cases h : k' = k
  · subst h; simp [alookup_aerase_self]
  · simp [alookup_aerase_ne m h, h]

theorem nodup_keysOf_aerase {k : Bytes} {m : List (Bytes × β)} (h : (keysOf m).Nodup) : (keysOf (aerase k m)).Nodup := by
  induction m with
  | nil => simp [aerase, keysOf]
  | cons p t ih =>
    obtain ⟨k0, v0⟩ := p
    simp only [keysOf, List.map_cons, List.nodup_cons] at h
    simp only [aerase]
    by_cases h0 : (k0 == k) = true
    · simp [h0]; exact ih h.2
    · simp only [h0, Bool.false_eq_true, if_false, keysOf, List.map_cons, List.nodup_cons]
      refine ⟨?_, ih h.2⟩
      intro hm
      have := (mem_keysOf_aerase (k := k) (k' := k0) t).mp hm
      exact h.1 this.1

end Minidyn
