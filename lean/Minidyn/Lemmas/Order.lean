/-
  Minidyn.Lemmas.Order — the bytewise order is a total order; insertion sort sorts;
  Go's binary search finds the first element that is ≥ the probe.
-/
import Minidyn.Model.Basic
namespace Minidyn

namespace Bytes

theorem cmp_refl (a : Bytes) : cmp a a = .eq := by
  induction a with
  | nil => rfl
  | cons x xs ih => simp [cmp, ih]

theorem cmp_eq_iff {a b : Bytes} : cmp a b = .eq ↔ a = b := by
  constructor
  · intro h
    induction a generalizing b with
    | nil => cases b <;> simp [cmp] at h ⊢
    | cons x xs ih =>
      cases b with
      | nil => simp [cmp] at h
      | cons y ys =>
        simp only [cmp] at h
        by_cases h1 : x < y
        · simp [h1] at h
        · by_cases h2 : y < x
          · simp [h1, h2] at h
          · simp [h1, h2] at h
            have : x = y := by omega
            rw [this, ih h]
  · intro h; rw [h]; exact cmp_refl b

theorem cmp_lt_gt {a b : Bytes} : cmp a b = .lt ↔ cmp b a = .gt := by
  induction a generalizing b with
  | nil => cases b <;> simp [cmp]
  | cons x xs ih =>
    cases b with
    | nil => simp [cmp]
    | cons y ys =>
      simp only [cmp]
      by_cases h1 : x < y
      · have : ¬ y < x := by omega
        simp [h1, this]
      · by_cases h2 : y < x
        · simp [h1, h2]
        · simp [h1, h2]; exact ih

theorem cmp_trans_lt {a b c : Bytes} (h1 : cmp a b = .lt) (h2 : cmp b c = .lt) : cmp a c = .lt := by
  induction a generalizing b c with
  | nil =>
    cases b with
    | nil => simp [cmp] at h1
    | cons y ys => cases c <;> simp [cmp] at h2 ⊢
  | cons x xs ih =>
    cases b with
    | nil => simp [cmp] at h1
    | cons y ys =>
      cases c with
      | nil => simp [cmp] at h2
      | cons z zs =>
        simp only [cmp] at h1 h2 ⊢
        by_cases hxy : x < y
        · by_cases hyz : y < z
          · have : x < z := by omega
            simp [this]
          · by_cases hzy : z < y
            · simp [hyz, hzy] at h2
            · have : y = z := by omega
              subst this; simp [hxy]
        · by_cases hyx : y < x
          · simp [hxy, hyx] at h1
          · have hxy' : x = y := by omega
            subst hxy'
            simp [hxy] at h1
            by_cases hyz : x < z
            · simp [hyz]
            · by_cases hzy : z < x
              · simp [hyz, hzy] at h2
              · simp [hyz, hzy] at h2 ⊢
                exact ih h1 h2

theorem le_refl (a : Bytes) : le a a = true := by simp [le, cmp_refl]

theorem le_total (a b : Bytes) : le a b = true ∨ le b a = true := by
  simp only [le]
  cases h : cmp a b with
  | lt => simp
  | eq => simp
  | gt => right; have := (cmp_lt_gt (a := b) (b := a)).mpr h; simp [this]

theorem le_antisymm {a b : Bytes} (h1 : le a b = true) (h2 : le b a = true) : a = b := by
  simp only [le] at h1 h2
  cases h : cmp a b with
  | eq => exact cmp_eq_iff.mp h
  | lt => have := cmp_lt_gt.mp h; simp [this] at h2
  | gt => simp [h] at h1

theorem le_trans {a b c : Bytes} (h1 : le a b = true) (h2 : le b c = true) : le a c = true := by
  simp only [le] at h1 h2 ⊢
  cases hab : cmp a b with
  | gt => simp [hab] at h1
  | eq =>
    have := cmp_eq_iff.mp hab; subst this; exact h2
  | lt =>
    cases hbc : cmp b c with
    | gt => simp [hbc] at h2
    | eq => have := cmp_eq_iff.mp hbc; subst this; simp [hab]
    | lt => simp [cmp_trans_lt hab hbc]

theorem le_trans' : ∀ a b c : Bytes, le a b = true → le b c = true → le a c = true :=
  fun _ _ _ => le_trans

theorem lt_iff_le_ne {a b : Bytes} : lt a b = true ↔ (le a b = true ∧ a ≠ b) := by
  simp only [lt, le]
  cases h : cmp a b with
  | lt => simp; intro hab; rw [hab, cmp_refl] at h; cases h
  | eq => simp; exact cmp_eq_iff.mp h
  | gt => simp

end Bytes

/-! ### sortedness -/

/-- ascending (weakly) with respect to `le` -/
def SortedBy {α} (le : α → α → Bool) : List α → Prop
  | [] => True
  | [_] => True
  | x :: y :: rest => le x y = true ∧ SortedBy le (y :: rest)

theorem SortedBy.tail {α} {le : α → α → Bool} {x : α} {xs : List α} (h : SortedBy le (x :: xs)) : SortedBy le xs := by
  cases xs with
  | nil => trivial
  | cons y ys => exact h.2

theorem sortedBy_cons_iff {α} {le : α → α → Bool} (trans : ∀ a b c, le a b = true → le b c = true → le a c = true)
    {x : α} {xs : List α} : SortedBy le (x :: xs) ↔ ((∀ y ∈ xs, le x y = true) ∧ SortedBy le xs) := by
  induction xs generalizing x with
  | nil => simp [SortedBy]
  | cons y ys ih =>
    constructor
    · intro h
      refine ⟨?_, h.2⟩
      intro z hz
      cases hz with
      | head => exact h.1
      | tail _ hz' => exact trans _ _ _ h.1 ((ih.mp h.2).1 z hz')
    · intro h
      exact ⟨h.1 y (List.mem_cons_self ..), h.2⟩

theorem mem_insertBy {α} (le : α → α → Bool) (x : α) (l : List α) (z : α) : z ∈ insertBy le x l ↔ z = x ∨ z ∈ l := by
  induction l with
  | nil => simp [insertBy]
  | cons y ys ih =>
    simp only [insertBy]
    split
    · simp
    · simp [ih]; constructor
      · rintro (h | h | h) <;> simp [h]
      · rintro (h | h | h) <;> simp [h]

theorem insertBy_perm {α} (le : α → α → Bool) (x : α) (l : List α) : (insertBy le x l).Perm (x :: l) := by
  induction l with
  | nil => exact List.Perm.refl _
  | cons y ys ih =>
    simp only [insertBy]
    split
    · exact List.Perm.refl _
    · exact (List.Perm.cons y ih).trans (List.Perm.swap x y ys)

theorem sortBy_perm {α} (le : α → α → Bool) (l : List α) : (sortBy le l).Perm l := by
  induction l with
  | nil => exact List.Perm.refl _
  | cons x xs ih => exact (insertBy_perm le x _).trans (List.Perm.cons x ih)

theorem sortedBy_insertBy {α} {le : α → α → Bool}
    (total : ∀ a b, le a b = true ∨ le b a = true)
    (trans : ∀ a b c, le a b = true → le b c = true → le a c = true)
    (x : α) {l : List α} (h : SortedBy le l) : SortedBy le (insertBy le x l) := by
  induction l with
  | nil => trivial
  | cons y ys ih =>
    simp only [insertBy]
    split
    · rename_i hxy; exact ⟨hxy, h⟩
    · rename_i hxy
      have hyx : le y x = true := by
        cases total x y with
        | inl h' => exact absurd h' hxy
        | inr h' => exact h'
      have hs := ih h.tail
      rw [sortedBy_cons_iff trans]
      refine ⟨?_, hs⟩
      intro z hz
      rw [mem_insertBy] at hz
      cases hz with
      | inl hz => rw [hz]; exact hyx
      | inr hz => exact ((sortedBy_cons_iff trans).mp h).1 z hz

theorem sortedBy_sortBy {α} {le : α → α → Bool}
    (total : ∀ a b, le a b = true ∨ le b a = true)
    (trans : ∀ a b c, le a b = true → le b c = true → le a c = true)
    (l : List α) : SortedBy le (sortBy le l) := by
  induction l with
  | nil => trivial
  | cons x xs ih => exact sortedBy_insertBy total trans x ih

theorem sortedBy_sortBytes (l : List Bytes) : SortedBy Bytes.le (sortBytes l) :=
  sortedBy_sortBy Bytes.le_total Bytes.le_trans' l

theorem mem_sortBytes (l : List Bytes) (z : Bytes) : z ∈ sortBytes l ↔ z ∈ l :=
  (sortBy_perm Bytes.le l).mem_iff

theorem nodup_sortBytes {l : List Bytes} (h : l.Nodup) : (sortBytes l).Nodup :=
  (sortBy_perm Bytes.le l).nodup_iff.mpr h

end Minidyn
