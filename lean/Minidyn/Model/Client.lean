/-
  Minidyn.Model.Client — aws-v1/client and aws-v2/client (client.go, minidyn.go and the
  value mappers of mapper.go) as one state machine parametrised by the SDK flavour.

  `step : Client → Op → Client × Out`.  Requests are the abstract operations of the
  harness (DESIGN Appendix A); the harness translates them to the SDK structs.
  SDK v1's generated `input.Validate()` is not modelled: the generators always supply
  the required fields and names of at least three characters (trusted-base note).
-/
import Minidyn.Model.Interp
import Minidyn.Model.Table
namespace Minidyn

inductive Sdk where | v1 | v2
deriving Repr, BEq, DecidableEq, Inhabited

inductive ErrClass where
  | validation | conditionFailed | resourceNotFound | resourceInUse
  | internalServer | forcedFailure | unsupported | syntax
deriving Repr, BEq, DecidableEq, Inhabited

inductive Failure where | internalServer | deprecated
deriving Repr, BEq, DecidableEq

structure KeyDef where
  hash : Bytes × Bytes                  -- attribute name, attribute type
  range : Option (Bytes × Bytes) := none
deriving Repr, Inhabited, BEq

structure IndexDef where
  name : Bytes
  key : KeyDef
  throughput : Bool := false
  /-- the request carries no attribute definitions for this index (UpdateTable) -/
  noDefs : Bool := false
deriving Repr, Inhabited

structure CreateTable where
  table : Bytes
  key : KeyDef
  gsi : Option (List IndexDef) := none   -- `none`: field absent; `some []`: empty list
  lsi : Option (List IndexDef) := none
  payPerRequest : Bool := true
  throughput : Bool := false
deriving Repr, Inhabited

inductive WriteReq where
  | put (item : Item)
  | del (key : Item)
  | both (item key : Item)
  | neither
deriving Repr, Inhabited

structure Exprs where
  names : List (Bytes × Bytes) := []
  values : Item := []
deriving Repr, Inhabited

inductive IndexChange where
  | create (d : IndexDef)
  | delete (name : Bytes)
deriving Repr, Inhabited

inductive Op where
  | createTable (c : CreateTable)
  | deleteTable (table : Bytes)
  | describeTable (table : Bytes)
  | updateTable (table : Bytes) (changes : List IndexChange)
  | clearTable (table : Bytes)
  | put (table : Bytes) (item : Item) (cond : Option Bytes) (ex : Exprs)
  | update (table : Bytes) (key : Item) (expr : Bytes) (cond : Option Bytes) (ex : Exprs) (retOnFail : Bool)
  | delete (table : Bytes) (key : Item) (cond : Option Bytes) (ex : Exprs) (retOld : Bool)
  | get (table : Bytes) (key : Item)
  | query (table : Bytes) (q : Table.Query) (ex : Exprs)
  | pages (table : Bytes) (q : Table.Query) (ex : Exprs) (delAfter : Option Nat) (maxPages : Nat)
  | batchWrite (reqs : List (Bytes × List WriteReq))
  | batchGet (reqs : List (Bytes × List Item))
  | transactWrite
  | setFailure (f : Option Failure)
  | activateNative
  | setInterpreter
  | registerMatcher (table : Bytes) (kind : ExprKind) (expr : Bytes) (id : Nat)
  | registerUpdater (table : Bytes) (expr : Bytes) (id : Nat)
deriving Repr, Inhabited

structure IndexDesc where
  name : Bytes
  count : Nat
  schema : List (Bytes × Bytes)        -- attribute name, HASH/RANGE
deriving Repr, BEq

structure TableDesc where
  count : Nat
  schema : List (Bytes × Bytes)
  gsi : List IndexDesc
  lsi : List IndexDesc
deriving Repr, BEq

inductive Out where
  | ok
  | item (it : Option Item)
  | search (items : List Item) (count : Nat) (lek : Item)
  | pages (ps : List (List Item × Item))
  | pagesErr (ps : List (List Item × Item)) (err : Option ErrClass) (panicCls : String)   -- a later page failed
  | describe (d : TableDesc)
  | batchWrite (unprocessed : List (Bytes × List WriteReq))
  | batchGet (responses : List (Bytes × List Item)) (unprocessed : List (Bytes × List Item))
  | err (cls : ErrClass) (item : Option Item)
  | panicErr (cls : String)
  | na                                    -- the SDK flavour has no such call
deriving Repr, Inhabited

structure Client where
  sdk : Sdk
  tables : List (Bytes × Table) := []
  failure : Option Failure := none
  useNative : Bool := false
  matchers : List (Bytes × Nat) := []     -- kind byte :: table|normalised text ↦ call-back id
  updaters : List (Bytes × Nat) := []
deriving Repr, Inhabited

namespace Client

/-! ### value mappers -/

/- `mapTypesToDynamoItem` of the v2 client: an empty binary, list, map or set is written
    out as NULL (`len(x) != 0` tests fall through to the NULL member) -/
mutual
  def outV2 : AV → AV
    | .b v => if v.isEmpty then .null else .b v
    | .l xs => if xs.isEmpty then .null else .l (outV2List xs)
    | .m kvs => if kvs.isEmpty then .null else .m (outV2Kvs kvs)
    | .ss xs => if xs.isEmpty then .null else .ss xs
    | .ns xs => if xs.isEmpty then .null else .ns xs
    | .bs xs => if xs.isEmpty then .null else .bs xs
    | v => v
  def outV2List : List AV → List AV
    | [] => []
    | x :: xs => outV2 x :: outV2List xs
  def outV2Kvs : List (Bytes × AV) → List (Bytes × AV)
    | [] => []
    | (k, x) :: xs => (k, outV2 x) :: outV2Kvs xs
end

def outItem (sdk : Sdk) (it : Item) : Item :=
  match sdk with
  | .v1 => it
  | .v2 => outV2Kvs it

/-! ### interpreters -/

def isIdWord (c : Nat) : Bool := (97 ≤ c && c ≤ 122) || (65 ≤ c && c ≤ 90) || (48 ≤ c && c ≤ 57) || c == 95

/-- the two regular expressions `^#[A-Za-z0-9_]+$` / `^:[A-Za-z0-9_]+$` -/
def placeholderOk (first : Nat) (k : Bytes) : Bool :=
  match k with
  | c :: rest => c == first && !rest.isEmpty && rest.all isIdWord
  | [] => false

def isTrimSpace (c : Nat) : Bool := c == 32 || (9 ≤ c && c ≤ 13)

def joinSpace : List Bytes → Bytes
  | [] => []
  | [x] => x
  | x :: xs => x ++ [32] ++ joinSpace xs

/-- `validateExpressionAttributes`; every failure is a ValidationException -/
def validateExprAttrs (ex : Exprs) (exprs : List Bytes) : Bool :=
  let generic := joinSpace exprs
  let blank := generic.all isTrimSpace
  if blank && ex.names.isEmpty && ex.values.isEmpty then true
  else
    ex.names.all (fun (k, _) => Bytes.isInfixOf k generic && placeholderOk 35 k) &&
    ex.values.all (fun (k, _) => Bytes.isInfixOf k generic && placeholderOk 58 k)

/-- `newExpressionKey`: Go keys the registration maps by the struct (table name, normalised
    text); the association lists of the model are keyed by bytes, so the pair is encoded — with the
    escaping of composite primary keys, which is injective (`Props.C20.nativeKey_inj`) -/
def nativeKey (table expr : Bytes) : Bytes := Key.escape table ++ 46 :: Interp.normWS expr

/-- the four registries of `interpreter.Native` are one map here, the kind being part of the key -/
def kindByte : ExprKind → Nat
  | .key => 107 | .filter => 102 | .cond => 99

def matcherKey (kind : ExprKind) (table expr : Bytes) : Bytes := kindByte kind :: nativeKey table expr

def ierrClass : IErr → String
  | .syntax => "Syntax"
  | .unsupported => "Unsupported"
  | .outOfFuel => "OutOfFuel"

/-- the behaviour of the harness's matcher call-back number `id` -/
def matcherVerdict (id : Nat) (item : Item) : Bool :=
  match alookup [118] item with          -- attribute "v"
  | some (.s x) => x == Bytes.ofNat id
  | _ => false

/-- `Table.interpreterMatch` -/
def matcher (c : Client) (table : Bytes) (ex : Exprs) : Matcher := fun kind expr item =>
  let lang : MatchOut :=
    match Interp.langMatch expr item ex.names ex.values with
    | .ok b => .ok b
    | .error e => .panic (ierrClass e)
  if c.useNative then
    match alookup (matcherKey kind table expr) c.matchers with
    | some id => .ok (matcherVerdict id item)
    | none => lang
  else lang

/-- `Table.interpreterUpdate`; the harness's updater `id` sets attribute `nat` to the id -/
def updater (c : Client) (table : Bytes) (expr : Bytes) (ex : Exprs) : Table.Updater := fun item =>
  if c.useNative then
    match alookup (nativeKey table expr) c.updaters with
    | some id => .ok (ainsert [110, 97, 116] (.s (Bytes.ofNat id)) item)
    | none => .error "Unsupported"
  else
    match Interp.langUpdate expr item ex.names ex.values with
    | .ok it => .ok it
    | .error e => .error (ierrClass e)

/-! ### table management -/

def failureErr (f : Failure) : Out :=
  match f with
  | .internalServer => .err .internalServer none
  | .deprecated => .err .forcedFailure none

def schemaOf (k : KeyDef) (secondary : Bool) : KeySchema :=
  { hash := k.hash.1, range := (k.range.map (·.1)).getD [], secondary }

def describeSchema (ks : KeySchema) : List (Bytes × Bytes) :=
  [(ks.hash, Bytes.ofString "HASH")] ++ (if ks.range.isEmpty then [] else [(ks.range, Bytes.ofString "RANGE")])

def describe (t : Table) : TableDesc :=
  let idx (ty : IndexType) := (sortAssoc t.indexes).filterMap fun (n, ix) =>
    if ix.typ == ty then some { name := n, count := ix.sortedKeys.length, schema := describeSchema ix.schema : IndexDesc } else none
  { count := t.sortedKeys.length, schema := describeSchema t.schema, gsi := idx .global, lsi := idx .loc }

/-- `validateAttributeDefinition` -/
def attrsDefined (t : Table) (ks : KeySchema) : Bool :=
  ahas ks.hash t.attrs && (ks.range.isEmpty || ahas ks.range t.attrs)

/-- `buildGSI` + `addGlobalIndex` (with the backfill of the existing items) -/
def addGlobalIndex (t : Table) (payPerRequest : Bool) (d : IndexDef) : Option Table :=
  let ks := schemaOf d.key true
  if !payPerRequest && !d.throughput then none
  else if ks.hash.isEmpty then none
  else if !attrsDefined t ks then none
  else
    let ix0 : Index := { schema := ks, typ := .global }
    let ix := t.sortedKeys.foldl (fun ix key =>
      match ix.set t.attrs key (t.getItem key) with | .ok ix' => ix' | .error _ => ix) ix0
    some { t with indexes := ainsert d.name ix t.indexes }

def addLocalIndex (t : Table) (d : IndexDef) : Option Table :=
  let ks := schemaOf d.key true
  if ks.hash.isEmpty then none
  else if !attrsDefined t ks then none
  else some { t with indexes := ainsert d.name { schema := ks, typ := .loc } t.indexes }

def defsOf (k : KeyDef) : List (Bytes × Bytes) :=
  [k.hash] ++ (match k.range with | some r => [r] | none => [])

def isPPR (t : Table) : Bool := t.billing == Bytes.ofString "PAY_PER_REQUEST"

/-- `input != nil && len(input) == 0` -/
def presentButEmpty {α} : Option (List α) → Bool
  | some [] => true
  | _ => false

/-- add the indexes one after the other; the first one that is rejected rejects the table -/
def addIndexes (f : Table → IndexDef → Option Table) : List IndexDef → Table → Option Table
  | [], t => some t
  | d :: ds, t =>
    match f t d with
    | none => none
    | some t' => addIndexes f ds t'

/-- the table a CreateTable request describes (`none`: ValidationException):
    `SetAttributeDefinition`, `CreatePrimaryIndex`, `AddGlobalIndexes`, `AddLocalIndexes` -/
def baseTable (r : CreateTable) : Table :=
  let allDefs := defsOf r.key ++ ((r.gsi.getD []) ++ (r.lsi.getD [])).flatMap (fun d => defsOf d.key)
  { name := r.table, schema := schemaOf r.key false,
    attrs := allDefs.foldl (fun acc (n, ty) => ainsert n ty acc) [],
    billing := if r.payPerRequest then Bytes.ofString "PAY_PER_REQUEST" else Bytes.ofString "PROVISIONED" }

def addAllIndexes (r : CreateTable) (t : Table) : Option Table :=
  match addIndexes (fun t d => addGlobalIndex t r.payPerRequest d) (r.gsi.getD []) t with
  | none => none
  | some t1 => addIndexes addLocalIndex (r.lsi.getD []) t1

def buildTable (r : CreateTable) : Option Table :=
  let t := baseTable r
  if t.schema.hash.isEmpty || !attrsDefined t t.schema || (!r.payPerRequest && !r.throughput) then none
  else if presentButEmpty r.gsi || presentButEmpty r.lsi then none
  else addAllIndexes r t

def createTable (c : Client) (r : CreateTable) : Client × Out :=
  if ahas r.table c.tables then (c, .err .resourceInUse none)
  else match buildTable r with
    | none => (c, .err .validation none)
    | some t => ({ c with tables := ainsert r.table t c.tables }, .describe (describe t))

/-- the key attributes of the table and of its indexes -/
def keyAttrsInUse (t : Table) : List Bytes :=
  [t.schema.hash, t.schema.range] ++ t.indexes.flatMap fun (_, ix) => [ix.schema.hash, ix.schema.range]

/-- `Table.UpdateAttributeDefinition`: a definition that gives a key attribute in use another type -/
def redefinesKeyAttr (t : Table) (defs : List (Bytes × Bytes)) : Bool :=
  defs.any fun (n, ty) => (keyAttrsInUse t).contains n && (alookup n t.attrs).getD [] != ty

/-- `UpdateTable`: attribute definitions of the created indexes are merged first (a definition that re-types a key attribute in use is rejected), then
    the changes are applied in order; a failing change stops the call and the table stays as it was before the request
    (`Table.UpdateIndexes`) -/
def updateTable (c : Client) (name : Bytes) (changes : List IndexChange) : Client × Out :=
  match alookup name c.tables with
  | none => (c, .err .resourceNotFound none)
  | some t =>
    let defs := changes.flatMap fun ch => match ch with | .create d => if d.noDefs then [] else defsOf d.key | .delete _ => []
    if redefinesKeyAttr t defs then (c, .err .validation none) else
    let t := { t with attrs := defs.foldl (fun acc (n, ty) => ainsert n ty acc) t.attrs }
    let rec go (t : Table) : List IndexChange → Table × Option ErrClass
      | [] => (t, none)
      | .create d :: rest =>
        match addGlobalIndex t (isPPR t) d with
        | some t' => go t' rest
        | none => (t, some .validation)
      | .delete n :: rest =>
        if ahas n t.indexes then go { t with indexes := aerase n t.indexes } rest
        else (t, some .resourceNotFound)
    let (t', e) := go t changes
    match e with
    | none => ({ c with tables := ainsert name t' c.tables }, .describe (describe t'))
    | some cls => (c, .err cls none)

/-! ### data operations -/

def writeErrOut (sdk : Sdk) (retOnFail : Bool) : Table.WriteErr → Out
  | .validation => .err .validation none
  | .conditionFailed old =>
    -- only the v2 client maps ReturnValuesOnConditionCheckFailure
    .err .conditionFailed (if retOnFail && sdk == .v2 && !old.isEmpty then some (outItem sdk old) else none)
  | .panic cls => .panicErr cls
  | .interp cls => if cls == "Syntax" then .err .validation none else .err .unsupported none

def withTable (c : Client) (name : Bytes) (f : Table → Client × Out) : Client × Out :=
  match alookup name c.tables with
  | none => (c, .err .resourceNotFound none)
  | some t => f t

def setTable (c : Client) (name : Bytes) (t : Table) : Client := { c with tables := ainsert name t c.tables }

def putItem (c : Client) (table : Bytes) (item : Item) (cond : Option Bytes) (ex : Exprs) : Client × Out :=
  match c.failure with
  | some f => (c, failureErr f)
  | none =>
    if !validateExprAttrs ex [cond.getD []] then (c, .err .validation none)
    else withTable c table fun t =>
      match t.put (matcher c table ex) item cond with
      | .ok t' => (setTable c table t', .ok)
      | .error e => (c, writeErrOut c.sdk false e)

def updateItem (c : Client) (table : Bytes) (key : Item) (expr : Bytes) (cond : Option Bytes) (ex : Exprs)
    (retOnFail : Bool) : Client × Out :=
  match c.failure with
  | some f => (c, failureErr f)
  | none =>
    if !validateExprAttrs ex [expr, cond.getD []] then (c, .err .validation none)
    else withTable c table fun t =>
      match t.update (matcher c table ex) (updater c table expr ex) key cond with
      | .ok (t', item) => (setTable c table t', .item (some (outItem c.sdk item)))
      | .error e => (c, writeErrOut c.sdk retOnFail e)

def deleteItem (c : Client) (table : Bytes) (key : Item) (cond : Option Bytes) (ex : Exprs) (retOld : Bool) :
    Client × Out :=
  match c.failure with
  | some f => (c, failureErr f)
  | none =>
    if !validateExprAttrs ex [cond.getD []] then (c, .err .validation none)
    else withTable c table fun t =>
      match t.delete (matcher c table ex) key cond with
      | .ok (t', old) => (setTable c table t', if retOld then .item (some (outItem c.sdk (old.getD []))) else .item none)
      | .error e => (c, writeErrOut c.sdk false e)

def getItem (c : Client) (table : Bytes) (key : Item) : Client × Out :=
  match c.failure with
  | some f => (c, failureErr f)
  | none =>
    withTable c table fun t =>
      match Key.getKey t.schema t.attrs key with
      | .error _ => (c, .err .validation none)
      | .ok k => (c, .item (some (outItem c.sdk (t.getItem k))))

/-- `Table.ValidateStartKey`: an ExclusiveStartKey has to be a key of the table and, for a read
    through an index, hold the key of that index too -/
def startKeyOk (t : Table) (q : Table.Query) : Bool :=
  q.startKey.isEmpty ||
    ((Key.getKey t.schema t.attrs q.startKey).toBool &&
      match alookup q.index t.indexes with
      | none => true
      | some ix =>
        match Key.getKey ix.schema t.attrs q.startKey with
        | .ok k => !k.isEmpty
        | .error _ => false)

def searchOnce (c : Client) (table : Bytes) (q : Table.Query) (ex : Exprs) :
    Except Out (List Item × Item) :=
  match c.failure with
  | some f => .error (failureErr f)
  | none =>
    let exprs := if q.scan then [[], q.filter] else [q.keyCond, q.filter, []]
    if !validateExprAttrs ex exprs then .error (.err .validation none)
    else match alookup table c.tables with
      | none => .error (.err .resourceNotFound none)
      | some t =>
        if !q.index.isEmpty && !ahas q.index t.indexes then .error (.err .validation none)
        else if !startKeyOk t q then .error (.err .validation none)
        else match t.searchData (matcher c table ex) q with
          | .ok r => .ok (r.items.map (outItem c.sdk), outItem c.sdk r.lastKey)
          | .error cls => .error (.panicErr cls)

def query (c : Client) (table : Bytes) (q : Table.Query) (ex : Exprs) : Client × Out :=
  match searchOnce c table q ex with
  | .ok (items, lek) => (c, .search items items.length lek)
  | .error o => (c, o)

/-- repeat the read with the returned LastEvaluatedKey until none comes back (at most
    `fuel` pages); after page number `delAfter` the item named by the key is deleted -/
def pagesLoop (table : Bytes) (q : Table.Query) (ex : Exprs) (delAfter : Option Nat) :
    Nat → Nat → Client → List (List Item × Item) → Client × Out
  | 0, _, c, acc => (c, .pages acc.reverse)
  | fuel + 1, n, c, acc =>
    match searchOnce c table q ex with
    | .error o =>
      if acc.isEmpty then (c, o)
      else match o with
        | .panicErr cls => (c, .pagesErr acc.reverse none cls)
        | .err cls _ => (c, .pagesErr acc.reverse (some cls) "")
        | o => (c, o)
    | .ok (items, lek) =>
      let acc := (items, lek) :: acc
      if lek.isEmpty then (c, .pages acc.reverse)
      else
        let c' := if delAfter == some n then
            match alookup table c.tables with
            | some t => (deleteItem c table (Key.keyItem t.schema lek) none {} false).1
            | none => c
          else c
        pagesLoop table { q with startKey := lek } ex delAfter fuel (n + 1) c' acc

def applyWrite (c : Client) (table : Bytes) : WriteReq → Client × Out
  | .put item => putItem c table item none {}
  | .both item _ => putItem c table item none {}
  | .del key => deleteItem c table key none {} false
  | .neither => (c, .ok)

def isBadReq : WriteReq → Bool
  | .both _ _ | .neither => true
  | _ => false

/-- `BatchWriteItem`: tables in the order given (the harness only sends several tables
    when no request can fail, so Go's random map order is not observable) -/
def batchWrite (c : Client) (reqs : List (Bytes × List WriteReq)) : Client × Out :=
  let all := reqs.flatMap fun (_, rs) => rs
  if all.any isBadReq || all.length > 25 then (c, .err .validation none)
  else
    let flat := reqs.flatMap fun (t, rs) => rs.map fun r => (t, r)
    let rec go (c : Client) (unp : List (Bytes × List WriteReq)) : List (Bytes × WriteReq) → Client × Out
      | [] => (c, .batchWrite unp)
      | (t, r) :: rest =>
        match applyWrite c t r with
        | (c', .err .internalServer _) =>
          go c' (ainsert t ((alookup t unp).getD [] ++ [r]) unp) rest
        | (c', .err cls it) => (c', .err cls it)
        | (c', .panicErr cls) => (c', .panicErr cls)
        | (c', _) => go c' unp rest
    go c [] flat

def batchGet (c : Client) (reqs : List (Bytes × List Item)) : Client × Out :=
  if c.sdk == .v1 then (c, .na) else
  match c.failure with
  | some f => (c, failureErr f)
  | none =>
    let per := reqs.map fun (t, keys) =>
      let rs := keys.map fun k => (k, (getItem c t k).2)
      let found := rs.filterMap fun ((_, o) : Item × Out) => match o with
        | Out.item (some it) => if it.isEmpty then none else some it
        | _ => none
      let unp := rs.filterMap fun ((k, o) : Item × Out) => match o with
        | Out.item (some it) => if it.isEmpty then some k else none
        | _ => some k
      (t, found, unp)
    (c, .batchGet (per.map fun (t, f, _) => (t, f))
                  (per.filterMap fun (t, _, u) => if u.isEmpty then none else some (t, u)))

def step (c : Client) : Op → Client × Out
  | .createTable r => createTable c r
  | .deleteTable n =>
    match alookup n c.tables with
    | none => (c, .err .resourceNotFound none)
    | some t => ({ c with tables := aerase n c.tables }, .describe (describe t))
  | .describeTable n => withTable c n fun t => (c, .describe (describe t))
  | .updateTable n chs => updateTable c n chs
  | .clearTable n => withTable c n fun t => (setTable c n t.clear, .ok)
  | .put t item cond ex => putItem c t item cond ex
  | .update t key expr cond ex rf => updateItem c t key expr cond ex rf
  | .delete t key cond ex ro => deleteItem c t key cond ex ro
  | .get t key => getItem c t key
  | .query t q ex => query c t q ex
  | .pages t q ex da mx => pagesLoop t q ex da mx 0 c []
  | .batchWrite reqs => batchWrite c reqs
  | .batchGet reqs => batchGet c reqs
  | .transactWrite => match c.failure with | some f => (c, failureErr f) | none => (c, .ok)
  | .setFailure f => ({ c with failure := f }, .ok)
  | .activateNative => ({ c with useNative := true }, .ok)
  | .setInterpreter => ({ c with matchers := [], updaters := [] }, .ok)
  | .registerMatcher t kind expr id => ({ c with matchers := ainsert (matcherKey kind t expr) id c.matchers }, .ok)
  | .registerUpdater t expr id => ({ c with updaters := ainsert (nativeKey t expr) id c.updaters }, .ok)

def run (c : Client) : List Op → Client × List Out
  | [] => (c, [])
  | op :: ops =>
    let (c', o) := step c op
    let (c'', os) := run c' ops
    (c'', o :: os)

end Client
end Minidyn
