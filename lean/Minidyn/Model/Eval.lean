/-
  Minidyn.Model.Eval — interpreter/language/evaluator.go and functions.go: evaluation
  of condition expressions (`Eval`) and of update expressions (`EvalUpdate`).
  An `Error` object of the Go evaluator is `Except.error` here (messages are not
  compared); every branch of the Go code is mirrored, including the ones that make
  the result differ from DynamoDB's semantics.
-/
import Minidyn.Model.Parser
import Minidyn.Model.Env
import Minidyn.Generated.Reserved
namespace Minidyn
namespace Eval

def toUpperAscii (s : Bytes) : Bytes := s.map fun c => if 97 ≤ c && c ≤ 122 then c - 32 else c

/-- `IsReservedWord(strings.ToUpper(literal))` against the table regenerated from token.go -/
def isReserved (lit : Bytes) : Bool := Generated.reservedWords.contains (toUpperAscii lit)

def isKeywordLit (lit : Bytes) : Bool := Lexer.lookupIdent lit != .ident

/-- `evalIdentifier` -/
def evalIdentifier (tok : Token) (env : Env) (toplevel : Bool) : EvalM Obj :=
  if toplevel && isReserved tok.lit then throw "reserved word"
  else env.get tok.lit

def isComparableType (t : OType) : Bool := t == .N || t == .S || t == .B
def isComparable (o : Obj) : Bool := isComparableType o.type || o.isUndefined

def bool (b : Bool) : Obj := .bool b

/-- `evalNullInfixExpression` -/
def evalNullInfix (op : Tok) (l r : Obj) : Obj :=
  match op with
  | .eq => bool !(l.isUndefined || r.isUndefined)
  | .neq => bool (l.isUndefined || r.isUndefined)
  | _ => bool false

def cmpOp (op : Tok) (c : Ordering) : EvalM Obj :=
  match op with
  | .lt => pure (bool (c == .lt))
  | .lte => pure (bool (c != .gt))
  | .gt => pure (bool (c == .gt))
  | .gte => pure (bool (c != .lt))
  | .eq => pure (bool (c == .eq))
  | .neq => pure (bool (c != .eq))
  | _ => throw "unknown operator"

/-- `evalComparableInfixExpression` (both operands comparable or undefined) -/
def evalComparable (op : Tok) (l r : Obj) : EvalM Obj :=
  if l.isUndefined || r.isUndefined then pure (evalNullInfix op l r)
  else match l, r with
    | .num a, .num b => cmpOp op (F64.cmp a b)
    | .str a, .str b => cmpOp op (Bytes.cmp a b)
    | .bin a, .bin b => cmpOp op (Bytes.cmp a b)
    | _, _ =>
      match op with
      | .eq => pure (bool false)
      | .neq => pure (bool true)
      | _ => throw "type mismatch"

def equalObject (l r : Obj) : Bool := l.type == r.type && Obj.beq l r

/-- `evalInfixExpression` -/
def evalInfix (op : Tok) (l r : Obj) : EvalM Obj :=
  if isComparable l && isComparable r then evalComparable op l r
  else match l, r with
    | .bool a, .bool b =>
      match op with
      | .and => pure (bool (a && b))
      | .or => pure (bool (a || b))
      | .eq => pure (bool (a == b))
      | .neq => pure (bool (a != b))
      | _ => throw "unknown operator"
    | _, _ =>
      if l.type == .NULL && r.type == .NULL then pure (evalNullInfix op l r)
      else match op with
        | .eq => pure (bool (equalObject l r))
        | .neq => pure (bool !(equalObject l r))
        | _ => throw "type mismatch / unknown operator"

inductive Accessor where
  | pos (i : Int)
  | key (k : Bytes)
deriving Repr

def listGet (xs : List Obj) (i : Int) : Obj :=
  if i < 0 then Obj.undefined else
  match xs[i.toNat]? with
  | some .hole => Obj.undefined
  | some o => o
  | none => Obj.undefined

/-- `indexAccessor.Get` -/
def Accessor.get (a : Accessor) (container : Obj) : EvalM Obj :=
  match a, container with
  | .pos i, .list xs => pure (listGet xs i)
  | .key k, .map kvs => pure ((alookup k kvs).getD Obj.undefined)
  | _, c => if c.isUndefined then pure c else pure Obj.undefined   -- a path into a scalar names nothing

/-- `strconv.Atoi` on a token literal: digits only (signs are separate tokens); literals
    that overflow `int` are outside the modelled domain -/
def atoi (lit : Bytes) : Option Nat :=
  if lit.isEmpty || !lit.all Dec.isDigit then none else some (Dec.digitsToNat (lit.map (· - 48)))

/-- `evalIndexValue` -/
def evalIndexValue (op : Token) (idx : Token) (env : Env) : EvalM Accessor :=
  if op.typ == .dot then do
    let _ ← evalIdentifier idx env false
    pure (.key (env.resolveName idx.lit))
  else
    match atoi idx.lit with
    | some n => pure (.pos n)
    | none => do
      let o ← evalIdentifier idx env true
      match o with
      | .num f => pure (.pos (F64.toInt f))
      | _ => throw "access index with [] only support N as index"

/-- `evalIndexPositions`: accessors outermost first, and the root object -/
def evalIndexPositions (env : Env) : Expr → EvalM (List Accessor × Token × Obj)
  | .ident tok => do
    let o ← evalIdentifier tok env true
    match o with
    | .list _ | .map _ => pure ([], tok, o)
    | _ => if o.isUndefined then pure ([], tok, o) else throw "index operator not supported"
  | .index op left idx => do
    let a ← evalIndexValue op idx env
    let (rest, root, o) ← evalIndexPositions env left
    pure (a :: rest, root, o)
  | _ => throw "index operator not supported"

/-- walk the accessors innermost-last (`positions` from the end to the start) -/
def walk (o : Obj) : List Accessor → EvalM Obj
  | [] => pure o
  | a :: rest => do
    let o' ← walk o rest
    a.get o'

def evalIndex (env : Env) (e : Expr) : EvalM Obj := do
  let (ps, _, o) ← evalIndexPositions env e
  walk o ps

def identOf : Expr → Option Token
  | .ident t => some t
  | _ => none

/-! ### built-in functions -/

/-! ### names of the built-in functions, as byte strings (kernel-reducible literals) -/
def fn_attribute_exists : Bytes := [97, 116, 116, 114, 105, 98, 117, 116, 101, 95, 101, 120, 105, 115, 116, 115]  -- attribute_exists
def fn_attribute_not_exists : Bytes := [97, 116, 116, 114, 105, 98, 117, 116, 101, 95, 110, 111, 116, 95, 101, 120, 105, 115, 116, 115]  -- attribute_not_exists
def fn_attribute_type : Bytes := [97, 116, 116, 114, 105, 98, 117, 116, 101, 95, 116, 121, 112, 101]  -- attribute_type
def fn_begins_with : Bytes := [98, 101, 103, 105, 110, 115, 95, 119, 105, 116, 104]  -- begins_with
def fn_contains : Bytes := [99, 111, 110, 116, 97, 105, 110, 115]  -- contains
def fn_size : Bytes := [115, 105, 122, 101]  -- size
def fn_if_not_exists : Bytes := [105, 102, 95, 110, 111, 116, 95, 101, 120, 105, 115, 116, 115]  -- if_not_exists
def fn_list_append : Bytes := [108, 105, 115, 116, 95, 97, 112, 112, 101, 110, 100]  -- list_append


def typeCodeBytes : OType → Bytes
  | .N => [78] | .S => [83] | .B => [66] | .BOOL => [66, 79, 79, 76] | .NULL => [78, 85, 76, 76]
  | .L => [76] | .M => [77] | .SS => [83, 83] | .NS => [78, 83] | .BS => [66, 83]

def dynamodbTypeCodes : List Bytes :=
  [.B, .BS, .BOOL, .L, .M, .NULL, .N, .NS, .SS, .S].map typeCodeBytes

def subset (xs ys : List Bytes) : Bool := xs.all ys.contains

def fnAttributeType (path typ : Obj) : EvalM Obj :=
  match typ with
  | .str t =>
    if !dynamodbTypeCodes.contains t then throw "invalid type"
    else pure (bool (!path.isUndefined && typeCodeBytes path.type == t))
  | _ => throw "invalid type"

def fnBeginsWith (path sub : Obj) : EvalM Obj :=
  if path.isUndefined then pure (bool false) else   -- an attribute the item does not have begins with nothing
  match path, sub with
  | .str p, .str s => pure (bool (Bytes.isPrefixOf s p))
  | .str _, _ => throw "invalid substr type"
  | .bin p, .bin s => pure (bool (Bytes.isPrefixOf s p))
  | .bin _, _ => throw "invalid substr type"
  | _, _ => throw "invalid type"

def fnContains (path operand : Obj) : EvalM Obj :=
  if path.isUndefined then pure (bool false) else   -- ... and contains nothing
  match path with
  | .str p => match operand with
    | .str s => pure (bool (Bytes.isInfixOf s p))
    | _ => throw "contains is not supported"
  | .bin p => match operand with
    | .bin s => pure (bool (Bytes.isInfixOf s p))
    | _ => throw "contains is not supported"
  | .list xs => pure (bool (xs.any fun e => equalObject operand e))
  | .sset xs => match operand with
    | .str s => pure (bool (xs.contains s))
    | .sset ys => pure (bool (subset ys xs))
    | _ => throw "contains is not supported"
  | .bset xs => match operand with
    | .bin s => pure (bool (xs.contains s))
    | .bset ys => pure (bool (subset ys xs))
    | _ => throw "contains is not supported"
  | .nset xs => match operand with
    | .num f => pure (bool (xs.any (F64.eq f)))
    | .nset ys => pure (bool (ys.all fun y => xs.any (F64.eq y)))
    | _ => throw "contains is not supported"
  | _ => throw "contains is not supported"

def fnSize (path : Obj) : EvalM Obj :=
  match path with
  | .str s => pure (.num (F64.ofNat s.length))
  | .bin s => pure (.num (F64.ofNat s.length))
  | .list xs => pure (.num (F64.ofNat xs.length))
  | .map kvs => pure (.num (F64.ofNat kvs.length))
  | .sset xs => pure (.num (F64.ofNat xs.length))
  | .nset xs => pure (.num (F64.ofNat xs.length))
  | .bset xs => pure (.num (F64.ofNat xs.length))
  | _ => throw "type not supported: size"

/-- the `functions` table: arity and `ForUpdate` -/
def fnInfo (name : Bytes) : Option (Nat × Bool) :=
  if name == fn_attribute_exists then some (1, false)
  else if name == fn_attribute_not_exists then some (1, false)
  else if name == fn_attribute_type then some (2, false)
  else if name == fn_begins_with then some (2, false)
  else if name == fn_contains then some (2, false)
  else if name == fn_size then some (1, false)
  else if name == fn_if_not_exists then some (2, true)
  else if name == fn_list_append then some (2, true)
  else none

def callFn (name : Bytes) (args : List Obj) : EvalM Obj :=
  match args with
  | [a] =>
    if name == fn_attribute_exists then pure (bool !a.isUndefined)
    else if name == fn_attribute_not_exists then pure (bool a.isUndefined)
    else if name == fn_size then fnSize a
    else throw "arity"
  | [a, b] =>
    if name == fn_attribute_type then fnAttributeType a b
    else if name == fn_begins_with then fnBeginsWith a b
    else if name == fn_contains then fnContains a b
    else if name == fn_if_not_exists then pure (if a.isUndefined then b else a)
    else if name == fn_list_append then
      match a, b with
      | .list xs, .list ys => pure (.list (xs ++ ys))
      | _, _ => throw "list_append is not supported"
    else throw "arity"
  | _ => throw "arity"

/-- checks shared by `evalFunctionCall` and `evalUpdateFunctionCall` before the
    arguments are evaluated -/
def fnLookup (fn : Expr) (forUpdate : Bool) : EvalM (Bytes × Nat) :=
  match identOf fn with
  | none => throw "bad function syntax"
  | some t =>
    match fnInfo t.lit with
    | none => throw "invalid function name"
    | some (arity, upd) =>
      if upd != forUpdate then throw "the function is not allowed here" else pure (t.lit, arity)

/-! ### conditions -/

mutual
  /-- `Eval` -/
  def eval (env : Env) : Expr → EvalM Obj
    | .ident tok => evalIdentifier tok env true
    | .pre _ right => do
      if (identOf right).isSome then throw "syntax error"
      let r ← eval env right
      match r with
      | .bool b => pure (bool !b)
      | _ => throw "unknown operator: NOT"
    | .inf op left right => do
      -- checkSyntaxInfixParts
      if isKeywordLit op.lit && ((identOf left).isSome || (identOf right).isSome) then throw "syntax error"
      let l ← eval env left
      let r ← eval env right
      evalInfix op.typ l r
    | .index op left idx => evalIndex env (.index op left idx)
    | .between left lo hi => do
      let operand (t : Token) : EvalM Obj := do
        let v ← evalIdentifier t env true
        if !isComparableType v.type && !v.isUndefined then throw "unexpected type" else pure v
      let v ← match left with
        | .ident t => operand t
        | .index op l idx => evalIndex env (.index op l idx)      -- evalPathOperand
        | _ => throw "identifier expected"
      let mn ← operand lo
      let mx ← operand hi
      if v.isUndefined || mn.isUndefined || mx.isUndefined then pure (bool false)
      else if !(v.type == mn.type && v.type == mx.type) then throw "mismatch type"
      else do
        let a ← evalComparable .lte mn v
        let b ← evalComparable .lte v mx
        evalInfix .and a b
    | .isIn left range => do
      let v ← match left with
        | .ident t => evalIdentifier t env true
        | .index op l idx => evalIndex env (.index op l idx)      -- evalPathOperand
        | _ => throw "identifier expected"
      let objs ← evalInRange env v range
      if v.isUndefined then pure (bool false)
      else pure (bool (objs.any fun e => equalObject v e))
    | .call fn args => do
      let (name, arity) ← fnLookup fn false
      let vals ← evalList env args
      if vals.length != arity then throw "incorrect number of operands"
      callFn name vals
    | _ => throw "unsupported expression"

  /-- `evalExpressions` -/
  def evalList (env : Env) : List Expr → EvalM (List Obj)
    | [] => pure []
    | e :: es => do
      let v ← eval env e
      let vs ← evalList env es
      pure (v :: vs)

  /-- the loop of `evalIn`: operands must be identifiers; those of another type are skipped -/
  def evalInRange (env : Env) (v : Obj) : List Expr → EvalM (List Obj)
    | [] => pure []
    | e :: es => do
      let o ← match identOf e with
        | some t => evalIdentifier t env true
        | none => throw "identifier expected"
      let rest ← evalInRange env v es
      pure (if v.type == o.type then o :: rest else rest)
end

/-- `evalConditional` -/
def evalCondition (env : Env) (e : Expr) : EvalM Bool := do
  if (identOf e).isSome then throw "syntax error: a lone attribute is not a condition"
  let o ← eval env e
  match o with
  | .bool b => pure b
  | _ => throw "a condition must evaluate to a BOOL"

/-! ### updates -/

mutual
  /-- `EvalUpdate` on the right-hand side of an action -/
  def evalUpdateOperand (env : Env) : Expr → EvalM Obj
    | .ident tok => evalIdentifier tok env true
    | .index op left idx => evalIndex env (.index op left idx)
    | .inf op left right => do
      if op.typ != .plus && op.typ != .minus then throw "unknown operator"
      let l ← evalUpdateOperand env left
      let r ← evalUpdateOperand env right
      match l, r with
      | .num a, .num b => pure (.num (if op.typ == .plus then F64.add a b else F64.sub a b))
      | _, _ => throw "invalid operation"
    | .call fn args => do
      let (name, arity) ← fnLookup fn true
      let vals ← evalUpdateOperands env args
      if vals.length != arity then throw "incorrect number of operands"
      callFn name vals
    | _ => throw "unsupported expression"
  def evalUpdateOperands (env : Env) : List Expr → EvalM (List Obj)
    | [] => pure []
    | e :: es => do
      let v ← evalUpdateOperand env e
      let vs ← evalUpdateOperands env es
      pure (v :: vs)
end

def setNth (xs : List Obj) (n : Nat) (v : Obj) : List Obj :=
  if n < xs.length then xs.set n v else xs ++ [v]

/-- apply `f` to the object reached from `o` by the accessors in `path` (the accessor
    next to the root first) and rebuild the containers on the way back.  The Go code
    walks with `Get`, ignores what it gets (undefined, hole, error object) and then
    fails at the final `Set`/`Remove`, so any miss on the way fails the whole action. -/
def modifyAt (f : Obj → EvalM Obj) : List Accessor → Obj → EvalM Obj
  | [], o => f o
  | .pos i :: rest, .list xs =>
    if i < 0 then throw "index out of range" else
    match xs[i.toNat]? with
    | some .hole | none => throw "index assignation/removal for NULL is not supported"
    | some o => do
      let o' ← modifyAt f rest o
      pure (.list (xs.set i.toNat o'))
  | .key k :: rest, .map kvs =>
    match alookup k kvs with
    | some o => do
      let o' ← modifyAt f rest o
      pure (.map (ainsert k o' kvs))
    | none => throw "index assignation/removal for NULL is not supported"
  | _ :: _, _ => throw "index operator not supported"

/-- the unchecked walk of `evalActionRemove` (`obj = pos.Get(obj)` for all but the first position,
    from the root outwards): what `Get` answers, an error object being treated like any value -/
def walkLoose (o : Obj) : List Accessor → EvalM Obj
  | [] => pure o
  | a :: rest => do
    let o' ← walkLoose o rest
    a.get o'

/-- `indexAccessor.Set` on the container that holds the target -/
def Accessor.setIn (a : Accessor) (v : Obj) (container : Obj) : EvalM Obj :=
  match a, container with
  | .pos i, .list xs => if i < 0 then throw "list index out of range" else pure (.list (setNth xs i.toNat v))
  | .key k, .map kvs => pure (.map (sortAssoc (ainsert k v kvs)))
  | .pos _, .map kvs => pure (.map kvs)          -- Map with a list accessor: silently nothing
  | _, _ => throw "index assignation is not supported"

/-- `indexAccessor.Remove` -/
def Accessor.removeIn (a : Accessor) (container : Obj) : EvalM Obj :=
  match a, container with
  | .pos i, .list xs =>
    if 0 ≤ i && i.toNat < xs.length then pure (.list (xs.set i.toNat .hole)) else pure (.list xs)
  | .key k, .map kvs => pure (.map (aerase k kvs))
  | .pos _, .map kvs => pure (.map kvs)
  | _, _ => throw "index removal is not supported"

/-- write `f` applied at path `ps` (outermost first) below the root attribute `root` -/
def modifyPath (env : Env) (root : Token) (o : Obj) (ps : List Accessor) (f : Accessor → Obj → EvalM Obj) :
    EvalM Env :=
  match ps with
  | [] => throw "no accessor"
  | last :: inner => do
    -- `inner` leads from the root (its end) to the container of the target
    let o' ← modifyAt (f last) inner.reverse o
    let n := env.resolveName root.lit
    if !ahas n env.store then throw "root attribute is not a stored attribute (dotted alias): not modelled"
    pure (env.markModified root.lit |> fun e => { e with store := ainsert n o' e.store })

def rootIdent : Expr → Option Token
  | .ident t => some t
  | .index _ left _ => rootIdent left
  | _ => none

/-- `Number.Add`, `List.Add`, `StringSet.Add`, `BinarySet.Add`, `NumberSet.Add` -/
def addTo (o v : Obj) : EvalM Obj :=
  match o with
  | .num a => match v with
    | .num b => pure (.num (F64.add a b))
    | _ => throw "Incorrect operand type"
  | .list xs => match v with
    | .list ys => pure (.list (xs ++ ys))
    | _ => pure (.list (xs ++ [v]))
  | .sset xs => match v with
    | .sset ys => pure (.sset (ys.foldl (fun acc y => ssetInsert y acc) xs))
    | .str s => pure (.sset (ssetInsert s xs))
    | _ => throw "Incorrect operand type"
  | .bset xs => match v with
    | .bset ys => pure (.bset (ys.foldl (fun acc y => bsetAdd y acc) xs))
    | .bin s => pure (.bset (bsetAdd s xs))
    | _ => throw "Incorrect operand type"
  | .nset xs => match v with
    | .nset ys => pure (.nset (ys.foldl (fun acc y => nsetInsert y acc) xs))
    | .num f => pure (.nset (nsetInsert f xs))
    | _ => throw "Incorrect operand type"
  | _ => throw "an operand in the update expression has an incorrect data type"

/-- `StringSet.Delete`, `BinarySet.Delete`, `NumberSet.Delete` -/
def deleteFrom (o v : Obj) : EvalM Obj :=
  match o with
  | .sset xs => match v with
    | .sset ys => pure (.sset (xs.filter fun x => !ys.contains x))
    | .str s => pure (.sset (xs.filter (· != s)))
    | _ => throw "Incorrect operand type"
  | .bset xs => match v with
    | .bset ys => pure (.bset (xs.filter fun x => !ys.contains x))
    | .bin s => pure (.bset (xs.filter (· != s)))
    | _ => throw "Incorrect operand type"
  | .nset xs => match v with
    | .nset ys => pure (.nset (xs.filter fun x => !ys.any (F64.eq x)))
    | .num f => pure (.nset (xs.filter fun x => !F64.eq x f))
    | _ => throw "Incorrect operand type"
  | _ => throw "an operand in the update expression has an incorrect data type"

def isEmptySet : Obj → Bool
  | .sset xs => xs.isEmpty
  | .nset xs => xs.isEmpty
  | .bset xs => xs.isEmpty
  | _ => false

/-- `evalAction` with the right-hand side already evaluated -/
def evalAction (env : Env) (op : Tok) (left : Expr) (val : Obj) : EvalM Env :=
  match op with
  | .set =>
    match left with
    | .ident t => do
      let _ ← evalIdentifier t env true
      pure (env.set t.lit val)
    | .index _ _ _ => do
      let (ps, root, o) ← evalIndexPositions env left
      modifyPath env root o ps (fun a c => a.setIn val c)
    | _ => throw "invalid assignation"
  | .add =>
    match left with
    | .ident t => do
      let o ← evalIdentifier t env true
      match o with
      | .null true => pure (env.set t.lit val)
      | _ => do
        let o' ← addTo o val
        let n := env.resolveName t.lit
        pure ({ env.markModified t.lit with store := ainsert n o' env.store })
    | _ => pure env
  | .delete =>
    match left with
    | .ident t => do
      let o ← evalIdentifier t env true
      match o with
      | .null true => pure env
      | _ => do
        let o' ← deleteFrom o val
        let n := env.resolveName t.lit
        let env' := { env.markModified t.lit with store := ainsert n o' env.store }
        -- a set that became empty is removed
        pure (if isEmptySet o' then env'.remove t.lit else env')
    | _ => pure env
  | .remove =>
    match left with
    | .ident t => do
      let _ ← evalIdentifier t env true
      pure (env.remove t.lit)
    | .index _ _ _ => do
      let (ps, root, o) ← evalIndexPositions env left
      -- the container of the target, reached with `Get` (unchecked); undefined: nothing to remove
      let container ← walkLoose o (ps.drop 1)
      if container.isUndefined then pure env
      else modifyPath env root o ps (fun a c => a.removeIn c)
    | _ => throw "invalid remove"
  | _ => throw "unknown update action type"

/-- first pass of `evalUpdateExpression`: all right-hand sides against the unmodified env -/
def evalRights (env : Env) : List Expr → EvalM (List (Tok × Expr × Obj))
  | [] => pure []
  | .action op left right :: rest => do
    let v ← if op.typ == .remove then pure Obj.undefined else evalUpdateOperand env right
    let vs ← evalRights env rest
    pure ((op.typ, left, v) :: vs)
  | _ :: _ => throw "invalid infix action"

def applyActions (env : Env) : List (Tok × Expr × Obj) → EvalM Env
  | [] => pure env
  | (op, left, v) :: rest => do
    let env' ← evalAction env op left v
    applyActions env' rest

/-- `EvalUpdate` on the statement -/
def evalUpdate (env : Env) (e : Expr) : EvalM Env :=
  match e with
  | .update _ actions =>
    if actions.isEmpty then throw "expression must have at least one action"
    else do
      let vs ← evalRights env actions
      let env' ← applyActions env vs
      pure env'.compact
  | _ => throw "invalid update expression"

end Eval
end Minidyn
