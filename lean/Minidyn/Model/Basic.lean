/-
  Minidyn.Model.Basic — byte strings, orders, association lists, sorting.

  Go strings are arbitrary byte sequences and every comparison the code under
  test performs on them (`<`, `sort.Strings`, `strings.Compare`, map lookup) is
  bytewise.  Bytes are modelled as `List Nat`; theorems quantify over all
  `List Nat`, a superset of real byte strings.  All definitions are
  structurally recursive so that the kernel can evaluate them (`decide`).
-/
namespace Minidyn

abbrev Bytes := List Nat

namespace Bytes

/-- lexicographic comparison, as Go's string `<` -/
def cmp : Bytes → Bytes → Ordering
  | [], [] => .eq
  | [], _ :: _ => .lt
  | _ :: _, [] => .gt
  | a :: as, b :: bs =>
    if a < b then .lt else if b < a then .gt else cmp as bs

def lt (a b : Bytes) : Bool := cmp a b == .lt
def le (a b : Bytes) : Bool := cmp a b != .gt

def isPrefixOf : Bytes → Bytes → Bool
  | [], _ => true
  | _ :: _, [] => false
  | a :: as, b :: bs => a == b && isPrefixOf as bs

/-- `strings.Contains` / `bytes.Contains` -/
def isInfixOf (needle : Bytes) : Bytes → Bool
  | [] => needle.isEmpty
  | h :: t => isPrefixOf needle (h :: t) || isInfixOf needle t

def ofString (s : String) : Bytes := s.toUTF8.toList.map (·.toNat)

def hexDigit (n : Nat) : Char :=
  if n < 10 then Char.ofNat (48 + n) else Char.ofNat (87 + n)

def toHex (b : Bytes) : String :=
  String.ofList (b.flatMap fun x => [hexDigit (x / 16 % 16), hexDigit (x % 16)])

def hexVal (c : Char) : Option Nat :=
  let n := c.toNat
  if 48 ≤ n ∧ n ≤ 57 then some (n - 48)
  else if 97 ≤ n ∧ n ≤ 102 then some (n - 87)
  else if 65 ≤ n ∧ n ≤ 70 then some (n - 55)
  else none

def ofHexChars : List Char → Option Bytes
  | [] => some []
  | [_] => none
  | a :: b :: rest => do
    let x ← hexVal a
    let y ← hexVal b
    let r ← ofHexChars rest
    pure ((x * 16 + y) :: r)

def ofHex (s : String) : Option Bytes := ofHexChars s.toList

/-- decimal rendering of a natural number, as bytes -/
def ofNat (n : Nat) : Bytes := ofString (toString n)

end Bytes

/-! ### association lists (Go maps) -/

def alookup {β} (k : Bytes) : List (Bytes × β) → Option β
  | [] => none
  | (k', v) :: t => if k' == k then some v else alookup k t

def aerase {β} (k : Bytes) : List (Bytes × β) → List (Bytes × β)
  | [] => []
  | (k', v) :: t => if k' == k then aerase k t else (k', v) :: aerase k t

/-- replace in place if present, else append -/
def ainsert {β} (k : Bytes) (v : β) : List (Bytes × β) → List (Bytes × β)
  | [] => [(k, v)]
  | (k', v') :: t => if k' == k then (k, v) :: t else (k', v') :: ainsert k v t

def ahas {β} (k : Bytes) (m : List (Bytes × β)) : Bool := (alookup k m).isSome

/-! ### insertion sort (structural; stands for `sort.Strings` / `sort.Slice`) -/

def insertBy {α} (le : α → α → Bool) (x : α) : List α → List α
  | [] => [x]
  | y :: ys => if le x y then x :: y :: ys else y :: insertBy le x ys

def sortBy {α} (le : α → α → Bool) : List α → List α
  | [] => []
  | x :: xs => insertBy le x (sortBy le xs)

def sortBytes (l : List Bytes) : List Bytes := sortBy Bytes.le l

/-- sort an association list by key (canonical output order) -/
def sortAssoc {β} (m : List (Bytes × β)) : List (Bytes × β) :=
  sortBy (fun a b => Bytes.le a.1 b.1) m

/-- first index `i` in `[0, n)` with `p i`, assuming `p` monotone: the literal
    loop of Go's `sort.Search` (binary search), with fuel. -/
def goSearchAux (p : Nat → Bool) : Nat → Nat → Nat → Nat
  | 0, i, _ => i
  | fuel + 1, i, j =>
    if i < j then
      let h := (i + j) / 2
      if !p h then goSearchAux p fuel (h + 1) j else goSearchAux p fuel i h
    else i

def goSearch (n : Nat) (p : Nat → Bool) : Nat := goSearchAux p (n + 1) 0 n

/-- `sort.SearchStrings` -/
def searchStrings (l : List Bytes) (x : Bytes) : Nat :=
  goSearch l.length (fun i => match l[i]? with | some y => Bytes.le x y | none => true)

def removeAt {α} : List α → Nat → List α
  | [], _ => []
  | _ :: t, 0 => t
  | h :: t, n + 1 => h :: removeAt t n

end Minidyn
