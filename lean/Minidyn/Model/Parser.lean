/-
  Minidyn.Model.Parser — interpreter/language/parser.go and ast.go.

  One Pratt parser with two configurations (condition / update).  The Go parser
  records errors and carries on; the only thing observable of a parse with errors is
  that it has errors (`len(p.Errors()) != 0` makes Match/Update return a syntax error
  before anything is evaluated), so the model stops at the first error.  The mutually
  recursive parse functions are written with a `fuel` argument to stay structurally
  recursive (kernel-reducible); `Props/C09` proves that the fuel handed out by
  `parseCond`/`parseUpdate` is never exhausted.
-/
import Minidyn.Model.Lexer
namespace Minidyn

inductive Expr where
  | nil                                         -- absent right-hand side of a REMOVE action
  | ident (tok : Token)                         -- `parseIdentifier` accepts whatever token is current
  | pre (op : Token) (right : Expr)             -- NOT
  | inf (op : Token) (left right : Expr)
  | call (fn : Expr) (args : List Expr)
  | index (op : Token) (left : Expr) (idx : Token)
  | between (left : Expr) (lo hi : Token)
  | isIn (left : Expr) (range : List Expr)
  | update (op : Token) (actions : List Expr)
  | action (op : Token) (left right : Expr)
deriving Repr, Inhabited

inductive PMode where | cond | upd
deriving Repr, BEq, DecidableEq

namespace Parser

/-- the `iota` block of parser.go -/
def pLowest : Nat := 1
def pOr : Nat := 2
def pAnd : Nat := 3
def pNot : Nat := 4
def pEquals : Nat := 5
def pBetween : Nat := 6
def pCompare : Nat := 7
def pOperators : Nat := 8
def pCall : Nat := 9
def pIndex : Nat := 10
def pIn : Nat := 11

/-- `precedences`, with `precedenceValueLowset` for tokens not in the table -/
def prec : Tok → Nat
  | .eq | .neq => pEquals
  | .between => pBetween
  | .lt | .gt | .lte | .gte => pCompare
  | .and => pAnd
  | .or => pOr
  | .plus | .minus => pOperators
  | .lparen => pCall
  | .lbracket | .dot => pIndex
  | .in_ => pIn
  | _ => pLowest

inductive InfixFn where | infix | index | between | call | isIn
deriving Repr, BEq, DecidableEq

/-- `registerInfix` calls of `NewParser` / `NewUpdateParser` -/
def infixFn : PMode → Tok → Option InfixFn
  | .cond, .eq | .cond, .neq | .cond, .lt | .cond, .gt | .cond, .lte | .cond, .gte
  | .cond, .and | .cond, .or => some .infix
  | .cond, .lbracket | .cond, .dot => some .index
  | .cond, .between => some .between
  | .cond, .lparen => some .call
  | .cond, .in_ => some .isIn
  | .upd, .lbracket | .upd, .dot => some .index
  | .upd, .lparen => some .call
  | .upd, .plus | .upd, .minus => some .infix
  | _, _ => none

inductive PrefixFn where | ident | not | group | updateAction
deriving Repr, BEq, DecidableEq

/-- `registerPrefix` calls -/
def prefixFn : PMode → Tok → Option PrefixFn
  | _, .ident => some .ident
  | .cond, .not => some .not
  | _, .lparen => some .group
  | .upd, .set | .upd, .add | .upd, .remove | .upd, .delete => some .updateAction
  | _, _ => none

def eofTok : Token := ⟨.eof, []⟩

def cur (ts : List Token) : Token := ts.headD eofTok
def peek (ts : List Token) : Token := ts.tail.headD eofTok
def next (ts : List Token) : List Token := ts.tail

/-- parser state: remaining tokens (head = `curToken`) and the update clauses seen -/
structure PS where
  ts : List Token
  used : List Tok := []
deriving Repr

inductive PR (α : Type) where
  | ok (a : α) (s : PS)
  | err
  | outOfFuel
deriving Repr

def isUpdateTok (t : Tok) : Bool := t == .set || t == .add || t == .remove || t == .delete

mutual
  /-- `parseExpression(precedence)` -/
  def parseExpr (m : PMode) : Nat → Nat → PS → PR Expr
    | 0, _, _ => .outOfFuel
    | fuel + 1, p, s =>
      match prefixFn m (cur s.ts).typ with
      | none => .err
      | some .ident => infixLoop m fuel p (.ident (cur s.ts)) s
      | some .not =>
        let op := cur s.ts
        match parseExpr m fuel pNot { s with ts := next s.ts } with
        | .ok r s' => infixLoop m fuel p (.pre op r) s'
        | .err => .err
        | .outOfFuel => .outOfFuel
      | some .group =>
        match parseExpr m fuel pLowest { s with ts := next s.ts } with
        | .ok e s' =>
          if (peek s'.ts).typ == .rparen then infixLoop m fuel p e { s' with ts := next s'.ts }
          else .err
        | .err => .err
        | .outOfFuel => .outOfFuel
      | some .updateAction =>
        match parseUpdateAction m fuel s with
        | .ok e s' => infixLoop m fuel p e s'
        | .err => .err
        | .outOfFuel => .outOfFuel

  /-- the `for !p.peekTokenIs(EOF) && precedence < p.peekPrecedence()` loop -/
  def infixLoop (m : PMode) : Nat → Nat → Expr → PS → PR Expr
    | 0, _, _, _ => .outOfFuel
    | fuel + 1, p, left, s =>
      let pk := peek s.ts
      if pk.typ == .eof || !(p < prec pk.typ) then .ok left s
      else match infixFn m pk.typ with
        | none => .ok left s
        | some fn =>
          let s1 := { s with ts := next s.ts }   -- p.nextToken(): cur is now the operator
          let op := cur s1.ts
          match fn with
          | .infix =>
            match parseExpr m fuel (prec op.typ) { s1 with ts := next s1.ts } with
            | .ok r s' => infixLoop m fuel p (.inf op left r) s'
            | .err => .err
            | .outOfFuel => .outOfFuel
          | .index =>
            let s2 := { s1 with ts := next s1.ts }
            let idx := cur s2.ts
            if idx.typ != .ident then .err                      -- parseNameOperand
            else if op.typ == .dot then infixLoop m fuel p (.index op left idx) s2
            else if (peek s2.ts).typ == .rbracket then
              infixLoop m fuel p (.index op left idx) { s2 with ts := next s2.ts }
            else .err
          | .between =>
            let s2 := { s1 with ts := next s1.ts }
            let lo := cur s2.ts
            if lo.typ != .ident then .err                       -- parseNameOperand
            else if (peek s2.ts).typ == .and then
              let s3 := { s2 with ts := next (next s2.ts) }
              if (cur s3.ts).typ != .ident then .err
              else infixLoop m fuel p (.between left lo (cur s3.ts)) s3
            else .err
          | .call =>
            match parseArgs m fuel s1 with
            | .ok args s' => infixLoop m fuel p (.call left args) s'
            | .err => .err
            | .outOfFuel => .outOfFuel
          | .isIn =>
            if (peek s1.ts).typ != .lparen then .err            -- expectPeek(LPAREN)
            else match parseArgs m fuel { s1 with ts := next s1.ts } with
            | .ok args s' => if args.isEmpty then .err else infixLoop m fuel p (.isIn left args) s'
            | .err => .err
            | .outOfFuel => .outOfFuel

  /-- `parseCallArguments` -/
  def parseArgs (m : PMode) : Nat → PS → PR (List Expr)
    | 0, _ => .outOfFuel
    | fuel + 1, s =>
      if (peek s.ts).typ == .rparen then .ok [] { s with ts := next s.ts }
      else
        match parseExpr m fuel pLowest { s with ts := next s.ts } with
        | .ok e s' => argsLoop m fuel [e] s'
        | .err => .err
        | .outOfFuel => .outOfFuel

  /-- the `for p.peekTokenIs(COMMA)` loop and the closing parenthesis -/
  def argsLoop (m : PMode) : Nat → List Expr → PS → PR (List Expr)
    | 0, _, _ => .outOfFuel
    | fuel + 1, acc, s =>
      if (peek s.ts).typ == .comma then
        match parseExpr m fuel pLowest { s with ts := next (next s.ts) } with
        | .ok e s' => argsLoop m fuel (acc ++ [e]) s'
        | .err => .err
        | .outOfFuel => .outOfFuel
      else if (peek s.ts).typ == .rparen then .ok acc { s with ts := next s.ts }
      else .err

  /-- `parseUpdateActionExpression` (with the repeated-clause check) and `parseActions` -/
  def parseUpdateAction (m : PMode) : Nat → PS → PR Expr
    | 0, _ => .outOfFuel
    | fuel + 1, s =>
      let op := cur s.ts
      if s.used.contains op.typ then .err
      else
        let s := { s with used := op.typ :: s.used }
        if (peek s.ts).typ == .eof then .ok (.update op []) s
        else
          match parseAction m fuel op { s with ts := next s.ts } with
          | .ok a s' =>
            match actionsLoop m fuel op [a] s' with
            | .ok acts s'' => .ok (.update op acts) s''
            | .err => .err
            | .outOfFuel => .outOfFuel
          | .err => .err
          | .outOfFuel => .outOfFuel

  /-- `parseAction` -/
  def parseAction (m : PMode) : Nat → Token → PS → PR Expr
    | 0, _, _ => .outOfFuel
    | fuel + 1, op, s =>
      match parseExpr m fuel pLowest s with
      | .ok left s1 =>
        if op.typ == .set && (peek s1.ts).typ != .eq then .err
        else
          let s2 := if op.typ == .set then { s1 with ts := next s1.ts } else s1
          if op.typ == .remove then .ok (.action op left .nil) s2
          else
            match parseExpr m fuel pLowest { s2 with ts := next s2.ts } with
            | .ok right s3 => .ok (.action op left right) s3
            | .err => .err
            | .outOfFuel => .outOfFuel
      | .err => .err
      | .outOfFuel => .outOfFuel

  /-- the `for p.peekTokenIs(COMMA) || p.tokenIsOneOf(updateTokens)` loop of `parseActions`
      and its final `expectPeek(EOF)` -/
  def actionsLoop (m : PMode) : Nat → Token → List Expr → PS → PR (List Expr)
    | 0, _, _, _ => .outOfFuel
    | fuel + 1, op, acc, s =>
      let pk := (peek s.ts).typ
      if pk == .comma then
        match parseAction m fuel op { s with ts := next (next s.ts) } with
        | .ok a s' => actionsLoop m fuel op (acc ++ [a]) s'
        | .err => .err
        | .outOfFuel => .outOfFuel
      else if isUpdateTok pk then
        match parseUpdateAction m fuel { s with ts := next s.ts } with
        | .ok (.update _ acts) s' => if acts.isEmpty then .err else actionsLoop m fuel op (acc ++ acts) s'
        | .ok _ s' => actionsLoop m fuel op acc s'
        | .err => .err
        | .outOfFuel => .outOfFuel
      else if pk == .eof then .ok acc { s with ts := next s.ts }
      else .err
end

/-- fuel handed to the parser for `n` tokens -/
def fuelFor (n : Nat) : Nat := 6 * n + 10

inductive ParseResult where
  | ok (e : Expr)
  | syntaxErr
  | outOfFuel
deriving Repr

/-- `NewParser` + `ParseConditionalExpression`: `Expr` of the whole input -/
def parseCondTokens (ts : List Token) : ParseResult :=
  if ts.isEmpty then .syntaxErr                                  -- empty input
  else if (cur ts).typ == .ident && (peek ts).typ == .eof then .syntaxErr
  else match parseExpr .cond (fuelFor ts.length) pLowest { ts := ts } with
    | .ok e s => if (next s.ts).isEmpty then .ok e else .syntaxErr   -- juxtaposed expressions
    | .err => .syntaxErr
    | .outOfFuel => .outOfFuel

/-- `NewUpdateParser` + `ParseUpdateExpression`; an empty input yields a statement
    without expression, which `EvalUpdate` rejects ("invalid update expression") -/
def parseUpdateTokens (ts : List Token) : ParseResult :=
  if ts.isEmpty then .syntaxErr
  else match parseExpr .upd (fuelFor ts.length) pLowest { ts := ts } with
    | .ok e s => if (next s.ts).isEmpty then .ok e else .syntaxErr
    | .err => .syntaxErr
    | .outOfFuel => .outOfFuel

def parseCond (s : Bytes) : ParseResult := parseCondTokens (Lexer.lex s)
def parseUpdate (s : Bytes) : ParseResult := parseUpdateTokens (Lexer.lex s)

end Parser
end Minidyn
