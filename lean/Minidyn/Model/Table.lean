/-
  Minidyn.Model.Table — core/key_schema.go, core/types.go (getItemValue/getGoValue),
  core/index.go and core/table.go: key strings, the sorted-key table, secondary
  indexes, single-item writes and `SearchData`.

  The three places where the code evaluates an expression are parameters
  (`Matcher`, `Updater`), so the theorems about the table hold for every interpreter
  (the expression language of `Model.Interp` and native call-backs alike).
-/
import Minidyn.Model.Value
namespace Minidyn

structure KeySchema where
  hash : Bytes
  range : Bytes := []          -- `""` when the schema has no range key
  secondary : Bool := false
deriving Repr, BEq, DecidableEq, Inhabited

inductive KeyErr where
  | missing      -- errMissingField
  | invalidType  -- ErrInvalidAtrributeValue
deriving Repr, BEq, DecidableEq

namespace Key

/-- Go's `fmt.Sprintf("%v", []byte{…})`: `[97 98]` -/
def renderBinary (b : Bytes) : Bytes :=
  let rec go : Bytes → Bytes
    | [] => []
    | [x] => Bytes.ofNat x
    | x :: xs => Bytes.ofNat x ++ [32] ++ go xs
  [91] ++ go b ++ [93]

/-- `getGoValue` for the key types the generators use (S, N, B) followed by `%v`;
    `none` when the attribute has not the declared type (or the type is not a key type) -/
def render (v : AV) (typ : Bytes) : Option Bytes :=
  match v with
  | .s x => if typ == [83] then some x else none
  | .n x => if typ == [78] then some x else none
  | .b x => if typ == [66] then some (renderBinary x) else none
  | _ => none

def itemValue (attrs : List (Bytes × Bytes)) (item : Item) (field : Bytes) : Except KeyErr Bytes :=
  match alookup field item with
  | none => .error .missing
  | some v =>
    match render v ((alookup field attrs).getD []) with
    | some s => .ok s
    | none => .error .invalidType

/-- `hashKeyEscaper`: `\` ↦ `\\`, `.` ↦ `\.` -/
def escape : Bytes → Bytes
  | [] => []
  | c :: cs => if c == 92 || c == 46 then 92 :: c :: escape cs else c :: escape cs

/-- an empty string, number or binary value -/
def emptyValue : AV → Bool
  | .s x | .n x | .b x => x.isEmpty
  | _ => false

/-- `keySchema.getKeyAttributeValue`: a primary key attribute cannot be empty -/
def keyAttrValue (ks : KeySchema) (attrs : List (Bytes × Bytes)) (item : Item) (field : Bytes) : Except KeyErr Bytes := do
  let s ← itemValue attrs item field
  if !ks.secondary && ((alookup field item).map emptyValue).getD false then throw .invalidType
  pure s

/-- `keySchema.getKeyValue` -/
def keyValue (ks : KeySchema) (attrs : List (Bytes × Bytes)) (item : Item) : Except KeyErr Bytes := do
  let h ← keyAttrValue ks attrs item ks.hash
  if ks.range.isEmpty then pure h
  else do
    let r ← keyAttrValue ks attrs item ks.range
    pure (escape h ++ [46] ++ r)

/-- `keySchema.GetKey`: secondary indexes are sparse, a missing attribute is the empty key -/
def getKey (ks : KeySchema) (attrs : List (Bytes × Bytes)) (item : Item) : Except KeyErr Bytes :=
  match keyValue ks attrs item with
  | .error .missing => if ks.secondary then .ok [] else .error .missing
  | r => r

/-- `keySchema.getKeyItem` -/
def keyItem (ks : KeySchema) (item : Item) : Item :=
  (match alookup ks.hash item with | some v => [(ks.hash, v)] | none => []) ++
  (if ks.range.isEmpty then [] else match alookup ks.range item with | some v => [(ks.range, v)] | none => [])

end Key

inductive IndexType where | global | loc
deriving Repr, BEq, DecidableEq, Inhabited

structure Index where
  schema : KeySchema
  typ : IndexType
  refs : List (Bytes × Bytes) := []     -- primary key ↦ index key
  sortedKeys : List Bytes := []
deriving Repr, Inhabited

namespace Index

/-- `index.remove` -/
def remove (ix : Index) (key : Bytes) : Index :=
  match alookup key ix.refs with
  | none => ix
  | some ik =>
    let refs := aerase key ix.refs
    let pos := searchStrings ix.sortedKeys ik
    if pos == ix.sortedKeys.length || ix.sortedKeys[pos]? != some ik then { ix with refs := refs }
    else { ix with refs := refs, sortedKeys := removeAt ix.sortedKeys pos }

/-- `index.set` (putData / updateData) -/
def set (ix : Index) (attrs : List (Bytes × Bytes)) (key : Bytes) (item : Item) : Except KeyErr Index :=
  match Key.getKey ix.schema attrs item with
  | .error e => .error e
  | .ok ik =>
    let ix := ix.remove key
    if ik.isEmpty then .ok ix
    else .ok { ix with refs := ainsert key ik ix.refs, sortedKeys := sortBytes (ix.sortedKeys ++ [ik]) }

def clear (ix : Index) : Index := { ix with refs := [], sortedKeys := [] }

/-- `lessKey` -/
def lessRef (a b : Bytes × Bytes) : Bool :=
  match Bytes.cmp a.2 b.2 with
  | .lt => true
  | .gt => false
  | .eq => Bytes.lt a.1 b.1

/-- `startSearch`: the references sorted by (index key, primary key); descending when the
    scan is backwards (`!less`, a strict order because the pairs are distinct) -/
def sortedRefs (ix : Index) (forward : Bool) : List (Bytes × Bytes) :=
  let asc := sortBy (fun a b => lessRef a b || a == b) ix.refs
  if forward then asc else asc.reverse

end Index

/-- what an expression evaluation can do: answer, or fail with the error the interpreter
    returns (which `interpreterMatch` turns into a panic) -/
inductive MatchOut where
  | ok (b : Bool)
  | panic (cls : String)
deriving Repr, BEq, DecidableEq

inductive ExprKind where | key | filter | cond
deriving Repr, BEq, DecidableEq

/-- `Table.interpreterMatch` for one expression kind, text, placeholders -/
abbrev Matcher := ExprKind → Bytes → Item → MatchOut

structure Table where
  name : Bytes
  schema : KeySchema
  attrs : List (Bytes × Bytes) := []
  sortedKeys : List Bytes := []
  data : List (Bytes × Item) := []
  indexes : List (Bytes × Index) := []
  billing : Bytes := []
deriving Repr, Inhabited

namespace Table

def getItem (t : Table) (key : Bytes) : Item := (alookup key t.data).getD []

/-- `setItem` -/
def setItem (t : Table) (key : Bytes) (item : Item) : Table :=
  if ahas key t.data then { t with data := ainsert key item t.data }
  else { t with data := ainsert key item t.data, sortedKeys := sortBytes (t.sortedKeys ++ [key]) }

def validateIndexKeys (t : Table) (item : Item) : Bool :=
  t.indexes.all fun (_, ix) => (Key.getKey ix.schema t.attrs item).toBool

def mapIndexes (t : Table) (f : Index → Index) : Table :=
  { t with indexes := t.indexes.map fun (n, ix) => (n, f ix) }

/-- write the item into every index; cannot fail after `validateIndexKeys` -/
def indexSet (t : Table) (key : Bytes) (item : Item) : Table :=
  t.mapIndexes fun ix => match ix.set t.attrs key item with | .ok ix' => ix' | .error _ => ix

inductive WriteErr where
  | validation
  | conditionFailed (old : Item)
  | panic (cls : String)          -- the documented panic of an interpreter error
  | interp (cls : String)         -- error returned by the update interpreter
deriving Repr, BEq

/-- `matchKey` as used by the conditional writes: only the condition expression -/
def checkCondition (m : Matcher) (cond : Option Bytes) (stored : Item) : Except WriteErr Unit :=
  match cond with
  | none => .ok ()
  | some c =>
    if c.isEmpty then .error (.conditionFailed stored)     -- matched stays `input.Scan = false`
    else match m .cond c stored with
      | .ok true => .ok ()
      | .ok false => .error (.conditionFailed stored)
      | .panic cls => .error (.panic cls)

/-- `Table.Put` -/
def put (t : Table) (m : Matcher) (item : Item) (cond : Option Bytes) : Except WriteErr Table :=
  match Key.getKey t.schema t.attrs item with
  | .error _ => .error .validation
  | .ok key => do
    checkCondition m cond (t.getItem key)
    if !t.validateIndexKeys item then .error .validation
    else pure ((t.setItem key item).indexSet key item)

/-- what `interpreterUpdate` does to an item -/
abbrev Updater := Item → Except String Item

/-- `Table.Update`; returns the table and the resulting item -/
def update (t : Table) (m : Matcher) (upd : Updater) (keyAttrs : Item) (cond : Option Bytes) :
    Except WriteErr (Table × Item) :=
  match Key.getKey t.schema t.attrs keyAttrs with
  | .error _ => .error .validation
  | .ok key => do
    let stored := alookup key t.data
    checkCondition m cond (stored.getD [])
    let base := stored.getD keyAttrs
    match upd base with
    | .error cls => .error (.interp cls)
    | .ok item =>
      if !t.validateIndexKeys item then .error .validation
      else pure ((t.setItem key item).indexSet key item, item)

/-- `Table.Delete`; returns the table and the deleted item (`none` when there was none) -/
def delete (t : Table) (m : Matcher) (keyAttrs : Item) (cond : Option Bytes) :
    Except WriteErr (Table × Option Item) :=
  match Key.getKey t.schema t.attrs keyAttrs with
  | .error _ => .error .validation
  | .ok key => do
    checkCondition m cond (t.getItem key)
    match alookup key t.data with
    | none => pure (t, none)
    | some item =>
      let data := aerase key t.data
      let pos := searchStrings t.sortedKeys key
      if pos == t.sortedKeys.length then pure ({ t with data := data }, some item)
      else
        let t' := { t with data := data, sortedKeys := removeAt t.sortedKeys pos }
        pure (t'.mapIndexes fun ix => ix.remove key, some item)

/-- `Table.Clear` and `index.Clear` as `ClearTable` calls them -/
def clear (t : Table) : Table :=
  { t with data := [], sortedKeys := [], indexes := t.indexes.map fun (n, ix) => (n, ix.clear) }

/-! ### SearchData -/

structure Query where
  index : Bytes := []
  limit : Nat := 0
  startKey : Item := []
  keyCond : Bytes := []
  filter : Bytes := []
  forward : Bool := true
  scan : Bool := false
deriving Repr, Inhabited

structure SearchStart where
  key : Bytes
  indexKey : Bytes := []
deriving Repr

/-- `parseSearchStart` (errors of `GetKey` are dropped: the key is then empty) -/
def parseSearchStart (t : Table) (ix : Option Index) (esk : Item) : SearchStart :=
  let key := if esk.isEmpty then [] else (Key.getKey t.schema t.attrs esk).toOption.getD []
  match ix with
  | some ix => if key.isEmpty then { key } else { key, indexKey := (Key.getKey ix.schema t.attrs esk).toOption.getD [] }
  | none => { key }

/-- `searchStart.isAfter` -/
def isAfter (s : SearchStart) (onIndex : Bool) (k pk : Bytes) (forward : Bool) : Bool :=
  if onIndex && s.indexKey.isEmpty then false else
  let c0 := Bytes.cmp pk s.key
  let c := if onIndex then (match Bytes.cmp k s.indexKey with | .eq => c0 | c => c) else c0
  if forward then c == .gt else c == .lt

/-- `matchKey` inside a search; `none` is "no expression evaluated" (`""`) -/
def matchKey (m : Matcher) (q : Query) (item : Item) : Except String (Option ExprKind × Bool) := do
  let (ty, matched) ←
    if q.keyCond.isEmpty then pure (none, q.scan)
    else match m .key q.keyCond item with
      | .ok b => pure (some ExprKind.key, b)
      | .panic c => throw c
  if q.filter.isEmpty then pure (ty, matched)
  else if !matched then pure (some .filter, false)      -- `matched && …` short-circuits
  else match m .filter q.filter item with
    | .ok b => pure (some .filter, b)
    | .panic c => throw c

def shouldCount (ty : Option ExprKind) (matched : Bool) : Bool :=
  match ty with
  | none => true
  | some .filter => true
  | some .key => matched
  | some .cond => false

structure SearchState where
  started : Bool
  refs : List (Bytes × Bytes)       -- `sortedRefs`, consumed one per iteration on an index
  items : List Item := []           -- matched items, newest first
  count : Nat := 0
  scanned : Nat := 0
  last : Item := []
deriving Repr

/-- `getPrimaryKey`: on an index the primary key comes from the next sorted reference -/
def getPrimaryKey (onIndex : Bool) (st : SearchState) (k : Bytes) : Option Bytes × SearchState :=
  if onIndex then
    match st.refs with
    | (pk, ik) :: rest => (if k == ik then some pk else none, { st with refs := rest })
    | [] => (none, st)
  else (some k, st)

/-- `prepareSearch`: whether this position is past the exclusive start key -/
def prepareSearch (start : SearchStart) (onIndex forward : Bool) (st : SearchState) (k pk : Bytes) :
    Bool × SearchState :=
  if st.started then (true, st)
  else if isAfter start onIndex k pk forward then (true, { st with started := true })
  else if pk == start.key then (false, { st with started := true })
  else (false, st)

/-- `getMatchedItemAndCount` and the bookkeeping after it; the flag is `break` -/
def processItem (t : Table) (m : Matcher) (q : Query) (st : SearchState) (pk : Bytes) :
    Except String (SearchState × Bool) := do
  let stored := alookup pk t.data
  let item := stored.getD []
  let (ty, matched0) ← matchKey m q item
  let matched := if stored.isSome && !(st.started && matched0) then false else true
  let st := { st with
    items := if matched then item :: st.items else st.items,
    scanned := st.scanned + 1,
    count := if shouldCount ty matched then st.count + 1 else st.count,
    last := item }
  pure (st, q.limit != 0 && q.limit == st.count)

/-- the body of the `for pos := range sortedKeys` loop; the flag is `break` -/
def searchStep (t : Table) (m : Matcher) (q : Query) (onIndex : Bool) (start : SearchStart)
    (st : SearchState) (k : Bytes) : Except String (SearchState × Bool) :=
  match getPrimaryKey onIndex st k with
  | (none, st) => pure ({ st with scanned := st.scanned + 1 }, false)
  | (some pk, st) =>
    match prepareSearch start onIndex q.forward st k pk with
    | (false, st) => pure ({ st with scanned := st.scanned + 1 }, false)
    | (true, st) => processItem t m q st pk

def searchLoop (t : Table) (m : Matcher) (q : Query) (onIndex : Bool) (start : SearchStart) :
    SearchState → List Bytes → Except String SearchState
  | st, [] => pure st
  | st, k :: ks => do
    let (st', stop) ← searchStep t m q onIndex start st k
    if stop then pure st' else searchLoop t m q onIndex start st' ks

structure SearchResult where
  items : List Item
  lastKey : Item
deriving Repr

/-- `Table.SearchData`; the error is the class of the panic raised by `interpreterMatch`.
    An index name that the table does not have is rejected by the clients beforehand. -/
def searchData (t : Table) (m : Matcher) (q : Query) : Except String SearchResult := do
  let ix : Option Index := if q.index.isEmpty then none else alookup q.index t.indexes
  let keys := match ix with
    | some ix => ix.sortedKeys
    | none => t.sortedKeys
  let order := if q.forward then keys else keys.reverse
  let start := parseSearchStart t ix q.startKey
  let st0 : SearchState := { started := start.key.isEmpty,
                             refs := match ix with | some ix => ix.sortedRefs q.forward | none => [] }
  let st ← searchLoop t m q ix.isSome start st0 order
  -- getLastKey
  let lek :=
    if st.last.isEmpty || q.limit == 0 || !(st.scanned ≤ keys.length && q.limit ≤ st.count) then []
    else
      let base := Key.keyItem t.schema st.last
      match ix with
      | some ix => (Key.keyItem ix.schema st.last).foldl (fun acc (k, v) => ainsert k v acc) base
      | none => base
  pure { items := st.items.reverse, lastKey := lek }

end Table
end Minidyn
