/-
  Minidyn.Model.Lexer — interpreter/language/lexer.go and token.go.
  The lexer is byte driven; `lex` returns the tokens before the final EOF (the Go
  lexer answers EOF forever once the input is exhausted, which the parser model
  represents by the empty rest).
-/
import Minidyn.Model.Basic
namespace Minidyn

inductive Tok where
  | illegal | ident
  | lt | lte | gt | gte | eq | neq
  | comma | lparen | rparen | lbracket | rbracket | dot
  | and | or | not | between | in_
  | set | remove | add | delete
  | plus | minus
  | eof
deriving Repr, BEq, DecidableEq, Inhabited

structure Token where
  typ : Tok
  lit : Bytes
deriving Repr, BEq, DecidableEq, Inhabited

namespace Lexer

def isLetter (c : Nat) : Bool := (97 ≤ c && c ≤ 122) || (65 ≤ c && c ≤ 90)
/-- `isIdentifierLetter`: letters, digits and the `especialChars` `_ : #` -/
def isIdentLetter (c : Nat) : Bool := isLetter c || (48 ≤ c && c ≤ 57) || c == 95 || c == 58 || c == 35
def isSpace (c : Nat) : Bool := c == 32 || c == 9 || c == 10 || c == 13

/-- `LookupIdent`: the keywords are matched case-sensitively -/
def lookupIdent (s : Bytes) : Tok :=
  if s == [65, 78, 68] then .and
  else if s == [79, 82] then .or
  else if s == [78, 79, 84] then .not
  else if s == [66, 69, 84, 87, 69, 69, 78] then .between
  else if s == [73, 78] then .in_
  else if s == [83, 69, 84] then .set
  else if s == [82, 69, 77, 79, 86, 69] then .remove
  else if s == [65, 68, 68] then .add
  else if s == [68, 69, 76, 69, 84, 69] then .delete
  else .ident

/-- the pending identifier (collected in reverse) becomes a token -/
def flush (cur : Bytes) : List Token :=
  if cur.isEmpty then [] else let s := cur.reverse; [⟨lookupIdent s, s⟩]

def single (c : Nat) : Option Tok :=
  if c == 61 then some .eq else if c == 40 then some .lparen else if c == 41 then some .rparen
  else if c == 44 then some .comma else if c == 43 then some .plus else if c == 45 then some .minus
  else if c == 91 then some .lbracket else if c == 93 then some .rbracket else if c == 46 then some .dot
  else none

def pendTok (pend : Nat) : List Token :=
  if pend == 60 then [⟨.lt, [60]⟩] else if pend == 62 then [⟨.gt, [62]⟩] else []

/-- one pass over the bytes; `cur` is the identifier being read (reversed), `pend` a `<`
    or `>` whose successor decides between `<`, `<=`, `<>`, `>`, `>=` (`peekChar`) -/
def lexAux : Bytes → Bytes → Nat → List Token
  | [], cur, pend => flush cur ++ pendTok pend
  | c :: cs, cur, pend =>
    if pend == 60 && c == 62 then ⟨.neq, [60, 62]⟩ :: lexAux cs [] 0
    else if pend == 60 && c == 61 then ⟨.lte, [60, 61]⟩ :: lexAux cs [] 0
    else if pend == 62 && c == 61 then ⟨.gte, [62, 61]⟩ :: lexAux cs [] 0
    else pendTok pend ++
      (if isIdentLetter c then lexAux cs (c :: cur) 0
       else flush cur ++
        (if isSpace c then lexAux cs [] 0
         else match single c with
          | some t => ⟨t, [c]⟩ :: lexAux cs [] 0
          | none =>
            if c == 60 || c == 62 then lexAux cs [] c
            else ⟨.illegal, [c]⟩ :: lexAux cs [] 0))

def lex (s : Bytes) : List Token := lexAux s [] 0

end Lexer
end Minidyn
