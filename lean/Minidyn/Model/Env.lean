/-
  Minidyn.Model.Env — interpreter/language/environment.go: the variable store of an
  evaluation, alias resolution, and the write-back of an update (`Apply`).
-/
import Minidyn.Model.Value
namespace Minidyn

structure Env where
  store : List (Bytes × Obj) := []
  aliases : List (Bytes × Bytes) := []
  /-- names of the attributes an update set, changed in place or removed -/
  modified : List Bytes := []
deriving Repr, Inhabited

abbrev EvalM := Except String

namespace Env

def resolveName (e : Env) (name : Bytes) : Bytes :=
  match alookup name e.aliases with
  | some a => a
  | none => name

/-- `strings.Split(name, ".")` -/
def splitDots (s : Bytes) : List Bytes :=
  let rec go : Bytes → Bytes → List Bytes
    | [], cur => [cur.reverse]
    | c :: cs, cur => if c == 46 then cur.reverse :: go cs [] else go cs (c :: cur)
  go s []

/-- `expandNameWithIndex`: the components of the name followed by the expansion of every
    component that is an alias and is not already being expanded.  `fuel` bounds the
    recursion depth; `Props/C09` shows `aliases.length + 1` is enough. -/
def expandName (e : Env) : Nat → Bytes → List Bytes → List Bytes
  | 0, name, _ => splitDots name
  | fuel + 1, name, expanding =>
    let names := splitDots name
    names ++ names.flatMap fun n =>
      match alookup n e.aliases with
      | some a => if expanding.contains n then [] else expandName e fuel a (n :: expanding)
      | none => []

/-- `getFromMap` -/
def getFromMap (o : Obj) (key : Bytes) : EvalM Obj :=
  match o with
  | .map kvs => pure ((alookup key kvs).getD Obj.undefined)
  | _ => throw "index operator not supported"

/-- the loop of `getFromIndexes` over `names[1:]`; `remaining` counts the names still to
    visit, the last of which may yield an error object that is returned unchecked
    (`i+2 == size` breaks before the `isError` test) — both are errors for the caller -/
def walkNames (e : Env) : Obj → List Bytes → EvalM Obj
  | o, [] => pure o
  | o, n :: rest => do
    let o' ← getFromMap o (e.resolveName n)
    walkNames e o' rest

/-- `Environment.Get` -/
def get (e : Env) (name : Bytes) : EvalM Obj :=
  let n := e.resolveName name
  match alookup n e.store with
  | some o => pure o
  | none =>
    match expandName e (e.aliases.length + 1) n [] with
    | [] => pure Obj.undefined
    | first :: rest =>
      match alookup first e.store with
      | none => pure Obj.undefined
      | some o => walkNames e o rest

/-- `AddAttributes` loads without marking, every attribute under its own name (aliases only stand
    for names inside the expression); `none` when `MapToObject` fails -/
def load (e : Env) : List (Bytes × AV) → Option Env
  | [] => some e
  | (k, v) :: rest => do
    let o ← v.toObj
    load { e with store := ainsert k o e.store } rest

def mark (e : Env) (n : Bytes) : Env :=
  if e.modified.contains n then e else { e with modified := e.modified ++ [n] }

/-- `Environment.Set` -/
def set (e : Env) (name : Bytes) (v : Obj) : Env :=
  let n := e.resolveName name
  mark { e with store := ainsert n v e.store } n

def markModified (e : Env) (name : Bytes) : Env := mark e (e.resolveName name)

/-- `Environment.Remove` -/
def remove (e : Env) (name : Bytes) : Env :=
  let n := e.resolveName name
  if ahas n e.store then mark { e with store := aerase n e.store } n else e

end Env

/- `List.Compact` applied to every list marked by a REMOVE: holes only exist in those -/
mutual
  def Obj.compact : Obj → Obj
    | .list xs => .list (Obj.compactList xs)
    | .map kvs => .map (Obj.compactKvs kvs)
    | o => o
  def Obj.compactList : List Obj → List Obj
    | [] => []
    | .hole :: xs => Obj.compactList xs
    | x :: xs => Obj.compact x :: Obj.compactList xs
  def Obj.compactKvs : List (Bytes × Obj) → List (Bytes × Obj)
    | [] => []
    | (k, x) :: xs => (k, Obj.compact x) :: Obj.compactKvs xs
end

namespace Env

def compact (e : Env) : Env := { e with store := e.store.map fun (k, o) => (k, o.compact) }

/-- `Environment.Apply`: write the modified attributes back, delete the removed ones -/
def apply (e : Env) (item : Item) (exclude : List Bytes) : Item :=
  e.modified.foldl (fun it k =>
    if exclude.contains k then it else
    match alookup k e.store with
    | none => aerase k it
    | some o => ainsert k o.toAV it) item

end Env
end Minidyn
