/-
  Minidyn.Model.Num — the numbers of the code under test.

  The interpreter parses every N value with `strconv.ParseFloat(s, 64)`, computes
  and compares in `float64` and writes numbers back with
  `strconv.FormatFloat(v, 'f', -1, 64)`.  Lean's `Float` is opaque to the kernel, so
  binary64 is modelled explicitly with integer arithmetic: a sign, a 53-bit mantissa
  and an unbounded binary exponent (overflow to ±Inf and subnormals lie outside
  DynamoDB's number range and outside the generators' domain; see DESIGN §10).
-/
import Minidyn.Model.Basic
namespace Minidyn

/-- an exact decimal `(-1)^neg · mant · 10^exp` -/
structure Dec where
  neg : Bool
  mant : Nat
  exp : Int
deriving Repr, BEq, DecidableEq

/-- a binary64 value `(-1)^neg · man · 2^exp`; `man = 0` or `2^52 ≤ man < 2^53` -/
structure F64 where
  neg : Bool
  man : Nat
  exp : Int
deriving Repr, BEq, DecidableEq

namespace Dec

def isDigit (c : Nat) : Bool := 48 ≤ c && c ≤ 57

def takeDigits : Bytes → List Nat × Bytes
  | [] => ([], [])
  | c :: cs => if isDigit c then let (d, r) := takeDigits cs; ((c - 48) :: d, r) else ([], c :: cs)

def digitsToNat (ds : List Nat) : Nat := ds.foldl (fun acc d => acc * 10 + d) 0

/-- the decimal numerals `[+-]? digits [. digits]? ([eE] [+-]? digits)?` (at least one
    mantissa digit).  `strconv.ParseFloat` accepts more (hex floats, `inf`, `nan`,
    underscores); those are not DynamoDB numbers and are outside the modelled domain. -/
def parse (s : Bytes) : Option Dec :=
  let (neg, s1) := match s with
    | 45 :: r => (true, r)
    | 43 :: r => (false, r)
    | _ => (false, s)
  let (ip, s2) := takeDigits s1
  let (fp, s3) := match s2 with
    | 46 :: r => takeDigits r
    | _ => ([], s2)
  if ip.isEmpty && fp.isEmpty then none else
  let mant := digitsToNat (ip ++ fp)
  let e0 : Int := - (fp.length : Int)
  match s3 with
  | [] => some ⟨neg, mant, e0⟩
  | c :: r =>
    if c == 101 || c == 69 then
      let (eneg, r1) := match r with
        | 45 :: t => (true, t)
        | 43 :: t => (false, t)
        | _ => (false, r)
      let (ed, r2) := takeDigits r1
      if ed.isEmpty || !r2.isEmpty then none
      else
        let ev : Int := digitsToNat ed
        some ⟨neg, mant, e0 + (if eneg then -ev else ev)⟩
    else none

end Dec

namespace F64

def zero (neg : Bool := false) : F64 := ⟨neg, 0, 0⟩

def isZero (x : F64) : Bool := x.man == 0

/-- round `(q + ε)·2^e` (with `0 ≤ ε < 1`, `ε ≠ 0` iff `sticky`) to nearest-even on 53 bits.
    When `q` has at most 53 bits the caller guarantees `sticky = false`. -/
def normRound (neg : Bool) (q : Nat) (sticky : Bool) (e : Int) : F64 :=
  if q == 0 then zero neg else
  let bits := Nat.log2 q + 1
  if bits ≤ 53 then ⟨neg, q <<< (53 - bits), e - ((53 - bits : Nat) : Int)⟩
  else
    let sh := bits - 53
    let top := q >>> sh
    let rem := q % (2 ^ sh)
    let half := 2 ^ (sh - 1)
    let up := rem > half || (rem == half && (sticky || top % 2 == 1))
    let top' := if up then top + 1 else top
    if top' == 2 ^ 53 then ⟨neg, 2 ^ 52, e + (sh : Int) + 1⟩ else ⟨neg, top', e + (sh : Int)⟩

/-- `strconv.ParseFloat`: the binary64 nearest to the decimal (ties to even) -/
def ofDec (d : Dec) : F64 :=
  if d.mant == 0 then zero d.neg
  else if d.exp ≥ 0 then normRound d.neg (d.mant * 10 ^ d.exp.toNat) false 0
  else
    let den := 10 ^ (-d.exp).toNat
    -- scale so that the quotient carries at least 55 significant bits
    let s := (Nat.log2 den + 1) + 56 - (Nat.log2 d.mant + 1) + 1
    let num := d.mant <<< s
    normRound d.neg (num / den) (num % den != 0) (-(s : Int))

def ofNat (n : Nat) : F64 := normRound false n false 0

def ofText (s : Bytes) : Option F64 := (Dec.parse s).map ofDec

/-- the value as a signed integer scaled to a common binary exponent -/
def scaled (x : F64) (e : Int) : Int :=
  let m : Int := (x.man <<< (x.exp - e).toNat : Nat)
  if x.neg then -m else m

def cmp (a b : F64) : Ordering :=
  let e := min a.exp b.exp
  compare (scaled a e) (scaled b e)

def eq (a b : F64) : Bool := cmp a b == .eq
def lt (a b : F64) : Bool := cmp a b == .lt
def le (a b : F64) : Bool := cmp a b != .gt

def add (a b : F64) : F64 :=
  let e := min a.exp b.exp
  let s := scaled a e + scaled b e
  if s == 0 then zero (a.neg && b.neg && a.isZero && b.isZero)
  else normRound (s < 0) s.natAbs false e

def negate (a : F64) : F64 := { a with neg := !a.neg }

def sub (a b : F64) : F64 :=
  let e := min a.exp b.exp
  let s := scaled a e - scaled b e
  if s == 0 then zero (a.neg && !b.neg && a.isZero && b.isZero)
  else normRound (s < 0) s.natAbs false e

/-- Go's `int64(f)` for values in range: truncation toward zero -/
def toInt (x : F64) : Int :=
  let m : Int := if x.exp ≥ 0 then (x.man <<< x.exp.toNat : Nat) else (x.man >>> (-x.exp).toNat : Nat)
  if x.neg then -m else m

/-! ### `strconv.FormatFloat(v, 'f', -1, 64)`: shortest decimal that parses back to `v` -/

/-- number of decimal digits of `n` (`0` for `0`) -/
def decLen (n : Nat) : Nat := if n == 0 then 0 else (toString n).length

/-- `k` with `10^(k-1) ≤ num/den < 10^k` -/
def decExp (num den : Nat) : Int :=
  if num ≥ den then
    let q := num / den
    (decLen q : Int)
  else
    -- num/den < 1: k ≤ 0
    let r := den / num      -- ≥ 1
    let l := decLen r       -- 10^(l-1) ≤ r < 10^l  ⇒ 10^(-l) < num/den ≤ 10^(1-l)
    let k0 : Int := 1 - (l : Int)
    -- num/den < 10^k0 must hold, fix the boundary case num/den = 10^k0 … handled by caller loop
    if num * 10 ^ (l - 1) ≥ den then k0 + 1 else k0

/-- the candidates with `p` significant digits: `⌊v·10^(p-k)⌋` and that plus one, and which
    of the two is nearer (`nearLo`; ties go to the even one) -/
def candidates (num den : Nat) (k : Int) (p : Nat) : Nat × Bool :=
  let sh : Int := (p : Int) - k
  let (n', d') := if sh ≥ 0 then (num * 10 ^ sh.toNat, den) else (num, den * 10 ^ (-sh).toNat)
  let lo := n' / d'
  let r := n' % d'
  let nearLo := 2 * r < d' || (2 * r == d' && lo % 2 == 0)
  (lo, nearLo)

def positive (x : F64) : F64 := { x with neg := false }

def shortestAux (x : F64) (num den : Nat) (k : Int) : Nat → Nat → Nat × Int
  | 0, p => let (lo, nearLo) := candidates num den k p
            (if nearLo then lo else lo + 1, k - (p : Int))
  | fuel + 1, p =>
    let (lo, nearLo) := candidates num den k p
    let e10 := k - (p : Int)
    let okLo := ofDec ⟨false, lo, e10⟩ == x
    let okHi := ofDec ⟨false, lo + 1, e10⟩ == x
    if okLo && okHi then (if nearLo then lo else lo + 1, e10)
    else if okLo then (lo, e10)
    else if okHi then (lo + 1, e10)
    else shortestAux x num den k fuel (p + 1)

/-- shortest digits `(D, e10)` with `ofDec (D·10^e10) = |x|` -/
def shortest (x : F64) : Nat × Int :=
  let x := positive x
  let (num, den) := if x.exp ≥ 0 then (x.man <<< x.exp.toNat, 1) else (x.man, 2 ^ (-x.exp).toNat)
  let k := decExp num den
  shortestAux x num den k 17 1

def stripTrailingZeros (ds : List Char) : List Char :=
  (ds.reverse.dropWhile (· == '0')).reverse

/-- plain decimal text of `D·10^e10` without exponent -/
def plainText (d : Nat) (e10 : Int) : String :=
  if d == 0 then "0" else
  let ds := (toString d).toList
  if e10 ≥ 0 then String.ofList (ds ++ List.replicate e10.toNat '0')
  else
    let f := (-e10).toNat
    let n := ds.length
    let (ip, fp) := if n > f then (ds.take (n - f), ds.drop (n - f))
                    else (['0'], List.replicate (f - n) '0' ++ ds)
    let fp := stripTrailingZeros fp
    if fp.isEmpty then String.ofList ip else String.ofList (ip ++ ['.'] ++ fp)

def format (x : F64) : String :=
  if x.isZero then (if x.neg then "-0" else "0") else
  let (d, e) := shortest x
  (if x.neg then "-" else "") ++ plainText d e

def formatBytes (x : F64) : Bytes := Bytes.ofString (format x)

end F64
end Minidyn
