/-
  Minidyn.Model.Value — attribute values (`types.Item` restricted to exactly one
  type per value), evaluator objects (`language.Object`), and the two conversions
  `MapToObject` / `ToDynamoDB` of interpreter/language/mapper.go and object.go.
-/
import Minidyn.Model.Num
namespace Minidyn

/-- a DynamoDB attribute value.  Maps are association lists (Go maps; the order is not
    observable), sets are lists (`[]*string`, `[][]byte`: order and duplicates exist in
    `types.Item`).  `n` and the members of `ns` hold the numeral *text*. -/
inductive AV where
  | s (v : Bytes)
  | n (v : Bytes)
  | b (v : Bytes)
  | bool (v : Bool)
  | null
  | l (xs : List AV)
  | m (kvs : List (Bytes × AV))
  | ss (xs : List Bytes)
  | ns (xs : List Bytes)
  | bs (xs : List Bytes)
deriving Repr, Inhabited

abbrev Item := List (Bytes × AV)

mutual
  def AV.beq : AV → AV → Bool
    | .s a, .s c => a == c
    | .n a, .n c => a == c
    | .b a, .b c => a == c
    | .bool a, .bool c => a == c
    | .null, .null => true
    | .l xs, .l ys => AV.beqList xs ys
    | .m xs, .m ys => AV.beqKvs xs ys
    | .ss a, .ss c => a == c
    | .ns a, .ns c => a == c
    | .bs a, .bs c => a == c
    | _, _ => false
  def AV.beqList : List AV → List AV → Bool
    | [], [] => true
    | x :: xs, y :: ys => AV.beq x y && AV.beqList xs ys
    | _, _ => false
  def AV.beqKvs : List (Bytes × AV) → List (Bytes × AV) → Bool
    | [], [] => true
    | (k, x) :: xs, (k', y) :: ys => k == k' && AV.beq x y && AV.beqKvs xs ys
    | _, _ => false
end

instance : BEq AV := ⟨AV.beq⟩

/-- DynamoDB type code -/
def AV.typeCode : AV → String
  | .s _ => "S" | .n _ => "N" | .b _ => "B" | .bool _ => "BOOL" | .null => "NULL"
  | .l _ => "L" | .m _ => "M" | .ss _ => "SS" | .ns _ => "NS" | .bs _ => "BS"

/-- evaluator objects.  `hole` is the `nil` a `List.Remove` leaves in a list until
    `Compact`; it never occurs outside a list.  `null true` is `UNDEFINED`. -/
inductive Obj where
  | num (f : F64)
  | str (v : Bytes)
  | bin (v : Bytes)
  | bool (v : Bool)
  | null (undef : Bool)
  | list (xs : List Obj)
  | map (kvs : List (Bytes × Obj))
  | sset (xs : List Bytes)      -- map[string]bool: kept sorted, no duplicates
  | nset (xs : List F64)        -- map[float64]bool: kept sorted, no duplicates
  | bset (xs : List Bytes)      -- [][]byte in insertion order, no duplicates
  | hole
deriving Repr, Inhabited

def Obj.undefined : Obj := .null true

inductive OType where
  | N | S | B | BOOL | NULL | L | M | SS | NS | BS
deriving Repr, BEq, DecidableEq

def Obj.type : Obj → OType
  | .num _ => .N | .str _ => .S | .bin _ => .B | .bool _ => .BOOL | .null _ => .NULL
  | .list _ => .L | .map _ => .M | .sset _ => .SS | .nset _ => .NS | .bset _ => .BS
  | .hole => .NULL

def OType.code : OType → String
  | .N => "N" | .S => "S" | .B => "B" | .BOOL => "BOOL" | .NULL => "NULL"
  | .L => "L" | .M => "M" | .SS => "SS" | .NS => "NS" | .BS => "BS"

def Obj.isUndefined : Obj → Bool
  | .null u => u
  | .hole => true
  | _ => false

/- `reflect.DeepEqual` on two objects of the same dynamic type -/
mutual
  def Obj.beq : Obj → Obj → Bool
    | .num a, .num c => F64.eq a c   -- DeepEqual compares the float64 fields with ==: -0 equals 0
    | .str a, .str c => a == c
    | .bin a, .bin c => a == c
    | .bool a, .bool c => a == c
    | .null a, .null c => a == c
    | .list xs, .list ys => Obj.beqList xs ys
    | .map xs, .map ys => Obj.beqMap xs ys
    | .sset a, .sset c => a == c
    | .nset a, .nset c => a.length == c.length && (a.zip c).all fun (x, y) => F64.eq x y   -- map keys: -0 and 0 are one key
    | .bset a, .bset c => a == c
    | .hole, .hole => true
    | _, _ => false
  def Obj.beqList : List Obj → List Obj → Bool
    | [], [] => true
    | x :: xs, y :: ys => Obj.beq x y && Obj.beqList xs ys
    | _, _ => false
  def Obj.beqMap : List (Bytes × Obj) → List (Bytes × Obj) → Bool
    | [], [] => true
    | (k, x) :: xs, (k', y) :: ys => k == k' && Obj.beq x y && Obj.beqMap xs ys
    | _, _ => false
end

def insertUniq (le : α → α → Bool) (eq : α → α → Bool) (x : α) : List α → List α
  | [] => [x]
  | y :: ys => if eq x y then y :: ys else if le x y then x :: y :: ys else y :: insertUniq le eq x ys

def ssetInsert (x : Bytes) (l : List Bytes) : List Bytes := insertUniq Bytes.le (· == ·) x l
/-- Go map assignment with a float key overwrites the stored key too (`-0` and `0` are
    one key, the one inserted last is kept) -/
def nsetInsert (x : F64) : List F64 → List F64
  | [] => [x]
  | y :: ys => if F64.eq x y then x :: ys else if F64.le x y then x :: y :: ys else y :: nsetInsert x ys
/-- binary sets are kept in one canonical (sorted) order: `sortBinaries` after every construction and ADD -/
def bsetAdd (x : Bytes) (l : List Bytes) : List Bytes := insertUniq Bytes.le (· == ·) x l

/- `MapToObject`; `none` is the "value type is not supported yet" / ParseFloat error.
    Maps are kept sorted by key so that `Obj.beq` on maps is order-insensitive like
    `reflect.DeepEqual` on Go maps. -/
mutual
  def AV.toObj : AV → Option Obj
    | .bool v => some (.bool v)
    | .n t => (F64.ofText t).map .num
    | .s v => some (.str v)
    | .null => some (.null false)
    | .b v => some (.bin v)
    | .m kvs => (AV.toObjKvs kvs).map fun l => .map (sortAssoc l)
    | .l xs => (AV.toObjList xs).map .list
    | .ss xs => some (.sset (xs.foldl (fun acc x => ssetInsert x acc) []))
    | .bs xs => some (.bset (xs.foldl (fun acc x => bsetAdd x acc) []))
    | .ns xs => (xs.mapM F64.ofText).map fun fs => .nset (fs.foldl (fun acc x => nsetInsert x acc) [])
  def AV.toObjList : List AV → Option (List Obj)
    | [] => some []
    | x :: xs => do
      let o ← AV.toObj x
      let os ← AV.toObjList xs
      pure (o :: os)
  def AV.toObjKvs : List (Bytes × AV) → Option (List (Bytes × Obj))
    | [] => some []
    | (k, x) :: xs => do
      let o ← AV.toObj x
      let os ← AV.toObjKvs xs
      -- a later duplicate key cannot occur in a Go map; keep first
      pure ((k, o) :: os)
end

/- `Object.ToDynamoDB` -/
mutual
  def Obj.toAV : Obj → AV
    | .num f => .n (F64.formatBytes f)
    | .str v => .s v
    | .bin v => .b v
    | .bool v => .bool v
    | .null _ => .null
    | .list xs => .l (Obj.toAVList xs)
    | .map kvs => .m (Obj.toAVKvs kvs)
    | .sset xs => .ss xs
    | .nset xs => .ns (xs.map F64.formatBytes)
    | .bset xs => .bs xs
    | .hole => .null
  def Obj.toAVList : List Obj → List AV
    | [] => []
    | x :: xs => Obj.toAV x :: Obj.toAVList xs
  def Obj.toAVKvs : List (Bytes × Obj) → List (Bytes × AV)
    | [] => []
    | (k, x) :: xs => (k, Obj.toAV x) :: Obj.toAVKvs xs
end

end Minidyn
