/-
  Minidyn.Model.Interp — interpreter/language.go (`Language.Match`, `Language.Update`)
  and interpreter/native.go (the registry of Go call-backs).
-/
import Minidyn.Model.Eval
namespace Minidyn

/-- error classes of the interpreter -/
inductive IErr where
  | syntax        -- wraps `ErrSyntaxError`
  | unsupported   -- wraps `ErrUnsupportedFeature`
  | outOfFuel     -- model artefact; `Props/C09` shows it cannot happen
deriving Repr, BEq, DecidableEq

namespace Interp

def mkEnv (names : List (Bytes × Bytes)) (item values : Item) : Option Env := do
  let e : Env := { aliases := names }
  let e ← e.load item
  e.load values

/-- `[A-Za-z0-9_]` -/
def isWord (c : Nat) : Bool := Lexer.isLetter c || (48 ≤ c && c ≤ 57) || c == 95

/-- `regexp ":[A-Za-z0-9_]+"`, `FindAllString`: every maximal `:word` of the text, leftmost first
    (`cur`: the word characters read since the last `:`, newest first) -/
def valuePlaceholdersGo : Bytes → Option Bytes → List Bytes
  | [], none => []
  | [], some w => if w.isEmpty then [] else [58 :: w.reverse]
  | c :: cs, none => if c == 58 then valuePlaceholdersGo cs (some []) else valuePlaceholdersGo cs none
  | c :: cs, some w =>
    if isWord c then valuePlaceholdersGo cs (some (c :: w))
    else (if w.isEmpty then [] else [58 :: w.reverse]) ++
      (if c == 58 then valuePlaceholdersGo cs (some []) else valuePlaceholdersGo cs none)

def valuePlaceholders (s : Bytes) : List Bytes := valuePlaceholdersGo s none

/-- `undefinedValue`: a `:value` placeholder of the expression that did not come with the request -/
def undefinedValue (expr : Bytes) (values : Item) : Bool :=
  (valuePlaceholders expr).any fun p => !ahas p values

/-- `Language.Match` after the placeholder check -/
def langMatchCore (expr : Bytes) (item : Item) (names : List (Bytes × Bytes)) (values : Item) : Except IErr Bool :=
  match Parser.parseCond expr with
  | .syntaxErr => .error .syntax
  | .outOfFuel => .error .outOfFuel
  | .ok e =>
    match mkEnv names item values with
    | none => .error .unsupported
    | some env =>
      match Eval.evalCondition env e with
      | .ok b => .ok b
      | .error _ => .error .syntax

/-- `Language.Match` -/
def langMatch (expr : Bytes) (item : Item) (names : List (Bytes × Bytes)) (values : Item) : Except IErr Bool :=
  if undefinedValue expr values then .error .syntax else langMatchCore expr item names values

/-- `Language.Update` after the placeholder check: the item after the update -/
def langUpdateCore (expr : Bytes) (item : Item) (names : List (Bytes × Bytes)) (values : Item) : Except IErr Item :=
  match Parser.parseUpdate expr with
  | .syntaxErr => .error .syntax
  | .outOfFuel => .error .outOfFuel
  | .ok e =>
    match mkEnv names item values with
    | none => .error .unsupported
    | some env =>
      match Eval.evalUpdate env e with
      | .ok env' => .ok (env'.apply item (values.map (·.1)))
      | .error _ => .error .syntax

/-- `Language.Update` -/
def langUpdate (expr : Bytes) (item : Item) (names : List (Bytes × Bytes)) (values : Item) : Except IErr Item :=
  if undefinedValue expr values then .error .syntax else langUpdateCore expr item names values

/-- `hashExpressionKey`: fields separated by the four white-space bytes, joined by one space -/
def normWS (s : Bytes) : Bytes :=
  let rec fields : Bytes → Bytes → List Bytes
    | [], cur => if cur.isEmpty then [] else [cur.reverse]
    | c :: cs, cur =>
      if Lexer.isSpace c then (if cur.isEmpty then fields cs [] else cur.reverse :: fields cs [])
      else fields cs (c :: cur)
  let rec join : List Bytes → Bytes
    | [] => []
    | [x] => x
    | x :: xs => x ++ [32] ++ join xs
  join (fields s [])

end Interp
end Minidyn
