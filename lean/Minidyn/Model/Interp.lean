/-
  Minidyn.Model.Interp — interpreter/language.go (`Language.Match`, `Language.Update`)
  and interpreter/native.go (the registry of Go call-backs).
-/
import Minidyn.Model.Eval
namespace Minidyn

/-- error classes of the interpreter -/
inductive IErr where
  | syntax        -- wraps `ErrSyntaxError`
  | unsupported   -- wraps `ErrUnsupportedFeature`
  | outOfFuel     -- model artefact; `Props/C09` shows it cannot happen
deriving Repr, BEq, DecidableEq

namespace Interp

def mkEnv (names : List (Bytes × Bytes)) (item values : Item) : Option Env := do
  let e : Env := { aliases := names }
  let e ← e.load item
  e.load values

/-- `Language.Match` -/
def langMatch (expr : Bytes) (item : Item) (names : List (Bytes × Bytes)) (values : Item) : Except IErr Bool :=
  match Parser.parseCond expr with
  | .syntaxErr => .error .syntax
  | .outOfFuel => .error .outOfFuel
  | .ok e =>
    match mkEnv names item values with
    | none => .error .unsupported
    | some env =>
      match Eval.evalCondition env e with
      | .ok b => .ok b
      | .error _ => .error .syntax

/-- `Language.Update`: the item after the update -/
def langUpdate (expr : Bytes) (item : Item) (names : List (Bytes × Bytes)) (values : Item) : Except IErr Item :=
  match Parser.parseUpdate expr with
  | .syntaxErr => .error .syntax
  | .outOfFuel => .error .outOfFuel
  | .ok e =>
    match mkEnv names item values with
    | none => .error .unsupported
    | some env =>
      match Eval.evalUpdate env e with
      | .ok env' => .ok (env'.apply item (values.map (·.1)))
      | .error _ => .error .syntax

/-- `hashExpressionKey`: fields separated by the four white-space bytes, joined by one space -/
def normWS (s : Bytes) : Bytes :=
  let rec fields : Bytes → Bytes → List Bytes
    | [], cur => if cur.isEmpty then [] else [cur.reverse]
    | c :: cs, cur =>
      if Lexer.isSpace c then (if cur.isEmpty then fields cs [] else cur.reverse :: fields cs [])
      else fields cs (c :: cur)
  let rec join : List Bytes → Bytes
    | [] => []
    | [x] => x
    | x :: xs => x ++ [32] ++ join xs
  join (fields s [])

end Interp
end Minidyn
