/-
  Minidyn.Props.ReachGen — lifting a property of tables to every reachable client state, and its use for `Keyed`.

  `step_lift`: a property `P` of tables that (1) holds of every freshly built table, (2) is kept by `Table.put`,
  `Table.delete` and `Table.clear`, and (3) is kept by `UpdateTable` on the addressed table, holds of every table of
  every client state reachable by a history that contains no UpdateItem (`run_lift`, `reachable_lift`).  UpdateItem is
  left out on purpose: it is the one operation that can break `Keyed` (KF-C13-update-changes-key).

  `reachable_keyed`: in every such state every item is stored under the key string of its own key attributes — the
  hypothesis of the pagination theorems (`C04Paging.paginate_complete`, `C04Index.paginate_complete_ix`,
  `C13Start.lek_valid_start`), which therefore apply to every state reachable without UpdateItem.
-/
import Minidyn.Props.Reach
import Minidyn.Props.C04Index
namespace Minidyn.Props.ReachGen
open Minidyn Minidyn.Client Minidyn.Table Minidyn.Props.C01 Minidyn.Props.C04

/-- what a table property needs to survive every operation but UpdateItem -/
structure TablePred (P : Table → Prop) : Prop where
  build : ∀ r t, buildTable r = some t → P t
  put : ∀ (t t' : Table) (m : Matcher) (item : Item) (cond : Option Bytes), P t → t.put m item cond = .ok t' → P t'
  delete : ∀ (t t' : Table) (m : Matcher) (k : Item) (cond : Option Bytes) (old : Option Item), P t → t.delete m k cond = .ok (t', old) → P t'
  clear : ∀ t, P t → P t.clear
  updateTable : ∀ (c : Client) (name : Bytes) (chs : List IndexChange) (t t' : Table), alookup name c.tables = some t →
    alookup name (updateTable c name chs).1.tables = some t' → P t → P t'

def Lift (P : Table → Prop) (c : Client) : Prop := ∀ n t, alookup n c.tables = some t → P t

variable {P : Table → Prop}

theorem lift_new (sdk : Sdk) : Lift P { sdk := sdk } := by
  intro n t h; simp [alookup] at h

theorem lift_setTable (c : Client) (n : Bytes) (t : Table) (hc : Lift P c) (ht : P t) : Lift P (setTable c n t) := by
  intro m t' h
  simp only [setTable] at h
  by_cases hm : m = n
  · subst hm; rw [alookup_ainsert_self] at h; cases h; exact ht
  · rw [alookup_ainsert_ne _ _ hm] at h; exact hc m t' h

theorem lift_tables_eq (c c' : Client) (hc : Lift P c) (h : c'.tables = c.tables) : Lift P c' := by
  intro n t ht; rw [h] at ht; exact hc n t ht

theorem lift_putItem (hP : TablePred P) (c : Client) (table : Bytes) (item : Item) (cond : Option Bytes) (ex : Exprs) (hc : Lift P c) :
    Lift P (putItem c table item cond ex).1 := by
  unfold putItem withTable
  cases c.failure with
  | some f => exact hc
  | none =>
    simp only
    split
    · exact hc
    · cases ht : alookup table c.tables with
      | none => exact hc
      | some t =>
        simp only
        cases hp : t.put (matcher c table ex) item cond with
        | error e => exact hc
        | ok t' => exact lift_setTable c table t' hc (hP.put t t' _ item cond (hc table t ht) hp)

theorem lift_deleteItem (hP : TablePred P) (c : Client) (table : Bytes) (key : Item) (cond : Option Bytes) (ex : Exprs) (ro : Bool)
    (hc : Lift P c) : Lift P (deleteItem c table key cond ex ro).1 := by
  unfold deleteItem withTable
  cases c.failure with
  | some f => exact hc
  | none =>
    simp only
    split
    · exact hc
    · cases ht : alookup table c.tables with
      | none => exact hc
      | some t =>
        simp only
        cases hp : t.delete (matcher c table ex) key cond with
        | error e => exact hc
        | ok r =>
          obtain ⟨t', old⟩ := r
          exact lift_setTable c table t' hc (hP.delete t t' _ key cond old (hc table t ht) hp)

theorem lift_pagesLoop (hP : TablePred P) (table : Bytes) (ex : Exprs) (da : Option Nat) : ∀ (fuel n : Nat) (q : Table.Query) (c : Client)
    (acc : List (List Item × Item)), Lift P c → Lift P (pagesLoop table q ex da fuel n c acc).1 := by
  intro fuel
  induction fuel with
  | zero => intro n q c acc hc; exact hc
  | succ fuel ih =>
    intro n q c acc hc
    simp only [pagesLoop]
    cases searchOnce c table q ex with
    | error o =>
      simp only
      split
      · exact hc
      · split <;> exact hc
    | ok r =>
      obtain ⟨items, lek⟩ := r
      simp only
      split
      · exact hc
      · apply ih
        split
        · cases alookup table c.tables with
          | none => exact hc
          | some t => exact lift_deleteItem hP c table _ none {} false hc
        · exact hc

theorem lift_applyWrite (hP : TablePred P) (c : Client) (table : Bytes) (r : WriteReq) (hc : Lift P c) : Lift P (applyWrite c table r).1 := by
  cases r with
  | put item => exact lift_putItem hP c table item none {} hc
  | both item k => exact lift_putItem hP c table item none {} hc
  | del key => exact lift_deleteItem hP c table key none {} false hc
  | neither => exact hc

theorem lift_batchWrite_go (hP : TablePred P) : ∀ (flat : List (Bytes × WriteReq)) (c : Client) (unp : List (Bytes × List WriteReq)),
    Lift P c → Lift P (batchWrite.go c unp flat).1 := by
  intro flat
  induction flat with
  | nil => intro c unp hc; exact hc
  | cons p rest ih =>
    intro c unp hc
    obtain ⟨t, r⟩ := p
    have h1 := lift_applyWrite hP c t r hc
    simp only [batchWrite.go]
    generalize applyWrite c t r = res at h1
    obtain ⟨c', o⟩ := res
    simp only at h1 ⊢
    cases o with
    | err cls it => cases cls <;> first | exact ih _ _ h1 | exact h1
    | panicErr cls => exact h1
    | _ => exact ih _ _ h1

/-- UpdateTable touches the addressed table only -/
theorem updateTable_frame (c : Client) (name m : Bytes) (chs : List IndexChange) (h : m ≠ name) :
    alookup m (updateTable c name chs).1.tables = alookup m c.tables := by
  unfold updateTable
  cases alookup name c.tables with
  | none => rfl
  | some t =>
    simp only
    split
    · rfl
    · generalize updateTable.go _ chs = res
      obtain ⟨t2, e⟩ := res
      cases e
      · exact alookup_ainsert_ne _ _ h
      · rfl

def IsUpdate : Op → Prop
  | .update .. => True
  | _ => False

/-- **one step** -/
theorem step_lift (hP : TablePred P) (c : Client) (op : Op) (hop : ¬ IsUpdate op) (hc : Lift P c) : Lift P (step c op).1 := by
  cases op with
  | createTable r =>
    simp only [step, createTable]
    split
    · exact hc
    · cases hb : buildTable r with
      | none => exact hc
      | some t =>
        intro m t' h
        simp only at h
        by_cases hm : m = r.table
        · subst hm; rw [alookup_ainsert_self] at h; cases h; exact hP.build r t hb
        · rw [alookup_ainsert_ne _ _ hm] at h; exact hc m t' h
  | deleteTable n =>
    simp only [step]
    cases alookup n c.tables with
    | none => exact hc
    | some t =>
      intro m t' h
      by_cases hm : m = n
      · subst hm; simp only [alookup_aerase_self] at h; cases h
      · simp only [alookup_aerase_ne _ hm] at h; exact hc m t' h
  | describeTable n =>
    simp only [step, withTable]
    cases alookup n c.tables <;> exact hc
  | updateTable name chs =>
    simp only [step]
    intro m t' h
    by_cases hm : m = name
    · subst hm
      cases ht : alookup m c.tables with
      | none =>
        have : (updateTable c m chs).1 = c := by unfold updateTable; simp [ht]
        rw [this, ht] at h; cases h
      | some t => exact hP.updateTable c m chs t t' ht h (hc m t ht)
    · have : alookup m (updateTable c name chs).1.tables = alookup m c.tables := updateTable_frame c name m chs hm
      rw [this] at h; exact hc m t' h
  | clearTable n =>
    simp only [step, withTable]
    cases ht : alookup n c.tables with
    | none => exact hc
    | some t => exact lift_setTable c n t.clear hc (hP.clear t (hc n t ht))
  | put t item cond ex => exact lift_putItem hP c t item cond ex hc
  | update t key expr cond ex rf => exact absurd trivial hop
  | delete t key cond ex ro => exact lift_deleteItem hP c t key cond ex ro hc
  | get t key => simp only [step]; rw [Reach.getItem_state]; exact hc
  | query t q ex => simp only [step]; rw [Reach.query_state]; exact hc
  | pages t q ex da mx => exact lift_pagesLoop hP t ex da mx 0 q c [] hc
  | batchWrite reqs =>
    simp only [step, batchWrite]
    split
    · exact hc
    · exact lift_batchWrite_go hP _ c [] hc
  | batchGet reqs => simp only [step]; rw [Reach.batchGet_state]; exact hc
  | transactWrite => simp only [step]; cases c.failure <;> exact hc
  | setFailure f => exact lift_tables_eq c _ hc rfl
  | activateNative => exact lift_tables_eq c _ hc rfl
  | setInterpreter => exact lift_tables_eq c _ hc rfl
  | registerMatcher t kind expr id => exact lift_tables_eq c _ hc rfl
  | registerUpdater t expr id => exact lift_tables_eq c _ hc rfl

/-- every history without UpdateItem -/
theorem run_lift (hP : TablePred P) : ∀ (ops : List Op) (c : Client), (∀ op ∈ ops, ¬ IsUpdate op) → Lift P c → Lift P (run c ops).1 := by
  intro ops
  induction ops with
  | nil => intro c _ hc; exact hc
  | cons op rest ih =>
    intro c hno hc
    simp only [run]
    have h1 := step_lift hP c op (hno op (by simp)) hc
    generalize step c op = r at h1
    obtain ⟨c', o⟩ := r
    have h2 := ih c' (fun o ho => hno o (by simp [ho])) h1
    generalize run c' rest = r2 at h2
    obtain ⟨c'', os⟩ := r2
    exact h2

theorem reachable_lift (hP : TablePred P) (sdk : Sdk) (ops : List Op) (hno : ∀ op ∈ ops, ¬ IsUpdate op) :
    Lift P (run { sdk := sdk } ops).1 := run_lift hP ops _ hno (lift_new sdk)

/-! ### `Keyed` is such a property -/

theorem go_schema : ∀ (chs : List IndexChange) (t : Table), (updateTable.go t chs).1.schema = t.schema := by
  intro chs
  induction chs with
  | nil => intro t; rfl
  | cons ch rest ih =>
    intro t
    cases ch with
    | create d =>
      simp only [updateTable.go]
      cases ha : addGlobalIndex t (isPPR t) d with
      | none => rfl
      | some t' => simp only; rw [ih t', (C18.addGlobalIndex_keeps ha).2.2]
    | delete n =>
      simp only [updateTable.go]
      split
      · rw [ih]
      · rfl

theorem table_attrs_of_not_redefines (t : Table) (defs : List (Bytes × Bytes)) (h : redefinesKeyAttr t defs = false) :
    (alookup t.schema.hash (defs.foldl (fun acc (n, ty) => ainsert n ty acc) t.attrs)).getD [] = (alookup t.schema.hash t.attrs).getD [] ∧
    (alookup t.schema.range (defs.foldl (fun acc (n, ty) => ainsert n ty acc) t.attrs)).getD [] = (alookup t.schema.range t.attrs).getD [] := by
  have hdef : ∀ p ∈ defs, p.1 ∈ keyAttrsInUse t → (alookup p.1 t.attrs).getD [] = p.2 := by
    intro p hp hin
    unfold redefinesKeyAttr at h
    have := List.any_eq_false.1 h p hp
    obtain ⟨n, ty⟩ := p
    simp only at this hin ⊢
    have h' : n ∈ keyAttrsInUse t → (alookup n t.attrs).getD [] = ty := by simpa using this
    exact h' hin
  have hh : t.schema.hash ∈ keyAttrsInUse t := by simp [keyAttrsInUse]
  have hr : t.schema.range ∈ keyAttrsInUse t := by simp [keyAttrsInUse]
  exact ⟨Reach.foldl_ainsert_getD _ defs t.attrs (fun p hp hk => by rw [← hk]; exact hdef p hp (by rw [hk]; exact hh)),
         Reach.foldl_ainsert_getD _ defs t.attrs (fun p hp hk => by rw [← hk]; exact hdef p hp (by rw [hk]; exact hr))⟩

theorem keyed_congr {t t' : Table} (hk : Keyed t) (hs : t'.schema = t.schema) (hd : t'.data = t.data)
    (hh : (alookup t.schema.hash t'.attrs).getD [] = (alookup t.schema.hash t.attrs).getD [])
    (hr : (alookup t.schema.range t'.attrs).getD [] = (alookup t.schema.range t.attrs).getD []) : Keyed t' := by
  refine ⟨by rw [hs]; exact hk.primary, ?_⟩
  intro k item hl
  rw [hd] at hl
  rw [hs, Reach.getKey_attrs_congr t.schema t.attrs t'.attrs _ hh hr]
  exact hk.keyed k item hl

theorem keyed_tablePred : TablePred Keyed where
  build := by
    intro r t hb
    obtain ⟨_, hd, hs⟩ := C18.buildTable_empty hb
    exact keyed_empty t (by rw [hs]; rfl) hd
  put := fun t t' m item cond hk h => keyed_put t t' m item cond hk h
  delete := fun t t' m k cond old hk h => keyed_delete t t' m k cond old hk h
  clear := fun t hk => keyed_empty t.clear hk.primary rfl
  updateTable := by
    intro c name chs t t' ht ht' hk
    unfold updateTable at ht'
    simp only [ht] at ht'
    split at ht'
    · simp only at ht'
      rw [ht] at ht'; cases ht'; exact hk
    · rename_i hr
      have hattr := table_attrs_of_not_redefines t _ (by simpa using hr)
      generalize hA : List.foldl _ t.attrs _ = A at ht' hattr
      have hattrs := Reach.updateTable_go_attrs chs { t with attrs := A }
      have hkeeps := Reach.updateTable_go_keeps chs { t with attrs := A }
      have hsch := go_schema chs { t with attrs := A }
      generalize updateTable.go { t with attrs := A } chs = res at ht' hattrs hkeeps hsch
      obtain ⟨t2, e⟩ := res
      simp only at ht' hattrs hkeeps hsch
      cases e with
      | some cls =>
        simp only at ht'
        rw [ht] at ht'; cases ht'; exact hk
      | none =>
        have : t' = t2 := by
          simp only [alookup_ainsert_self, Option.some.injEq] at ht'; exact ht'.symm
        subst this
        exact keyed_congr hk hsch hkeeps.2 (by rw [hattrs]; exact hattr.1) (by rw [hattrs]; exact hattr.2)

/-- **in every state reachable without UpdateItem every item is stored under the key string of its own key
    attributes**: the pagination theorems apply to all those states -/
theorem reachable_keyed (sdk : Sdk) (ops : List Op) (hno : ∀ op ∈ ops, ¬ IsUpdate op) :
    ∀ n t, alookup n (run { sdk := sdk } ops).1.tables = some t → Keyed t :=
  reachable_lift keyed_tablePred sdk ops hno

end Minidyn.Props.ReachGen
