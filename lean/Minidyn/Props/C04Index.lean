/-
  C04 — pagination through a secondary index, and what keeps items under their own keys.

  The read order of an index is the order of its references by (index key, primary key) (`lexCmp`, `aftRef`); the
  sorted reference list is a chain for it in both directions (`sortedRefs_chain`).  `page_spec_ix`: one page of a
  Query or Scan on an index is the items of the references positioned after the start position — whether or not the
  item named by the start key is still there — up to the Limit.  `paginate_complete_ix`: passing each
  LastEvaluatedKey (table key completed with the index key: `mergedKey`) back as ExclusiveStartKey returns, page after
  page, exactly the items of the references after the start, once each, in index order, and ends.  Hypotheses:
  `IndexInv` and `IndexAgree` (both hold in every reachable state: `Props.Reach`), `Keyed` (items stored under their
  own key), a matcher that answers.  `keyed_update`: UpdateItem keeps `Keyed` when it leaves the key attributes alone.
-/
import Minidyn.Lemmas.Chain
import Minidyn.Props.C03Read
import Minidyn.Props.C04Paging
namespace Minidyn.Props.C04
open Minidyn Minidyn.Table Minidyn.Props.C01 Minidyn.Props.C02 Minidyn.Props.C03

/-! ### the read order of an index: references compared by (index key, primary key) -/

/-- comparison of two references `(primary key, index key)`: index key first -/
def lexCmp (a b : Bytes × Bytes) : Ordering :=
  match Bytes.cmp a.2 b.2 with
  | .eq => Bytes.cmp a.1 b.1
  | c => c

/-- reference `a` lies after reference `b` in a forward (backward) read of the index -/
def aftRef (fwd : Bool) (a b : Bytes × Bytes) : Bool := if fwd then lexCmp a b == .gt else lexCmp a b == .lt

theorem lexCmp_refl (a : Bytes × Bytes) : lexCmp a a = .eq := by simp [lexCmp, Bytes.cmp_refl]

theorem lexCmp_eq_iff {a b : Bytes × Bytes} : lexCmp a b = .eq ↔ a = b := by
  unfold lexCmp
  constructor
  · intro h
    cases h2 : Bytes.cmp a.2 b.2 with
    | lt => rw [h2] at h; cases h
    | gt => rw [h2] at h; cases h
    | eq => rw [h2] at h; exact Prod.ext (Bytes.cmp_eq_iff.1 h) (Bytes.cmp_eq_iff.1 h2)
  · intro h; subst h; simp [Bytes.cmp_refl]

theorem lexCmp_lt_gt {a b : Bytes × Bytes} : lexCmp a b = .lt ↔ lexCmp b a = .gt := by
  unfold lexCmp
  cases h2 : Bytes.cmp a.2 b.2 with
  | lt => have := Bytes.cmp_lt_gt.1 h2; simp [this]
  | gt => have := cmp_gt_lt.1 h2; simp [this]
  | eq =>
    have e : a.2 = b.2 := Bytes.cmp_eq_iff.1 h2
    have h2' : Bytes.cmp b.2 a.2 = .eq := by rw [e]; exact Bytes.cmp_refl _
    simp only [h2']
    exact Bytes.cmp_lt_gt

theorem lexCmp_trans_lt {a b c : Bytes × Bytes} (h1 : lexCmp a b = .lt) (h2 : lexCmp b c = .lt) : lexCmp a c = .lt := by
  unfold lexCmp at *
  cases hab : Bytes.cmp a.2 b.2 with
  | gt => rw [hab] at h1; cases h1
  | lt =>
    cases hbc : Bytes.cmp b.2 c.2 with
    | gt => rw [hbc] at h2; cases h2
    | lt => simp [Bytes.cmp_trans_lt hab hbc]
    | eq =>
      have e : b.2 = c.2 := Bytes.cmp_eq_iff.1 hbc
      rw [← e, hab]
  | eq =>
    have e : a.2 = b.2 := Bytes.cmp_eq_iff.1 hab
    rw [hab] at h1
    simp only at h1
    cases hbc : Bytes.cmp b.2 c.2 with
    | gt => rw [hbc] at h2; cases h2
    | lt => rw [e, hbc]
    | eq =>
      rw [hbc] at h2
      simp only at h2
      rw [e, hbc]
      exact Bytes.cmp_trans_lt h1 h2

theorem aftRef_strict (fwd : Bool) : Chain.StrictOrd (aftRef fwd) := by
  constructor
  · intro a b c h1 h2
    cases fwd
    · simp only [aftRef, Bool.false_eq_true, if_false, beq_iff_eq] at *
      exact lexCmp_trans_lt h1 h2
    · simp only [aftRef, if_true, beq_iff_eq] at *
      exact lexCmp_lt_gt.1 (lexCmp_trans_lt (lexCmp_lt_gt.2 h2) (lexCmp_lt_gt.2 h1))
  · intro a; cases fwd <;> simp [aftRef, lexCmp_refl]
  · intro a b h
    cases fwd
    · simp only [aftRef, Bool.false_eq_true, if_false, beq_iff_eq] at *
      have := lexCmp_lt_gt.1 h; simp [this]
    · simp only [aftRef, if_true, beq_iff_eq] at *
      have := lexCmp_lt_gt.2 h; simp [this]

theorem refLe_lexCmp {a b : Bytes × Bytes} (h : refLe a b = true) (hne : a ≠ b) : lexCmp a b = .lt := by
  rw [refLe_iff] at h
  unfold lexCmp
  rcases h with h | ⟨e, hle⟩
  · simp [h]
  · have h2 : Bytes.cmp a.2 b.2 = .eq := by rw [e]; exact Bytes.cmp_refl _
    simp only [h2]
    have hne1 : a.1 ≠ b.1 := fun e1 => hne (Prod.ext e1 e)
    have := Bytes.lt_iff_le_ne.2 ⟨hle, hne1⟩
    simpa [Bytes.lt] using this

/-- sorted, duplicate-free lists are chains -/
theorem chain_of_sorted {α : Type} {le aft : α → α → Bool} (trans : ∀ a b c, le a b = true → le b c = true → le a c = true)
    (hstrict : ∀ x y, le x y = true → x ≠ y → aft y x = true) :
    ∀ (l : List α), SortedBy le l → l.Nodup → Chain.IsChain aft l := by
  intro l
  induction l with
  | nil => intro _ _; trivial
  | cons x xs ih =>
    intro hs hn
    have hall := (sortedBy_cons_iff trans).1 hs
    have hn' := List.nodup_cons.1 hn
    exact ⟨fun y hy => hstrict x y (hall.1 y hy) (fun e => hn'.1 (e ▸ hy)), ih hall.2 hn'.2⟩

theorem pairs_nodup {m : List (Bytes × Bytes)} (h : (keysOf m).Nodup) : m.Nodup := by
  induction m with
  | nil => exact List.nodup_nil
  | cons p t ih =>
    simp only [keysOf, List.map_cons, List.nodup_cons] at h
    refine List.nodup_cons.2 ⟨?_, ih h.2⟩
    intro hp
    exact h.1 (List.mem_map_of_mem (f := (·.1)) hp)

/-- the reference list of an index, in either direction, is a chain for the read order -/
theorem sortedRefs_chain (ix : Index) (hinv : IndexInv ix) (fwd : Bool) : Chain.IsChain (aftRef fwd) (ix.sortedRefs fwd) := by
  have hs : SortedBy refLe (sortBy refLe ix.refs) := sortedBy_sortBy refLe_total refLe_trans ix.refs
  have hn : (sortBy refLe ix.refs).Nodup := (sortBy_perm refLe ix.refs).nodup_iff.mpr (pairs_nodup hinv.refsNodup)
  have hfw : Chain.IsChain (aftRef true) (sortBy refLe ix.refs) :=
    chain_of_sorted refLe_trans (fun x y hle hne => by
      simp only [aftRef, if_true, beq_iff_eq]
      exact lexCmp_lt_gt.1 (refLe_lexCmp hle hne)) _ hs hn
  rw [sortedRefs_eq]
  cases fwd
  · simp only [Bool.false_eq_true, if_false]
    exact Chain.reverse (fun a b h => by
      simp only [aftRef, if_true, Bool.false_eq_true, if_false, beq_iff_eq] at h ⊢
      exact lexCmp_lt_gt.2 h) _ hfw
  · exact hfw


/-! ### the search loop on an index, with a start position -/

theorem isAfter_ix (start : SearchStart) (ik pk : Bytes) (fwd : Bool) (hne : start.indexKey.isEmpty = false) :
    isAfter start true ik pk fwd = aftRef fwd (pk, ik) (start.key, start.indexKey) := by
  simp only [isAfter, Bool.true_and, hne, Bool.false_eq_true, if_false, aftRef, lexCmp]
  cases Bytes.cmp ik start.indexKey <;> rfl

theorem searchStep_ix_go (t : Table) (m : Matcher) (q : Query) (start : SearchStart) (st st' : SearchState) (pk ik : Bytes)
    (rest : List (Bytes × Bytes)) (hr : st.refs = (pk, ik) :: rest)
    (hp : prepareSearch start true q.forward { st with refs := rest } ik pk = (true, st')) :
    searchStep t m q true start st ik = processItem t m q st' pk := by
  simp only [searchStep, getPrimaryKey, if_true, hr, beq_self_eq_true, hp]

theorem searchStep_ix_skip (t : Table) (m : Matcher) (q : Query) (start : SearchStart) (st st' : SearchState) (pk ik : Bytes)
    (rest : List (Bytes × Bytes)) (hr : st.refs = (pk, ik) :: rest)
    (hp : prepareSearch start true q.forward { st with refs := rest } ik pk = (false, st')) :
    searchStep t m q true start st ik = pure ({ st' with scanned := st'.scanned + 1 }, false) := by
  simp only [searchStep, getPrimaryKey, if_true, hr, beq_self_eq_true, hp]

/-- references that are skipped before the start position leave everything but the bookkeeping alone -/
theorem skip_phase_ix (t : Table) (m : Matcher) (q : Query) (start : SearchStart) (hne : start.indexKey.isEmpty = false) :
    ∀ (lo : List (Bytes × Bytes)) (rest : List (Bytes × Bytes)) (st : SearchState), st.started = false → st.refs = lo ++ rest →
    Chain.IsChain (aftRef q.forward) lo →
    (∀ r ∈ lo, aftRef q.forward r (start.key, start.indexKey) = false) →
    (∀ r ∈ lo, r.1 = start.key → r.2 = start.indexKey) →
    ∃ st', (∀ ks, searchLoop t m q true start st (lo.map (·.2) ++ ks) = searchLoop t m q true start st' ks) ∧
      st'.refs = rest ∧ st'.items = st.items ∧ st'.count = st.count ∧ st'.last = st.last ∧ st'.scanned = st.scanned + lo.length := by
  intro lo
  induction lo with
  | nil => intro rest st _ hr _ _ _; exact ⟨st, fun _ => rfl, by simpa using hr, rfl, rfl, rfl, rfl⟩
  | cons r lo ih =>
    intro rest st hs hr hc hna huniq
    obtain ⟨pk, ik⟩ := r
    have hx : aftRef q.forward (pk, ik) (start.key, start.indexKey) = false := hna (pk, ik) (by simp)
    have hr' : st.refs = (pk, ik) :: (lo ++ rest) := by simpa using hr
    by_cases hxs : (pk == start.key) = true
    · -- the start position itself: the search starts after it; nothing else can follow in `lo`
      have hpk : pk = start.key := by simpa using hxs
      have hik : ik = start.indexKey := huniq (pk, ik) (by simp) hpk
      have hnil : lo = [] := by
        cases lo with
        | nil => rfl
        | cons y ys =>
          have h1 := hc.1 y (by simp)
          have h2 := hna y (by simp)
          rw [hpk, hik] at h1; rw [h1] at h2; cases h2
      subst hnil
      refine ⟨{ st with refs := rest, started := true, scanned := st.scanned + 1 }, ?_, rfl, rfl, rfl, rfl, rfl⟩
      intro ks
      have hp : prepareSearch start true q.forward { st with refs := [] ++ rest } ik pk = (false, { st with refs := [] ++ rest, started := true }) := by
        simp only [prepareSearch, hs, Bool.false_eq_true, if_false, isAfter_ix start ik pk q.forward hne, hx, hxs, if_true]
      simp only [List.map_cons, List.map_nil, List.cons_append, List.nil_append, searchLoop,
        searchStep_ix_skip t m q start st _ pk ik ([] ++ rest) hr' hp, bind, Except.bind, pure, Except.pure, Bool.false_eq_true, if_false]
    · obtain ⟨st', h1, h2, h3, h4, h5, h6⟩ := ih rest { st with refs := lo ++ rest, scanned := st.scanned + 1 } hs rfl hc.2
        (fun y hy => hna y (by simp [hy])) (fun y hy => huniq y (by simp [hy]))
      refine ⟨st', ?_, h2, h3, h4, h5, by rw [h6]; simp only [List.length_cons]; omega⟩
      intro ks
      rw [← h1 ks]
      have hp : prepareSearch start true q.forward { st with refs := lo ++ rest } ik pk = (false, { st with refs := lo ++ rest }) := by
        simp only [prepareSearch, hs, Bool.false_eq_true, if_false, isAfter_ix start ik pk q.forward hne, hx, hxs]
      simp only [List.map_cons, List.cons_append, searchLoop, searchStep_ix_skip t m q start st _ pk ik (lo ++ rest) hr' hp,
        bind, Except.bind, pure, Except.pure, Bool.false_eq_true, if_false]

/-- the first reference after the start position switches the search on -/
theorem searchStep_first_ix (t : Table) (m : Matcher) (q : Query) (start : SearchStart) (hne : start.indexKey.isEmpty = false)
    (st : SearchState) (pk ik : Bytes) (rest : List (Bytes × Bytes)) (hr : st.refs = (pk, ik) :: rest)
    (ha : aftRef q.forward (pk, ik) (start.key, start.indexKey) = true) :
    searchStep t m q true start st ik = processItem t m q { st with refs := rest, started := true } pk := by
  apply searchStep_ix_go t m q start st _ pk ik rest hr
  cases hs : st.started with
  | true =>
    simp only [prepareSearch, hs, if_true]
  | false =>
    simp only [prepareSearch, hs, Bool.false_eq_true, if_false, isAfter_ix start ik pk q.forward hne, ha, if_true]

structure PageOutIx (t : Table) (m : Matcher) (q : Query) (st st' : SearchState) (rs : List (Bytes × Bytes)) : Prop where
  items : st'.items = (pick t m q (cut t m q st.count (rs.map (·.1))).1).reverse ++ st.items
  last : st'.last = lastItem t (cut t m q st.count (rs.map (·.1))).1 st.last
  scanned : st'.scanned = st.scanned + (cut t m q st.count (rs.map (·.1))).1.length
  stopped : (cut t m q st.count (rs.map (·.1))).2 = true → st'.count = q.limit ∧ q.limit ≠ 0
  complete : (cut t m q st.count (rs.map (·.1))).2 = false → (q.limit ≠ 0 → st'.count < q.limit)

/-- the loop over the references after the start position, with a Limit -/
theorem process_phase_ix_lim (t : Table) (m : Matcher) (q : Query) (start : SearchStart) :
    ∀ (rs : List (Bytes × Bytes)) (st : SearchState), st.started = true → st.refs = rs → (q.limit ≠ 0 → st.count < q.limit) →
    (∀ r ∈ rs, ∃ item, alookup r.1 t.data = some item ∧ Answers m q item) →
    ∃ st', searchLoop t m q true start st (rs.map (·.2)) = .ok st' ∧ PageOutIx t m q st st' rs := by
  intro rs
  induction rs with
  | nil =>
    intro st _ _ hlt _
    exact ⟨st, rfl, ⟨by simp [cut, pick], by simp [cut, lastItem], by simp [cut], by simp [cut], fun _ => hlt⟩⟩
  | cons r rs ih =>
    intro st hs hr hlt hall
    obtain ⟨pk, ik⟩ := r
    obtain ⟨item, hk, ha⟩ := hall (pk, ik) (by simp)
    have hitem : itemOf t pk = item := by simp [itemOf, hk]
    have hstep : searchStep t m q true start st ik = processItem t m q { st with refs := rs } pk :=
      searchStep_ix_go t m q start st _ pk ik rs hr (by simp only [prepareSearch, hs, if_true])
    have hproc := processItem_eq t m q { st with refs := rs } pk item hs hk ha
    simp only [List.map_cons, searchLoop, hstep, hproc, bind, Except.bind]
    cases hstop : (q.limit != 0 && q.limit == (if counts m q item then st.count + 1 else st.count)) with
    | true =>
      simp only [if_true, pure, Except.pure]
      have hcut : cut t m q st.count (pk :: rs.map (·.1)) = ([pk], true) := by
        simp only [cut, hitem, hstop, if_true]
      refine ⟨_, rfl, ⟨?_, ?_, ?_, ?_, ?_⟩⟩
      · simp only [List.map_cons, hcut, pick, List.filterMap_cons, List.filterMap_nil, hk, Option.getD_some]
        cases verdict m q item <;> simp
      · simp [hcut, lastItem, itemOf, hk]
      · simp [hcut]
      · intro _
        simp only [Bool.and_eq_true, bne_iff_ne, ne_eq, beq_iff_eq] at hstop
        exact ⟨hstop.2.symm, hstop.1⟩
      · intro h; simp only [List.map_cons] at h; rw [hcut] at h; cases h
    | false =>
      simp only [Bool.false_eq_true, if_false]
      have hlt' : q.limit ≠ 0 → (if counts m q item then st.count + 1 else st.count) < q.limit := by
        intro h0
        have := hlt h0
        simp only [Bool.and_eq_false_imp, bne_iff_ne, ne_eq, beq_eq_false_iff_ne] at hstop
        have hne := hstop h0
        split <;> split at hne <;> omega
      obtain ⟨st', hloop, hout⟩ := ih { st with
          refs := rs,
          items := if verdict m q item then item :: st.items else st.items,
          scanned := st.scanned + 1,
          count := if counts m q item then st.count + 1 else st.count,
          last := item } hs rfl hlt' (fun r hr' => hall r (by simp [hr']))
      have hcut1 : (cut t m q st.count (pk :: rs.map (·.1))).1 = pk :: (cut t m q (if counts m q item then st.count + 1 else st.count) (rs.map (·.1))).1 := by
        simp only [cut, hitem, hstop, Bool.false_eq_true, if_false]
      have hcut2 : (cut t m q st.count (pk :: rs.map (·.1))).2 = (cut t m q (if counts m q item then st.count + 1 else st.count) (rs.map (·.1))).2 := by
        simp only [cut, hitem, hstop, Bool.false_eq_true, if_false]
      refine ⟨st', hloop, ⟨?_, ?_, ?_, ?_, ?_⟩⟩
      · rw [hout.items]; simp only [List.map_cons]; rw [hcut1]
        simp only [pick, List.filterMap_cons, hk, Option.getD_some]
        cases verdict m q item <;> simp
      · rw [hout.last]; simp only [List.map_cons]; rw [hcut1, lastItem_cons, hitem]
      · rw [hout.scanned]; simp only [List.map_cons]; rw [hcut1]; simp only [List.length_cons]; omega
      · intro h; simp only [List.map_cons] at h; rw [hcut2] at h; exact hout.stopped h
      · intro h; simp only [List.map_cons] at h; rw [hcut2] at h; exact hout.complete h

/-! ### one page of a read through an index -/

def startIx (t : Table) (ix : Index) (q : Query) : SearchStart := parseSearchStart t (some ix) q.startKey

/-- the references positioned after the start of the read, in read order -/
def afterRefs (t : Table) (ix : Index) (q : Query) : List (Bytes × Bytes) :=
  if (startIx t ix q).key.isEmpty then ix.sortedRefs q.forward
  else (ix.sortedRefs q.forward).filter fun r => aftRef q.forward r ((startIx t ix q).key, (startIx t ix q).indexKey)

/-- the LastEvaluatedKey of an index read: the table key of the last item, completed with its index key -/
def mergedKey (t : Table) (ix : Index) (last : Item) : Item :=
  (Key.keyItem ix.schema last).foldl (fun acc (p : Bytes × AV) => ainsert p.1 p.2 acc) (Key.keyItem t.schema last)

def lekOfIx (t : Table) (m : Matcher) (ix : Index) (q : Query) : Item :=
  let c := cut t m q 0 ((afterRefs t ix q).map (·.1))
  if c.2 && !(lastItem t c.1 []).isEmpty then mergedKey t ix (lastItem t c.1 []) else []

theorem mem_sortedRefs (ix : Index) (fwd : Bool) (r : Bytes × Bytes) : r ∈ ix.sortedRefs fwd ↔ r ∈ ix.refs := by
  rw [sortedRefs_eq]
  have hp := (sortBy_perm refLe ix.refs)
  cases fwd
  · simp only [Bool.false_eq_true, if_false, List.mem_reverse]; exact hp.mem_iff
  · simp only [if_true]; exact hp.mem_iff

/-- **one page of an index read**: the items of the references positioned after the start position — whether or
    not the item named by the start key is still there — in (index key, primary key) order, up to the one that
    brings the count of evaluated items to the Limit -/
theorem page_spec_ix (t : Table) (m : Matcher) (q : Query) (ix : Index)
    (hix : alookup q.index t.indexes = some ix) (hne : q.index.isEmpty = false) (hinv : IndexInv ix)
    (hstored : ∀ r ∈ ix.refs, ∃ item, alookup r.1 t.data = some item ∧ Answers m q item)
    (hstart : (startIx t ix q).key.isEmpty = false → (startIx t ix q).indexKey.isEmpty = false)
    (huniq : (startIx t ix q).key.isEmpty = false → ∀ r ∈ ix.refs, r.1 = (startIx t ix q).key → r.2 = (startIx t ix q).indexKey) :
    ∃ r, t.searchData m q = .ok r ∧ r.items = pick t m q (cut t m q 0 ((afterRefs t ix q).map (·.1))).1 ∧
      r.lastKey = lekOfIx t m ix q := by
  have hchain := sortedRefs_chain ix hinv q.forward
  have hlen : (ix.sortedRefs q.forward).length = ix.sortedKeys.length := by
    have := congrArg List.length (aligned ix hinv q.forward)
    simp only [List.length_map] at this
    rw [← this]; split <;> simp
  have hall : ∀ rs : List (Bytes × Bytes), (∀ r ∈ rs, r ∈ ix.sortedRefs q.forward) →
      ∀ r ∈ rs, ∃ item, alookup r.1 t.data = some item ∧ Answers m q item :=
    fun rs h r hr => hstored r ((mem_sortedRefs ix q.forward r).1 (h r hr))
  -- the loop, from the initial state, in terms of the references after the start
  have hloop : ∃ st', searchLoop t m q true (startIx t ix q)
        { started := (startIx t ix q).key.isEmpty, refs := ix.sortedRefs q.forward } ((ix.sortedRefs q.forward).map (·.2)) = .ok st' ∧
      st'.items = (pick t m q (cut t m q 0 ((afterRefs t ix q).map (·.1))).1).reverse ∧
      st'.last = lastItem t (cut t m q 0 ((afterRefs t ix q).map (·.1))).1 [] ∧
      st'.scanned ≤ ix.sortedKeys.length ∧
      ((cut t m q 0 ((afterRefs t ix q).map (·.1))).2 = true → st'.count = q.limit ∧ q.limit ≠ 0) ∧
      ((cut t m q 0 ((afterRefs t ix q).map (·.1))).2 = false → q.limit ≠ 0 → st'.count < q.limit) := by
    cases hse : (startIx t ix q).key.isEmpty with
    | true =>
      have hA : afterRefs t ix q = ix.sortedRefs q.forward := by simp [afterRefs, hse]
      obtain ⟨st', h1, hout⟩ := process_phase_ix_lim t m q (startIx t ix q) (ix.sortedRefs q.forward)
        { started := true, refs := ix.sortedRefs q.forward } rfl rfl (fun h => by simp; omega) (hall _ (fun r hr => hr))
      refine ⟨st', h1, ?_, ?_, ?_, ?_, ?_⟩
      · rw [hA]; simpa using hout.items
      · rw [hA]; exact hout.last
      · rw [hout.scanned, ← hlen]
        have := cut_length_le t m q ((ix.sortedRefs q.forward).map (·.1)) 0
        simp only [List.length_map] at this ⊢; omega
      · rw [hA]; exact hout.stopped
      · rw [hA]; exact hout.complete
    | false =>
      have hike := hstart hse
      obtain ⟨lo, hi, he, hlo, hhi⟩ := Chain.split (aftRef_strict q.forward) ((startIx t ix q).key, (startIx t ix q).indexKey)
        (ix.sortedRefs q.forward) hchain
      have hA : afterRefs t ix q = hi := by
        simp only [afterRefs, hse, Bool.false_eq_true, if_false]
        rw [he]; exact Chain.filter_split _ lo hi hlo hhi
      have hclo : Chain.IsChain (aftRef q.forward) lo := by rw [he] at hchain; exact (Chain.append lo hi hchain).1
      have hmemlo : ∀ r ∈ lo, r ∈ ix.refs := fun r hr => (mem_sortedRefs ix q.forward r).1 (by rw [he]; simp [hr])
      obtain ⟨st1, hskip, hr1, hi1, hc1, hl1, hs1⟩ := skip_phase_ix t m q (startIx t ix q) hike lo hi
        { started := false, refs := lo ++ hi } rfl rfl hclo hlo
        (fun r hr hk => huniq hse r (hmemlo r hr) hk)
      cases hi with
      | nil =>
        refine ⟨st1, ?_, ?_, ?_, ?_, ?_, ?_⟩
        · rw [he]
          have := hskip []
          simp only [List.append_nil] at this ⊢
          rw [this]; rfl
        · rw [hA]; simp [cut, pick, hi1]
        · rw [hA]; simp [cut, lastItem, hl1]
        · rw [hs1, ← hlen, he]; simp
        · rw [hA]; simp [cut]
        · rw [hA]; intro _ h0; rw [hc1]; simp; omega
      | cons h hs =>
        obtain ⟨pk, ik⟩ := h
        have hsame : searchLoop t m q true (startIx t ix q) st1 (((pk, ik) :: hs).map (·.2)) =
            searchLoop t m q true (startIx t ix q) { st1 with started := true } (((pk, ik) :: hs).map (·.2)) := by
          simp only [List.map_cons, searchLoop]
          rw [searchStep_first_ix t m q _ hike st1 pk ik hs hr1 (hhi (pk, ik) (by simp)),
              searchStep_first_ix t m q _ hike { st1 with started := true } pk ik hs hr1 (hhi (pk, ik) (by simp))]
        have hmem : ∀ r ∈ (pk, ik) :: hs, r ∈ ix.sortedRefs q.forward := fun r hr => by rw [he]; exact List.mem_append_right _ hr
        obtain ⟨st', h1, hout⟩ := process_phase_ix_lim t m q (startIx t ix q) ((pk, ik) :: hs)
          { st1 with started := true } rfl hr1 (fun h => by simp only [hc1]; omega) (hall _ hmem)
        refine ⟨st', ?_, ?_, ?_, ?_, ?_, ?_⟩
        · rw [he, List.map_append, hskip, hsame]; exact h1
        · rw [hA, hout.items]; simp only [hc1, hi1, List.append_nil]
        · rw [hA, hout.last]; simp only [hc1, hl1]
        · rw [hout.scanned, ← hlen, he]
          have := cut_length_le t m q (((pk, ik) :: hs).map (·.1)) 0
          simp only [hc1, hs1, List.length_append, List.length_map, Nat.zero_add] at this ⊢
          omega
        · rw [hA]; intro hh; have := hout.stopped; simp only [hc1] at this; exact this hh
        · rw [hA]; intro hh; have := hout.complete; simp only [hc1] at this; exact this hh
  obtain ⟨st', hl, hitems, hlast, hscan, hstop, hcomp⟩ := hloop
  refine ⟨{ items := st'.items.reverse, lastKey := lekOfIx t m ix q }, ?_, by simp [hitems], rfl⟩
  simp only [searchData, hne, Bool.false_eq_true, if_false, hix, Option.isSome_some, bind, Except.bind]
  rw [aligned ix hinv q.forward]
  have hl' : searchLoop t m q true (parseSearchStart t (some ix) q.startKey)
      { started := (parseSearchStart t (some ix) q.startKey).key.isEmpty, refs := ix.sortedRefs q.forward }
      ((ix.sortedRefs q.forward).map (·.2)) = .ok st' := hl
  rw [hl']
  simp only [pure, Except.pure]
  congr 1
  simp only [lekOfIx, hlast, mergedKey]
  cases hcut : (cut t m q 0 ((afterRefs t ix q).map (·.1))).2 with
  | true =>
    obtain ⟨hcnt, hne0⟩ := hstop hcut
    have h0 : (q.limit == 0) = false := by simpa using hne0
    have hle : decide (st'.scanned ≤ ix.sortedKeys.length) = true := by simpa using hscan
    simp only [h0, hle, hcnt, Nat.le_refl, decide_true, Bool.and_self, Bool.not_true, Bool.or_false, Bool.true_and]
    cases (lastItem t (cut t m q 0 ((afterRefs t ix q).map (·.1))).1 []).isEmpty <;> simp
  | false =>
    simp only [Bool.false_and, Bool.false_eq_true, if_false]
    by_cases h0 : q.limit = 0
    · simp [h0]
    · have := hcomp hcut h0
      have : decide (q.limit ≤ st'.count) = false := by simp; omega
      simp [this]

/-! ### from one index page to the next -/

theorem alookup_foldl_ainsert (f : Bytes) : ∀ (kvs : List (Bytes × AV)) (base : Item),
    alookup f (kvs.foldl (fun acc (p : Bytes × AV) => ainsert p.1 p.2 acc) base) =
      match (kvs.reverse.find? fun p => p.1 == f) with
      | some p => some p.2
      | none => alookup f base := by
  intro kvs
  induction kvs with
  | nil => intro base; rfl
  | cons p rest ih =>
    intro base
    simp only [List.foldl_cons, List.reverse_cons]
    rw [ih]
    rw [List.find?_append]
    cases hfind : List.find? (fun p => p.1 == f) rest.reverse with
    | some q => rfl
    | none =>
      simp only [Option.none_or, List.find?_cons, List.find?_nil]
      by_cases hp : (p.1 == f) = true
      · have : p.1 = f := by simpa using hp
        simp only [hp]; rw [← this]; exact alookup_ainsert_self _ _ _
      · simp only [hp]
        have : f ≠ p.1 := fun e => hp (by simp [e])
        exact alookup_ainsert_ne _ _ this

/-- every entry of a key item is the entry of the item it was taken from -/
theorem alookup_keyItem (ks : KeySchema) (item : Item) (f : Bytes) (v : AV) (h : alookup f (Key.keyItem ks item) = some v) :
    alookup f item = some v := by
  unfold Key.keyItem at h
  cases hh : alookup ks.hash item with
  | some vh =>
    simp only [hh, List.cons_append, List.nil_append, alookup] at h
    split at h
    · rename_i heq
      have : ks.hash = f := by simpa using heq
      cases h; rw [← this]; exact hh
    · split at h
      · cases h
      · cases hr : alookup ks.range item with
        | none => simp [hr, alookup] at h
        | some vr =>
          simp only [hr, alookup] at h
          split at h
          · rename_i heq2
            have : ks.range = f := by simpa using heq2
            cases h; rw [← this]; exact hr
          · cases h
  | none =>
    simp only [hh, List.nil_append] at h
    split at h
    · cases h
    · cases hr : alookup ks.range item with
      | none => simp [hr, alookup] at h
      | some vr =>
        simp only [hr, alookup] at h
        split at h
        · rename_i heq2
          have : ks.range = f := by simpa using heq2
          cases h; rw [← this]; exact hr
        · cases h

theorem mergedKey_sub (t : Table) (ix : Index) (last : Item) (f : Bytes) (v : AV)
    (h : alookup f (mergedKey t ix last) = some v) : alookup f last = some v := by
  unfold mergedKey at h
  rw [alookup_foldl_ainsert] at h
  cases hfind : List.find? (fun p => p.1 == f) (Key.keyItem ix.schema last).reverse with
  | none => rw [hfind] at h; exact alookup_keyItem t.schema last f v h
  | some p =>
    rw [hfind] at h
    simp only [Option.some.injEq] at h
    have hmem := List.mem_of_find?_eq_some hfind
    have hpf : (p.1 == f) = true := List.find?_some (p := fun (p : Bytes × AV) => p.1 == f) hfind
    have hpf' : p.1 = f := by simpa using hpf
    -- p is an entry of the index key item: look it up there
    have hl : alookup f (Key.keyItem ix.schema last) = some p.2 ∨ True := .inr trivial
    -- every member of a key item is found by lookup at some value that is the item's
    have : ∃ w, alookup f (Key.keyItem ix.schema last) = some w := by
      have hm : p ∈ Key.keyItem ix.schema last := by simpa using hmem
      have : ahas f (Key.keyItem ix.schema last) = true := (ahas_iff_mem_keys f _).2 (by
        simp only [keysOf, List.mem_map]; exact ⟨p, hm, hpf'⟩)
      simpa [ahas, Option.isSome_iff_exists] using this
    obtain ⟨w, hw⟩ := this
    have hw' := alookup_keyItem ix.schema last f w hw
    -- the found entry p carries the item's value as well (key items have at most the two entries, both from the item)
    have hp2 : alookup p.1 last = some p.2 := by
      have hm : p ∈ Key.keyItem ix.schema last := by simpa using hmem
      unfold Key.keyItem at hm
      rcases List.mem_append.1 hm with hm | hm
      · cases hh : alookup ix.schema.hash last with
        | none => simp [hh] at hm
        | some vh => simp only [hh, List.mem_singleton] at hm; rw [hm]; exact hh
      · split at hm
        · cases hm
        · cases hr : alookup ix.schema.range last with
          | none => simp [hr] at hm
          | some vr => simp only [hr, List.mem_singleton] at hm; rw [hm]; exact hr
    rw [hpf'] at hp2
    rw [← h]; exact hp2

theorem mergedKey_has_tableKey (t : Table) (ix : Index) (last : Item) (f : Bytes) (v : AV)
    (h : alookup f (Key.keyItem t.schema last) = some v) : alookup f (mergedKey t ix last) = some v := by
  unfold mergedKey
  rw [alookup_foldl_ainsert]
  cases hfind : List.find? (fun p => p.1 == f) (Key.keyItem ix.schema last).reverse with
  | none => exact h
  | some p =>
    simp only
    -- an index key entry with the same name carries the item's value too
    have hv := alookup_keyItem t.schema last f v h
    have hmem := List.mem_of_find?_eq_some hfind
    have hpf' : p.1 = f := by simpa using List.find?_some (p := fun (p : Bytes × AV) => p.1 == f) hfind
    have hm : p ∈ Key.keyItem ix.schema last := by simpa using hmem
    have hp2 : alookup p.1 last = some p.2 := by
      unfold Key.keyItem at hm
      rcases List.mem_append.1 hm with hm | hm
      · cases hh : alookup ix.schema.hash last with
        | none => simp [hh] at hm
        | some vh => simp only [hh, List.mem_singleton] at hm; rw [hm]; exact hh
      · split at hm
        · cases hm
        · cases hr : alookup ix.schema.range last with
          | none => simp [hr] at hm
          | some vr => simp only [hr, List.mem_singleton] at hm; rw [hm]; exact hr
    rw [hpf', hv] at hp2
    exact hp2.symm

theorem getKey_congr (ks : KeySchema) (attrs : List (Bytes × Bytes)) (i j : Item)
    (hh : alookup ks.hash i = alookup ks.hash j) (hr : ks.range.isEmpty = false → alookup ks.range i = alookup ks.range j) :
    Key.getKey ks attrs i = Key.getKey ks attrs j := by
  have hv : Key.keyValue ks attrs i = Key.keyValue ks attrs j := by
    unfold Key.keyValue
    rw [keyAttrValue_congr ks attrs i j ks.hash hh]
    cases he : ks.range.isEmpty with
    | true => rfl
    | false => rw [keyAttrValue_congr ks attrs i j ks.range (hr he)]
  unfold Key.getKey
  rw [hv]

theorem mergedKey_has_indexKey (t : Table) (ix : Index) (last : Item) (f : Bytes) (v : AV)
    (h : alookup f (Key.keyItem ix.schema last) = some v) : alookup f (mergedKey t ix last) = some v := by
  have hv := alookup_keyItem ix.schema last f v h
  unfold mergedKey
  rw [alookup_foldl_ainsert]
  cases hfind : List.find? (fun p => p.1 == f) (Key.keyItem ix.schema last).reverse with
  | none =>
    -- f is a key of the index key item, so the search cannot fail
    exfalso
    have hmem : f ∈ keysOf (Key.keyItem ix.schema last) := (ahas_iff_mem_keys f _).1 (by simp [ahas, h])
    simp only [keysOf, List.mem_map] at hmem
    obtain ⟨p, hp, hpf⟩ := hmem
    have := List.find?_eq_none.1 hfind p (by simpa using hp)
    simp [hpf] at this
  | some p =>
    simp only
    have hmem := List.mem_of_find?_eq_some hfind
    have hpf' : p.1 = f := by simpa using List.find?_some (p := fun (p : Bytes × AV) => p.1 == f) hfind
    have hm : p ∈ Key.keyItem ix.schema last := by simpa using hmem
    have hp2 : alookup p.1 last = some p.2 := by
      unfold Key.keyItem at hm
      rcases List.mem_append.1 hm with hm | hm
      · cases hh : alookup ix.schema.hash last with
        | none => simp [hh] at hm
        | some vh => simp only [hh, List.mem_singleton] at hm; rw [hm]; exact hh
      · split at hm
        · cases hm
        · cases hr : alookup ix.schema.range last with
          | none => simp [hr] at hm
          | some vr => simp only [hr, List.mem_singleton] at hm; rw [hm]; exact hr
    rw [hpf', hv] at hp2
    exact hp2.symm

/-- the merged key carries the item's own values for the key attributes of the table and of the index -/
theorem mergedKey_lookup (t : Table) (ix : Index) (last : Item) (f : Bytes)
    (hf : alookup f (Key.keyItem t.schema last) = alookup f last ∨ alookup f (Key.keyItem ix.schema last) = alookup f last) :
    alookup f (mergedKey t ix last) = alookup f last := by
  cases hl : alookup f last with
  | none =>
    cases hm : alookup f (mergedKey t ix last) with
    | none => rfl
    | some v => have := mergedKey_sub t ix last f v hm; rw [hl] at this; cases this
  | some v =>
    rcases hf with hf | hf
    · exact mergedKey_has_tableKey t ix last f v (by rw [hf, hl])
    · exact mergedKey_has_indexKey t ix last f v (by rw [hf, hl])

theorem getKey_mergedKey_table (t : Table) (ix : Index) (last : Item) :
    Key.getKey t.schema t.attrs (mergedKey t ix last) = Key.getKey t.schema t.attrs last :=
  getKey_congr _ _ _ _ (mergedKey_lookup t ix last _ (.inl (alookup_keyItem_hash t.schema last)))
    (fun hr => mergedKey_lookup t ix last _ (.inl (alookup_keyItem_range t.schema last hr)))

theorem getKey_mergedKey_index (t : Table) (ix : Index) (last : Item) :
    Key.getKey ix.schema t.attrs (mergedKey t ix last) = Key.getKey ix.schema t.attrs last :=
  getKey_congr _ _ _ _ (mergedKey_lookup t ix last _ (.inr (alookup_keyItem_hash ix.schema last)))
    (fun hr => mergedKey_lookup t ix last _ (.inr (alookup_keyItem_range ix.schema last hr)))

theorem alookup_of_mem_nodup {m : List (Bytes × Bytes)} (hn : (keysOf m).Nodup) {k v : Bytes} (h : (k, v) ∈ m) : alookup k m = some v := by
  induction m with
  | nil => cases h
  | cons p rest ih =>
    obtain ⟨k0, v0⟩ := p
    simp only [keysOf, List.map_cons, List.nodup_cons] at hn
    simp only [alookup]
    rcases List.mem_cons.1 h with h | h
    · cases h; simp
    · have hne : (k0 == k) = false := by
        apply beq_eq_false_iff_ne.2
        intro e; subst e
        exact hn.1 (List.mem_map_of_mem (f := (·.1)) h)
      simp only [hne, Bool.false_eq_true, if_false]
      exact ih hn.2 h

/-- what an index that agrees with its table knows about each of its references -/
theorem ref_facts (t : Table) (ix : Index) (hinv : IndexInv ix) (hag : IndexAgree t ix) (pk ik : Bytes) (h : (pk, ik) ∈ ix.refs) :
    ∃ item, alookup pk t.data = some item ∧ Key.getKey ix.schema t.attrs item = .ok ik ∧ ik.isEmpty = false := by
  have hl := alookup_of_mem_nodup hinv.refsNodup h
  rw [hag pk] at hl
  unfold expectedRef at hl
  cases hd : alookup pk t.data with
  | none => rw [hd] at hl; cases hl
  | some item =>
    rw [hd] at hl
    simp only at hl
    cases hk : Key.getKey ix.schema t.attrs item with
    | error e => rw [hk] at hl; cases hl
    | ok ik' =>
      rw [hk] at hl
      simp only at hl
      cases he : ik'.isEmpty with
      | true => rw [he] at hl; cases hl
      | false =>
        rw [he] at hl
        simp only [Bool.false_eq_true, if_false, Option.some.injEq] at hl
        subst hl
        exact ⟨item, rfl, hk, he⟩


theorem startIx_withStart_nil (t : Table) (ix : Index) (q : Query) : (startIx t ix (withStart q [])).key = [] := by
  simp [startIx, parseSearchStart]

theorem sortedRefs_withStart (ix : Index) (q : Query) (esk : Item) : ix.sortedRefs (withStart q esk).forward = ix.sortedRefs q.forward := rfl

/-- **C04 through an index**: paginating a Query or Scan on a secondary index until no LastEvaluatedKey comes back
    returns, concatenated, exactly the items of the references positioned after the start, in index order — nothing
    lost, duplicated or reordered — within (number of such references) + 1 pages, for every Limit and direction -/
theorem paginate_complete_ix (t : Table) (m : Matcher) (q : Query) (ix : Index)
    (hix : alookup q.index t.indexes = some ix) (hne : q.index.isEmpty = false)
    (hkeyed : Keyed t) (hinv : IndexInv ix) (hag : IndexAgree t ix)
    (ha : ∀ k item, alookup k t.data = some item → Answers m q item) :
    ∀ (n : Nat) (esk : Item),
      ((startIx t ix (withStart q esk)).key.isEmpty = false → (startIx t ix (withStart q esk)).indexKey.isEmpty = false) →
      ((startIx t ix (withStart q esk)).key.isEmpty = false → ∀ r ∈ ix.refs, r.1 = (startIx t ix (withStart q esk)).key →
        r.2 = (startIx t ix (withStart q esk)).indexKey) →
      (afterRefs t ix (withStart q esk)).length ≤ n → ∀ fuel, n < fuel →
      paginate t m q fuel esk = .ok (some (pick t m q ((afterRefs t ix (withStart q esk)).map (·.1)))) := by
  have hstored : ∀ r ∈ ix.refs, ∃ item, alookup r.1 t.data = some item ∧ Answers m q item := by
    intro r hr
    obtain ⟨item, hi, _, _⟩ := ref_facts t ix hinv hag r.1 r.2 hr
    exact ⟨item, hi, ha r.1 item hi⟩
  intro n
  induction n with
  | zero =>
    intro esk hs hu hn fuel hf
    obtain ⟨fuel', rfl⟩ : ∃ f, fuel = f + 1 := ⟨fuel - 1, by omega⟩
    have hA : afterRefs t ix (withStart q esk) = [] := List.eq_nil_of_length_eq_zero (by omega)
    obtain ⟨r, hr, hitems, hlek⟩ := page_spec_ix t m (withStart q esk) ix hix hne hinv hstored hs hu
    simp only [paginate, hr, bind, Except.bind]
    have : r.lastKey = [] := by rw [hlek]; simp [lekOfIx, hA, cut]
    simp only [this, List.isEmpty_nil, if_true, pure, Except.pure]
    rw [hitems, hA]; simp [cut, pick]
  | succ n ih =>
    intro esk hs hu hn fuel hf
    obtain ⟨fuel', rfl⟩ : ∃ f, fuel = f + 1 := ⟨fuel - 1, by omega⟩
    obtain ⟨r, hr, hitems, hlek⟩ := page_spec_ix t m (withStart q esk) ix hix hne hinv hstored hs hu
    simp only [paginate, hr, bind, Except.bind]
    cases hstop : (cut t m (withStart q esk) 0 ((afterRefs t ix (withStart q esk)).map (·.1))).2 with
    | false =>
      have hl : r.lastKey = [] := by rw [hlek]; simp [lekOfIx, hstop]
      simp only [hl, List.isEmpty_nil, if_true, pure, Except.pure]
      rw [hitems, cut_complete t m (withStart q esk) _ 0 hstop]
      rfl
    | true =>
      obtain ⟨pre, kn, rest, hP, hAeq⟩ := cut_stopped_last t m (withStart q esk) _ 0 hstop
      -- the reference whose primary key ends the page
      obtain ⟨rpre, rlast, rrest, hsplit, hpre, hlastk, hrestm⟩ : ∃ rpre rlast rrest,
          afterRefs t ix (withStart q esk) = rpre ++ rlast :: rrest ∧ rpre.map (·.1) = pre ∧ rlast.1 = kn ∧ rrest.map (·.1) = rest := by
        have := List.map_eq_append_iff.1 hAeq
        obtain ⟨l1, l2, h1, h2, h3⟩ := this
        cases l2 with
        | nil => simp at h3
        | cons x xs =>
          simp only [List.map_cons, List.cons.injEq] at h3
          exact ⟨l1, x, xs, h1, h2, h3.1, h3.2⟩
      obtain ⟨pk, ik⟩ := rlast
      simp only at hlastk
      subst hlastk
      -- it is a reference of the index
      have hsub : ∀ r ∈ afterRefs t ix (withStart q esk), r ∈ ix.refs := by
        intro r hr
        unfold afterRefs at hr
        split at hr
        · exact (mem_sortedRefs ix _ r).1 hr
        · exact (mem_sortedRefs ix _ r).1 (List.mem_filter.1 hr).1
      have hmemref : (pk, ik) ∈ ix.refs := hsub _ (by rw [hsplit]; simp)
      obtain ⟨item, hitem, hgik, hikne⟩ := ref_facts t ix hinv hag pk ik hmemref
      have hkey := hkeyed.keyed pk item hitem
      have hitemOf : itemOf t pk = item := by simp [itemOf, hitem]
      have hne0 : item ≠ [] := by
        intro h0; rw [h0, keyItem_nil, getKey_nil _ _ hkeyed.primary] at hkey; cases hkey
      have hgpk : Key.getKey t.schema t.attrs item = .ok pk := by rw [← getKey_keyItem]; exact hkey
      have hl : r.lastKey = mergedKey t ix item := by
        rw [hlek]
        simp only [lekOfIx, hstop, hP, lastItem_snoc, hitemOf, Bool.true_and]
        have : item.isEmpty = false := by cases item <;> simp_all
        simp [this]
      -- the merged key is not empty: it renders to the primary key
      have hmk : Key.getKey t.schema t.attrs (mergedKey t ix item) = .ok pk := by rw [getKey_mergedKey_table]; exact hgpk
      have hmi : Key.getKey ix.schema t.attrs (mergedKey t ix item) = .ok ik := by rw [getKey_mergedKey_index]; exact hgik
      have hlne : r.lastKey.isEmpty = false := by
        rw [hl]
        cases hm : mergedKey t ix item with
        | nil => rw [hm, getKey_nil _ _ hkeyed.primary] at hmk; cases hmk
        | cons _ _ => rfl
      simp only [hlne, Bool.false_eq_true, if_false]
      have hpkne : pk ≠ [] := C13.key_nonempty _ _ _ _ hkeyed.primary hgpk
      have hpke : pk.isEmpty = false := by cases pk <;> simp_all
      -- the next read starts at the position of that reference
      have hstart : startIx t ix (withStart q r.lastKey) = { key := pk, indexKey := ik } := by
        simp only [startIx, parseSearchStart, withStart_startKey, hlne, Bool.false_eq_true, if_false]
        rw [hl, hmk, hmi]
        simp only [Except.toOption, Option.getD_some, hpke, Bool.false_eq_true, if_false]
      -- the references after it are the rest of this page's list
      have hchain := sortedRefs_chain ix hinv q.forward
      have hnext : afterRefs t ix (withStart q r.lastKey) = rrest := by
        unfold afterRefs
        rw [hstart]
        simp only [hpke, Bool.false_eq_true, if_false, sortedRefs_withStart, withStart_forward]
        -- the list of this page is a suffix of the sorted references
        have hsuf : ∃ lo, ix.sortedRefs q.forward = lo ++ afterRefs t ix (withStart q esk) := by
          unfold afterRefs
          split
          · exact ⟨[], by simp [sortedRefs_withStart]⟩
          · obtain ⟨lo, hi, he, hlo, hhi⟩ := Chain.split (aftRef_strict q.forward)
              ((startIx t ix (withStart q esk)).key, (startIx t ix (withStart q esk)).indexKey) (ix.sortedRefs q.forward) hchain
            refine ⟨lo, ?_⟩
            simp only [sortedRefs_withStart, withStart_forward]
            rw [he, Chain.filter_split _ lo hi hlo hhi]
        obtain ⟨lo, hlo⟩ := hsuf
        rw [hsplit] at hlo
        have hc : Chain.IsChain (aftRef q.forward) ((lo ++ rpre) ++ (pk, ik) :: rrest) := by
          rw [List.append_assoc, ← hlo]; exact hchain
        have := Chain.filter_after_member (aftRef_strict q.forward) (lo ++ rpre) rrest (pk, ik) hc
        rw [hlo, ← List.append_assoc]
        exact this
      have hlen : (afterRefs t ix (withStart q r.lastKey)).length ≤ n := by
        rw [hnext]
        have := congrArg List.length hsplit
        simp only [List.length_append, List.length_cons] at this
        omega
      have hs' : (startIx t ix (withStart q r.lastKey)).key.isEmpty = false → (startIx t ix (withStart q r.lastKey)).indexKey.isEmpty = false := by
        intro _; rw [hstart]; exact hikne
      have hu' : (startIx t ix (withStart q r.lastKey)).key.isEmpty = false → ∀ r' ∈ ix.refs, r'.1 = (startIx t ix (withStart q r.lastKey)).key →
          r'.2 = (startIx t ix (withStart q r.lastKey)).indexKey := by
        intro _ r' hr' hk
        rw [hstart] at hk ⊢
        simp only at hk ⊢
        have h1 := alookup_of_mem_nodup hinv.refsNodup (k := r'.1) (v := r'.2) hr'
        have h2 := alookup_of_mem_nodup hinv.refsNodup hmemref
        rw [hk, h2] at h1
        exact (Option.some.inj h1).symm
      rw [ih r.lastKey hs' hu' hlen fuel' (by omega)]
      simp only [pure, Except.pure, Option.map_some]
      rw [hitems, hP, hnext, hsplit]
      simp only [List.map_append, List.map_cons, hpre, hrestm]
      have : pre ++ pk :: rest = (pre ++ [pk]) ++ rest := by simp
      rw [this, pick_append, pick_append, pick_append, pick_startKey, pick_startKey]


/-- **UpdateItem keeps every item under its own key, provided the update leaves the key attributes of the
    item alone** (what the code does not enforce: KF-C13-update-changes-key) -/
theorem keyed_update (t t' : Table) (m : Matcher) (upd : Table.Updater) (keyAttrs : Item) (cond : Option Bytes) (res : Item)
    (hk : Keyed t) (hp : t.update m upd keyAttrs cond = .ok (t', res))
    (hkeep : ∀ base, upd base = .ok res → alookup t.schema.hash res = alookup t.schema.hash base ∧
      alookup t.schema.range res = alookup t.schema.range base) : Keyed t' := by
  unfold Table.update at hp
  split at hp
  · cases hp
  · rename_i key hkey
    simp only [bind, Except.bind] at hp
    split at hp
    · cases hp
    · cases hu : upd ((alookup key t.data).getD keyAttrs) with
      | error e => simp [hu] at hp
      | ok item =>
        simp only [hu] at hp
        split at hp
        · cases hp
        · simp only [pure, Except.pure] at hp
          cases hp
          have hsame := hkeep _ hu
          have hbase : Key.getKey t.schema t.attrs ((alookup key t.data).getD keyAttrs) = .ok key := by
            cases hst : alookup key t.data with
            | none => simpa using hkey
            | some stored =>
              simp only [Option.getD_some]
              rw [← getKey_keyItem]; exact hk.keyed key stored hst
          have hres : Key.getKey t.schema t.attrs res = .ok key := by
            rw [getKey_congr t.schema t.attrs res _ hsame.1 (fun _ => hsame.2)]; exact hbase
          exact keyed_mapIndexes _ _ (keyed_setItem t key res hk hres)


end Minidyn.Props.C04
