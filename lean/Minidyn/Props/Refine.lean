/-
  Minidyn.Props.Refine — the single-item operations of the client refine an abstract store.

  The abstract store is the simplest thing that could work: table name ↦ key string ↦ item
  (`absC`).  For every state that satisfies the table invariant — every reachable state does:
  `Reach.reachable_inv` — and every request:

  * `put_refines`, `delete_refines`, `update_refines`: a write that succeeds changes the abstract
    store at exactly one point, (its table, the key string of its own key attributes), to exactly
    the specified value (`specSet`; `put_then_get`: a GetItem after a successful PutItem returns the item that was put): the item put, nothing, the updater's result on the stored item
    (or on the key attributes when nothing was stored); DeleteItem's old item is what was stored;
  * `failed_write_refines`: a write that fails (any error or the documented panic) leaves the
    abstract store as it was;
  * `get_refines`: GetItem returns the abstract store's item under the request's key (the empty item
    when there is none) and changes nothing.

  With `Reach.step_inv` these compose along any history: the abstract store after a history is the
  initial one updated, in order, at the points of the successful writes (`run_refines` states this for
  histories of puts).  C01/C05/C08/C13 are corollaries of this file read at one key.
-/
import Minidyn.Props.Reach
import Minidyn.Props.C08
import Minidyn.Props.C18
import Minidyn.Props.C05Seq
import Minidyn.Props.C10
namespace Minidyn.Props.Refine
open Minidyn Minidyn.Client Minidyn.Table Minidyn.Props.C01

/-- the abstract store of a client state -/
def absC (c : Client) (tb k : Bytes) : Option Item := (alookup tb c.tables).bind fun t => abs t k

/-- the abstract store changed at one point -/
def specSet (a : Bytes → Bytes → Option Item) (tb k : Bytes) (v : Option Item) : Bytes → Bytes → Option Item :=
  fun tb' k' => if tb' = tb ∧ k' = k then v else a tb' k'

theorem absC_setTable (c : Client) (tb : Bytes) (t t' : Table) (key : Bytes) (v : Option Item)
    (ht : alookup tb c.tables = some t) (hself : abs t' key = v) (hother : ∀ k, k ≠ key → abs t' k = abs t k) :
    ∀ tb' k', absC (setTable c tb t') tb' k' = specSet (absC c) tb key v tb' k' := by
  intro tb' k'
  unfold absC specSet
  by_cases h1 : tb' = tb
  · subst h1
    have : alookup tb' (setTable c tb' t').tables = some t' := alookup_ainsert_self _ _ _
    rw [this]
    simp only [Option.bind_some, true_and]
    by_cases h2 : k' = key
    · subst h2; simp [hself]
    · simp [h2, hother k' h2, ht]
  · rw [C18.setTable_other c tb tb' t' h1]
    simp [h1]

/-- PutItem -/
theorem put_refines (c c' : Client) (tb : Bytes) (item : Item) (cond : Option Bytes) (ex : Exprs)
    (hinv : Reach.ClientInv c) (h : putItem c tb item cond ex = (c', .ok)) :
    ∃ t key, alookup tb c.tables = some t ∧ Key.getKey t.schema t.attrs item = .ok key ∧
      ∀ tb' k', absC c' tb' k' = specSet (absC c) tb key (some item) tb' k' := by
  unfold putItem at h
  cases hf : c.failure with
  | some f => rw [hf] at h; cases f <;> simp [failureErr] at h
  | none =>
    rw [hf] at h
    simp only at h
    by_cases hv : (!validateExprAttrs ex [cond.getD []]) = true
    · simp [hv] at h
    · simp only [hv, Bool.false_eq_true, if_false, withTable] at h
      cases ht : alookup tb c.tables with
      | none => simp [ht] at h
      | some t =>
        simp only [ht] at h
        cases hp : t.put (matcher c tb ex) item cond with
        | error e => simp only [hp] at h; cases e <;> simp [writeErrOut] at h <;> (try split at h) <;> simp at h
        | ok t' =>
          simp only [hp, Prod.mk.injEq] at h
          obtain ⟨rfl, _⟩ := h
          obtain ⟨key, hk, _, hself, hother⟩ := put_ok (hinv tb t ht) hp
          exact ⟨t, key, rfl, hk, absC_setTable c tb t t' key (some item) ht hself hother⟩


/-- the outcome of a write that went through -/
def IsSuccess : Out → Prop
  | .ok | .item _ => True
  | _ => False

theorem writeErrOut_not_success (sdk : Sdk) (rf : Bool) (e : Table.WriteErr) : ¬ IsSuccess (writeErrOut sdk rf e) := by
  cases e with
  | validation => simp [writeErrOut, IsSuccess]
  | conditionFailed old => simp [writeErrOut, IsSuccess]
  | panic cls => simp [writeErrOut, IsSuccess]
  | interp cls =>
    unfold writeErrOut
    by_cases h : (cls == "Syntax") = true
    · simp [h, IsSuccess]
    · simp [h, IsSuccess]

theorem failureErr_not_success (f : Failure) : ¬ IsSuccess (failureErr f) := by cases f <;> simp [failureErr, IsSuccess]

/-- DeleteItem: the point becomes empty; the old item is what the abstract store held -/
theorem delete_refines (c c' : Client) (tb : Bytes) (keyAttrs : Item) (cond : Option Bytes) (ex : Exprs) (ro : Bool) (o : Out)
    (hinv : Reach.ClientInv c) (h : deleteItem c tb keyAttrs cond ex ro = (c', o)) (hs : IsSuccess o) :
    ∃ t key, alookup tb c.tables = some t ∧ Key.getKey t.schema t.attrs keyAttrs = .ok key ∧
      (∀ tb' k', absC c' tb' k' = specSet (absC c) tb key none tb' k') ∧
      o = (if ro then .item (some (outItem c.sdk ((absC c tb key).getD []))) else .item none) := by
  unfold deleteItem at h
  cases hf : c.failure with
  | some f => rw [hf] at h; cases h; exact absurd hs (failureErr_not_success f)
  | none =>
    rw [hf] at h
    simp only at h
    by_cases hv : (!validateExprAttrs ex [cond.getD []]) = true
    · simp only [hv, if_true, Prod.mk.injEq] at h; obtain ⟨_, rfl⟩ := h; cases hs
    · simp only [hv, Bool.false_eq_true, if_false, withTable] at h
      cases ht : alookup tb c.tables with
      | none => simp only [ht, Prod.mk.injEq] at h; obtain ⟨_, rfl⟩ := h; cases hs
      | some t =>
        simp only [ht] at h
        cases hp : t.delete (matcher c tb ex) keyAttrs cond with
        | error e => simp only [hp, Prod.mk.injEq] at h; obtain ⟨_, rfl⟩ := h; exact absurd hs (writeErrOut_not_success _ _ e)
        | ok r =>
          obtain ⟨t', old⟩ := r
          simp only [hp, Prod.mk.injEq] at h
          obtain ⟨rfl, rfl⟩ := h
          obtain ⟨key, hk, _, hold, hself, hother⟩ := delete_ok (hinv tb t ht) hp
          refine ⟨t, key, rfl, hk, absC_setTable c tb t t' key none ht hself hother, ?_⟩
          have : absC c tb key = old := by simp [absC, ht, hold]
          rw [this]

/-- UpdateItem: the point receives the updater's result on what was stored (the key attributes when
    nothing was), and that result is what the call returns -/
theorem update_refines (c c' : Client) (tb : Bytes) (keyAttrs : Item) (expr : Bytes) (cond : Option Bytes) (ex : Exprs) (rf : Bool) (o : Out)
    (hinv : Reach.ClientInv c) (h : updateItem c tb keyAttrs expr cond ex rf = (c', o)) (hs : IsSuccess o) :
    ∃ t key res, alookup tb c.tables = some t ∧ Key.getKey t.schema t.attrs keyAttrs = .ok key ∧
      updater c tb expr ex ((absC c tb key).getD keyAttrs) = .ok res ∧
      (∀ tb' k', absC c' tb' k' = specSet (absC c) tb key (some res) tb' k') ∧
      o = .item (some (outItem c.sdk res)) := by
  unfold updateItem at h
  cases hf : c.failure with
  | some f => rw [hf] at h; cases h; exact absurd hs (failureErr_not_success f)
  | none =>
    rw [hf] at h
    simp only at h
    by_cases hv : (!validateExprAttrs ex [expr, cond.getD []]) = true
    · simp only [hv, if_true, Prod.mk.injEq] at h; obtain ⟨_, rfl⟩ := h; cases hs
    · simp only [hv, Bool.false_eq_true, if_false, withTable] at h
      cases ht : alookup tb c.tables with
      | none => simp only [ht, Prod.mk.injEq] at h; obtain ⟨_, rfl⟩ := h; cases hs
      | some t =>
        simp only [ht] at h
        cases hp : t.update (matcher c tb ex) (updater c tb expr ex) keyAttrs cond with
        | error e => simp only [hp, Prod.mk.injEq] at h; obtain ⟨_, rfl⟩ := h; exact absurd hs (writeErrOut_not_success _ _ e)
        | ok r =>
          obtain ⟨t', res⟩ := r
          simp only [hp, Prod.mk.injEq] at h
          obtain ⟨rfl, rfl⟩ := h
          obtain ⟨key, hk, _, hupd, hself, hother⟩ := update_ok (hinv tb t ht) hp
          refine ⟨t, key, res, rfl, hk, ?_, absC_setTable c tb t t' key (some res) ht hself hother, rfl⟩
          have : absC c tb key = abs t key := by simp [absC, ht]
          rw [this]; exact hupd

/-- a write that does not succeed leaves the abstract store as it was -/
theorem failed_write_refines (c : Client) (op : Op) (hw : match op with | .put .. | .update .. | .delete .. => True | _ => False)
    (hfail : C08.isFailure (step c op).2 = true) : ∀ tb k, absC (step c op).1 tb k = absC c tb k := by
  intro tb k
  cases op <;> simp only at hw
  · rw [show (step c (Op.put _ _ _ _)).1 = c from C08.put_fail_unchanged c _ _ _ _ hfail]
  · rw [show (step c (Op.update _ _ _ _ _ _)).1 = c from C08.update_fail_unchanged c _ _ _ _ _ _ hfail]
  · rw [show (step c (Op.delete _ _ _ _ _)).1 = c from C08.delete_fail_unchanged c _ _ _ _ _ hfail]

/-- GetItem reads the abstract store -/
theorem get_refines (c : Client) (tb : Bytes) (keyAttrs : Item) (t : Table) (key : Bytes)
    (hf : c.failure = none) (ht : alookup tb c.tables = some t) (hk : Key.getKey t.schema t.attrs keyAttrs = .ok key) :
    Client.getItem c tb keyAttrs = (c, .item (some (outItem c.sdk ((absC c tb key).getD [])))) := by
  unfold Client.getItem
  simp only [hf, withTable, ht, hk]
  have : (absC c tb key).getD [] = t.getItem key := by simp [absC, ht, abs, Table.getItem]
  rw [this]

/-- PutItem answers `.ok` or leaves the state alone -/
theorem put_state_of_nonok (c : Client) (tb : Bytes) (item : Item) (c' : Client) (o : Out)
    (h : putItem c tb item none {} = (c', o)) (hne : o ≠ .ok) : (putItem c tb item none {}).1 = c := by
  unfold putItem at h ⊢
  cases hf : c.failure with
  | some f => rfl
  | none =>
    rw [hf] at h
    simp only at h ⊢
    by_cases hv : (!validateExprAttrs {} [(none : Option Bytes).getD []]) = true
    · simp only [hv, if_true]
    · simp only [hv, Bool.false_eq_true, if_false, withTable] at h ⊢
      cases ht : alookup tb c.tables with
      | none => rfl
      | some t =>
        simp only [ht] at h ⊢
        cases hp : t.put (matcher c tb {}) item none with
        | error e => rfl
        | ok t' => simp only [hp, Prod.mk.injEq] at h; exact absurd h.2.symm hne

/-! ### read your writes -/

theorem absC_specSet_self (a : Bytes → Bytes → Option Item) (tb k : Bytes) (v : Option Item) : specSet a tb k v tb k = v := by
  simp [specSet]

theorem putItem_failure_none (c c' : Client) (tb : Bytes) (item : Item) (cond : Option Bytes) (ex : Exprs)
    (h : putItem c tb item cond ex = (c', .ok)) : c'.failure = none ∧ c'.sdk = c.sdk := by
  unfold putItem at h
  cases hf : c.failure with
  | some f => rw [hf] at h; cases f <;> simp [failureErr] at h
  | none =>
    rw [hf] at h
    simp only at h
    by_cases hv : (!validateExprAttrs ex [cond.getD []]) = true
    · simp [hv] at h
    · simp only [hv, Bool.false_eq_true, if_false, withTable] at h
      cases ht : alookup tb c.tables with
      | none => simp [ht] at h
      | some t =>
        simp only [ht] at h
        cases hp : t.put (matcher c tb ex) item cond with
        | error e => simp only [hp] at h; cases e <;> simp [writeErrOut] at h <;> (try split at h) <;> simp at h
        | ok t' =>
          simp only [hp, Prod.mk.injEq] at h
          obtain ⟨rfl, _⟩ := h
          exact ⟨hf, rfl⟩

/-- **GetItem after a successful PutItem returns the item that was put** (through the client's output mapper) -/
theorem put_then_get (c c' : Client) (tb : Bytes) (item : Item) (cond : Option Bytes) (ex : Exprs)
    (hinv : Reach.ClientInv c) (h : putItem c tb item cond ex = (c', .ok)) :
    Client.getItem c' tb item = (c', .item (some (outItem c.sdk item))) := by
  obtain ⟨t, key, ht, hk, hspec⟩ := put_refines c c' tb item cond ex hinv h
  obtain ⟨hf, hsdk⟩ := putItem_failure_none c c' tb item cond ex h
  -- the table after the put: same schema and declared types, so the same key string
  have hstored : absC c' tb key = some item := by rw [hspec]; exact absC_specSet_self _ _ _ _
  unfold absC at hstored
  cases ht' : alookup tb c'.tables with
  | none => rw [ht'] at hstored; cases hstored
  | some t' =>
    -- the put keeps schema and attribute types
    have hshape : t'.schema = t.schema ∧ t'.attrs = t.attrs := by
      unfold putItem at h
      rw [show c.failure = none from by
        cases hf0 : c.failure with
        | none => rfl
        | some f => rw [hf0] at h; cases f <;> simp [failureErr] at h] at h
      simp only at h
      by_cases hv : (!validateExprAttrs ex [cond.getD []]) = true
      · simp [hv] at h
      · simp only [hv, Bool.false_eq_true, if_false, withTable, ht] at h
        cases hp : t.put (matcher c tb ex) item cond with
        | error e => simp only [hp] at h; cases e <;> simp [writeErrOut] at h <;> (try split at h) <;> simp at h
        | ok t2 =>
          simp only [hp, Prod.mk.injEq] at h
          obtain ⟨rfl, _⟩ := h
          have : alookup tb (setTable c tb t2).tables = some t2 := alookup_ainsert_self _ _ _
          rw [this] at ht'; cases ht'
          have hs := C05Seq.sameShape_put hp
          exact ⟨hs.schema, hs.attrs⟩
    have hk' : Key.getKey t'.schema t'.attrs item = .ok key := by rw [hshape.1, hshape.2]; exact hk
    rw [get_refines c' tb item t' key hf ht' hk', hsdk]
    have : absC c' tb key = some item := by unfold absC; rw [ht']; rw [ht'] at hstored; exact hstored
    rw [this]; rfl

/-- **C10 at the client**: an item written with PutItem is read back unchanged by GetItem — through the v1 client always,
    through the v2 client when it holds no empty binary, list, map or set at any depth (the recorded finding
    KF-C10-v2-empty-as-null is exactly the complement) -/
theorem put_get_roundtrip (c c' : Client) (tb : Bytes) (item : Item) (cond : Option Bytes) (ex : Exprs)
    (hinv : Reach.ClientInv c) (h : putItem c tb item cond ex = (c', .ok))
    (hne : c.sdk = .v1 ∨ C10.NoEmptyKvs item = true) :
    Client.getItem c' tb item = (c', .item (some item)) := by
  rw [put_then_get c c' tb item cond ex hinv h]
  cases hs : c.sdk with
  | v1 => rw [C10.v1_roundtrip]
  | v2 =>
    rcases hne with h1 | h2
    · rw [hs] at h1; cases h1
    · rw [C10.v2_roundtrip_partial item h2]

/-! ### along a history -/

/-- unconditional puts into one table, one after the other -/
def putAll (c : Client) (tb : Bytes) : List Item → Client
  | [] => c
  | it :: rest => putAll (putItem c tb it none {}).1 tb rest

/-- the abstract effect of the same puts: each successful one sets its point -/
def specPutAll (c : Client) (tb : Bytes) (a : Bytes → Bytes → Option Item) : List Item → (Bytes → Bytes → Option Item)
  | [] => a
  | it :: rest =>
    match putItem c tb it none {} with
    | (c', .ok) =>
      match alookup tb c.tables with
      | some t => match Key.getKey t.schema t.attrs it with
        | .ok key => specPutAll c' tb (specSet a tb key (some it)) rest
        | .error _ => specPutAll c' tb a rest
      | none => specPutAll c' tb a rest
    | (c', _) => specPutAll c' tb a rest

/-- **refinement along a history of puts**: the abstract store at the end is the initial one with the
    successful puts applied in order — for any number of requests, valid or not -/
theorem run_refines (tb : Bytes) : ∀ (items : List Item) (c : Client), Reach.ClientInv c →
    ∀ tb' k', absC (putAll c tb items) tb' k' = specPutAll c tb (absC c) items tb' k'
  | [], c, _ => fun _ _ => rfl
  | it :: rest, c, hinv => by
    intro tb' k'
    have hinv' : Reach.ClientInv (putItem c tb it none {}).1 := Reach.inv_putItem c tb it none {} hinv
    simp only [putAll, specPutAll]
    cases hp : putItem c tb it none {} with
    | mk c' o =>
      have ih := run_refines tb rest c' (by rw [hp] at hinv'; exact hinv')
      cases o with
      | ok =>
        obtain ⟨t, key, ht, hk, hspec⟩ := put_refines c c' tb it none {} hinv hp
        simp only [ht, hk]
        rw [ih]
        have : absC c' = specSet (absC c) tb key (some it) := by funext a b; exact hspec a b
        rw [this]
      | _ =>
        all_goals (
          simp only
          rw [ih]
          have hsame : c' = c := by
            have := put_state_of_nonok c tb it c' _ hp (by simp)
            rw [hp] at this; exact this
          rw [hsame])

/-- non-vacuity: a created table, three puts (the second one malformed, the third overwrites the first) -/
example :
    let c0 : Client := (createTable { sdk := .v2 } { table := [116], key := { hash := ([104], [83]) } }).1
    let c := putAll c0 [116] [[([104], .s [97]), ([118], .s [49])], [([118], .s [50])], [([104], .s [97]), ([118], .s [51])]]
    (absC c [116] [97] == some [([104], .s [97]), ([118], .s [51])]) = true := by decide

end Minidyn.Props.Refine
