/-
  Minidyn.Props.C16 — DynamoDB usage restrictions are detected.

  * reserved words: every word of the table regenerated from token.go (`Generated.reservedWords`),
    written in any letter case, is rejected by `evalIdentifier` in a top-level name position
    (`reserved_rejected`); `reserved_snapshot_complete` re-checks on every run that none of the
    573 words of the pinned snapshot has been dropped from the table;
  * placeholders: a supplied `#name` / `:value` that does not occur in the expressions, or whose
    key is malformed, fails `validateExprAttrs` (`unused_name_rejected`, `malformed_name_rejected`);
    a compliant set of placeholders passes (`compliant_accepted`);
  * batches: more than 25 write requests, or a request that is neither/both put and delete, is a
    ValidationException and nothing is applied (`Props.C19.batchWrite_rules`).
  Known findings (all pinned by baseline tests): "used" is a substring test, so `:a` counts as
  used by `:ab` (`prefix_placeholder_accepted`); an undefined placeholder evaluates as a missing
  attribute; a reserved word after a dot is accepted; key-condition shapes are not checked.
-/
import Minidyn.Model.Client
import Minidyn.Props.ReservedSnapshot
namespace Minidyn.Props.C16
open Minidyn Minidyn.Client

/-- any letter case of a reserved word is rejected at top level, whatever the environment -/
theorem reserved_rejected (tok : Token) (env : Env)
    (h : Eval.toUpperAscii tok.lit ∈ Generated.reservedWords) :
    Eval.evalIdentifier tok env true = .error "reserved word" := by
  have : Eval.isReserved tok.lit = true := by
    simp only [Eval.isReserved, List.contains_iff_mem]; exact h
  simp only [Eval.evalIdentifier, this, Bool.and_self, if_true]; rfl

/-- not in the table (after upper-casing): the identifier is looked up normally -/
theorem non_reserved_looked_up (tok : Token) (env : Env) (h : Eval.isReserved tok.lit = false) :
    Eval.evalIdentifier tok env true = env.get tok.lit := by
  simp [Eval.evalIdentifier, h]

/-- the table regenerated from the source is, word for word, the pinned snapshot (both sorted):
    no word has been dropped from it and none added -/
theorem reserved_table_is_snapshot : Generated.reservedWords = reservedSnapshot := by
  decide +kernel

theorem reserved_snapshot_size : reservedSnapshot.length = 573 := by decide +kernel

theorem reserved_snapshot_complete : ∀ w ∈ reservedSnapshot, w ∈ Generated.reservedWords := by
  intro w hw; rw [reserved_table_is_snapshot]; exact hw

theorem unused_name_rejected (ex : Exprs) (exprs : List Bytes) (k v : Bytes) (hk : (k, v) ∈ ex.names)
    (hunused : Bytes.isInfixOf k (joinSpace exprs) = false) : validateExprAttrs ex exprs = false := by
  unfold validateExprAttrs
  have hne : ex.names.isEmpty = false := by cases h : ex.names <;> simp_all
  have hall : ex.names.all (fun x => Bytes.isInfixOf x.1 (joinSpace exprs) && placeholderOk 35 x.1) = false := by
    rw [List.all_eq_false]
    exact ⟨(k, v), hk, by simp [hunused]⟩
  simp [hne, hall]

theorem malformed_name_rejected (ex : Exprs) (exprs : List Bytes) (k v : Bytes) (hk : (k, v) ∈ ex.names)
    (hbad : placeholderOk 35 k = false) : validateExprAttrs ex exprs = false := by
  unfold validateExprAttrs
  have hne : ex.names.isEmpty = false := by cases h : ex.names <;> simp_all
  have hall : ex.names.all (fun x => Bytes.isInfixOf x.1 (joinSpace exprs) && placeholderOk 35 x.1) = false := by
    rw [List.all_eq_false]
    exact ⟨(k, v), hk, by simp [hbad]⟩
  simp [hne, hall]

theorem unused_value_rejected (ex : Exprs) (exprs : List Bytes) (k : Bytes) (v : AV) (hk : (k, v) ∈ ex.values)
    (hunused : Bytes.isInfixOf k (joinSpace exprs) = false) : validateExprAttrs ex exprs = false := by
  unfold validateExprAttrs
  have hne : ex.values.isEmpty = false := by cases h : ex.values <;> simp_all
  have hall : ex.values.all (fun x => Bytes.isInfixOf x.1 (joinSpace exprs) && placeholderOk 58 x.1) = false := by
    rw [List.all_eq_false]
    exact ⟨(k, v), hk, by simp [hunused]⟩
  simp [hne, hall]

/-- a request that respects the placeholder rules is never rejected on their account -/
theorem compliant_accepted (ex : Exprs) (exprs : List Bytes)
    (hn : ∀ p ∈ ex.names, Bytes.isInfixOf p.1 (joinSpace exprs) = true ∧ placeholderOk 35 p.1 = true)
    (hv : ∀ p ∈ ex.values, Bytes.isInfixOf p.1 (joinSpace exprs) = true ∧ placeholderOk 58 p.1 = true) :
    validateExprAttrs ex exprs = true := by
  unfold validateExprAttrs
  have h1 : ex.names.all (fun x => Bytes.isInfixOf x.1 (joinSpace exprs) && placeholderOk 35 x.1) = true := by
    rw [List.all_eq_true]; intro p hp; simp [hn p hp]
  have h2 : ex.values.all (fun x => Bytes.isInfixOf x.1 (joinSpace exprs) && placeholderOk 58 x.1) = true := by
    rw [List.all_eq_true]; intro p hp; simp [hv p hp]
  simp [h1, h2]

/-- the pinned finding: `:a` is supplied, only `:ab` is used, and the request passes -/
theorem prefix_placeholder_accepted :
    validateExprAttrs { values := [([58, 97], .s [120]), ([58, 97, 98], .s [120])] } [[118, 32, 61, 32, 58, 97, 98]] = true := by
  decide

/-- non-vacuity of `reserved_rejected`: "name", "Name" and "NAME" are all rejected -/
example : Eval.isReserved [110, 97, 109, 101] = true ∧ Eval.isReserved [78, 97, 109, 101] = true ∧ Eval.isReserved [78, 65, 77, 69] = true := by
  decide +kernel

/-- a `:value` placeholder that the request does not supply is rejected: the condition is not evaluated (`464433d`) -/
theorem unsupplied_value_rejected (expr : Bytes) (item : Item) (names : List (Bytes × Bytes)) (values : Item)
    (p : Bytes) (hp : p ∈ Interp.valuePlaceholders expr) (hv : ahas p values = false) :
    Interp.langMatch expr item names values = .error .syntax ∧ Interp.langUpdate expr item names values = .error .syntax := by
  have hu : Interp.undefinedValue expr values = true := by
    unfold Interp.undefinedValue
    rw [List.any_eq_true]
    exact ⟨p, hp, by simp [hv]⟩
  simp [Interp.langMatch, Interp.langUpdate, hu]

/-- non-vacuity: `v <> :m` uses `:m` -/
example : [58, 109] ∈ Interp.valuePlaceholders [118, 32, 60, 62, 32, 58, 109] := by decide

/-- refutation of the full statement (KF-C16-unsupplied-placeholder): a condition that uses `#n` is evaluated although the
    request supplies no name for it — it is taken for an attribute literally named `#n`, which the item lacks, and the
    conditional PutItem succeeds -/
theorem unsupplied_name_accepted :
    let c0 : Client := (createTable { sdk := .v2 } { table := [116], key := { hash := ([104], [83]) }, payPerRequest := true }).1
    (match (putItem c0 [116] [([104], .s [97]), ([118], .s [50])] (some (Bytes.ofString "attribute_not_exists(#n)")) {}).2 with | .ok => true | _ => false) = true := by
  decide +kernel

end Minidyn.Props.C16
