/-
  C07 — update expressions apply exactly their actions and nothing else.

  The frame half of the property is a theorem about the whole update pipeline
  (`evalUpdate` followed by `Env.apply`): an attribute of the stored item changes only
  when it is the root of the left-hand side of one of the actions.  The "reads the
  pre-update item" half is `evalRights_pre`: every right-hand side is evaluated against
  the environment the update started from, whatever the earlier actions did.  The
  "targeted attributes receive the specified values" half is stated for top-level
  targets (`set_top_level`, `remove_top_level`, `add_number_top_level`) and for the
  accessor step (`setIn_key_lookup`, `removeIn_key_lookup`).
-/
import Minidyn.Model.Eval
import Minidyn.Model.Interp
import Minidyn.Lemmas.Assoc
namespace Minidyn
open Eval

namespace Env

/-! ### marking -/

theorem mark_aliases (e : Env) (n : Bytes) : (e.mark n).aliases = e.aliases := by
  unfold mark; split <;> rfl
theorem mark_store (e : Env) (n : Bytes) : (e.mark n).store = e.store := by
  unfold mark; split <;> rfl
theorem mark_modified (e : Env) (n k : Bytes) (h : k ∈ (e.mark n).modified) : k ∈ e.modified ∨ k = n := by
  unfold mark at h; split at h
  · exact .inl h
  · simp at h; exact h
theorem mark_mem (e : Env) (n : Bytes) : n ∈ (e.mark n).modified := by
  unfold mark; split
  · rename_i h; simpa using h
  · simp
theorem mark_mono (e : Env) (n k : Bytes) (h : k ∈ e.modified) : k ∈ (e.mark n).modified := by
  unfold mark; split
  · exact h
  · simp [h]

/-- what one action may do to the environment: aliases stay, only the attribute `n` of
    the store may change, only `n` may become marked -/
structure Frame (e e' : Env) (n : Bytes) : Prop where
  aliases : e'.aliases = e.aliases
  store : ∀ k, k ≠ n → alookup k e'.store = alookup k e.store
  modified : ∀ k, k ∈ e'.modified → k ∈ e.modified ∨ k = n

theorem Frame.refl (e : Env) (n : Bytes) : Frame e e n := ⟨rfl, fun _ _ => rfl, fun _ h => .inl h⟩

theorem frame_set (e : Env) (name : Bytes) (v : Obj) : Frame e (e.set name v) (e.resolveName name) := by
  refine ⟨?_, ?_, ?_⟩
  · simp [set, mark_aliases]
  · intro k hk; simp only [set, mark_store]; exact alookup_ainsert_ne _ _ hk
  · intro k hk; simpa [set] using mark_modified _ _ _ hk

theorem frame_markModified (e : Env) (name : Bytes) : Frame e (e.markModified name) (e.resolveName name) := by
  refine ⟨?_, ?_, ?_⟩
  · simp [markModified, mark_aliases]
  · intro k _; simp [markModified, mark_store]
  · intro k hk; exact mark_modified _ _ _ hk

theorem frame_remove (e : Env) (name : Bytes) : Frame e (e.remove name) (e.resolveName name) := by
  simp only [remove]
  split
  · refine ⟨?_, ?_, ?_⟩
    · simp [mark_aliases]
    · intro k hk; simp only [mark_store]; exact alookup_aerase_ne _ hk
    · intro k hk; simpa using mark_modified _ _ _ hk
  · exact Frame.refl _ _

theorem frame_store (e e' : Env) (n : Bytes) (o : Obj) (h : Frame e e' n) :
    Frame e { e' with store := ainsert n o e'.store } n := by
  refine ⟨h.aliases, ?_, h.modified⟩
  intro k hk
  show alookup k (ainsert n o e'.store) = _
  rw [alookup_ainsert_ne _ _ hk]; exact h.store k hk

theorem frame_store_env (e : Env) (name : Bytes) (o : Obj) :
    Frame e { e.markModified name with store := ainsert (e.resolveName name) o e.store } (e.resolveName name) := by
  have := frame_store e (e.markModified name) (e.resolveName name) o (frame_markModified e name)
  simpa [markModified, mark_store] using this

theorem Frame.trans_same {e e' e'' : Env} {n : Bytes} (h : Frame e e' n) (h' : Frame e' e'' n) : Frame e e'' n := by
  refine ⟨h'.aliases.trans h.aliases, ?_, ?_⟩
  · intro k hk; rw [h'.store k hk, h.store k hk]
  · intro k hk
    rcases h'.modified k hk with h1 | h1
    · exact h.modified k h1
    · exact .inr h1

theorem resolveName_aliases (e e' : Env) (h : e'.aliases = e.aliases) (n : Bytes) :
    e'.resolveName n = e.resolveName n := by simp [resolveName, h]

end Env

open Env

/-! ### one action -/

theorem evalIndexPositions_root (env : Env) : (e : Expr) → (ps : List Accessor) → (root : Token) → (o : Obj) →
    evalIndexPositions env e = .ok (ps, root, o) → rootIdent e = some root
  | .ident t, ps, root, o, h => by
    simp only [evalIndexPositions, bind, Except.bind] at h
    split at h
    · cases h
    · split at h
      · cases h; rfl
      · cases h; rfl
      · split at h
        · cases h; rfl
        · cases h
  | .index op left idx, ps, root, o, h => by
    simp only [evalIndexPositions, bind, Except.bind] at h
    split at h
    · cases h
    · split at h
      · cases h
      · rename_i r hr
        obtain ⟨rest, root', o'⟩ := r
        simp only [pure, Except.pure] at h
        cases h
        simpa [rootIdent] using evalIndexPositions_root env left _ _ _ hr
  | .nil, _, _, _, h => by simp [evalIndexPositions] at h
  | .pre _ _, _, _, _, h => by simp [evalIndexPositions] at h
  | .inf _ _ _, _, _, _, h => by simp [evalIndexPositions] at h
  | .call _ _, _, _, _, h => by simp [evalIndexPositions] at h
  | .between _ _ _, _, _, _, h => by simp [evalIndexPositions] at h
  | .isIn _ _, _, _, _, h => by simp [evalIndexPositions] at h
  | .update _ _, _, _, _, h => by simp [evalIndexPositions] at h
  | .action _ _ _, _, _, _, h => by simp [evalIndexPositions] at h

theorem frame_modifyPath (env env' : Env) (root : Token) (o : Obj) (ps : List Accessor)
    (f : Accessor → Obj → EvalM Obj) (h : modifyPath env root o ps f = .ok env') :
    Frame env env' (env.resolveName root.lit) := by
  unfold modifyPath at h
  cases ps with
  | nil => cases h
  | cons last inner =>
    simp only [bind, Except.bind] at h
    split at h
    · cases h
    · split at h
      · cases h
      · simp only [pure, Except.pure] at h
        cases h
        exact frame_store _ _ _ _ (frame_markModified env root.lit)

/-- the attribute an action is about: the root of its left-hand side -/
def targetOf (env : Env) (left : Expr) : Option Bytes := (rootIdent left).map fun t => env.resolveName t.lit

theorem frame_evalAction (env env' : Env) (op : Tok) (left : Expr) (v : Obj)
    (h : evalAction env op left v = .ok env') :
    env' = env ∨ ∃ n, targetOf env left = some n ∧ Frame env env' n := by
  unfold evalAction at h
  split at h
  · -- SET
    split at h
    · rename_i t
      simp only [bind, Except.bind] at h
      split at h
      · cases h
      · cases h; exact .inr ⟨_, rfl, frame_set _ _ _⟩
    · simp only [bind, Except.bind] at h
      split at h
      · cases h
      · rename_i r hr
        obtain ⟨ps, root, o⟩ := r
        have hroot := evalIndexPositions_root _ _ _ _ _ hr
        exact .inr ⟨_, by simp [targetOf, hroot], frame_modifyPath _ _ _ _ _ _ h⟩
    · cases h
  · -- ADD
    split at h
    · rename_i t
      simp only [bind, Except.bind] at h
      split at h
      · cases h
      · split at h
        · cases h; exact .inr ⟨_, rfl, frame_set _ _ _⟩
        · split at h
          · cases h
          · cases h
            exact .inr ⟨_, rfl, frame_store_env env t.lit _⟩
    · cases h; exact .inl rfl
  · -- DELETE
    split at h
    · rename_i t
      simp only [bind, Except.bind] at h
      split at h
      · cases h
      · split at h
        · cases h; exact .inl rfl
        · split at h
          · cases h
          · simp only [pure, Except.pure] at h
            cases h
            rename_i o' _
            have h1 := frame_store_env env t.lit o'
            refine .inr ⟨_, rfl, ?_⟩
            split
            · have hres : ({ env.markModified t.lit with store := ainsert (env.resolveName t.lit) o' env.store } : Env).resolveName t.lit
                  = env.resolveName t.lit := by simp [resolveName, markModified, mark_aliases]
              have := frame_remove { env.markModified t.lit with store := ainsert (env.resolveName t.lit) o' env.store } t.lit
              rw [hres] at this
              exact Frame.trans_same h1 this
            · exact h1
    · cases h; exact .inl rfl
  · -- REMOVE
    split at h
    · rename_i t
      simp only [bind, Except.bind] at h
      split at h
      · cases h
      · cases h; exact .inr ⟨_, rfl, frame_remove _ _⟩
    · simp only [bind, Except.bind] at h
      split at h
      · cases h
      · rename_i r hr
        obtain ⟨ps, root, o⟩ := r
        have hroot := evalIndexPositions_root _ _ _ _ _ hr
        simp only at h
        split at h
        · cases h
        · split at h
          · cases h; exact .inl rfl
          · exact .inr ⟨_, by simp [targetOf, hroot], frame_modifyPath _ _ _ _ _ _ h⟩
    · cases h
  · cases h

/-! ### a whole update -/

/-- the attributes the evaluated actions are about -/
def targets (env : Env) (vs : List (Tok × Expr × Obj)) : List Bytes :=
  vs.filterMap fun (_, left, _) => targetOf env left

/-- several actions: aliases stay; the store changes and marks appear only at targets -/
theorem frame_applyActions (env env' : Env) (vs : List (Tok × Expr × Obj))
    (h : applyActions env vs = .ok env') :
    env'.aliases = env.aliases ∧
    (∀ k, k ∉ targets env vs → alookup k env'.store = alookup k env.store) ∧
    (∀ k, k ∈ env'.modified → k ∈ env.modified ∨ k ∈ targets env vs) := by
  induction vs generalizing env with
  | nil => simp only [applyActions, pure, Except.pure] at h; cases h; exact ⟨rfl, fun _ _ => rfl, fun _ h => .inl h⟩
  | cons a rest ih =>
    obtain ⟨op, left, v⟩ := a
    simp only [applyActions, bind, Except.bind] at h
    split at h
    · cases h
    · rename_i env1 h1
      obtain ⟨ha, hs, hm⟩ := ih env1 h
      have htar : targets env1 rest = targets env rest ∨ True := .inr trivial
      rcases frame_evalAction _ _ _ _ _ h1 with rfl | ⟨n, hn, hf⟩
      · refine ⟨ha, ?_, ?_⟩
        · intro k hk; apply hs; intro hmem; apply hk
          simp only [targets, List.filterMap_cons]; split <;> simp_all [targets]
        · intro k hk; rcases hm k hk with h2 | h2
          · exact .inl h2
          · right; simp only [targets, List.filterMap_cons]; split <;> simp_all [targets]
      · have hal : ∀ l, targetOf env1 l = targetOf env l := by
          intro l; simp [targetOf, resolveName_aliases env env1 hf.aliases]
        have htr : targets env1 rest = targets env rest := by simp [targets, hal]
        have hcons : targets env ((op, left, v) :: rest) = n :: targets env rest := by
          simp [targets, hn]
        refine ⟨ha.trans hf.aliases, ?_, ?_⟩
        · intro k hk
          rw [hcons] at hk
          simp only [List.mem_cons, not_or] at hk
          rw [hs k (by rw [htr]; exact hk.2), hf.store k hk.1]
        · intro k hk
          rw [hcons]
          rcases hm k hk with h2 | h2
          · rcases hf.modified k h2 with h3 | h3
            · exact .inl h3
            · exact .inr (by simp [h3])
          · exact .inr (by rw [htr] at h2; simp [h2])

/-- pointwise relation between two lists -/
inductive AllRel {α β : Type} (R : α → β → Prop) : List α → List β → Prop
  | nil : AllRel R [] []
  | cons {a b as bs} : R a b → AllRel R as bs → AllRel R (a :: as) (b :: bs)

/-- **reads the pre-update item**: the values the actions receive are the right-hand sides
    evaluated in the environment the update started from -/
theorem evalRights_pre (env : Env) (acts : List Expr) (vs : List (Tok × Expr × Obj))
    (h : evalRights env acts = .ok vs) :
    AllRel (fun a r => ∃ op left right, a = Expr.action op left right ∧ r.1 = op.typ ∧ r.2.1 = left ∧
      (if op.typ == .remove then r.2.2 = Obj.undefined else evalUpdateOperand env right = .ok r.2.2)) acts vs := by
  induction acts generalizing vs with
  | nil => simp only [evalRights, pure, Except.pure] at h; cases h; exact .nil
  | cons a rest ih =>
    cases a with
    | action op left right =>
      simp only [evalRights, bind, Except.bind] at h
      by_cases hr : (op.typ == Tok.remove) = true
      · simp only [hr, if_true, pure, Except.pure] at h
        cases hvs : evalRights env rest with
        | error e => rw [hvs] at h; cases h
        | ok vs' =>
          rw [hvs] at h
          cases h
          exact .cons ⟨op, left, right, rfl, rfl, rfl, by simp [hr]⟩ (ih _ hvs)
      · simp only [hr] at h
        cases hv : evalUpdateOperand env right with
        | error e => simp [hv] at h
        | ok v =>
          cases hvs : evalRights env rest with
          | error e => simp [hv, hvs] at h
          | ok vs' =>
            simp only [hv, hvs, pure, Except.pure] at h
            cases h
            exact .cons ⟨op, left, right, rfl, rfl, rfl, by simpa [hr] using hv⟩ (ih _ hvs)
    | _ => simp [evalRights] at h <;> cases h

theorem evalRights_from (env : Env) (acts : List Expr) (vs : List (Tok × Expr × Obj))
    (h : evalRights env acts = .ok vs) :
    ∀ r ∈ vs, ∃ a ∈ acts, ∃ op right, a = Expr.action op r.2.1 right := by
  have hpre := evalRights_pre _ _ _ h
  clear h
  induction hpre with
  | nil => simp
  | cons hd _ ih =>
    obtain ⟨op, left, right, rfl, _, hl, _⟩ := hd
    intro r hr
    rcases List.mem_cons.1 hr with rfl | hr
    · exact ⟨_, List.mem_cons_self, op, right, by rw [hl]⟩
    · obtain ⟨a, ha', hh⟩ := ih r hr
      exact ⟨a, List.mem_cons_of_mem _ ha', hh⟩

/-! ### write-back -/

/-- the item attribute a marked store name is written to: the store name itself (the names were
    resolved through the alias table when the expression named them) -/
def Env.itemName (_e : Env) (k : Bytes) : Bytes := k

theorem apply_step_ne (e : Env) (excl : List Bytes) (it : Item) (k name : Bytes) (h : e.itemName k ≠ name) :
    alookup name ((fun it k =>
      if excl.contains k then it else
      match alookup k e.store with
      | none => aerase k it
      | some o => ainsert k o.toAV it) it k) = alookup name it := by
  simp only
  split
  · rfl
  · split
    · exact alookup_aerase_ne _ (Ne.symm h)
    · exact alookup_ainsert_ne _ _ (Ne.symm h)

/-- **frame at the item**: an attribute that no marked name writes to keeps its value -/
theorem apply_untouched (e : Env) (item : Item) (excl : List Bytes) (name : Bytes)
    (h : ∀ k ∈ e.modified, e.itemName k ≠ name) : alookup name (e.apply item excl) = alookup name item := by
  unfold Env.apply
  generalize e.modified = ms at h
  induction ms generalizing item with
  | nil => rfl
  | cons m rest ih =>
    simp only [List.foldl_cons]
    rw [ih _ (fun k hk => h k (by simp [hk]))]
    exact apply_step_ne e excl item m name (h m (by simp))

theorem apply_nothing_marked (e : Env) (item : Item) (excl : List Bytes) (h : e.modified = []) :
    e.apply item excl = item := by simp [Env.apply, h]

theorem compact_aliases (e : Env) : e.compact.aliases = e.aliases := rfl
theorem compact_modified (e : Env) : e.compact.modified = e.modified := rfl

/-- **C07, frame**: after a whole update expression, an item attribute changes only if
    one of the actions has it (through the alias table) as the root of its left-hand
    side.  `env` is the environment the item was loaded into: nothing is marked. -/
theorem update_frame (env env' : Env) (tok : Token) (acts : List Expr) (item : Item) (excl : List Bytes)
    (name : Bytes) (hclean : env.modified = [])
    (h : evalUpdate env (.update tok acts) = .ok env')
    (hname : ∀ a ∈ acts, ∀ op left right, a = Expr.action op left right →
      ∀ n, targetOf env left = some n → env.itemName n ≠ name) :
    alookup name (env'.apply item excl) = alookup name item := by
  simp only [evalUpdate] at h
  split at h
  · cases h
  · simp only [bind, Except.bind] at h
    split at h
    · cases h
    · rename_i vs hvs
      split at h
      · cases h
      · rename_i env1 h1
        simp only [pure, Except.pure] at h
        cases h
        obtain ⟨ha, _, hm⟩ := frame_applyActions _ _ _ h1
        have hfrom := evalRights_from _ _ _ hvs
        apply apply_untouched
        intro k hk
        rw [compact_modified] at hk
        have hkt : k ∈ targets env vs := by
          rcases hm k hk with h2 | h2
          · simp [hclean] at h2
          · exact h2
        simp only [targets, List.mem_filterMap] at hkt
        obtain ⟨r, hr, hrk⟩ := hkt
        obtain ⟨a, hamem, op, right, rfl⟩ := hfrom r hr
        have := hname _ hamem op r.2.1 right rfl k hrk
        simpa [Env.itemName, compact_aliases, ha] using this

/-! ### targeted attributes receive the specified values (top level) -/

theorem set_store (e : Env) (name : Bytes) (v : Obj) :
    alookup (e.resolveName name) (e.set name v).store = some v := by
  simp [Env.set, mark_store, alookup_ainsert_self]

theorem remove_store (e : Env) (name : Bytes) :
    alookup (e.resolveName name) (e.remove name).store = none := by
  simp only [Env.remove]
  split
  · simp [mark_store, alookup_aerase_self]
  · rename_i h; simpa [ahas] using h

/-- the write-back of a single marked attribute that is in the store puts its value in the item -/
theorem apply_single_set (e : Env) (item : Item) (k : Bytes) (o : Obj) (hm : e.modified = [k])
    (hs : alookup k e.store = some o) :
    alookup (e.itemName k) (e.apply item []) = some o.toAV := by
  simp only [Env.apply, hm, List.foldl_cons, List.foldl_nil, List.contains_nil, Bool.false_eq_true, if_false, hs, Env.itemName]
  exact alookup_ainsert_self _ _ _

/-- ... and removes it when it is no longer in the store -/
theorem apply_single_remove (e : Env) (item : Item) (k : Bytes) (hm : e.modified = [k])
    (hs : alookup k e.store = none) :
    alookup (e.itemName k) (e.apply item []) = none := by
  simp only [Env.apply, hm, List.foldl_cons, List.foldl_nil, List.contains_nil, Bool.false_eq_true, if_false, hs, Env.itemName]
  exact alookup_aerase_self _ _

/-! ### the accessor step -/

theorem setIn_key_lookup (k : Bytes) (v : Obj) (kvs kvs' : List (Bytes × Obj))
    (h : (Accessor.key k).setIn v (.map kvs) = .ok (.map kvs')) :
    kvs' = sortAssoc (ainsert k v kvs) := by
  simp only [Accessor.setIn, pure, Except.pure] at h
  cases h; rfl

theorem removeIn_key_lookup (k : Bytes) (kvs : List (Bytes × Obj)) :
    (Accessor.key k).removeIn (.map kvs) = .ok (.map (aerase k kvs)) := rfl

theorem removeIn_pos_out_of_range (i : Int) (xs : List Obj) (h : i < 0 ∨ xs.length ≤ i.toNat) :
    (Accessor.pos i).removeIn (.list xs) = .ok (.list xs) := by
  simp only [Accessor.removeIn]
  rcases h with h | h
  · have : ¬ (0 ≤ i) := by omega
    simp [this, pure, Except.pure]
  · have : ¬ (i.toNat < xs.length) := by omega
    simp [this, pure, Except.pure]

/-! ### ADD and DELETE on the value -/

theorem add_number (a b : F64) : addTo (.num a) (.num b) = .ok (.num (F64.add a b)) := rfl
theorem add_to_missing (env : Env) (t : Token) (v : Obj) (h : evalIdentifier t env true = .ok Obj.undefined) :
    evalAction env .add (.ident t) v = .ok (env.set t.lit v) := by
  simp [evalAction, h, bind, Except.bind, Obj.undefined, pure, Except.pure]
theorem delete_from_missing (env : Env) (t : Token) (v : Obj) (h : evalIdentifier t env true = .ok Obj.undefined) :
    evalAction env .delete (.ident t) v = .ok env := by
  simp [evalAction, h, bind, Except.bind, Obj.undefined, pure, Except.pure]
theorem delete_string (xs : List Bytes) (s : Bytes) :
    deleteFrom (.sset xs) (.str s) = .ok (.sset (xs.filter (· != s))) := rfl

/-! ### the frame at `Language.Update` -/

theorem load_modified : ∀ (kvs : List (Bytes × AV)) (e e' : Env), e.load kvs = some e' → e'.modified = e.modified ∧ e'.aliases = e.aliases := by
  intro kvs
  induction kvs with
  | nil => intro e e' h; simp only [Env.load, Option.some.injEq] at h; subst h; exact ⟨rfl, rfl⟩
  | cons p rest ih =>
    intro e e' h
    obtain ⟨k, v⟩ := p
    simp only [Env.load, bind, Option.bind] at h
    cases hv : v.toObj with
    | none => simp [hv] at h
    | some o =>
      simp only [hv] at h
      have := ih _ e' h
      exact ⟨this.1, this.2⟩

theorem mkEnv_clean (names : List (Bytes × Bytes)) (item values : Item) (env : Env) (h : Interp.mkEnv names item values = some env) :
    env.modified = [] ∧ env.aliases = names := by
  unfold Interp.mkEnv at h
  simp only [bind, Option.bind] at h
  cases h1 : Env.load { aliases := names } item with
  | none => simp [h1] at h
  | some e1 =>
    simp only [h1] at h
    have a := load_modified item _ e1 h1
    have b := load_modified values e1 env h
    exact ⟨b.1.trans a.1, b.2.trans a.2⟩

/-- **C07 at the interpreter**: after `Language.Update`, an attribute of the item changes only if it is (through
    ExpressionAttributeNames) the root of the left-hand side of one of the actions of the expression -/
theorem langUpdate_frame (expr : Bytes) (item item' : Item) (names : List (Bytes × Bytes)) (values : Item) (name : Bytes)
    (h : Interp.langUpdate expr item names values = .ok item')
    (hname : ∀ tok acts env, Parser.parseUpdate expr = .ok (.update tok acts) → Interp.mkEnv names item values = some env →
      ∀ a ∈ acts, ∀ op left right, a = Expr.action op left right → ∀ n, targetOf env left = some n → env.itemName n ≠ name) :
    alookup name item' = alookup name item := by
  unfold Interp.langUpdate at h
  split at h
  · cases h
  unfold Interp.langUpdateCore at h
  cases hp : Parser.parseUpdate expr with
  | syntaxErr => simp [hp] at h
  | outOfFuel => simp [hp] at h
  | ok e =>
    simp only [hp] at h
    cases hm : Interp.mkEnv names item values with
    | none => simp [hm] at h
    | some env =>
      simp only [hm] at h
      cases he : Eval.evalUpdate env e with
      | error x => simp [he] at h
      | ok env' =>
        simp only [he, Except.ok.injEq] at h
        subst h
        have hclean := (mkEnv_clean names item values env hm).1
        cases e with
        | update tok acts =>
          exact update_frame env env' tok acts item _ name hclean he (fun a ha op left right hact n hn => hname tok acts env hp hm a ha op left right hact n hn)
        | _ => simp [Eval.evalUpdate] at he


/-! ### non-vacuity: `SET a = b, b = a` swaps, reading the pre-update values -/

def tkId (lit : Bytes) : Token := { typ := .ident, lit := lit }
def swapEnv : Env := { store := [([97], .num (F64.ofNat 1)), ([98], .num (F64.ofNat 2))] }
def swapUpdate : Expr := .update (tkId [83, 69, 84])
  [.action { typ := .set, lit := [61] } (.ident (tkId [97])) (.ident (tkId [98])),
   .action { typ := .set, lit := [61] } (.ident (tkId [98])) (.ident (tkId [97]))]

example : (match evalUpdate swapEnv swapUpdate with
    | .ok e => e.store.map (·.1) == [[97], [98]] && e.modified == [[97], [98]] &&
        (match e.store with
         | [(_, .num x), (_, .num y)] => F64.eq x (F64.ofNat 2) && F64.eq y (F64.ofNat 1)
         | _ => false)
    | .error _ => false) = true := by decide +kernel

end Minidyn
