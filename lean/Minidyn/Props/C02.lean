/-
  C02 — Query and Scan return exactly the matching items, in sort-key order.

  Proved for reads of the table itself (no secondary index) without Limit and without
  ExclusiveStartKey, for every table state satisfying the invariant of C01 (which every
  reachable table satisfies: `Props.C01`) and every matcher that does not panic on the
  stored items:

    * `search_exact`: the result is the stored items, in the order of the table's sorted
      key list (reversed when requested), filtered by "key condition and filter hold" —
      none missing, none extra;
    * `search_each_once`: the sorted key list has no duplicates and is exactly the set of
      stored keys, so every matching item appears exactly once;
    * `search_order`: that list is sorted by the bytewise order of the key strings;
    * `query_count`: Count is the number of returned items (at the client).

  Reads through a secondary index, with Limit, and resumed reads are covered by C03's
  index agreement, C04's theorems and by the correspondence check (profiles search, index).
-/
import Minidyn.Model.Client
import Minidyn.Props.C01
namespace Minidyn.Props.C02
open Minidyn Minidyn.Table Minidyn.Props.C01

/-- the verdict of the key condition and the filter on an item -/
def verdict (m : Matcher) (q : Query) (item : Item) : Bool :=
  match matchKey m q item with
  | .ok (_, b) => b
  | .error _ => false

/-- the matcher answers (does not panic) on this item -/
def Answers (m : Matcher) (q : Query) (item : Item) : Prop := ∃ ty b, matchKey m q item = .ok (ty, b)

/-- what an unpaginated read of the table returns for the keys `ks` -/
def pick (t : Table) (m : Matcher) (q : Query) (ks : List Bytes) : List Item :=
  ks.filterMap fun k =>
    let item := (alookup k t.data).getD []
    if verdict m q item then some item else none

theorem searchStep_eq (t : Table) (m : Matcher) (q : Query) (start : SearchStart) (st : SearchState) (k : Bytes)
    (item : Item) (ty : Option ExprKind) (b : Bool) (hl : q.limit = 0) (hs : st.started = true)
    (hk : alookup k t.data = some item) (hb : matchKey m q item = .ok (ty, b)) :
    searchStep t m q false start st k = .ok ({ st with
        items := if b then item :: st.items else st.items,
        scanned := st.scanned + 1,
        count := if shouldCount ty b then st.count + 1 else st.count,
        last := item }, false) := by
  simp only [searchStep, getPrimaryKey, Bool.false_eq_true, if_false, prepareSearch, hs, if_true, processItem, hk,
    Option.getD_some, hb, bind, Except.bind, Option.isSome_some, Bool.true_and, hl, pure, Except.pure]
  cases b <;> simp

theorem searchStep_base (t : Table) (m : Matcher) (q : Query) (start : SearchStart) (st : SearchState) (k : Bytes)
    (item : Item) (hl : q.limit = 0) (hs : st.started = true) (hk : alookup k t.data = some item)
    (ha : Answers m q item) :
    ∃ st', searchStep t m q false start st k = .ok (st', false) ∧ st'.started = true ∧
      st'.items = (if verdict m q item then item :: st.items else st.items) := by
  obtain ⟨ty, b, hb⟩ := ha
  refine ⟨_, searchStep_eq t m q start st k item ty b hl hs hk hb, hs, ?_⟩
  simp only [verdict, hb]

theorem searchLoop_base (t : Table) (m : Matcher) (q : Query) (start : SearchStart) (hl : q.limit = 0)
    (ks : List Bytes) : ∀ (st : SearchState), st.started = true →
    (∀ k ∈ ks, ∃ item, alookup k t.data = some item ∧ Answers m q item) →
    ∃ st', searchLoop t m q false start st ks = .ok st' ∧ st'.items = (pick t m q ks).reverse ++ st.items := by
  induction ks with
  | nil => intro st _ _; exact ⟨st, rfl, by simp [pick]⟩
  | cons k rest ih =>
    intro st hs hall
    obtain ⟨item, hk, ha⟩ := hall k (by simp)
    obtain ⟨st1, h1, hs1, hi1⟩ := searchStep_base t m q start st k item hl hs hk ha
    obtain ⟨st2, h2, hi2⟩ := ih st1 hs1 (fun k' hk' => hall k' (by simp [hk']))
    refine ⟨st2, ?_, ?_⟩
    · simp only [searchLoop, h1, bind, Except.bind, Bool.false_eq_true, if_false]; exact h2
    · rw [hi2, hi1]
      simp only [pick, List.filterMap_cons, hk, Option.getD_some]
      cases verdict m q item <;> simp

/-- **C02**: an unpaginated read of the table returns the stored items whose attributes
    satisfy the key condition and the filter, in the order of the sorted key list -/
theorem search_exact (t : Table) (m : Matcher) (q : Query) (hinv : TableInv t)
    (hidx : q.index = []) (hl : q.limit = 0) (hsk : q.startKey = [])
    (ha : ∀ k item, alookup k t.data = some item → Answers m q item) :
    ∃ r, t.searchData m q = .ok r ∧
      r.items = pick t m q (if q.forward then t.sortedKeys else t.sortedKeys.reverse) ∧ r.lastKey = [] := by
  have hall : ∀ ks : List Bytes, (∀ k ∈ ks, k ∈ t.sortedKeys) →
      ∀ k ∈ ks, ∃ item, alookup k t.data = some item ∧ Answers m q item := by
    intro ks hks k hk
    have := (hinv.memIff k).1 (hks k hk)
    simp only [ahas, Option.isSome_iff_exists] at this
    obtain ⟨item, hi⟩ := this
    exact ⟨item, hi, ha k item hi⟩
  have hsub : ∀ k ∈ (if q.forward then t.sortedKeys else t.sortedKeys.reverse), k ∈ t.sortedKeys := by
    intro k hk; split at hk
    · exact hk
    · simpa using hk
  obtain ⟨st', hloop, hitems⟩ := searchLoop_base t m q (parseSearchStart t none q.startKey) hl
    (if q.forward then t.sortedKeys else t.sortedKeys.reverse)
    { started := true, refs := [] } rfl (hall _ hsub)
  refine ⟨{ items := st'.items.reverse, lastKey := [] }, ?_, ?_, rfl⟩
  · simp only [searchData, hidx, List.isEmpty_nil, if_true, hsk, parseSearchStart, Option.isSome_none, bind, Except.bind]
    simp only [parseSearchStart, hsk, List.isEmpty_nil, if_true] at hloop
    rw [hloop]
    simp [hl, pure, Except.pure]
  · simp [hitems]

/-- every stored key is visited exactly once -/
theorem search_each_once (t : Table) (hinv : TableInv t) :
    t.sortedKeys.Nodup ∧ ∀ k, k ∈ t.sortedKeys ↔ (alookup k t.data).isSome = true :=
  ⟨hinv.nodup, fun k => hinv.memIff k⟩

/-- ... in ascending order of the key string (descending when reversed) -/
theorem search_order (t : Table) (hinv : TableInv t) : SortedBy Bytes.le t.sortedKeys := hinv.sorted

/-- each returned item is a stored item that satisfies the conditions, and each stored item
    that satisfies them is returned -/
theorem search_sound_complete (t : Table) (m : Matcher) (q : Query) (hinv : TableInv t) (item : Item) (fwd : Bool) :
    item ∈ pick t m q (if fwd then t.sortedKeys else t.sortedKeys.reverse) ↔
      ∃ k, alookup k t.data = some item ∧ verdict m q item = true := by
  have hmem : ∀ k, k ∈ (if fwd then t.sortedKeys else t.sortedKeys.reverse) ↔ k ∈ t.sortedKeys := by
    intro k; cases fwd <;> simp
  simp only [pick, List.mem_filterMap]
  constructor
  · rintro ⟨k, hk, h⟩
    have := (hinv.memIff k).1 ((hmem k).1 hk)
    simp only [ahas, Option.isSome_iff_exists] at this
    obtain ⟨it, hi⟩ := this
    simp only [hi, Option.getD_some] at h
    split at h
    · cases h; exact ⟨k, hi, by assumption⟩
    · cases h
  · rintro ⟨k, hk, hv⟩
    refine ⟨k, (hmem k).2 ((hinv.memIff k).2 (by simp [ahas, hk])), ?_⟩
    simp [hk, hv]

theorem searchOnce_error_not_search (c : Client) (t : Bytes) (q : Query) (ex : Exprs) (o : Out)
    (h : Client.searchOnce c t q ex = .error o) : ∀ items n lek, o ≠ .search items n lek := by
  intro items n lek heq
  subst heq
  unfold Client.searchOnce at h
  cases hf : c.failure with
  | some f => rw [hf] at h; cases f <;> cases h
  | none =>
    rw [hf] at h
    simp only at h
    generalize (if q.scan = true then [[], q.filter] else [q.keyCond, q.filter, []]) = exprs at h
    by_cases hv : (!Client.validateExprAttrs ex exprs) = true
    · simp only [hv, if_true] at h; cases h
    · have hv' : Client.validateExprAttrs ex exprs = true := by simpa using hv
      simp only [hv', Bool.not_true, Bool.false_eq_true, if_false] at h
      cases ht : alookup t c.tables with
      | none => rw [ht] at h; cases h
      | some tb =>
        rw [ht] at h
        simp only at h
        cases hi : (!q.index.isEmpty && !ahas q.index tb.indexes) with
        | true => rw [hi] at h; simp only [if_true] at h; cases h
        | false =>
          rw [hi] at h
          simp only [Bool.false_eq_true, if_false] at h
          cases hs : (!Client.startKeyOk tb q) with
          | true => rw [hs] at h; simp only [if_true] at h; cases h
          | false =>
            rw [hs] at h
            simp only [Bool.false_eq_true, if_false] at h
            split at h <;> cases h

/-- Count equals the number of items returned -/
theorem query_count (c : Client) (table : Bytes) (q : Query) (ex : Exprs) (items : List Item) (n : Nat) (lek : Item)
    (h : (Client.query c table q ex).2 = .search items n lek) : n = items.length := by
  unfold Client.query at h
  split at h
  · cases h; rfl
  · rename_i o ho
    exact absurd h (searchOnce_error_not_search c table q ex o ho items n lek)

end Minidyn.Props.C02
