/-
  Minidyn.Props.C13Start — the validation of ExclusiveStartKey and pagination fit together.

  `Client.startKeyOk` (the model of `Table.ValidateStartKey`) rejects a start key that is no key of the
  table.  `lek_valid_start`: every LastEvaluatedKey that a read of the table itself reports passes that
  validation, so the validation never breaks a pagination loop (`C04Paging.paginate_complete` is about
  the reads of `Model.Table`; the client puts the validation in front of them); `lek_valid_start_ix`:
  the same for a read through an index, whose key carries the index key too.
  `malformed_start_rejected`: a non-empty start key from which no table key can be built is rejected
  by the client, whatever else the request says.
-/
import Minidyn.Props.C04Paging
import Minidyn.Props.C04Index
import Minidyn.Model.Client
namespace Minidyn.Props.C13Start
open Minidyn Minidyn.Table Minidyn.Props.C01 Minidyn.Props.C02 Minidyn.Props.C04

theorem lek_valid_start (t : Table) (m : Matcher) (q : Query) (hinv : TableInv t) (hkeyed : Keyed t)
    (hidx : q.index = []) (hnoix : alookup [] t.indexes = none)
    (ha : ∀ k item, alookup k t.data = some item → Answers m q item)
    (r : SearchResult) (hr : t.searchData m q = .ok r) :
    Client.startKeyOk t (withStart q r.lastKey) = true := by
  have hchain : Chain q.forward (orderOf t q) := order_chain t hinv q.forward
  obtain ⟨r', hr', _, hlek⟩ := page_spec t m q hinv hchain hidx ha
  rw [hr] at hr'; cases hr'
  unfold Client.startKeyOk
  simp only [withStart_startKey]
  cases hstop : (cut t m q 0 (afterKeys t q)).2 with
  | false =>
    have hl : r.lastKey = [] := by rw [hlek]; simp [lekOf, hstop]
    simp [hl]
  | true =>
    obtain ⟨pre, kn, rest, hP, hAeq⟩ := cut_stopped_last t m q _ 0 hstop
    have hmemA : kn ∈ afterKeys t q := by rw [hAeq]; simp
    obtain ⟨lo, hord⟩ := afterKeys_suffix t q hchain
    have hmemS : kn ∈ t.sortedKeys := by
      have : kn ∈ orderOf t q := by rw [hord]; exact List.mem_append_right _ hmemA
      unfold orderOf at this; split at this
      · exact this
      · simpa using this
    have hstored := (hinv.memIff kn).1 hmemS
    simp only [ahas, Option.isSome_iff_exists] at hstored
    obtain ⟨item, hitem⟩ := hstored
    have hkey := hkeyed.keyed kn item hitem
    have hitemOf : itemOf t kn = item := by simp [itemOf, hitem]
    have hne : item ≠ [] := by
      intro h0; rw [h0, keyItem_nil, getKey_nil _ _ hkeyed.primary] at hkey; cases hkey
    have hl : r.lastKey = Key.keyItem t.schema item := by
      rw [hlek]
      simp only [lekOf, hstop, hP, lastItem_snoc, hitemOf, Bool.true_and]
      have : item.isEmpty = false := by cases item <;> simp_all
      simp [this]
    have hix : (withStart q (Key.keyItem t.schema item)).index = [] := hidx
    rw [hl, hkey, hix, hnoix]
    simp [Except.toBool]

/-- the same through an index: the LastEvaluatedKey of an index read (table key completed with the index
    key) passes the validation of the next request, which also demands a non-empty index key -/
theorem lek_valid_start_ix (t : Table) (m : Matcher) (q : Query) (ix : Index)
    (hix : alookup q.index t.indexes = some ix) (hne : q.index.isEmpty = false)
    (hkeyed : Keyed t) (hinv : C03.IndexInv ix) (hag : C03.IndexAgree t ix)
    (ha : ∀ k item, alookup k t.data = some item → Answers m q item)
    (hstart : (startIx t ix q).key.isEmpty = false → (startIx t ix q).indexKey.isEmpty = false)
    (huniq : (startIx t ix q).key.isEmpty = false → ∀ r ∈ ix.refs, r.1 = (startIx t ix q).key → r.2 = (startIx t ix q).indexKey)
    (r : SearchResult) (hr : t.searchData m q = .ok r) :
    Client.startKeyOk t (withStart q r.lastKey) = true := by
  have hstored : ∀ r ∈ ix.refs, ∃ item, alookup r.1 t.data = some item ∧ Answers m q item := by
    intro r hr
    obtain ⟨item, hi, _, _⟩ := ref_facts t ix hinv hag r.1 r.2 hr
    exact ⟨item, hi, ha r.1 item hi⟩
  obtain ⟨r', hr', _, hlek⟩ := page_spec_ix t m q ix hix hne hinv hstored hstart huniq
  rw [hr] at hr'; cases hr'
  unfold Client.startKeyOk
  simp only [withStart_startKey]
  cases hstop : (cut t m q 0 ((afterRefs t ix q).map (·.1))).2 with
  | false =>
    have hl : r.lastKey = [] := by rw [hlek]; simp [lekOfIx, hstop]
    simp [hl]
  | true =>
    obtain ⟨pre, kn, rest, hP, hAeq⟩ := cut_stopped_last t m q _ 0 hstop
    obtain ⟨rlast, hmem, hlastk⟩ : ∃ rlast, rlast ∈ afterRefs t ix q ∧ rlast.1 = kn := by
      have : kn ∈ (afterRefs t ix q).map (·.1) := by rw [hAeq]; simp
      obtain ⟨x, hx, hxe⟩ := List.mem_map.1 this
      exact ⟨x, hx, hxe⟩
    obtain ⟨pk, ik⟩ := rlast
    simp only at hlastk
    subst hlastk
    have hmemref : (pk, ik) ∈ ix.refs := by
      unfold afterRefs at hmem
      split at hmem
      · exact (mem_sortedRefs ix _ _).1 hmem
      · exact (mem_sortedRefs ix _ _).1 (List.mem_filter.1 hmem).1
    obtain ⟨item, hitem, hgik, hikne⟩ := ref_facts t ix hinv hag pk ik hmemref
    have hkey := hkeyed.keyed pk item hitem
    have hitemOf : itemOf t pk = item := by simp [itemOf, hitem]
    have hne0 : item ≠ [] := by
      intro h0; rw [h0, keyItem_nil, getKey_nil _ _ hkeyed.primary] at hkey; cases hkey
    have hgpk : Key.getKey t.schema t.attrs item = .ok pk := by rw [← getKey_keyItem]; exact hkey
    have hl : r.lastKey = mergedKey t ix item := by
      rw [hlek]
      simp only [lekOfIx, hstop, hP, lastItem_snoc, hitemOf, Bool.true_and]
      have : item.isEmpty = false := by cases item <;> simp_all
      simp [this]
    have hmk : Key.getKey t.schema t.attrs (mergedKey t ix item) = .ok pk := by rw [getKey_mergedKey_table]; exact hgpk
    have hmi : Key.getKey ix.schema t.attrs (mergedKey t ix item) = .ok ik := by rw [getKey_mergedKey_index]; exact hgik
    have hqi : (withStart q (mergedKey t ix item)).index = q.index := rfl
    rw [hl, hmk, hqi, hix]
    simp [Except.toBool, hmi, hikne]

/-- a start key from which no key of the table can be built never reaches the read: the call is an error -/
theorem malformed_start_rejected (c : Client) (table : Bytes) (t : Table) (q : Query) (ex : Exprs) (e : KeyErr)
    (hne : q.startKey ≠ []) (hbad : Key.getKey t.schema t.attrs q.startKey = .error e)
    (ht : alookup table c.tables = some t) :
    ∃ o, Client.searchOnce c table q ex = .error o := by
  have hok : Client.startKeyOk t q = false := by
    unfold Client.startKeyOk
    have : q.startKey.isEmpty = false := by cases h : q.startKey <;> simp_all
    simp [this, hbad, Except.toBool]
  unfold Client.searchOnce
  cases c.failure with
  | some f => exact ⟨_, rfl⟩
  | none =>
    simp only
    generalize (if q.scan = true then [[], q.filter] else [q.keyCond, q.filter, []]) = exprs
    by_cases hv : (!Client.validateExprAttrs ex exprs) = true
    · simp only [hv, if_true]; exact ⟨_, rfl⟩
    · simp only [hv, Bool.false_eq_true, if_false, ht]
      by_cases hi : (!q.index.isEmpty && !ahas q.index t.indexes) = true
      · simp only [hi, if_true]; exact ⟨_, rfl⟩
      · simp only [hi, Bool.false_eq_true, if_false, hok, Bool.not_false, if_true]; exact ⟨_, rfl⟩

/-- non-vacuity: a table with a stored item, a page of one item, and its LastEvaluatedKey validates -/
example :
    let t : Table := ({ name := [116], schema := { hash := [104] }, attrs := [([104], [83])] } : Table).setItem [97] [([104], .s [97])]
      |>.setItem [98] [([104], .s [98])]
    Client.startKeyOk t { startKey := [([104], .s [97])] } = true ∧ Client.startKeyOk t { startKey := [([122], .s [97])] } = false := by
  decide

end Minidyn.Props.C13Start
