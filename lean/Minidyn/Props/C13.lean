/-
  Minidyn.Props.C13 — primary keys identify items faithfully.

  `encode_injective`: the key string of a (hash, range) pair determines both renderings, whatever
  bytes they contain (the separator and the escape character are escaped in the hash part).
  `render_injective_*`: for S and N attributes the rendering is the value's text, so distinct
  texts give distinct keys.  Together with `Props.C01` (the table is a map from key strings to
  items) two stored items are the same item iff their key attribute texts are equal.
  Requests whose key lacks an attribute or has the wrong type are rejected
  (`missing_key_rejected`, `wrong_type_key_rejected`).
  Not covered (known findings): N keys are compared as text, not by numeric value (C12);
  an update may rewrite the key attributes of the stored item (KF-C13-update-changes-key).
-/
import Minidyn.Model.Table
namespace Minidyn.Props.C13
open Minidyn Minidyn.Key

theorem escape_sep_injective : ∀ (h h' r r' : Bytes),
    escape h ++ 46 :: r = escape h' ++ 46 :: r' → h = h' ∧ r = r' := by
  intro h
  induction h with
  | nil =>
    intro h' r r' heq
    cases h' with
    | nil => simp [escape] at heq; exact ⟨rfl, heq⟩
    | cons c' cs' =>
      simp only [escape, List.nil_append] at heq
      by_cases hc : (c' == 92 || c' == 46) = true
      · simp [hc] at heq
      · simp only [hc, Bool.false_eq_true, if_false, List.cons_append, List.cons.injEq] at heq
        have : c' = 46 := heq.1.symm
        simp [this] at hc
  | cons c cs ih =>
    intro h' r r' heq
    cases h' with
    | nil =>
      simp only [escape, List.nil_append] at heq
      by_cases hc : (c == 92 || c == 46) = true
      · simp [hc] at heq
      · simp only [hc, Bool.false_eq_true, if_false, List.cons_append, List.cons.injEq] at heq
        have : c = 46 := heq.1
        simp [this] at hc
    | cons c' cs' =>
      simp only [escape] at heq
      by_cases hc : (c == 92 || c == 46) = true
      · by_cases hc' : (c' == 92 || c' == 46) = true
        · simp only [hc, hc', if_true, List.cons_append, List.cons.injEq, true_and] at heq
          obtain ⟨hcc, hrest⟩ := heq
          obtain ⟨h1, h2⟩ := ih cs' r r' hrest
          exact ⟨by rw [hcc, h1], h2⟩
        · simp only [hc, hc', if_true, Bool.false_eq_true, if_false, List.cons_append, List.cons.injEq] at heq
          have : c' = 92 := heq.1.symm
          simp [this] at hc'
      · by_cases hc' : (c' == 92 || c' == 46) = true
        · simp only [hc, hc', if_true, Bool.false_eq_true, if_false, List.cons_append, List.cons.injEq] at heq
          have : c = 92 := heq.1
          simp [this] at hc
        · simp only [hc, hc', Bool.false_eq_true, if_false, List.cons_append, List.cons.injEq] at heq
          obtain ⟨hcc, hrest⟩ := heq
          obtain ⟨h1, h2⟩ := ih cs' r r' hrest
          exact ⟨by rw [hcc, h1], h2⟩

/-- the rendering of S and N key attributes is their text -/
theorem render_S (x : Bytes) : render (.s x) [83] = some x := rfl
theorem render_N (x : Bytes) : render (.n x) [78] = some x := rfl

theorem render_injective_S {x y : Bytes} (h : render (.s x) [83] = render (.s y) [83]) : x = y := by
  simpa [render] using h

theorem render_injective_N {x y : Bytes} (h : render (.n x) [78] = render (.n y) [78]) : x = y := by
  simpa [render] using h

/-- key strings of a hash+range schema: equal strings ⇒ equal hash and range renderings -/
theorem encode_injective (ks : KeySchema) (attrs : List (Bytes × Bytes)) (hr : ks.range ≠ []) (i j : Item) (k : Bytes)
    (hi : keyValue ks attrs i = .ok k) (hj : keyValue ks attrs j = .ok k) :
    itemValue attrs i ks.hash = itemValue attrs j ks.hash ∧ itemValue attrs i ks.range = itemValue attrs j ks.range := by
  unfold keyValue at hi hj
  have hre : ks.range.isEmpty = false := by cases h : ks.range <;> simp_all
  cases h1 : itemValue attrs i ks.hash with
  | error e => simp [h1, bind, Except.bind] at hi
  | ok a =>
    cases h2 : itemValue attrs j ks.hash with
    | error e => simp [h2, bind, Except.bind] at hj
    | ok a' =>
      simp only [h1, h2, hre, bind, Except.bind, Bool.false_eq_true, if_false] at hi hj
      cases h3 : itemValue attrs i ks.range with
      | error e => simp [h3] at hi
      | ok b =>
        cases h4 : itemValue attrs j ks.range with
        | error e => simp [h4] at hj
        | ok b' =>
          simp only [h3, h4, pure, Except.pure, Except.ok.injEq] at hi hj
          have := escape_sep_injective a a' b b' (by
            have e1 : escape a ++ [46] ++ b = k := hi
            have e2 : escape a' ++ [46] ++ b' = k := hj
            simpa using e1.trans e2.symm)
          rw [this.1, this.2]
          exact ⟨rfl, rfl⟩

/-- hash-only schemas: the key string is the hash rendering itself -/
theorem encode_injective_hashonly (ks : KeySchema) (attrs : List (Bytes × Bytes)) (hr : ks.range = []) (i : Item) (k : Bytes)
    (hi : keyValue ks attrs i = .ok k) : itemValue attrs i ks.hash = .ok k := by
  unfold keyValue at hi
  cases h1 : itemValue attrs i ks.hash with
  | error e => simp [h1, bind, Except.bind] at hi
  | ok a => simpa [h1, hr, bind, Except.bind, pure, Except.pure] using hi

/-- a key attribute that is missing is rejected by the primary schema … -/
theorem missing_key_rejected (ks : KeySchema) (attrs : List (Bytes × Bytes)) (item : Item)
    (hs : ks.secondary = false) (hm : alookup ks.hash item = none) : getKey ks attrs item = .error .missing := by
  simp [getKey, keyValue, itemValue, hm, hs, bind, Except.bind]

/-- … and so is one of another type than the declared one (here: declared S) -/
theorem wrong_type_key_rejected (ks : KeySchema) (attrs : List (Bytes × Bytes)) (item : Item) (v : AV)
    (hv : alookup ks.hash item = some v) (hd : alookup ks.hash attrs = some [83]) (hns : ∀ x, v ≠ .s x) :
    getKey ks attrs item = .error .invalidType := by
  have : render v [83] = none := by
    cases v <;> simp_all [render]
  simp [getKey, keyValue, itemValue, hv, hd, this, bind, Except.bind]

/-- the historic collision: ("a.b","c") and ("a","b.c") now have different key strings -/
example : (keyValue { hash := [104], range := [114] } [([104], [83]), ([114], [83])] [([104], .s [97, 46, 98]), ([114], .s [99])]).toOption
    ≠ (keyValue { hash := [104], range := [114] } [([104], [83]), ([114], [83])] [([104], .s [97]), ([114], .s [98, 46, 99])]).toOption := by
  decide

end Minidyn.Props.C13
