/-
  Minidyn.Props.C13 — primary keys identify items faithfully.

  `encode_injective`: the key string of a (hash, range) pair determines both renderings, whatever
  bytes they contain (the separator and the escape character are escaped in the hash part).
  `render_injective_*`: for S and N attributes the rendering is the value's text, so distinct
  texts give distinct keys.  Together with `Props.C01` (the table is a map from key strings to
  items) two stored items are the same item iff their key attribute texts are equal.
  Requests whose key lacks an attribute or has the wrong type are rejected
  (`missing_key_rejected`, `wrong_type_key_rejected`).
  Not covered (known findings): N keys are compared as text, not by numeric value (C12);
  an update may rewrite the key attributes of the stored item (KF-C13-update-changes-key).
-/
import Minidyn.Model.Table
namespace Minidyn.Props.C13
open Minidyn Minidyn.Key

theorem escape_sep_injective : ∀ (h h' r r' : Bytes),
    escape h ++ 46 :: r = escape h' ++ 46 :: r' → h = h' ∧ r = r' := by
  intro h
  induction h with
  | nil =>
    intro h' r r' heq
    cases h' with
    | nil => simp [escape] at heq; exact ⟨rfl, heq⟩
    | cons c' cs' =>
      simp only [escape, List.nil_append] at heq
      by_cases hc : (c' == 92 || c' == 46) = true
      · simp [hc] at heq
      · simp only [hc, Bool.false_eq_true, if_false, List.cons_append, List.cons.injEq] at heq
        have : c' = 46 := heq.1.symm
        simp [this] at hc
  | cons c cs ih =>
    intro h' r r' heq
    cases h' with
    | nil =>
      simp only [escape, List.nil_append] at heq
      by_cases hc : (c == 92 || c == 46) = true
      · simp [hc] at heq
      · simp only [hc, Bool.false_eq_true, if_false, List.cons_append, List.cons.injEq] at heq
        have : c = 46 := heq.1
        simp [this] at hc
    | cons c' cs' =>
      simp only [escape] at heq
      by_cases hc : (c == 92 || c == 46) = true
      · by_cases hc' : (c' == 92 || c' == 46) = true
        · simp only [hc, hc', if_true, List.cons_append, List.cons.injEq, true_and] at heq
          obtain ⟨hcc, hrest⟩ := heq
          obtain ⟨h1, h2⟩ := ih cs' r r' hrest
          exact ⟨by rw [hcc, h1], h2⟩
        · simp only [hc, hc', if_true, Bool.false_eq_true, if_false, List.cons_append, List.cons.injEq] at heq
          have : c' = 92 := heq.1.symm
          simp [this] at hc'
      · by_cases hc' : (c' == 92 || c' == 46) = true
        · simp only [hc, hc', if_true, Bool.false_eq_true, if_false, List.cons_append, List.cons.injEq] at heq
          have : c = 92 := heq.1
          simp [this] at hc
        · simp only [hc, hc', Bool.false_eq_true, if_false, List.cons_append, List.cons.injEq] at heq
          obtain ⟨hcc, hrest⟩ := heq
          obtain ⟨h1, h2⟩ := ih cs' r r' hrest
          exact ⟨by rw [hcc, h1], h2⟩

/-- the rendering of S and N key attributes is their text -/
theorem render_S (x : Bytes) : render (.s x) [83] = some x := rfl
theorem render_N (x : Bytes) : render (.n x) [78] = some x := rfl

theorem render_injective_S {x y : Bytes} (h : render (.s x) [83] = render (.s y) [83]) : x = y := by
  simpa [render] using h

theorem render_injective_N {x y : Bytes} (h : render (.n x) [78] = render (.n y) [78]) : x = y := by
  simpa [render] using h

theorem keyAttrValue_ok {ks : KeySchema} {attrs : List (Bytes × Bytes)} {i : Item} {f a : Bytes}
    (h : keyAttrValue ks attrs i f = .ok a) : itemValue attrs i f = .ok a := by
  unfold keyAttrValue at h
  cases h1 : itemValue attrs i f with
  | error e => simp [h1, bind, Except.bind] at h
  | ok b =>
    simp only [h1, bind, Except.bind] at h
    split at h
    · cases h
    · simpa [pure, Except.pure] using h

/-- key strings of a hash+range schema: equal strings ⇒ equal hash and range renderings -/
theorem encode_injective (ks : KeySchema) (attrs : List (Bytes × Bytes)) (hr : ks.range ≠ []) (i j : Item) (k : Bytes)
    (hi : keyValue ks attrs i = .ok k) (hj : keyValue ks attrs j = .ok k) :
    itemValue attrs i ks.hash = itemValue attrs j ks.hash ∧ itemValue attrs i ks.range = itemValue attrs j ks.range := by
  unfold keyValue at hi hj
  have hre : ks.range.isEmpty = false := by cases h : ks.range <;> simp_all
  cases h1 : keyAttrValue ks attrs i ks.hash with
  | error e => simp [h1, bind, Except.bind] at hi
  | ok a =>
    cases h2 : keyAttrValue ks attrs j ks.hash with
    | error e => simp [h2, bind, Except.bind] at hj
    | ok a' =>
      simp only [h1, h2, hre, bind, Except.bind, Bool.false_eq_true, if_false] at hi hj
      cases h3 : keyAttrValue ks attrs i ks.range with
      | error e => simp [h3] at hi
      | ok b =>
        cases h4 : keyAttrValue ks attrs j ks.range with
        | error e => simp [h4] at hj
        | ok b' =>
          simp only [h3, h4, pure, Except.pure, Except.ok.injEq] at hi hj
          have := escape_sep_injective a a' b b' (by
            have e1 : escape a ++ [46] ++ b = k := hi
            have e2 : escape a' ++ [46] ++ b' = k := hj
            simpa using e1.trans e2.symm)
          rw [keyAttrValue_ok h1, keyAttrValue_ok h2, keyAttrValue_ok h3, keyAttrValue_ok h4, this.1, this.2]
          exact ⟨rfl, rfl⟩

/-- hash-only schemas: the key string is the hash rendering itself -/
theorem encode_injective_hashonly (ks : KeySchema) (attrs : List (Bytes × Bytes)) (hr : ks.range = []) (i : Item) (k : Bytes)
    (hi : keyValue ks attrs i = .ok k) : itemValue attrs i ks.hash = .ok k := by
  unfold keyValue at hi
  cases h1 : keyAttrValue ks attrs i ks.hash with
  | error e => simp [h1, bind, Except.bind] at hi
  | ok a =>
    have : a = k := by simpa [h1, hr, bind, Except.bind, pure, Except.pure] using hi
    rw [← this]; exact keyAttrValue_ok h1

/-- a key attribute that is missing is rejected by the primary schema … -/
theorem missing_key_rejected (ks : KeySchema) (attrs : List (Bytes × Bytes)) (item : Item)
    (hs : ks.secondary = false) (hm : alookup ks.hash item = none) : getKey ks attrs item = .error .missing := by
  simp [getKey, keyValue, keyAttrValue, itemValue, hm, hs, bind, Except.bind]

/-- … and so is one of another type than the declared one (here: declared S) -/
theorem wrong_type_key_rejected (ks : KeySchema) (attrs : List (Bytes × Bytes)) (item : Item) (v : AV)
    (hv : alookup ks.hash item = some v) (hd : alookup ks.hash attrs = some [83]) (hns : ∀ x, v ≠ .s x) :
    getKey ks attrs item = .error .invalidType := by
  have : render v [83] = none := by
    cases v <;> simp_all [render]
  simp [getKey, keyValue, keyAttrValue, itemValue, hv, hd, this, bind, Except.bind]

/-- … and so is an empty hash key value: the key string of a stored item is never empty
    (found while proving C04: resuming from the key "" would restart the read for ever) -/
theorem empty_key_rejected (ks : KeySchema) (attrs : List (Bytes × Bytes)) (item : Item)
    (hs : ks.secondary = false) (hv : alookup ks.hash item = some (.s [])) (hd : alookup ks.hash attrs = some [83]) :
    getKey ks attrs item = .error .invalidType := by
  simp [getKey, keyValue, keyAttrValue, itemValue, hv, hd, hs, render, emptyValue, bind, Except.bind, throw, throwThe,
    MonadExceptOf.throw, Except.pure, pure]

theorem keyAttrValue_nonempty {ks : KeySchema} {attrs : List (Bytes × Bytes)} {i : Item} {f a : Bytes}
    (hs : ks.secondary = false) (h : keyAttrValue ks attrs i f = .ok a) : a ≠ [] := by
  unfold keyAttrValue itemValue at h
  cases hv : alookup f i with
  | none => simp [hv, bind, Except.bind] at h
  | some v =>
    simp only [hv, bind, Except.bind, hs, Bool.not_false, Bool.true_and, Option.map_some, Option.getD_some] at h
    cases hr : render v ((alookup f attrs).getD []) with
    | none => simp [hr] at h
    | some s =>
      simp only [hr] at h
      cases he : emptyValue v with
      | true => simp [he, throw, throwThe, MonadExceptOf.throw] at h
      | false =>
        simp only [he, Bool.false_eq_true, if_false, pure, Except.pure, Except.ok.injEq] at h
        subst h
        cases v <;> simp [render] at hr <;> simp [emptyValue] at he
        · obtain ⟨_, rfl⟩ := hr; simpa using he
        · obtain ⟨_, rfl⟩ := hr; simpa using he
        · obtain ⟨_, rfl⟩ := hr; simp [renderBinary]

/-- the key string of a primary key is never empty -/
theorem key_nonempty (ks : KeySchema) (attrs : List (Bytes × Bytes)) (item : Item) (k : Bytes)
    (hs : ks.secondary = false) (h : getKey ks attrs item = .ok k) : k ≠ [] := by
  have hk : keyValue ks attrs item = .ok k := by
    unfold getKey at h
    split at h
    · simp [hs] at h
    · exact h
  unfold keyValue at hk
  cases h1 : keyAttrValue ks attrs item ks.hash with
  | error e => simp [h1, bind, Except.bind] at hk
  | ok a =>
    simp only [h1, bind, Except.bind] at hk
    split at hk
    · simp only [pure, Except.pure, Except.ok.injEq] at hk; subst hk; exact keyAttrValue_nonempty hs h1
    · cases h2 : keyAttrValue ks attrs item ks.range with
      | error e => simp [h2] at hk
      | ok b => simp only [h2, pure, Except.pure, Except.ok.injEq] at hk; subst hk; simp

/-- the historic collision: ("a.b","c") and ("a","b.c") now have different key strings -/
example : (keyValue { hash := [104], range := [114] } [([104], [83]), ([114], [83])] [([104], .s [97, 46, 98]), ([114], .s [99])]).toOption
    ≠ (keyValue { hash := [104], range := [114] } [([104], [83]), ([114], [83])] [([104], .s [97]), ([114], .s [98, 46, 99])]).toOption := by
  decide

end Minidyn.Props.C13
