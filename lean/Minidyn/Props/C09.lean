/-
  C09 — the expression front end is total and strict.

  "Never loops" is a theorem about the shape of the recursion, which the model mirrors
  function by function:
    * the lexer is one structural pass over the bytes (Lean accepts it without fuel) and
      yields at most one token per byte (`lex_length`);
    * the parser's mutual recursion (`parseExpression`, the infix loop, call arguments,
      update clauses and actions) is modelled with a depth budget; `allGood` shows by
      induction that no function hands back more tokens than it got and that a budget of
      `5·n + rank` is never exhausted on `n` tokens, so `parseCond`/`parseUpdate` answer
      an expression or a syntax error for EVERY byte string (`front_end_total`,
      `front_end_total_update`) — the model's "out of fuel" answer is unreachable;
    * alias expansion (`#a → #b → #a …`) ends by itself for every alias table: with fuel
      `aliases.length + 1` the result no longer depends on the fuel
      (`expandName_fuel_irrelevant`, `get_expansion_total`).
  "Never crashes" and the strictness clauses are tied to the code by the correspondence
  check on generated, near-miss and garbage strings (families match, update, garbage).
-/
import Minidyn.Model.Parser
import Minidyn.Model.Env
import Minidyn.Lemmas.Assoc
namespace Minidyn.Props.C09
open Minidyn Minidyn.Parser

/-! ### the lexer: one pass, at most one token per byte -/

theorem flush_length (cur : Bytes) : (Lexer.flush cur).length ≤ 1 := by
  unfold Lexer.flush; split <;> simp

theorem flush_nil : Lexer.flush [] = [] := rfl

theorem pendTok_length (p : Nat) : (Lexer.pendTok p).length ≤ 1 := by
  unfold Lexer.pendTok; split
  · simp
  · split <;> simp

theorem pendTok_zero : Lexer.pendTok 0 = [] := by decide

def curCost (cur : Bytes) : Nat := if cur.isEmpty then 0 else 1
def pendCost (p : Nat) : Nat := if p == 60 || p == 62 then 1 else 0

theorem flush_le (cur : Bytes) : (Lexer.flush cur).length ≤ curCost cur := by
  unfold Lexer.flush curCost; split <;> simp

theorem pendTok_le (p : Nat) : (Lexer.pendTok p).length ≤ pendCost p := by
  unfold Lexer.pendTok pendCost
  by_cases h1 : (p == 60) = true
  · simp [h1]
  · by_cases h2 : (p == 62) = true
    · simp [h1, h2]
    · simp [h1, h2]

theorem lexAux_length (s : Bytes) : ∀ (cur : Bytes) (pend : Nat),
    (Lexer.lexAux s cur pend).length ≤ s.length + curCost cur + pendCost pend := by
  induction s with
  | nil =>
    intro cur pend
    simp only [Lexer.lexAux, List.length_append, List.length_nil]
    have := flush_le cur; have := pendTok_le pend; omega
  | cons c cs ih =>
    intro cur pend
    have hf := flush_le cur
    have hp := pendTok_le pend
    have h0 := ih [] 0
    have hc := ih (c :: cur) 0
    have hpc := ih [] c
    have e1 : curCost [] = 0 := rfl
    have e2 : pendCost 0 = 0 := rfl
    have e3 : curCost (c :: cur) = 1 := rfl
    have e4 : pendCost c ≤ 1 := by unfold pendCost; split <;> omega
    simp only [Lexer.lexAux]
    split
    · rename_i h
      have : pendCost pend = 1 := by
        simp only [Bool.and_eq_true, beq_iff_eq] at h; simp [pendCost, h.1]
      simp only [List.length_cons]; omega
    · split
      · rename_i h
        have : pendCost pend = 1 := by
          simp only [Bool.and_eq_true, beq_iff_eq] at h; simp [pendCost, h.1]
        simp only [List.length_cons]; omega
      · split
        · rename_i h
          have : pendCost pend = 1 := by
            simp only [Bool.and_eq_true, beq_iff_eq] at h; simp [pendCost, h.1]
          simp only [List.length_cons]; omega
        · simp only [List.length_append]
          split
          · have : curCost cur ≤ 1 := by unfold curCost; split <;> omega
            -- the identifier continues: its token is still owed
            have hcc : curCost cur ≥ 0 := Nat.zero_le _
            simp only [List.length_cons]
            omega
          · simp only [List.length_append]
            split
            · simp only [List.length_cons]; omega
            · split
              · simp only [List.length_cons]; omega
              · split
                · simp only [List.length_cons]; omega
                · simp only [List.length_cons]; omega

/-- **the lexer is total and linear**: it is a structural recursion over the bytes (accepted by
    Lean's termination checker without fuel) and yields at most one token per byte -/
theorem lex_length (s : Bytes) : (Lexer.lex s).length ≤ s.length := by
  have := lexAux_length s [] 0
  simpa [Lexer.lex, curCost, pendCost] using this

@[simp] theorem next_length (ts : List Token) : (next ts).length = ts.length - 1 := by simp [next]

theorem cur_pos (ts : List Token) (h : (cur ts).typ ≠ .eof) : 1 ≤ ts.length := by
  cases ts with
  | nil => simp [cur, eofTok] at h
  | cons _ _ => simp

theorem peek_pos (ts : List Token) (h : (peek ts).typ ≠ .eof) : 2 ≤ ts.length := by
  cases ts with
  | nil => simp [peek, eofTok] at h
  | cons _ t => cases t with
    | nil => simp [peek, eofTok] at h
    | cons _ _ => simp

theorem prefixFn_ne_eof (m : PMode) (t : Tok) (x : PrefixFn) (h : prefixFn m t = some x) : t ≠ .eof := by
  intro he; subst he; cases m <;> simp [prefixFn] at h

/-- what is shown of every parsing function: it never hands back more tokens than it was
    given, and with more fuel than `bound` it does not run out of fuel -/
structure Good {α : Type} (r : PR α) (s : PS) (bound fuel : Nat) : Prop where
  mono : ∀ a s', r = .ok a s' → s'.ts.length ≤ s.ts.length
  enough : bound < fuel → r ≠ .outOfFuel

theorem Good.err {α : Type} (s : PS) (b f : Nat) : Good (PR.err : PR α) s b f :=
  ⟨fun _ _ h => (nomatch h), fun _ h => (nomatch h)⟩

theorem Good.ok {α : Type} (a : α) (s s' : PS) (b f : Nat) (h : s'.ts.length ≤ s.ts.length) :
    Good (PR.ok a s') s b f :=
  ⟨fun _ _ h' => by (cases h'; exact h), fun _ h' => nomatch h'⟩

/-- weaken: a result that is good for a smaller state and a smaller bound -/
theorem Good.lift {α : Type} {r : PR α} {s0 s : PS} {b0 b f0 f : Nat} (h : Good r s0 b0 f0)
    (hl : s0.ts.length ≤ s.ts.length) (hb : b < f → b0 < f0) : Good r s b f :=
  ⟨fun a s' hr => Nat.le_trans (h.mono a s' hr) hl, fun hbf => h.enough (hb hbf)⟩

/-- a sub-call that is good cannot be the reason for running out of fuel -/
theorem Good.oof {α β : Type} {r1 : PR α} {s1 s : PS} {b1 b f1 f : Nat}
    (h1 : Good r1 s1 b1 f1) (hr : r1 = .outOfFuel) (hb : b < f → b1 < f1) : Good (PR.outOfFuel : PR β) s b f :=
  ⟨fun _ _ h => (nomatch h), fun hbf => absurd hr (h1.enough (hb hbf))⟩

/-- the fuel each function needs for a state with `n` tokens left: five per token plus the
    rank of the function in the chains that do not consume a token
    (`parseAction → parseExpr → parseUpdateAction`, `parseExpr → infixLoop`,
    `parseArgs → argsLoop`) -/
def need (rank : Nat) (s : PS) : Nat := 5 * s.ts.length + rank

structure AllGood (m : PMode) (fuel : Nat) : Prop where
  expr : ∀ p s, Good (parseExpr m fuel p s) s (need 2 s) fuel
  infx : ∀ p l s, Good (infixLoop m fuel p l s) s (need 0 s) fuel
  args : ∀ s, Good (parseArgs m fuel s) s (need 4 s) fuel
  argsL : ∀ acc s, Good (argsLoop m fuel acc s) s (need 3 s) fuel
  upd : ∀ s, Good (parseUpdateAction m fuel s) s (need 1 s) fuel
  act : ∀ op s, Good (parseAction m fuel op s) s (need 3 s) fuel
  actL : ∀ op acc s, Good (actionsLoop m fuel op acc s) s (need 3 s) fuel

theorem good_zero {α : Type} (s : PS) (b : Nat) : Good (PR.outOfFuel : PR α) s b 0 :=
  ⟨fun _ _ h => (nomatch h), fun h => absurd h (Nat.not_lt_zero _)⟩

theorem allGood_zero (m : PMode) : AllGood m 0 := by
  constructor <;> intros <;> simp only [parseExpr, infixLoop, parseArgs, argsLoop, parseUpdateAction, parseAction,
    actionsLoop] <;> exact good_zero _ _

theorem expr_step (m : PMode) (fuel : Nat) (ih : AllGood m fuel) (p : Nat) (s : PS) :
    Good (parseExpr m (fuel + 1) p s) s (need 2 s) (fuel + 1) := by
  simp only [parseExpr]
  cases hp : prefixFn m (cur s.ts).typ with
  | none => exact Good.err _ _ _
  | some fn =>
    have hpos : 1 ≤ s.ts.length := cur_pos _ (prefixFn_ne_eof _ _ _ hp)
    cases fn with
    | ident =>
      exact (ih.infx p _ s).lift (Nat.le_refl _) (by simp only [need]; omega)
    | not =>
      simp only
      have hg := ih.expr pNot { s with ts := next s.ts }
      cases hr : parseExpr m fuel pNot { s with ts := next s.ts } with
      | err => exact Good.err _ _ _
      | outOfFuel => exact hg.oof hr (by simp only [need, next_length]; omega)
      | ok r s' =>
        have hle := hg.mono _ _ hr
        simp only [next_length] at hle
        exact (ih.infx p _ s').lift (by omega) (by simp only [need]; omega)
    | group =>
      simp only
      have hg := ih.expr pLowest { s with ts := next s.ts }
      cases hr : parseExpr m fuel pLowest { s with ts := next s.ts } with
      | err => exact Good.err _ _ _
      | outOfFuel => exact hg.oof hr (by simp only [need, next_length]; omega)
      | ok e s' =>
        have hle := hg.mono _ _ hr
        simp only [next_length] at hle
        simp only
        split
        · exact (ih.infx p _ _).lift (by simp only [next_length]; omega) (by simp only [need, next_length]; omega)
        · exact Good.err _ _ _
    | updateAction =>
      simp only
      have hg := ih.upd s
      cases hr : parseUpdateAction m fuel s with
      | err => exact Good.err _ _ _
      | outOfFuel => exact hg.oof hr (by simp only [need]; omega)
      | ok e s' =>
        have hle := hg.mono _ _ hr
        exact (ih.infx p _ s').lift hle (by simp only [need]; omega)


theorem infx_step (m : PMode) (fuel : Nat) (ih : AllGood m fuel) (p : Nat) (l : Expr) (s : PS) :
    Good (infixLoop m (fuel + 1) p l s) s (need 0 s) (fuel + 1) := by
  simp only [infixLoop]
  split
  · exact Good.ok _ _ _ _ _ (Nat.le_refl _)
  · rename_i hcond
    have hpk : (peek s.ts).typ ≠ .eof := by
      intro he; apply hcond; rw [he]; rfl
    have h2 : 2 ≤ s.ts.length := peek_pos _ hpk
    cases hfn : infixFn m (peek s.ts).typ with
    | none => exact Good.ok _ _ _ _ _ (Nat.le_refl _)
    | some fn =>
      cases fn with
      | «infix» =>
        simp only
        have hg := ih.expr (prec (cur (next s.ts)).typ) { s with ts := next (next s.ts) }
        cases hr : parseExpr m fuel (prec (cur (next s.ts)).typ) { s with ts := next (next s.ts) } with
        | err => exact Good.err _ _ _
        | outOfFuel => exact hg.oof hr (by simp only [need, next_length]; omega)
        | ok r s' =>
          have hle := hg.mono _ _ hr
          simp only [next_length] at hle
          exact (ih.infx p _ s').lift (by omega) (by simp only [need]; omega)
      | index =>
        simp only
        split
        · exact Good.err _ _ _
        · split
          · exact (ih.infx p _ _).lift (by simp only [next_length]; omega) (by simp only [need, next_length]; omega)
          · split
            · exact (ih.infx p _ _).lift (by simp only [next_length]; omega) (by simp only [need, next_length]; omega)
            · exact Good.err _ _ _
      | between =>
        simp only
        split
        · exact Good.err _ _ _
        · split
          · split
            · exact Good.err _ _ _
            · exact (ih.infx p _ _).lift (by simp only [next_length]; omega) (by simp only [need, next_length]; omega)
          · exact Good.err _ _ _
      | call =>
        simp only
        have hg := ih.args { s with ts := next s.ts }
        cases hr : parseArgs m fuel { s with ts := next s.ts } with
        | err => exact Good.err _ _ _
        | outOfFuel => exact hg.oof hr (by simp only [need, next_length]; omega)
        | ok args s' =>
          have hle := hg.mono _ _ hr
          simp only [next_length] at hle
          exact (ih.infx p _ s').lift (by omega) (by simp only [need]; omega)
      | isIn =>
        simp only
        split
        · exact Good.err _ _ _
        · have hg := ih.args { s with ts := next (next s.ts) }
          cases hr : parseArgs m fuel { s with ts := next (next s.ts) } with
          | err => exact Good.err _ _ _
          | outOfFuel => exact hg.oof hr (by simp only [need, next_length]; omega)
          | ok args s' =>
            have hle := hg.mono _ _ hr
            simp only [next_length] at hle
            simp only
            split
            · exact Good.err _ _ _
            · exact (ih.infx p _ s').lift (by omega) (by simp only [need]; omega)

theorem args_step (m : PMode) (fuel : Nat) (ih : AllGood m fuel) (s : PS) :
    Good (parseArgs m (fuel + 1) s) s (need 4 s) (fuel + 1) := by
  simp only [parseArgs]
  split
  · exact Good.ok _ _ _ _ _ (by simp only [next_length]; omega)
  · have hg := ih.expr pLowest { s with ts := next s.ts }
    cases hr : parseExpr m fuel pLowest { s with ts := next s.ts } with
    | err => exact Good.err _ _ _
    | outOfFuel => exact hg.oof hr (by simp only [need, next_length]; omega)
    | ok e s' =>
      have hle := hg.mono _ _ hr
      simp only [next_length] at hle
      exact (ih.argsL _ s').lift (by omega) (by simp only [need]; omega)

theorem argsL_step (m : PMode) (fuel : Nat) (ih : AllGood m fuel) (acc : List Expr) (s : PS) :
    Good (argsLoop m (fuel + 1) acc s) s (need 3 s) (fuel + 1) := by
  simp only [argsLoop]
  split
  · rename_i hc
    have h2 : 2 ≤ s.ts.length := peek_pos _ (by intro he; rw [he] at hc; exact absurd hc (by decide))
    have hg := ih.expr pLowest { s with ts := next (next s.ts) }
    cases hr : parseExpr m fuel pLowest { s with ts := next (next s.ts) } with
    | err => exact Good.err _ _ _
    | outOfFuel => exact hg.oof hr (by simp only [need, next_length]; omega)
    | ok e s' =>
      have hle := hg.mono _ _ hr
      simp only [next_length] at hle
      exact (ih.argsL _ s').lift (by omega) (by simp only [need]; omega)
  · split
    · exact Good.ok _ _ _ _ _ (by simp only [next_length]; omega)
    · exact Good.err _ _ _

theorem act_step (m : PMode) (fuel : Nat) (ih : AllGood m fuel) (op : Token) (s : PS) :
    Good (parseAction m (fuel + 1) op s) s (need 3 s) (fuel + 1) := by
  simp only [parseAction]
  have hg := ih.expr pLowest s
  cases hr : parseExpr m fuel pLowest s with
  | err => exact Good.err _ _ _
  | outOfFuel => exact hg.oof hr (by simp only [need]; omega)
  | ok left s1 =>
    have hle := hg.mono _ _ hr
    simp only
    -- the right-hand side, whichever state it starts from
    have hrhs : ∀ s2 : PS, s2.ts.length ≤ s1.ts.length →
        Good (match parseExpr m fuel pLowest { s2 with ts := next s2.ts } with
          | .ok right s3 => PR.ok (Expr.action op left right) s3
          | .err => .err
          | .outOfFuel => .outOfFuel) s (need 3 s) (fuel + 1) := by
      intro s2 h2
      have hg2 := ih.expr pLowest { s2 with ts := next s2.ts }
      cases hr2 : parseExpr m fuel pLowest { s2 with ts := next s2.ts } with
      | err => exact Good.err _ _ _
      | outOfFuel => exact hg2.oof hr2 (by simp only [need, next_length]; omega)
      | ok right s3 =>
        have hle2 := hg2.mono _ _ hr2
        simp only [next_length] at hle2
        exact Good.ok _ _ _ _ _ (by omega)
    by_cases hset : (op.typ == Tok.set) = true
    · simp only [hset, Bool.true_and, if_true]
      split
      · exact Good.err _ _ _
      · split
        · exact Good.ok _ _ _ _ _ (by simp only [next_length]; omega)
        · exact hrhs { s1 with ts := next s1.ts } (by simp only [next_length]; omega)
    · simp only [hset, Bool.false_and, Bool.false_eq_true, if_false]
      split
      · exact Good.ok _ _ _ _ _ hle
      · exact hrhs s1 (Nat.le_refl _)


theorem upd_step (m : PMode) (fuel : Nat) (ih : AllGood m fuel) (s : PS) :
    Good (parseUpdateAction m (fuel + 1) s) s (need 1 s) (fuel + 1) := by
  simp only [parseUpdateAction]
  split
  · exact Good.err _ _ _
  · split
    · exact Good.ok _ _ _ _ _ (Nat.le_refl _)
    · rename_i hpk
      have h2 : 2 ≤ s.ts.length := peek_pos _ (by intro he; apply hpk; rw [he]; rfl)
      have hg := ih.act (cur s.ts) { ts := next s.ts, used := (cur s.ts).typ :: s.used }
      cases hr : parseAction m fuel (cur s.ts) { ts := next s.ts, used := (cur s.ts).typ :: s.used } with
      | err => exact Good.err _ _ _
      | outOfFuel => exact hg.oof hr (by simp only [need, next_length]; omega)
      | ok a s' =>
        have hle := hg.mono _ _ hr
        simp only [next_length] at hle
        simp only
        have hg2 := ih.actL (cur s.ts) [a] s'
        cases hr2 : actionsLoop m fuel (cur s.ts) [a] s' with
        | err => exact Good.err _ _ _
        | outOfFuel => exact hg2.oof hr2 (by simp only [need]; omega)
        | ok acts s'' =>
          have hle2 := hg2.mono _ _ hr2
          exact Good.ok _ _ _ _ _ (by omega)

theorem actL_step (m : PMode) (fuel : Nat) (ih : AllGood m fuel) (op : Token) (acc : List Expr) (s : PS) :
    Good (actionsLoop m (fuel + 1) op acc s) s (need 3 s) (fuel + 1) := by
  simp only [actionsLoop]
  split
  · rename_i hc
    have h2 : 2 ≤ s.ts.length := peek_pos _ (by intro he; rw [he] at hc; exact absurd hc (by decide))
    have hg := ih.act op { s with ts := next (next s.ts) }
    cases hr : parseAction m fuel op { s with ts := next (next s.ts) } with
    | err => exact Good.err _ _ _
    | outOfFuel => exact hg.oof hr (by simp only [need, next_length]; omega)
    | ok a s' =>
      have hle := hg.mono _ _ hr
      simp only [next_length] at hle
      exact (ih.actL op _ s').lift (by omega) (by simp only [need]; omega)
  · split
    · rename_i hu
      have h2 : 2 ≤ s.ts.length := peek_pos _ (by intro he; rw [he] at hu; exact absurd hu (by decide))
      have hg := ih.upd { s with ts := next s.ts }
      cases hr : parseUpdateAction m fuel { s with ts := next s.ts } with
      | err => exact Good.err _ _ _
      | outOfFuel => exact hg.oof hr (by simp only [need, next_length]; omega)
      | ok e s' =>
        have hle := hg.mono _ _ hr
        simp only [next_length] at hle
        have hloop : ∀ acc', Good (actionsLoop m fuel op acc' s') s (need 3 s) (fuel + 1) := fun acc' =>
          (ih.actL op acc' s').lift (by omega) (by simp only [need]; omega)
        cases e with
        | update o acts =>
          simp only
          split
          · exact Good.err _ _ _
          · exact hloop _
        | _ => exact hloop _
    · split
      · exact Good.ok _ _ _ _ _ (by simp only [next_length]; omega)
      · exact Good.err _ _ _

theorem allGood (m : PMode) : ∀ fuel, AllGood m fuel
  | 0 => allGood_zero m
  | fuel + 1 =>
    have ih := allGood m fuel
    ⟨expr_step m fuel ih, infx_step m fuel ih, args_step m fuel ih, argsL_step m fuel ih,
     upd_step m fuel ih, act_step m fuel ih, actL_step m fuel ih⟩

/-- **the parser never loops**: the recursion of `parseExpression` and its helpers is at most
    `5·n + 3` deep on `n` tokens, so with the fuel `fuelFor n` the model never answers
    "out of fuel": every token list is parsed to an expression or rejected -/
theorem parseCond_total (ts : List Token) : parseCondTokens ts ≠ .outOfFuel := by
  unfold parseCondTokens
  split
  · intro h; cases h
  · split
    · intro h; cases h
    · have hg := (allGood .cond (fuelFor ts.length)).expr pLowest { ts := ts }
      cases hr : parseExpr .cond (fuelFor ts.length) pLowest { ts := ts } with
      | err => intro h; cases h
      | outOfFuel => exact absurd hr (hg.enough (by simp only [need, fuelFor]; omega))
      | ok e s => simp only; split <;> (intro h; cases h)

theorem parseUpdate_total (ts : List Token) : parseUpdateTokens ts ≠ .outOfFuel := by
  unfold parseUpdateTokens
  split
  · intro h; cases h
  · have hg := (allGood .upd (fuelFor ts.length)).expr pLowest { ts := ts }
    cases hr : parseExpr .upd (fuelFor ts.length) pLowest { ts := ts } with
    | err => intro h; cases h
    | outOfFuel => exact absurd hr (hg.enough (by simp only [need, fuelFor]; omega))
    | ok e s => simp only; split <;> (intro h; cases h)

/-- for every byte string: lexing and parsing end with an expression or a syntax error -/
theorem front_end_total (s : Bytes) :
    (∃ e, parseCond s = .ok e) ∨ parseCond s = .syntaxErr := by
  have := parseCond_total (Lexer.lex s)
  unfold parseCond
  cases h : parseCondTokens (Lexer.lex s) with
  | ok e => exact .inl ⟨e, rfl⟩
  | syntaxErr => exact .inr rfl
  | outOfFuel => exact absurd h this

theorem front_end_total_update (s : Bytes) :
    (∃ e, parseUpdate s = .ok e) ∨ parseUpdate s = .syntaxErr := by
  have := parseUpdate_total (Lexer.lex s)
  unfold parseUpdate
  cases h : parseUpdateTokens (Lexer.lex s) with
  | ok e => exact .inl ⟨e, rfl⟩
  | syntaxErr => exact .inr rfl
  | outOfFuel => exact absurd h this

/-! ### alias expansion: the recursion ends by itself, whatever the alias table -/

/-- alias names not yet being expanded (with multiplicity) -/
def pending : List Bytes → List Bytes → Nat
  | [], _ => 0
  | k :: ks, ex => (if ex.contains k then 0 else 1) + pending ks ex

theorem contains_cons_of (n k : Bytes) (ex : List Bytes) (h : ex.contains k = true) : (n :: ex).contains k = true := by
  simp only [List.contains_cons, h, Bool.or_true]

theorem pending_cons_le (keys ex : List Bytes) (n : Bytes) : pending keys (n :: ex) ≤ pending keys ex := by
  induction keys with
  | nil => simp [pending]
  | cons k ks ih =>
    simp only [pending]
    cases h1 : ex.contains k with
    | true => rw [contains_cons_of n k ex h1]; simpa using ih
    | false => cases h2 : (n :: ex).contains k <;> simp <;> omega

theorem pending_cons_lt (keys ex : List Bytes) (n : Bytes) (hmem : n ∈ keys) (hn : ex.contains n = false) :
    pending keys (n :: ex) < pending keys ex := by
  induction keys with
  | nil => cases hmem
  | cons k ks ih =>
    have hle := pending_cons_le ks ex n
    simp only [pending]
    by_cases hk : k = n
    · subst hk
      have : (k :: ex).contains k = true := by simp
      rw [this, hn]; simp; omega
    · have hmem' : n ∈ ks := by
        rcases List.mem_cons.1 hmem with h | h
        · exact absurd h.symm hk
        · exact h
      have := ih hmem'
      cases h1 : ex.contains k with
      | true => rw [contains_cons_of n k ex h1]; simpa using this
      | false => cases h2 : (n :: ex).contains k <;> simp <;> omega

theorem flatMap_congr' {α β} (l : List α) (f g : α → List β) (h : ∀ x ∈ l, f x = g x) : l.flatMap f = l.flatMap g := by
  induction l with
  | nil => rfl
  | cons a t ih => simp only [List.flatMap_cons]; rw [h a (by simp), ih (fun x hx => h x (by simp [hx]))]

/-- with at least as much fuel as there are aliases not yet being expanded, the result does
    not depend on the fuel: every chain of aliases was followed to its end or to a name that is
    already being expanded (a cycle) -/
theorem expandName_fuel_irrelevant (e : Env) : ∀ (f1 f2 : Nat) (name : Bytes) (ex : List Bytes),
    pending (keysOf e.aliases) ex ≤ f1 → pending (keysOf e.aliases) ex ≤ f2 →
    e.expandName f1 name ex = e.expandName f2 name ex := by
  -- when nothing is pending, one more level of expansion adds nothing
  have hnil : ∀ (f : Nat) (name : Bytes) (ex : List Bytes), pending (keysOf e.aliases) ex = 0 →
      e.expandName (f + 1) name ex = Env.splitDots name := by
    intro f name ex h0
    simp only [Env.expandName]
    refine Eq.trans ?_ (List.append_nil _)
    congr 1
    rw [List.flatMap_eq_nil_iff]
    intro n _
    cases ha : alookup n e.aliases with
    | none => rfl
    | some a =>
      simp only
      cases hc : ex.contains n with
      | true => rfl
      | false =>
        have hmem : n ∈ keysOf e.aliases := (ahas_iff_mem_keys n e.aliases).1 (by simp [ahas, ha])
        have := pending_cons_lt _ ex n hmem hc
        omega
  intro f1
  induction f1 with
  | zero =>
    intro f2 name ex h1 _
    have h0 : pending (keysOf e.aliases) ex = 0 := by omega
    cases f2 with
    | zero => rfl
    | succ f2 => rw [hnil f2 name ex h0]; rfl
  | succ f1 ih =>
    intro f2 name ex h1 h2
    cases f2 with
    | zero =>
      have h0 : pending (keysOf e.aliases) ex = 0 := by omega
      rw [hnil f1 name ex h0]; rfl
    | succ f2 =>
      simp only [Env.expandName]
      congr 1
      apply flatMap_congr'
      intro n _
      cases ha : alookup n e.aliases with
      | none => rfl
      | some a =>
        simp only
        cases hc : ex.contains n with
        | true => rfl
        | false =>
          have hmem : n ∈ keysOf e.aliases := (ahas_iff_mem_keys n e.aliases).1 (by simp [ahas, ha])
          have := pending_cons_lt _ ex n hmem hc
          simp only [Bool.false_eq_true, if_false]
          exact ih f2 a (n :: ex) (by omega) (by omega)

theorem pending_nil (keys : List Bytes) : pending keys [] = keys.length := by
  induction keys with
  | nil => rfl
  | cons k ks ih => simp [pending, ih]; omega

/-- the fuel `Env.get` hands to the expansion is enough for every alias table, cyclic or not -/
theorem get_expansion_total (e : Env) (name : Bytes) (more : Nat) :
    e.expandName (e.aliases.length + 1) name [] = e.expandName (e.aliases.length + 1 + more) name [] := by
  apply expandName_fuel_irrelevant <;> simp [pending_nil, keysOf] <;> omega

end Minidyn.Props.C09
