import Minidyn.Props.Refine
import Minidyn.Props.C19
namespace Minidyn.Props.Refine
open Minidyn Minidyn.Client Minidyn.Table Minidyn.Props.C01

/-- the abstract effect of one write request of a batch, in the state it is applied in -/
def specReq (c : Client) (a : Bytes → Bytes → Option Item) (tb : Bytes) : WriteReq → (Bytes → Bytes → Option Item)
  | .put item | .both item _ =>
    match alookup tb c.tables with
    | some t => match Key.getKey t.schema t.attrs item with
      | .ok key => specSet a tb key (some item)
      | .error _ => a
    | none => a
  | .del keyAttrs =>
    match alookup tb c.tables with
    | some t => match Key.getKey t.schema t.attrs keyAttrs with
      | .ok key => specSet a tb key none
      | .error _ => a
    | none => a
  | .neither => a

def specAll (c : Client) (a : Bytes → Bytes → Option Item) : List (Bytes × WriteReq) → (Bytes → Bytes → Option Item)
  | [] => a
  | (tb, r) :: rest => specAll (applyWrite c tb r).1 (specReq c a tb r) rest

theorem succeeded_isSuccess {o : Out} (h : C19.succeeded o = true) : IsSuccess o := by
  cases o <;> simp [C19.succeeded] at h <;> trivial

/-- PutItem never answers with an item -/
theorem put_not_item (c c' : Client) (tb : Bytes) (item : Item) (it : Option Item) :
    putItem c tb item none {} ≠ (c', .item it) := by
  intro hp
  unfold putItem at hp
  cases hf : c.failure with
  | some f => rw [hf] at hp; cases f <;> simp [failureErr] at hp
  | none =>
    rw [hf] at hp
    simp only at hp
    by_cases hv : (!validateExprAttrs {} [(none : Option Bytes).getD []]) = true
    · simp only [hv, if_true, Prod.mk.injEq] at hp; cases hp.2
    · simp only [hv, Bool.false_eq_true, if_false, withTable] at hp
      cases ht : alookup tb c.tables with
      | none => simp [ht] at hp
      | some t =>
        simp only [ht] at hp
        cases hpp : t.put (matcher c tb {}) item none with
        | error e => simp only [hpp] at hp; cases e <;> simp [writeErrOut] at hp <;> (try split at hp) <;> simp at hp
        | ok t' => simp [hpp] at hp

theorem applyWrite_refines (c : Client) (tb : Bytes) (r : WriteReq) (hinv : Reach.ClientInv c)
    (hs : C19.succeeded (applyWrite c tb r).2 = true) :
    absC (applyWrite c tb r).1 = specReq c (absC c) tb r := by
  cases r with
  | put item =>
    simp only [applyWrite] at hs ⊢
    cases hp : putItem c tb item none {} with
    | mk c' o =>
      rw [hp] at hs
      have ho : o = .ok := by
        cases o <;> simp [C19.succeeded] at hs
        · rfl
        · exact absurd hp (put_not_item c c' tb item _)
      subst ho
      obtain ⟨t, key, ht, hk, hspec⟩ := put_refines c c' tb item none {} hinv hp
      simp only [specReq, ht, hk]
      funext a b; exact hspec a b
  | both item k =>
    simp only [applyWrite] at hs ⊢
    cases hp : putItem c tb item none {} with
    | mk c' o =>
      rw [hp] at hs
      have ho : o = .ok := by
        cases o <;> simp [C19.succeeded] at hs
        · rfl
        · exact absurd hp (put_not_item c c' tb item _)
      subst ho
      obtain ⟨t, key, ht, hk, hspec⟩ := put_refines c c' tb item none {} hinv hp
      simp only [specReq, ht, hk]
      funext a b; exact hspec a b
  | del keyAttrs =>
    simp only [applyWrite] at hs ⊢
    cases hp : deleteItem c tb keyAttrs none {} false with
    | mk c' o =>
      rw [hp] at hs
      obtain ⟨t, key, ht, hk, hspec, _⟩ := delete_refines c c' tb keyAttrs none {} false o hinv hp (succeeded_isSuccess hs)
      simp only [specReq, ht, hk]
      funext a b; exact hspec a b
  | neither => rfl

/-- **a batch of writes that all go through refines the abstract store request by request, in order** -/
theorem applyAll_refines : ∀ (flat : List (Bytes × WriteReq)) (c : Client), Reach.ClientInv c → C19.allSucceed c flat = true →
    absC (C19.applyAll c flat) = specAll c (absC c) flat
  | [], _, _, _ => rfl
  | (tb, r) :: rest, c, hinv, h => by
    simp only [C19.allSucceed, Bool.and_eq_true] at h
    simp only [C19.applyAll, specAll]
    rw [applyAll_refines rest (applyWrite c tb r).1 (Reach.inv_applyWrite c tb r hinv) h.2, applyWrite_refines c tb r hinv h.1]

/-- **BatchWriteItem refines the abstract store**: a batch that respects the batch rules and none of whose requests fails
    changes the abstract store exactly as its requests do one after the other, in request order -/
theorem batchWrite_refines (c : Client) (reqs : List (Bytes × List WriteReq)) (hinv : Reach.ClientInv c)
    (hvalid : (reqs.flatMap fun (_, rs) => rs).any isBadReq = false) (hlimit : (reqs.flatMap fun (_, rs) => rs).length ≤ 25)
    (hall : C19.allSucceed c (reqs.flatMap fun (t, rs) => rs.map fun r => (t, r)) = true) :
    absC (batchWrite c reqs).1 = specAll c (absC c) (reqs.flatMap fun (t, rs) => rs.map fun r => (t, r)) := by
  have h := C19.batchWrite_eq_fold c reqs hvalid hlimit hall
  rw [h]
  exact applyAll_refines _ c hinv hall

end Minidyn.Props.Refine
