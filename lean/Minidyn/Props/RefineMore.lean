import Minidyn.Props.Refine
import Minidyn.Props.C06Sets
namespace Minidyn.Props.Refine
open Minidyn Minidyn.Client Minidyn.Table Minidyn.Props.C01

/-- the stored forms of two sets are equal exactly when the sets have the same elements -/
theorem canonSet_eq_iff (xs ys : List Bytes) : C06Sets.canonSet xs = C06Sets.canonSet ys ↔ ∀ z, z ∈ xs ↔ z ∈ ys := by
  constructor
  · intro h z
    rw [← C06Sets.mem_canonSet xs z, ← C06Sets.mem_canonSet ys z, h]
  · exact C06Sets.canonSet_congr xs ys

/-- after a successful DeleteItem the key reads as absent -/
theorem delete_then_absent (c c' : Client) (tb : Bytes) (keyAttrs : Item) (cond : Option Bytes) (ex : Exprs) (ro : Bool) (o : Out)
    (hinv : Reach.ClientInv c) (h : deleteItem c tb keyAttrs cond ex ro = (c', o)) (hs : IsSuccess o) :
    ∃ key, absC c' tb key = none ∧ ∀ k, k ≠ key → absC c' tb k = absC c tb k := by
  obtain ⟨t, key, _, _, hspec, _⟩ := delete_refines c c' tb keyAttrs cond ex ro o hinv h hs
  refine ⟨key, ?_, ?_⟩
  · rw [hspec]; exact absC_specSet_self _ _ _ _
  · intro k hk; rw [hspec]; simp [specSet, hk]

/-- after a successful UpdateItem the key holds the returned item, every other key what it held -/
theorem update_then_stored (c c' : Client) (tb : Bytes) (keyAttrs : Item) (expr : Bytes) (cond : Option Bytes) (ex : Exprs) (rf : Bool) (o : Out)
    (hinv : Reach.ClientInv c) (h : updateItem c tb keyAttrs expr cond ex rf = (c', o)) (hs : IsSuccess o) :
    ∃ key res, o = .item (some (outItem c.sdk res)) ∧ absC c' tb key = some res ∧ ∀ k, k ≠ key → absC c' tb k = absC c tb k := by
  obtain ⟨t, key, res, _, _, _, hspec, ho⟩ := update_refines c c' tb keyAttrs expr cond ex rf o hinv h hs
  refine ⟨key, res, ho, ?_, ?_⟩
  · rw [hspec]; exact absC_specSet_self _ _ _ _
  · intro k hk; rw [hspec]; simp [specSet, hk]

/-- a write to one table never changes what another table holds -/
theorem write_other_table (a : Bytes → Bytes → Option Item) (tb tb' k k' : Bytes) (v : Option Item) (h : tb' ≠ tb) :
    specSet a tb k v tb' k' = a tb' k' := by simp [specSet, h]

end Minidyn.Props.Refine
