/-
  C14 — stored data is isolated from caller-owned memory.

  What the transfer classification of `Tie/Sharing` buys, proved once for value trees of any shape.
  Memory is a map from locations to scalar contents; a value is a tree whose nodes carry the locations
  of the mutable cells they are made of (the `*string`, `*bool`, `[]byte` backing arrays, slice and map
  headers of an attribute value).  A mapper whose every field store is `fresh` (a helper that allocates and
  copies) or `recursive` (the mapper applied to the children) is `deepCopy`: it allocates a new cell for
  every node.  Then
    * the copy has the same shape and contents (`deepCopy_same`),
    * every location of the copy is new (`deepCopy_fresh`), so the copy shares no cell with any tree that
      existed before (`deepCopy_disjoint`),
    * hence writing through any location of the original — or of any older tree — leaves the contents
      of the copy unchanged (`write_isolated`), in both directions (input→stored on a write, stored→result on
      a read), which is the property.
  A single `share` store breaks `deepCopy_fresh` for that node (`share_leaks`), which is why `noSharing`
  demands that there is none.  That the Go mappers *are* such a traversal is the tie: field by field by
  `noSharing_generated_v1/v2`, helper by helper by `copy_helpers_reviewed`, behaviourally by the poke family.
-/
namespace Minidyn.Props.C14

inductive V where
  | node (loc : Nat) (kids : List V)

mutual
  def V.locs : V → List Nat
    | .node l ks => l :: V.locsList ks
  def V.locsList : List V → List Nat
    | [] => []
    | k :: ks => V.locs k ++ V.locsList ks
end

abbrev Mem := Nat → Nat

mutual
  /-- the contents of a tree: what a reader sees -/
  def V.read (m : Mem) : V → List Nat
    | .node l ks => m l :: V.readList m ks
  def V.readList (m : Mem) : List V → List Nat
    | [] => []
    | k :: ks => V.read m k ++ V.readList m ks
end

def write (m : Mem) (l x : Nat) : Mem := fun j => if j = l then x else m j

structure Out (α : Type) where
  val : α
  mem : Mem
  next : Nat

mutual
  /-- a traversal that allocates a new cell (from `next` upwards) for every node and copies its content -/
  def deepCopy (m : Mem) (next : Nat) : V → Out V
    | .node l ks =>
      let r := deepCopyList (write m next (m l)) (next + 1) ks
      ⟨.node next r.val, r.mem, r.next⟩
  def deepCopyList (m : Mem) (next : Nat) : List V → Out (List V)
    | [] => ⟨[], m, next⟩
    | k :: ks =>
      let r1 := deepCopy m next k
      let r2 := deepCopyList r1.mem r1.next ks
      ⟨r1.val :: r2.val, r2.mem, r2.next⟩
end

/-! reading a tree only looks at its own cells -/
mutual
  theorem read_keeps (m m' : Mem) : (v : V) → (∀ l ∈ v.locs, m' l = m l) → v.read m' = v.read m
    | .node l ks, h => by
      simp only [V.read]
      rw [h l (by simp [V.locs]), readList_keeps m m' ks (fun x hx => h x (by simp [V.locs, hx]))]
  theorem readList_keeps (m m' : Mem) : (ks : List V) → (∀ l ∈ V.locsList ks, m' l = m l) → V.readList m' ks = V.readList m ks
    | [], _ => rfl
    | k :: ks, h => by
      simp only [V.readList]
      rw [read_keeps m m' k (fun x hx => h x (by simp [V.locsList, hx])),
          readList_keeps m m' ks (fun x hx => h x (by simp [V.locsList, hx]))]
end

/-- **writing a cell that a tree does not contain does not change what the tree reads** -/
theorem write_isolated (m : Mem) (v : V) (l x : Nat) (h : l ∉ v.locs) : v.read (write m l x) = v.read m :=
  read_keeps m (write m l x) v (fun j hj => by
    simp only [write]; split
    · rename_i e; subst e; exact absurd hj h
    · rfl)

/-- what is shown of a copy made with allocator position `next`:
    new locations only, the allocator only grows, old memory untouched, same contents -/
structure CopyOk (m : Mem) (next : Nat) (locsIn readIn locsOut readOut : List Nat) (m' : Mem) (next' : Nat) : Prop where
  grows : next ≤ next'
  fresh : ∀ l ∈ locsOut, next ≤ l ∧ l < next'
  keeps : ∀ l, l < next → m' l = m l
  same : (∀ l ∈ locsIn, l < next) → readOut = readIn

mutual
  theorem deepCopy_ok (m : Mem) (next : Nat) : (v : V) →
      CopyOk m next v.locs (v.read m) (deepCopy m next v).val.locs ((deepCopy m next v).val.read (deepCopy m next v).mem)
        (deepCopy m next v).mem (deepCopy m next v).next
    | .node l ks => by
      have ih := deepCopyList_ok (write m next (m l)) (next + 1) ks
      simp only [deepCopy, V.locs, V.read]
      generalize deepCopyList (write m next (m l)) (next + 1) ks = r at ih
      refine ⟨by have := ih.grows; omega, ?_, ?_, ?_⟩
      · intro x hx
        rcases List.mem_cons.1 hx with rfl | hx
        · have := ih.grows; omega
        · have := ih.fresh x hx; omega
      · intro x hx
        rw [ih.keeps x (by omega)]
        simp only [write]; split
        · omega
        · rfl
      · intro hin
        have hl : l < next := hin l (by simp)
        have hkids : ∀ x ∈ V.locsList ks, x < next + 1 := fun x hx => by have := hin x (by simp [hx]); omega
        rw [ih.same hkids]
        congr 1
        · rw [ih.keeps next (by omega)]; simp [write]
        · -- the children are read in the memory before the copy; the one new cell is none of theirs
          exact readList_keeps m (write m next (m l)) ks (fun x hx => by
            have := hin x (by simp [hx])
            simp only [write]; split
            · omega
            · rfl)
  theorem deepCopyList_ok (m : Mem) (next : Nat) : (ks : List V) →
      CopyOk m next (V.locsList ks) (V.readList m ks) (V.locsList (deepCopyList m next ks).val)
        (V.readList (deepCopyList m next ks).mem (deepCopyList m next ks).val) (deepCopyList m next ks).mem (deepCopyList m next ks).next
    | [] => ⟨Nat.le_refl _, by simp [deepCopyList, V.locsList], fun _ _ => rfl, fun _ => rfl⟩
    | k :: ks => by
      have h1 := deepCopy_ok m next k
      have h2 := deepCopyList_ok (deepCopy m next k).mem (deepCopy m next k).next ks
      simp only [deepCopyList, V.locsList, V.readList]
      generalize deepCopy m next k = r1 at h1 h2
      generalize deepCopyList r1.mem r1.next ks = r2 at h2
      refine ⟨Nat.le_trans h1.grows h2.grows, ?_, ?_, ?_⟩
      · intro x hx
        rcases List.mem_append.1 hx with hx | hx
        · have := h1.fresh x hx; have := h2.grows; omega
        · have := h2.fresh x hx; have := h1.grows; omega
      · intro x hx
        rw [h2.keeps x (by have := h1.grows; omega), h1.keeps x hx]
      · intro hin
        have hk : ∀ x ∈ k.locs, x < next := fun x hx => hin x (by simp [hx])
        have hks : ∀ x ∈ V.locsList ks, x < r1.next := fun x hx => by
          have := hin x (by simp [hx]); have := h1.grows; omega
        rw [h2.same hks]
        congr 1
        · -- the copy of the first child is not disturbed by the copies of the others
          rw [← h1.same hk]
          exact read_keeps _ _ _ (fun x hx => h2.keeps x (by have := h1.fresh x hx; omega))
        · exact readList_keeps _ _ _ (fun x hx => h1.keeps x (hin x (by simp [hx])))
end

/-- the copy reads the same -/
theorem deepCopy_same (m : Mem) (next : Nat) (v : V) (h : ∀ l ∈ v.locs, l < next) :
    (deepCopy m next v).val.read (deepCopy m next v).mem = v.read m := (deepCopy_ok m next v).same h

/-- every cell of the copy is new -/
theorem deepCopy_fresh (m : Mem) (next : Nat) (v : V) : ∀ l ∈ (deepCopy m next v).val.locs, next ≤ l :=
  fun l hl => ((deepCopy_ok m next v).fresh l hl).1

/-- the copy shares no cell with any tree that existed before the allocator position -/
theorem deepCopy_disjoint (m : Mem) (next : Nat) (v old : V) (h : ∀ l ∈ old.locs, l < next) :
    ∀ l ∈ (deepCopy m next v).val.locs, l ∉ old.locs := by
  intro l hl hold
  have := deepCopy_fresh m next v l hl
  have := h l hold
  omega

/-- **C14**: after the copy, writing through ANY cell of the original (or of any older tree) leaves the
    contents of the copy unchanged — the stored item does not see the caller's later writes, and a result
    handed to the caller does not reach into the store -/
theorem copy_isolated (m : Mem) (next : Nat) (v old : V) (hv : ∀ l ∈ v.locs, l < next) (hold : ∀ l ∈ old.locs, l < next)
    (l x : Nat) (hl : l ∈ old.locs) :
    (deepCopy m next v).val.read (write (deepCopy m next v).mem l x) = v.read m := by
  rw [write_isolated _ _ l x (fun hin => deepCopy_disjoint m next v old hold l hin hl)]
  exact deepCopy_same m next v hv

/-- a node that is shared instead of copied is reached by the caller's write: the read changes -/
theorem share_leaks (m : Mem) (l x : Nat) (hx : x ≠ m l) : (V.node l []).read (write m l x) ≠ (V.node l []).read m := by
  simp [V.read, V.readList, write, hx]

/-- non-vacuity: a two-level tree, copied at allocator position 10, survives a write to its original root -/
example : let v := V.node 3 [V.node 4 [], V.node 5 []]
    let m : Mem := fun j => j * 7
    (deepCopy m 10 v).val.read (write (deepCopy m 10 v).mem 3 999) = [21, 28, 35] := by decide

end Minidyn.Props.C14
