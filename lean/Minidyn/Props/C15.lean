/-
  Minidyn.Props.C15 — emulated failures fail every data call, change nothing, are reversible.

  With a failure condition active every data operation of `Model.Client` returns the configured
  error and the client state is literally unchanged (`failing_*`); hence any sequence of data
  operations issued while it is active leaves the state as it was (`failing_run_unchanged`), and
  clearing the condition gives back exactly the earlier client (`reversible`).  A batch write
  under the internal-server failure reports every request as unprocessed and applies none
  (`batch_write_unprocessed`) — the same definition serves both SDK flavours.
-/
import Minidyn.Model.Client
namespace Minidyn.Props.C15
open Minidyn Minidyn.Client

variable {c : Client} {f : Failure}

theorem failing_put (h : c.failure = some f) (t item cond ex) : putItem c t item cond ex = (c, failureErr f) := by
  simp [putItem, h]

theorem failing_update (h : c.failure = some f) (t key expr cond ex rf) :
    updateItem c t key expr cond ex rf = (c, failureErr f) := by simp [updateItem, h]

theorem failing_delete (h : c.failure = some f) (t key cond ex ro) : deleteItem c t key cond ex ro = (c, failureErr f) := by
  simp [deleteItem, h]

theorem failing_get (h : c.failure = some f) (t key) : getItem c t key = (c, failureErr f) := by simp [getItem, h]

theorem failing_query (h : c.failure = some f) (t q ex) : query c t q ex = (c, failureErr f) := by
  simp [query, searchOnce, h]

theorem failing_transact (h : c.failure = some f) : step c .transactWrite = (c, failureErr f) := by simp [step, h]

theorem failing_batchGet (h : c.failure = some f) (hs : c.sdk = .v2) (reqs) : batchGet c reqs = (c, failureErr f) := by
  have : (c.sdk == Sdk.v1) = false := by rw [hs]; rfl
  simp [batchGet, h, this]

theorem failing_applyWrite (h : c.failure = some f) (t : Bytes) (r : WriteReq) (hr : r ≠ .neither) :
    applyWrite c t r = (c, failureErr f) := by
  cases r <;> simp_all [applyWrite, failing_put, failing_delete]

/-- the fold of `batchWrite` while the failure is active never changes the client -/
theorem batchWrite_go_state (h : c.failure = some f) :
    ∀ (flat : List (Bytes × WriteReq)) (unp : List (Bytes × List WriteReq)), (batchWrite.go c unp flat).1 = c := by
  intro flat
  induction flat with
  | nil => intro unp; rfl
  | cons p rest ih =>
    intro unp
    obtain ⟨t, r⟩ := p
    cases r with
    | neither => simp [batchWrite.go, applyWrite]; exact ih unp
    | put item => cases f <;> simp [batchWrite.go, applyWrite, failing_put h, failureErr, ih]
    | del key => cases f <;> simp [batchWrite.go, applyWrite, failing_delete h, failureErr, ih]
    | both item key => cases f <;> simp [batchWrite.go, applyWrite, failing_put h, failureErr, ih]

theorem failing_batchWrite_state (h : c.failure = some f) (reqs) : (batchWrite c reqs).1 = c := by
  unfold batchWrite
  simp only
  split
  · rfl
  · exact batchWrite_go_state h _ _

/-- under the internal-server failure the batch returns all of its requests as unprocessed -/
theorem batchWrite_go_unprocessed (h : c.failure = some .internalServer) :
    ∀ (flat : List (Bytes × WriteReq)) (unp : List (Bytes × List WriteReq)),
      (∀ p ∈ flat, p.2 ≠ .neither) →
      ∃ unp', batchWrite.go c unp flat = (c, .batchWrite unp') ∧
        (unp'.map (·.2.length)).sum = (unp.map (·.2.length)).sum + flat.length := by
  intro flat
  induction flat with
  | nil => intro unp _; exact ⟨unp, rfl, by simp⟩
  | cons p rest ih =>
    intro unp hall
    obtain ⟨t, r⟩ := p
    have hr : r ≠ .neither := hall (t, r) (List.mem_cons_self ..)
    have hstep : applyWrite c t r = (c, .err .internalServer none) := by
      rw [failing_applyWrite h t r hr]; rfl
    simp only [batchWrite.go, hstep]
    obtain ⟨unp', h1, h2⟩ := ih (ainsert t ((alookup t unp).getD [] ++ [r]) unp) (fun p hp => hall p (List.mem_cons_of_mem _ hp))
    refine ⟨unp', h1, ?_⟩
    rw [h2]
    have : ((ainsert t ((alookup t unp).getD [] ++ [r]) unp).map (·.2.length)).sum = (unp.map (·.2.length)).sum + 1 := by
      clear h1 h2 ih hstep hall
      induction unp with
      | nil => simp [ainsert, alookup]
      | cons q qs ihq =>
        obtain ⟨k0, v0⟩ := q
        by_cases h0 : (k0 == t) = true
        · simp [ainsert, alookup, h0]; omega
        · simp only [ainsert, alookup, h0, Bool.false_eq_true, if_false, List.map_cons, List.sum_cons]
          rw [ihq]; omega
    rw [this]; simp; omega

inductive IsDataOp : Op → Prop
  | put (t i c e) : IsDataOp (.put t i c e)
  | update (t k x c e r) : IsDataOp (.update t k x c e r)
  | delete (t k c e r) : IsDataOp (.delete t k c e r)
  | get (t k) : IsDataOp (.get t k)
  | query (t q e) : IsDataOp (.query t q e)
  | batchWrite (r) : IsDataOp (.batchWrite r)
  | transact : IsDataOp .transactWrite

theorem failing_step_unchanged (h : c.failure = some f) {op : Op} (hd : IsDataOp op) : (step c op).1 = c := by
  cases hd with
  | put => simp [step, failing_put h]
  | update => simp [step, failing_update h]
  | delete => simp [step, failing_delete h]
  | get => simp [step, failing_get h]
  | query => simp [step, failing_query h]
  | batchWrite r => simp [step, failing_batchWrite_state h]
  | transact => simp [failing_transact h]

/-- any sequence of data operations while a failure is active leaves the client as it was -/
theorem failing_run_unchanged (h : c.failure = some f) : ∀ ops : List Op, (∀ op ∈ ops, IsDataOp op) → (run c ops).1 = c := by
  intro ops
  induction ops with
  | nil => intro _; rfl
  | cons op rest ih =>
    intro hall
    have h1 := failing_step_unchanged h (hall op (List.mem_cons_self ..))
    have h2 := ih (fun o ho => hall o (List.mem_cons_of_mem _ ho))
    simp only [run, h1, h2]

/-- activating a failure, issuing data operations and deactivating it gives back the client -/
theorem reversible (c0 : Client) (f : Failure) (ops : List Op) (hall : ∀ op ∈ ops, IsDataOp op) (h0 : c0.failure = none) :
    (step (run (step c0 (.setFailure (some f))).1 ops).1 (.setFailure none)).1 = c0 := by
  have hact : (step c0 (.setFailure (some f))).1 = { c0 with failure := some f } := rfl
  rw [hact, failing_run_unchanged (c := { c0 with failure := some f }) (f := f) rfl ops hall]
  simp [step]
  cases c0; simp_all

end Minidyn.Props.C15
