/-
  Minidyn.Props.C18 — table lifecycle and metadata stay coherent.

  On the client model: creating an existing table answers ResourceInUse and changes nothing;
  describing, deleting, clearing, updating or using a table that does not exist answers
  ResourceNotFound; a table that was just created is empty; DescribeTable reports the number of
  stored keys; clearing empties the table and every index; deleting removes the table; an
  operation on one table leaves every other table exactly as it was (`*_frame`).  Clients are
  values: two clients share nothing by construction, and `Tie.Sharing.no_singleton_leak`
  (regenerated from the evaluator's source) shows that no pointer into a package-level object
  of the evaluator is handed out any more.
-/
import Minidyn.Model.Client
import Minidyn.Lemmas.Assoc
namespace Minidyn.Props.C18
open Minidyn Minidyn.Client

theorem create_existing_fails (c : Client) (r : CreateTable) (h : ahas r.table c.tables = true) :
    createTable c r = (c, .err .resourceInUse none) := by
  simp [createTable, h]

theorem missing_table_describe (c : Client) (n : Bytes) (h : alookup n c.tables = none) :
    step c (.describeTable n) = (c, .err .resourceNotFound none) := by simp [step, withTable, h]

theorem missing_table_delete (c : Client) (n : Bytes) (h : alookup n c.tables = none) :
    step c (.deleteTable n) = (c, .err .resourceNotFound none) := by simp [step, h]

theorem missing_table_clear (c : Client) (n : Bytes) (h : alookup n c.tables = none) :
    step c (.clearTable n) = (c, .err .resourceNotFound none) := by simp [step, withTable, h]

theorem missing_table_update (c : Client) (n : Bytes) (chs) (h : alookup n c.tables = none) :
    step c (.updateTable n chs) = (c, .err .resourceNotFound none) := by simp [step, updateTable, h]

theorem missing_table_put (c : Client) (n : Bytes) (item cond ex) (hf : c.failure = none)
    (hv : validateExprAttrs ex [cond.getD []] = true) (h : alookup n c.tables = none) :
    putItem c n item cond ex = (c, .err .resourceNotFound none) := by simp [putItem, hf, hv, withTable, h]

theorem missing_table_get (c : Client) (n : Bytes) (key) (hf : c.failure = none) (h : alookup n c.tables = none) :
    getItem c n key = (c, .err .resourceNotFound none) := by simp [getItem, hf, withTable, h]

theorem missing_table_query (c : Client) (n : Bytes) (q ex) (hf : c.failure = none)
    (hv : validateExprAttrs ex (if q.scan then [[], q.filter] else [q.keyCond, q.filter, []]) = true)
    (h : alookup n c.tables = none) : query c n q ex = (c, .err .resourceNotFound none) := by
  simp [query, searchOnce, hf, hv, h]

/-- DescribeTable reports the number of stored keys -/
theorem describe_count (t : Table) : (describe t).count = t.sortedKeys.length := rfl

/-! ### a created table starts empty with the declared schema -/

theorem addGlobalIndex_keeps {t t' : Table} {ppr : Bool} {d : IndexDef} (h : addGlobalIndex t ppr d = some t') :
    t'.sortedKeys = t.sortedKeys ∧ t'.data = t.data ∧ t'.schema = t.schema := by
  unfold addGlobalIndex at h
  simp only at h
  repeat (split at h; · simp at h)
  simp only [Option.some.injEq] at h
  subst h; exact ⟨rfl, rfl, rfl⟩

theorem addLocalIndex_keeps {t t' : Table} {d : IndexDef} (h : addLocalIndex t d = some t') :
    t'.sortedKeys = t.sortedKeys ∧ t'.data = t.data ∧ t'.schema = t.schema := by
  unfold addLocalIndex at h
  simp only at h
  repeat (split at h; · simp at h)
  simp only [Option.some.injEq] at h
  subst h; exact ⟨rfl, rfl, rfl⟩

theorem addIndexes_keeps {f : Table → IndexDef → Option Table}
    (hf : ∀ t t' d, f t d = some t' → t'.sortedKeys = t.sortedKeys ∧ t'.data = t.data ∧ t'.schema = t.schema) :
    ∀ (ds : List IndexDef) (t t' : Table), addIndexes f ds t = some t' →
      t'.sortedKeys = t.sortedKeys ∧ t'.data = t.data ∧ t'.schema = t.schema := by
  intro ds
  induction ds with
  | nil => intro t t' h; simp [addIndexes] at h; subst h; exact ⟨rfl, rfl, rfl⟩
  | cons d ds ih =>
    intro t t' h
    simp only [addIndexes] at h
    cases hfd : f t d with
    | none => simp [hfd] at h
    | some t1 =>
      simp only [hfd] at h
      have h1 := hf t t1 d hfd
      have h2 := ih t1 t' h
      exact ⟨h2.1.trans h1.1, h2.2.1.trans h1.2.1, h2.2.2.trans h1.2.2⟩

theorem buildTable_empty {r : CreateTable} {t : Table} (h : buildTable r = some t) :
    t.sortedKeys = [] ∧ t.data = [] ∧ t.schema = schemaOf r.key false := by
  unfold buildTable at h
  simp only at h
  split at h
  · simp at h
  · split at h
    · simp at h
    · unfold addAllIndexes at h
      cases hg : addIndexes (fun t d => addGlobalIndex t r.payPerRequest d) (r.gsi.getD []) (baseTable r) with
      | none => simp [hg] at h
      | some t1 =>
        simp only [hg] at h
        have h1 := addIndexes_keeps (fun _ _ _ => addGlobalIndex_keeps) _ _ _ hg
        have h2 := addIndexes_keeps (fun _ _ _ => addLocalIndex_keeps) _ _ _ h
        exact ⟨h2.1.trans h1.1, h2.2.1.trans h1.2.1, h2.2.2.trans h1.2.2⟩

/-- a successful CreateTable registers a table without items, under the declared key schema -/
theorem created_is_empty (c c' : Client) (r : CreateTable) (d : TableDesc) (h : createTable c r = (c', .describe d)) :
    d.count = 0 ∧ d.schema = describeSchema (schemaOf r.key false) ∧
    ∃ t, alookup r.table c'.tables = some t ∧ t.sortedKeys = [] ∧ t.data = [] := by
  unfold createTable at h
  split at h
  · simp at h
  · cases hb : buildTable r with
    | none => simp [hb] at h
    | some t =>
      simp only [hb, Prod.mk.injEq, Out.describe.injEq] at h
      obtain ⟨hc, hd⟩ := h
      have he := buildTable_empty hb
      subst hc hd
      refine ⟨by simp [describe, he.1], by simp [describe, he.2.2], t, alookup_ainsert_self _ _ _, he.1, he.2.1⟩

/-! ### frame: other tables are not touched -/

theorem setTable_other (c : Client) (a b : Bytes) (t : Table) (h : b ≠ a) :
    alookup b (setTable c a t).tables = alookup b c.tables := alookup_ainsert_ne t c.tables h

theorem put_frame (c : Client) (a b : Bytes) (item cond ex) (h : b ≠ a) :
    alookup b (putItem c a item cond ex).1.tables = alookup b c.tables := by
  unfold putItem
  cases c.failure with
  | some f => rfl
  | none =>
    simp only
    split
    · rfl
    · unfold withTable
      cases alookup a c.tables with
      | none => rfl
      | some tb =>
        simp only
        cases tb.put (matcher c a ex) item cond with
        | ok t' => exact setTable_other c a b t' h
        | error e => rfl

theorem update_frame (c : Client) (a b : Bytes) (key expr cond ex rf) (h : b ≠ a) :
    alookup b (updateItem c a key expr cond ex rf).1.tables = alookup b c.tables := by
  unfold updateItem
  cases c.failure with
  | some f => rfl
  | none =>
    simp only
    split
    · rfl
    · unfold withTable
      cases alookup a c.tables with
      | none => rfl
      | some tb =>
        simp only
        cases tb.update (matcher c a ex) (updater c a expr ex) key cond with
        | ok r => exact setTable_other c a b r.1 h
        | error e => rfl

theorem delete_frame (c : Client) (a b : Bytes) (key cond ex ro) (h : b ≠ a) :
    alookup b (deleteItem c a key cond ex ro).1.tables = alookup b c.tables := by
  unfold deleteItem
  cases c.failure with
  | some f => rfl
  | none =>
    simp only
    split
    · rfl
    · unfold withTable
      cases alookup a c.tables with
      | none => rfl
      | some tb =>
        simp only
        cases tb.delete (matcher c a ex) key cond with
        | ok r => exact setTable_other c a b r.1 h
        | error e => rfl

theorem clear_frame (c : Client) (a b : Bytes) (h : b ≠ a) :
    alookup b (step c (.clearTable a)).1.tables = alookup b c.tables := by
  simp only [step, withTable]
  cases alookup a c.tables with
  | none => rfl
  | some tb => exact setTable_other c a b _ h

theorem deleteTable_frame (c : Client) (a b : Bytes) (h : b ≠ a) :
    alookup b (step c (.deleteTable a)).1.tables = alookup b c.tables := by
  simp only [step]
  cases alookup a c.tables with
  | none => rfl
  | some tb => exact alookup_aerase_ne c.tables h

/-- ClearTable empties the table and every one of its indexes -/
theorem clear_removes_all (t : Table) :
    t.clear.sortedKeys = [] ∧ t.clear.data = [] ∧ ∀ p ∈ t.clear.indexes, p.2.refs = [] ∧ p.2.sortedKeys = [] := by
  refine ⟨rfl, rfl, ?_⟩
  intro p hp
  simp only [Table.clear, List.mem_map] at hp
  obtain ⟨q, _, rfl⟩ := hp
  exact ⟨rfl, rfl⟩

/-- DeleteTable removes the table: a later CreateTable under the same name builds a fresh one -/
theorem delete_then_lookup (c : Client) (a : Bytes) (t : Table) (h : alookup a c.tables = some t) :
    alookup a (step c (.deleteTable a)).1.tables = none := by
  simp only [step, h]
  exact alookup_aerase_self a c.tables

end Minidyn.Props.C18
