/-
  C11 — what the lock discipline buys, proved once for any number of goroutines.

  `Tie/Locks` shows (on skeletons regenerated from the Go source on every run) that the
  flattened event sequence of every exported client method is `disciplined`: it takes the
  client mutex before the first access to shared client state, never takes it twice, and
  releases it before returning.  Here goroutines are interleaved arbitrarily over one
  mutex with Go's semantics (Lock blocks while the mutex is taken; Unlock of a mutex that
  is not locked is a fatal error) and it is shown, for every schedule and every number of
  goroutines, that
    * no goroutine ever gets stuck on a fatal Unlock (`step_safe`);
    * whenever a goroutine performs an access to shared state it owns the mutex
      (`access_owns`), hence two accesses of different goroutines never happen without a
      lock hand-over in between (`no_two_owners`): no data race on client state;
    * between a goroutine's Lock and its Unlock no other goroutine performs an access
      (`critical_section_exclusive`): each critical section takes effect atomically, and a
      method with one critical section (every data operation) is atomic as a whole;
    * a goroutine that is not blocked can always move, and a blocked goroutine waits for a
      mutex that some goroutine holds and will release (`progress`): no deadlock.
  The model covers the client mutex only: memory inside a table is reached exclusively
  through the `.table` events, which are accesses; the runtime's memory model and the
  race detector's view are exercised by the race family of the check.
-/
import Minidyn.Tie.Locks
namespace Minidyn.Props.C11
open Minidyn.Generated Minidyn.Tie

structure Th where
  rest : List LockEv
  held : Bool

structure Sys where
  owner : Option Nat
  th : Nat → Th

def upd (f : Nat → Th) (i : Nat) (v : Th) : Nat → Th := fun j => if j = i then v else f j

def isAccess : LockEv → Bool
  | .read _ | .write _ | .table _ => true
  | _ => false

inductive StepResult where
  | moved (s : Sys)
  | blocked            -- Lock on a mutex another goroutine holds
  | fatal              -- Unlock of an unlocked mutex, or an event the flattening leaves none of
  | done

/-- goroutine `i` tries to execute its next event -/
def step (s : Sys) (i : Nat) : StepResult :=
  match (s.th i).rest with
  | [] => .done
  | .lock :: r =>
    match s.owner with
    | none => .moved { owner := some i, th := upd s.th i ⟨r, true⟩ }
    | some _ => .blocked
  | .unlock :: r =>
    if s.owner = some i then .moved { owner := none, th := upd s.th i ⟨r, false⟩ } else .fatal
  | .read _ :: r | .write _ :: r | .table _ :: r => .moved { s with th := upd s.th i ⟨r, (s.th i).held⟩ }
  | .deferUnlock :: _ | .call _ :: _ => .fatal

/-- every goroutine runs disciplined code, and the mutex is owned exactly by the one that holds it -/
structure Inv (s : Sys) : Prop where
  disc : ∀ i, disciplined (s.th i).held (s.th i).rest = true
  own : ∀ i, (s.th i).held = true ↔ s.owner = some i

theorem upd_same (f : Nat → Th) (i : Nat) (v : Th) : upd f i v i = v := by simp [upd]
theorem upd_other (f : Nat → Th) (i j : Nat) (v : Th) (h : j ≠ i) : upd f i v j = f j := by simp [upd, h]

/-- **the invariant is preserved by every step of every goroutine** -/
theorem step_inv (s s' : Sys) (i : Nat) (hinv : Inv s) (h : step s i = .moved s') : Inv s' := by
  have hd := hinv.disc i
  unfold step at h
  split at h
  · cases h
  · rename_i r hr
    rw [hr] at hd
    split at h
    · rename_i hown
      cases h
      have hheld : (s.th i).held = false := by
        simp only [disciplined, Bool.and_eq_true, Bool.not_eq_true'] at hd; exact hd.1
      refine ⟨?_, ?_⟩
      · intro j
        by_cases hj : j = i
        · subst hj; simp only [upd_same]
          simp only [disciplined, Bool.and_eq_true] at hd; exact hd.2
        · simp only [upd_other _ _ _ _ hj]; exact hinv.disc j
      · intro j
        by_cases hj : j = i
        · subst hj; simp [upd_same]
        · simp only [upd_other _ _ _ _ hj]
          constructor
          · intro hh; have := (hinv.own j).1 hh; rw [hown] at this; cases this
          · intro hh; exact absurd (Option.some.inj hh).symm hj
    · cases h
  · rename_i r hr
    rw [hr] at hd
    split at h
    · rename_i hown
      cases h
      refine ⟨?_, ?_⟩
      · intro j
        by_cases hj : j = i
        · subst hj; simp only [upd_same]
          simp only [disciplined, Bool.and_eq_true] at hd; exact hd.2
        · simp only [upd_other _ _ _ _ hj]; exact hinv.disc j
      · intro j
        by_cases hj : j = i
        · subst hj; simp [upd_same]
        · simp only [upd_other _ _ _ _ hj]
          constructor
          · intro hh; have := (hinv.own j).1 hh; rw [hown] at this; exact absurd (Option.some.inj this).symm hj
          · intro hh; cases hh
    · cases h
  all_goals first | (cases h; done) | skip
  all_goals
    rename_i r hr
    rw [hr] at hd
    cases h
    refine ⟨?_, ?_⟩
    · intro j
      by_cases hj : j = i
      · subst hj; simp only [upd_same]
        simp only [disciplined, Bool.and_eq_true] at hd; exact hd.2
      · simp only [upd_other _ _ _ _ hj]; exact hinv.disc j
    · intro j
      by_cases hj : j = i
      · subst hj; simp only [upd_same]; exact hinv.own j
      · simp only [upd_other _ _ _ _ hj]; exact hinv.own j


/-- a goroutine running disciplined code never commits the fatal errors -/
theorem step_safe (s : Sys) (i : Nat) (hinv : Inv s) : step s i ≠ .fatal := by
  have hd := hinv.disc i
  unfold step
  split
  · intro h; cases h
  · split <;> (intro h; cases h)
  · rename_i r hr
    rw [hr] at hd
    simp only [disciplined, Bool.and_eq_true] at hd
    have := (hinv.own i).1 hd.1
    simp [this]
  · intro h; cases h
  · intro h; cases h
  · intro h; cases h
  · rename_i hr; rw [hr] at hd; simp [disciplined] at hd
  · rename_i hr; rw [hr] at hd; simp [disciplined] at hd

/-- **no data race**: the goroutine that performs an access to shared state owns the mutex -/
theorem access_owns (s : Sys) (i : Nat) (hinv : Inv s) (e : LockEv) (r : List LockEv)
    (hnext : (s.th i).rest = e :: r) (hacc : isAccess e = true) : s.owner = some i := by
  have hd := hinv.disc i
  rw [hnext] at hd
  apply (hinv.own i).1
  cases e <;> simp [isAccess] at hacc <;> simp only [disciplined, Bool.and_eq_true] at hd <;> exact hd.1

/-- two goroutines are never both about to touch shared state -/
theorem no_two_owners (s : Sys) (i j : Nat) (hinv : Inv s) (e1 e2 : LockEv) (r1 r2 : List LockEv)
    (h1 : (s.th i).rest = e1 :: r1) (h2 : (s.th j).rest = e2 :: r2)
    (a1 : isAccess e1 = true) (a2 : isAccess e2 = true) : i = j := by
  have o1 := access_owns s i hinv e1 r1 h1 a1
  have o2 := access_owns s j hinv e2 r2 h2 a2
  rw [o1] at o2
  exact Option.some.inj o2

/-- **critical sections are exclusive**: while goroutine `i` holds the mutex, a step of another
    goroutine is not an access to shared state, and it leaves the owner in place -/
theorem critical_section_exclusive (s s' : Sys) (i j : Nat) (hinv : Inv s) (hij : j ≠ i)
    (hown : s.owner = some i) (h : step s j = .moved s') :
    s'.owner = some i ∧ (∀ e r, (s.th j).rest = e :: r → isAccess e = false) := by
  constructor
  · unfold step at h
    split at h
    · cases h
    · rw [hown] at h; cases h
    · split at h
      · rename_i ho; rw [hown] at ho; exact absurd (Option.some.inj ho).symm hij
      · cases h
    all_goals first | (cases h; done) | (cases h; exact hown)
  · intro e r hnext
    cases hacc : isAccess e with
    | false => rfl
    | true =>
      have := access_owns s j hinv e r hnext hacc
      rw [hown] at this
      exact absurd (Option.some.inj this).symm hij

/-- **no deadlock on the client mutex**: a goroutine that still has code either moves, or is
    blocked on a Lock while some goroutine holds the mutex — and that holder is not blocked: its
    next step moves (its code ends with the Unlock, by the discipline) -/
theorem progress (s : Sys) (i : Nat) (hinv : Inv s) (hcode : (s.th i).rest ≠ []) :
    (∃ s', step s i = .moved s') ∨
    (step s i = .blocked ∧ ∃ k, s.owner = some k ∧ ∃ s', step s k = .moved s') := by
  cases hs : step s i with
  | moved s' => exact .inl ⟨s', rfl⟩
  | fatal => exact absurd hs (step_safe s i hinv)
  | done =>
    unfold step at hs
    split at hs
    · rename_i hnil; exact absurd hnil hcode
    · split at hs <;> cases hs
    · split at hs <;> cases hs
    all_goals cases hs
  | blocked =>
    right
    refine ⟨rfl, ?_⟩
    -- the step blocked: the next event is a Lock and the mutex has an owner k
    unfold step at hs
    split at hs
    · cases hs
    · split at hs
      · cases hs
      · rename_i k hk
        refine ⟨k, hk, ?_⟩
        -- k holds the mutex; its remaining code is disciplined with held = true, so it is not empty
        -- and its next event is not a Lock
        have hheld := (hinv.own k).2 hk
        have hdk := hinv.disc k
        rw [hheld] at hdk
        cases hrest : (s.th k).rest with
        | nil => rw [hrest] at hdk; simp [disciplined] at hdk
        | cons e r =>
          rw [hrest] at hdk
          cases e with
          | lock => simp [disciplined] at hdk
          | deferUnlock => simp [disciplined] at hdk
          | call m => simp [disciplined] at hdk
          | unlock => exact ⟨_, by simp only [step, hrest, hk, if_true]; rfl⟩
          | read f => exact ⟨_, by simp only [step, hrest]; rfl⟩
          | write f => exact ⟨_, by simp only [step, hrest]; rfl⟩
          | table m => exact ⟨_, by simp only [step, hrest]; rfl⟩
    · split at hs <;> cases hs
    all_goals cases hs

/-! ### the initial state and reachability -/

/-- goroutines that have not started: none holds the mutex, each is about to run the
    flattened code of a well-locked method -/
theorem inv_init (code : Nat → List LockEv) (h : ∀ i, disciplined false (code i) = true) :
    Inv { owner := none, th := fun i => ⟨code i, false⟩ } :=
  ⟨fun i => h i, fun i => by simp⟩

/-- a schedule: which goroutine moves next (steps that do not move leave the state) -/
def run (s : Sys) : List Nat → Sys
  | [] => s
  | i :: rest => match step s i with
    | .moved s' => run s' rest
    | _ => run s rest

/-- **every reachable state of every schedule satisfies the invariant** -/
theorem run_inv (sched : List Nat) : ∀ s, Inv s → Inv (run s sched) := by
  induction sched with
  | nil => intro s h; exact h
  | cons i rest ih =>
    intro s h
    simp only [run]
    cases hs : step s i with
    | moved s' => exact ih s' (step_inv s s' i h hs)
    | blocked => exact ih s h
    | fatal => exact ih s h
    | done => exact ih s h

/-- the flattened code of an exported method of the regenerated skeletons is disciplined -/
theorem method_disciplined (sk : Skeletons) (h : wellLocked sk = true) (name : String) (evs flat : List LockEv)
    (hmem : (name, true, evs) ∈ sk) (hflat : flatOf sk evs = some flat) : disciplined false flat = true := by
  have := List.all_eq_true.1 h _ hmem
  simp only [Bool.not_true, Bool.false_or, wellLockedMethod, hflat] at this
  exact this

/-- non-vacuity: PutItem and Query of the v1 client flatten to disciplined, non-trivial code -/
example : (match flatOf locksV1 [.call "PutItem"], flatOf locksV1 [.call "Query"] with
    | some f1, some f2 => disciplined false f1 && disciplined false f2 && decide (f1.length ≥ 5)
    | _, _ => false) = true := by decide

end Minidyn.Props.C11
