import Minidyn.Props.C09
import Minidyn.Model.Client
namespace Minidyn.Props.C09
open Minidyn Minidyn.Client

/-- refutation at the client (KF-C09-empty-expression): a ConditionExpression that is present but empty is not parsed — the
    write is refused as if the condition had been false — while the interpreter rejects the empty text -/
theorem empty_condition_not_parsed :
    let c0 : Client := (createTable { sdk := .v2 } { table := [116], key := { hash := ([104], [83]) }, payPerRequest := true }).1
    (match (putItem c0 [116] [([104], .s [97])] (some []) {}).2 with | .err .conditionFailed _ => true | _ => false) = true ∧
    (match Interp.langMatch [] [] [] [] with | .error .syntax => true | _ => false) = true := by
  constructor
  · decide +kernel
  · decide +kernel

end Minidyn.Props.C09
