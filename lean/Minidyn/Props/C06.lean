/-
  Minidyn.Props.C06 — condition expressions evaluate per DynamoDB semantics.

  * binding strength, on the tables regenerated from parser.go: every comparator, BETWEEN and IN
    bind tighter than NOT, NOT tighter than AND, AND tighter than OR (`prec_order`);
  * a missing attribute makes comparisons false and `<>` true (`missing_*`), also when both
    operands are missing; equality is type-sensitive: operands of two different comparable types
    are unequal and never crash (`cross_type_*`); ordering exists only within one scalar type;
  * a NULL-typed attribute exists (`null_attribute_exists`), a missing one does not;
  * NOT, AND, OR are the boolean connectives on conditions (`not_not`, `and_spec`, `or_spec`);
  * a path into a list past its end, through a missing member or into a nested scalar names a
    missing attribute (`listGet_out_of_range`, `accessor_missing`);
  * evaluation cannot modify the item: `Interp.langMatch` returns a `Bool` and has no access to
    any state (purity by type).
  The refinement of the whole evaluator to `tools/spec.py` is covered by the correspondence and
  the judges only; the deviations that remain are listed in known_findings.json (KF-C06-*).
-/
import Minidyn.Model.Interp
import Minidyn.Generated.Tables
import Minidyn.Tie.Tables
namespace Minidyn.Props.C06
open Minidyn Minidyn.Eval

def precOf (name : String) : Nat := (Tie.lookupS name Generated.precedences).getD 1

/-- comparison binds tighter than NOT, NOT than AND, AND than OR — on the regenerated tables -/
theorem prec_order :
    (["=", "<>", "<", "<=", ">", ">=", "BETWEEN", "IN"].all fun op =>
        Generated.parsePrefixExpressionPrec.all fun notPrec => decide (precOf op > notPrec)) = true ∧
    (Generated.parsePrefixExpressionPrec.all fun notPrec => decide (notPrec > precOf "AND")) = true ∧
    precOf "AND" > precOf "OR" ∧ precOf "OR" > 1 ∧ Generated.parsePrefixExpressionPrec ≠ [] := by
  decide

/-- the model's parser uses exactly these numbers -/
theorem model_prec_order :
    Parser.prec .eq > Parser.pNot ∧ Parser.prec .lt > Parser.pNot ∧ Parser.prec .between > Parser.pNot ∧
    Parser.prec .in_ > Parser.pNot ∧ Parser.pNot > Parser.prec .and ∧ Parser.prec .and > Parser.prec .or ∧
    Parser.prec .or > Parser.pLowest := by decide

/-! ### missing attributes -/

theorem undefined_comparable : isComparable Obj.undefined = true := by decide
theorem undefined_isUndefined : Obj.isUndefined Obj.undefined = true := rfl

theorem missing_cmp (op : Tok) (r : Obj) (h : isComparable r = true) :
    evalInfix op Obj.undefined r = .ok (evalNullInfix op Obj.undefined r) := by
  simp only [evalInfix, undefined_comparable, h, Bool.and_self, if_true, evalComparable, undefined_isUndefined,
    Bool.true_or]
  rfl

theorem missing_eq_false (r : Obj) (h : isComparable r = true) :
    evalInfix .eq Obj.undefined r = .ok (.bool false) := by
  rw [missing_cmp _ _ h]; simp [evalNullInfix, undefined_isUndefined, Eval.bool]

theorem missing_neq_true (r : Obj) (h : isComparable r = true) :
    evalInfix .neq Obj.undefined r = .ok (.bool true) := by
  rw [missing_cmp _ _ h]; simp [evalNullInfix, undefined_isUndefined, Eval.bool]

theorem missing_order_false (op : Tok) (hop : op = .lt ∨ op = .lte ∨ op = .gt ∨ op = .gte) (r : Obj)
    (h : isComparable r = true) : evalInfix op Obj.undefined r = .ok (.bool false) := by
  rw [missing_cmp _ _ h]
  rcases hop with rfl | rfl | rfl | rfl <;> simp [evalNullInfix, Eval.bool]

/-- the same with the missing operand on the right -/
theorem missing_right_eq_false (l : Obj) (h : isComparable l = true) :
    evalInfix .eq l Obj.undefined = .ok (.bool false) := by
  simp only [evalInfix, undefined_comparable, h, Bool.and_self, if_true, evalComparable, undefined_isUndefined,
    Bool.or_true]
  simp [evalNullInfix, undefined_isUndefined, Eval.bool, pure, Except.pure]

/-! ### type-sensitive equality, ordering within one scalar type -/

theorem num_comparable (f : F64) : isComparable (.num f) = true := rfl
theorem str_comparable (s : Bytes) : isComparable (.str s) = true := rfl
theorem bin_comparable (s : Bytes) : isComparable (.bin s) = true := rfl

theorem cross_type_eq (f : F64) (s : Bytes) : evalInfix .eq (.num f) (.str s) = .ok (.bool false) := by
  simp only [evalInfix, num_comparable, str_comparable, Bool.and_self, if_true, evalComparable, Obj.isUndefined]
  rfl

theorem cross_type_neq (f : F64) (s : Bytes) : evalInfix .neq (.num f) (.str s) = .ok (.bool true) := by
  simp only [evalInfix, num_comparable, str_comparable, Bool.and_self, if_true, evalComparable, Obj.isUndefined]
  rfl

theorem cross_type_order_is_error (f : F64) (s : Bytes) : ∃ e, evalInfix .lt (.num f) (.str s) = .error e := by
  simp only [evalInfix, num_comparable, str_comparable, Bool.and_self, if_true, evalComparable, Obj.isUndefined]
  exact ⟨_, rfl⟩

theorem string_order (a b : Bytes) : evalInfix .lt (.str a) (.str b) = .ok (.bool (Bytes.cmp a b == .lt)) := by
  simp only [evalInfix, str_comparable, Bool.and_self, if_true, evalComparable, Obj.isUndefined]
  rfl

theorem binary_eq (a b : Bytes) : evalInfix .eq (.bin a) (.bin b) = .ok (.bool (Bytes.cmp a b == .eq)) := by
  simp only [evalInfix, bin_comparable, Bool.and_self, if_true, evalComparable, Obj.isUndefined]
  rfl

theorem number_order (a b : F64) : evalInfix .lte (.num a) (.num b) = .ok (.bool (F64.cmp a b != .gt)) := by
  simp only [evalInfix, num_comparable, Bool.and_self, if_true, evalComparable, Obj.isUndefined]
  rfl

/-! ### existence -/

theorem null_attribute_exists : callFn fn_attribute_exists [.null false] = .ok (.bool true) := by rfl
theorem missing_attribute_not_exists : callFn fn_attribute_exists [Obj.undefined] = .ok (.bool false) := by rfl
theorem missing_attribute_not_exists' : callFn fn_attribute_not_exists [Obj.undefined] = .ok (.bool true) := by rfl
/-- begins_with and contains on an attribute the item does not have: false, whatever the operand -/
theorem missing_begins_with (x : Obj) : fnBeginsWith Obj.undefined x = .ok (.bool false) := rfl
theorem missing_contains (x : Obj) : fnContains Obj.undefined x = .ok (.bool false) := rfl
theorem null_attribute_type : fnAttributeType (.null false) (.str [78, 85, 76, 76]) = .ok (.bool true) := by rfl
theorem missing_attribute_type : fnAttributeType Obj.undefined (.str [78, 85, 76, 76]) = .ok (.bool false) := by rfl

/-! ### connectives -/

theorem bool_not_comparable (b : Bool) : isComparable (.bool b) = false := rfl

theorem and_spec (a b : Bool) : evalInfix .and (.bool a) (.bool b) = .ok (.bool (a && b)) := by
  simp only [evalInfix, bool_not_comparable, Bool.and_self, Bool.false_eq_true, if_false]; rfl

theorem or_spec (a b : Bool) : evalInfix .or (.bool a) (.bool b) = .ok (.bool (a || b)) := by
  simp only [evalInfix, bool_not_comparable, Bool.and_self, Bool.false_eq_true, if_false]; rfl

/-- NOT negates a condition -/
theorem not_spec (env : Env) (op : Token) (e : Expr) (b : Bool) (hid : identOf e = none)
    (h : eval env e = .ok (.bool b)) : eval env (.pre op e) = .ok (.bool (!b)) := by
  simp only [eval, hid, Option.isSome_none, Bool.false_eq_true, if_false, h, bind, Except.bind]
  rfl

/-! ### document paths -/

theorem listGet_out_of_range (xs : List Obj) (i : Int) (h : i < 0 ∨ xs.length ≤ i.toNat) :
    listGet xs i = Obj.undefined := by
  unfold listGet
  rcases h with h | h
  · simp [h]
  · by_cases hneg : i < 0
    · simp [hneg]
    · simp [hneg, List.getElem?_eq_none h]

/-- a map member that is not there, and any accessor applied to a scalar, give the undefined value -/
theorem accessor_missing_member (k : Bytes) (kvs : List (Bytes × Obj)) (h : alookup k kvs = none) :
    (Accessor.key k).get (.map kvs) = .ok Obj.undefined := by
  simp [Accessor.get, h, pure, Except.pure]

theorem accessor_into_scalar (a : Accessor) (s : Bytes) : a.get (.str s) = .ok Obj.undefined := by
  cases a <;> rfl

/-- non-vacuity: `NOT a = :x AND b = :y OR c = :z` parses as ((NOT (a = :x)) AND (b = :y)) OR (c = :z) -/
example :
    (match Parser.parseCond [78, 79, 84, 32, 97, 32, 61, 32, 58, 120, 32, 65, 78, 68, 32, 98, 32, 61, 32, 58, 121, 32, 79, 82, 32, 99, 32, 61, 32, 58, 122] with
     | .ok (.inf o1 (.inf o2 (.pre _ (.inf o3 _ _)) (.inf o4 _ _)) (.inf o5 _ _)) =>
        o1.typ == .or && o2.typ == .and && o3.typ == .eq && o4.typ == .eq && o5.typ == .eq
     | _ => false) = true := by
  decide

end Minidyn.Props.C06
