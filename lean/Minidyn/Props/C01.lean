/-
  Minidyn.Props.C01 — single-item operations behave as a sequential key → item map.

  `TableInv` (the sorted key list and the data map describe the same key set, sorted, without
  duplicates) is established by `NewTable` and preserved by every write; under it the table
  refines the abstract map `abs t = fun k => alookup k t.data`:
  GetItem after a successful write to the same key returns what was written, a write to one
  key leaves every other key alone, Delete removes, Update stores what the update function
  answers.  The interpreter (conditions, update expressions, native call-backs) is a parameter
  of every theorem.  Keys here are key *strings*; `Props.C13` shows that distinct key
  attribute values have distinct key strings.
-/
import Minidyn.Model.Table
import Minidyn.Lemmas.Assoc
import Minidyn.Lemmas.Search
namespace Minidyn.Props.C01
open Minidyn

structure TableInv (t : Table) : Prop where
  sorted : SortedBy Bytes.le t.sortedKeys
  nodup : t.sortedKeys.Nodup
  dataNodup : (keysOf t.data).Nodup
  memIff : ∀ k, k ∈ t.sortedKeys ↔ ahas k t.data = true

/-- the abstract state: a partial map from key strings to items -/
def abs (t : Table) : Bytes → Option Item := fun k => alookup k t.data

/-! ### helper lemmas on `removeAt` -/

theorem mem_removeAt {l : List Bytes} (hn : l.Nodup) {pos : Nat} (hp : pos < l.length) (z : Bytes) :
    z ∈ removeAt l pos ↔ (z ∈ l ∧ z ≠ l[pos]) := by
  induction l generalizing pos with
  | nil => simp at hp
  | cons x xs ih =>
    simp only [List.nodup_cons] at hn
    cases pos with
    | zero =>
      simp only [removeAt, List.getElem_cons_zero, List.mem_cons]
      constructor
      · intro hz; exact ⟨Or.inr hz, fun h => hn.1 (h ▸ hz)⟩
      · rintro ⟨hz | hz, hne⟩
        · exact absurd hz hne
        · exact hz
    | succ p =>
      have hp' : p < xs.length := by simpa using hp
      simp only [removeAt, List.getElem_cons_succ, List.mem_cons, ih hn.2 hp']
      constructor
      · rintro (hz | ⟨hz, hne⟩)
        · refine ⟨Or.inl hz, ?_⟩
          intro h; apply hn.1; rw [← hz, h]; exact List.getElem_mem _
        · exact ⟨Or.inr hz, hne⟩
      · rintro ⟨hz | hz, hne⟩
        · exact Or.inl hz
        · exact Or.inr ⟨hz, hne⟩

theorem removeAt_sublist (l : List Bytes) (pos : Nat) : (removeAt l pos).Sublist l := by
  induction l generalizing pos with
  | nil => simp [removeAt]
  | cons x xs ih =>
    cases pos with
    | zero => simp [removeAt]
    | succ p => simp only [removeAt]; exact (ih p).cons_cons x

theorem sortedBy_sublist {l l' : List Bytes} (h : l'.Sublist l) (hs : SortedBy Bytes.le l) : SortedBy Bytes.le l' := by
  induction h with
  | slnil => trivial
  | cons a _ ih => exact ih hs.tail
  | cons_cons a hsub ih =>
    rw [sortedBy_cons_iff Bytes.le_trans'] at hs ⊢
    exact ⟨fun y hy => hs.1 y (hsub.subset hy), ih hs.2⟩

/-! ### the invariant -/

theorem tableInv_new (t : Table) (hk : t.sortedKeys = []) (hd : t.data = []) : TableInv t :=
  ⟨by rw [hk]; trivial, by rw [hk]; exact List.nodup_nil, by rw [hd]; exact List.nodup_nil, by intro k; simp [hk, hd, ahas]⟩

theorem tableInv_setItem {t : Table} (h : TableInv t) (key : Bytes) (item : Item) : TableInv (t.setItem key item) := by
  unfold Table.setItem
  by_cases hk : ahas key t.data = true
  · simp only [hk, if_true]
    refine ⟨h.sorted, h.nodup, ?_, ?_⟩
    · show (keysOf (ainsert key item t.data)).Nodup
      rw [keysOf_ainsert_of_has item hk]; exact h.dataNodup
    · intro k
      show k ∈ t.sortedKeys ↔ ahas k (ainsert key item t.data) = true
      rw [h.memIff k, ahas_iff_mem_keys, ahas_iff_mem_keys, keysOf_ainsert_of_has item hk]
  · have hk' : ahas key t.data = false := by simpa using hk
    simp only [hk', Bool.false_eq_true, if_false]
    have hnot : key ∉ t.sortedKeys := fun hm => hk ((h.memIff key).mp hm)
    refine ⟨sortedBy_sortBytes _, ?_, ?_, ?_⟩
    · apply nodup_sortBytes
      rw [List.nodup_append]
      refine ⟨h.nodup, (by simp : [key].Nodup), ?_⟩
      intro a ha b hb
      simp only [List.mem_singleton] at hb
      subst hb
      intro hab; exact hnot (hab ▸ ha)
    · show (keysOf (ainsert key item t.data)).Nodup
      rw [keysOf_ainsert_of_not_has item hk', List.nodup_append]
      refine ⟨h.dataNodup, (by simp : [key].Nodup), ?_⟩
      intro a ha b hb
      simp only [List.mem_singleton] at hb
      subst hb
      intro hab
      have : ahas b t.data = true := (ahas_iff_mem_keys b t.data).mpr (hab ▸ ha)
      exact hk this
    · intro k
      show k ∈ sortBytes (t.sortedKeys ++ [key]) ↔ ahas k (ainsert key item t.data) = true
      rw [mem_sortBytes, ahas_iff_mem_keys, keysOf_ainsert_of_not_has item hk', List.mem_append, List.mem_append,
        h.memIff k, ahas_iff_mem_keys]

theorem setItem_get_self (t : Table) (key : Bytes) (item : Item) : abs (t.setItem key item) key = some item := by
  unfold Table.setItem abs
  split <;> exact alookup_ainsert_self key item t.data

theorem setItem_get_other (t : Table) {key k : Bytes} (item : Item) (h : k ≠ key) :
    abs (t.setItem key item) k = abs t k := by
  unfold Table.setItem abs
  split <;> exact alookup_ainsert_ne item t.data h

/-- index maintenance does not touch the base table -/
theorem indexSet_data (t : Table) (key : Bytes) (item : Item) :
    (t.indexSet key item).data = t.data ∧ (t.indexSet key item).sortedKeys = t.sortedKeys := ⟨rfl, rfl⟩

theorem tableInv_indexSet {t : Table} (h : TableInv t) (key : Bytes) (item : Item) : TableInv (t.indexSet key item) :=
  ⟨h.sorted, h.nodup, h.dataNodup, h.memIff⟩

/-! ### PutItem -/

/-- a successful Put: invariant kept, the item is stored under its key, nothing else moves -/
theorem put_ok {t t' : Table} {m : Matcher} {item : Item} {cond : Option Bytes} (h : TableInv t)
    (hput : t.put m item cond = .ok t') :
    ∃ key, Key.getKey t.schema t.attrs item = .ok key ∧ TableInv t' ∧ abs t' key = some item ∧
      ∀ k, k ≠ key → abs t' k = abs t k := by
  unfold Table.put at hput
  cases hk : Key.getKey t.schema t.attrs item with
  | error e => simp [hk] at hput
  | ok key =>
    simp only [hk] at hput
    cases hc : Table.checkCondition m cond (t.getItem key) with
    | error e => simp [hc, bind, Except.bind] at hput
    | ok u =>
      simp only [hc, bind, Except.bind] at hput
      by_cases hv : t.validateIndexKeys item = true
      · simp only [hv, Bool.not_true, Bool.false_eq_true, if_false, pure, Except.pure, Except.ok.injEq] at hput
        subst hput
        refine ⟨key, rfl, tableInv_indexSet (tableInv_setItem h key item) key item, ?_, ?_⟩
        · exact setItem_get_self t key item
        · intro k hne; exact setItem_get_other t item hne
      · simp [hv] at hput

/-- a refused Put changes nothing (there is no new state) and the refusal is decided on the
    stored item of the request's own key only -/
theorem put_condition_local {t : Table} {m : Matcher} {item : Item} {c : Bytes} {key : Bytes}
    (hk : Key.getKey t.schema t.attrs item = .ok key) (hne : c ≠ [])
    (hfalse : m .cond c (t.getItem key) = .ok false) :
    t.put m item (some c) = .error (.conditionFailed (t.getItem key)) := by
  unfold Table.put
  simp only [hk, Table.checkCondition]
  have : c.isEmpty = false := by cases c <;> simp_all
  simp [this, hfalse, bind, Except.bind]

/-! ### DeleteItem -/

theorem delete_ok {t t' : Table} {m : Matcher} {keyAttrs : Item} {cond : Option Bytes} {old : Option Item}
    (h : TableInv t) (hdel : t.delete m keyAttrs cond = .ok (t', old)) :
    ∃ key, Key.getKey t.schema t.attrs keyAttrs = .ok key ∧ TableInv t' ∧ old = abs t key ∧ abs t' key = none ∧
      ∀ k, k ≠ key → abs t' k = abs t k := by
  unfold Table.delete at hdel
  cases hk : Key.getKey t.schema t.attrs keyAttrs with
  | error e => simp [hk] at hdel
  | ok key =>
    simp only [hk] at hdel
    cases hc : Table.checkCondition m cond (t.getItem key) with
    | error e => simp [hc, bind, Except.bind] at hdel
    | ok u =>
      simp only [hc, bind, Except.bind] at hdel
      cases hl : alookup key t.data with
      | none =>
        simp only [hl, pure, Except.pure, Except.ok.injEq, Prod.mk.injEq] at hdel
        obtain ⟨rfl, rfl⟩ := hdel
        exact ⟨key, rfl, h, by simp [abs, hl], by simp [abs, hl], fun _ _ => rfl⟩
      | some it =>
        simp only [hl] at hdel
        have hhas : ahas key t.data = true := by simp [ahas, hl]
        have hmem : key ∈ t.sortedKeys := (h.memIff key).mpr hhas
        obtain ⟨hpos, hat⟩ := searchStrings_of_mem h.sorted key hmem
        have hne : (searchStrings t.sortedKeys key == t.sortedKeys.length) = false := by
          simp; omega
        simp only [hne, Bool.false_eq_true, if_false, pure, Except.pure, Except.ok.injEq, Prod.mk.injEq] at hdel
        obtain ⟨rfl, rfl⟩ := hdel
        refine ⟨key, rfl, ?_, by simp [abs, hl], ?_, ?_⟩
        · refine ⟨sortedBy_sublist (removeAt_sublist _ _) h.sorted, (removeAt_sublist _ _).nodup h.nodup,
            nodup_keysOf_aerase h.dataNodup, ?_⟩
          intro k
          show k ∈ removeAt t.sortedKeys (searchStrings t.sortedKeys key) ↔ ahas k (aerase key t.data) = true
          rw [mem_removeAt h.nodup hpos, hat, ahas_iff_mem_keys, mem_keysOf_aerase, h.memIff k, ahas_iff_mem_keys]
        · show alookup key (aerase key t.data) = none
          exact alookup_aerase_self key t.data
        · intro k hk'
          show alookup k (aerase key t.data) = alookup k t.data
          exact alookup_aerase_ne t.data hk'

/-! ### UpdateItem -/

theorem update_ok {t t' : Table} {m : Matcher} {upd : Table.Updater} {keyAttrs : Item} {cond : Option Bytes} {res : Item}
    (h : TableInv t) (hupd : t.update m upd keyAttrs cond = .ok (t', res)) :
    ∃ key, Key.getKey t.schema t.attrs keyAttrs = .ok key ∧ TableInv t' ∧
      upd ((abs t key).getD keyAttrs) = .ok res ∧ abs t' key = some res ∧ ∀ k, k ≠ key → abs t' k = abs t k := by
  unfold Table.update at hupd
  cases hk : Key.getKey t.schema t.attrs keyAttrs with
  | error e => simp [hk] at hupd
  | ok key =>
    simp only [hk] at hupd
    cases hc : Table.checkCondition m cond ((alookup key t.data).getD []) with
    | error e => simp [hc, bind, Except.bind] at hupd
    | ok u =>
      simp only [hc, bind, Except.bind] at hupd
      cases hu : upd ((alookup key t.data).getD keyAttrs) with
      | error e => simp [hu] at hupd
      | ok item =>
        simp only [hu] at hupd
        by_cases hv : t.validateIndexKeys item = true
        · simp only [hv, Bool.not_true, Bool.false_eq_true, if_false, pure, Except.pure, Except.ok.injEq, Prod.mk.injEq] at hupd
          obtain ⟨rfl, rfl⟩ := hupd
          refine ⟨key, rfl, tableInv_indexSet (tableInv_setItem h key item) key item, hu, setItem_get_self t key item, ?_⟩
          intro k hne; exact setItem_get_other t item hne
        · simp [hv] at hupd

/-- UpdateItem on an absent key starts from the key attributes of the request -/
theorem update_absent_starts_from_key {t : Table} {key : Bytes} {keyAttrs : Item}
    (habs : abs t key = none) : (abs t key).getD keyAttrs = keyAttrs := by simp [habs]

/-- non-vacuity: a table with two items satisfies the invariant and a put keeps it -/
example : TableInv (({ name := [116], schema := { hash := [104] }, attrs := [([104], [83])] } : Table).setItem [97] [([104], .s [97])]
    |>.setItem [98] [([104], .s [98])]) :=
  tableInv_setItem (tableInv_setItem (tableInv_new _ rfl rfl) _ _) _ _

end Minidyn.Props.C01
