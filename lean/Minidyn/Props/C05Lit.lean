/-
  Minidyn.Props.C05Lit — the create-if-absent idiom through the real front end.

  `langMatch_notExists`: the text `attribute_not_exists(h)` — lexed, parsed (`parse_notExists`, by
  evaluation of the model's lexer and parser on the literal) and evaluated on an arbitrary loadable
  item — answers exactly whether the item lacks `h` (`load_spec`: what loading an item does to the
  store; `toObj_not_undefined`: no stored value is the `undefined` object).
  `first_put_wins_builtin`: with the built-in interpreter as the table's matcher, any number of
  conditional puts of one absent key: the first is applied, the others are refused.
-/
import Minidyn.Model.Client
import Minidyn.Lemmas.Assoc
import Minidyn.Props.C05Seq
namespace Minidyn.Props.C05Lit
open Minidyn Minidyn.Client Minidyn.Props.C01

/-- the text `attribute_not_exists(h)` -/
def notExistsH : Bytes := [97, 116, 116, 114, 105, 98, 117, 116, 101, 95, 110, 111, 116, 95, 101, 120, 105, 115, 116, 115, 40, 104, 41]

def notExistsTree : Expr :=
  .call (.ident { typ := .ident, lit := Eval.fn_attribute_not_exists }) [.ident { typ := .ident, lit := [104] }]

theorem parse_notExists : Parser.parseCond notExistsH = .ok notExistsTree := by rfl

theorem toObj_not_undefined : ∀ (v : AV) (o : Obj), v.toObj = some o → o.isUndefined = false := by
  intro v o h
  cases v <;> simp [AV.toObj] at h <;> try (subst h; rfl)
  all_goals (obtain ⟨_, _, rfl⟩ := h; rfl)


/-- what loading an item (no aliases) does to the presence of an attribute, and that no loaded
    value is the `undefined` object -/
theorem load_spec (k : Bytes) : ∀ (item : Item) (e e' : Env), e.aliases = [] → e.load item = some e' →
    (∀ o, alookup k e.store = some o → o.isUndefined = false) →
    e'.aliases = [] ∧ ahas k e'.store = (ahas k e.store || ahas k item) ∧
    (∀ o, alookup k e'.store = some o → o.isUndefined = false)
  | [], e, e', ha, h, hu => by
    simp only [Env.load, Option.some.injEq] at h
    subst h
    exact ⟨ha, by simp [ahas, alookup], hu⟩
  | (k', v) :: rest, e, e', ha, h, hu => by
    simp only [Env.load] at h
    cases hv : v.toObj with
    | none => simp [hv] at h
    | some o =>
      simp only [hv, Option.bind_eq_bind, Option.bind_some] at h
      have ih := load_spec k rest { e with store := ainsert k' o e.store } e' ha h
      by_cases hk : k' = k
      · subst hk
        have h1 : alookup k' (ainsert k' o e.store) = some o := alookup_ainsert_self _ _ _
        obtain ⟨a1, a2, a3⟩ := ih (by intro o' ho'; rw [h1] at ho'; cases ho'; exact toObj_not_undefined v o hv)
        refine ⟨a1, ?_, a3⟩
        rw [a2]; simp [ahas, h1, alookup]
      · have h1 : alookup k (ainsert k' o e.store) = alookup k e.store := alookup_ainsert_ne _ _ (fun h => hk h.symm)
        obtain ⟨a1, a2, a3⟩ := ih (by intro o' ho'; rw [h1] at ho'; exact hu o' ho')
        refine ⟨a1, ?_, a3⟩
        rw [a2]
        have : (k' == k) = false := by simpa using hk
        simp [ahas, h1, alookup, this]

/-- **the condition of the create-if-absent idiom, through the real front end**: lexing, parsing and
    evaluating the text `attribute_not_exists(h)` on any item (no placeholders) answers whether the
    item lacks the attribute `h` — the hypothesis `hm` of `C05Seq.first_put_wins` for the built-in
    interpreter -/
theorem langMatch_notExists (item : Item) (env : Env) (hl : Interp.mkEnv [] item [] = some env) :
    Interp.langMatch notExistsH item [] [] = .ok (!(ahas [104] item)) := by
  have hload : ({ aliases := [] } : Env).load item = some env := by
    simp only [Interp.mkEnv, Option.bind_eq_bind] at hl
    cases h1 : ({ aliases := [] } : Env).load item with
    | none => simp [h1] at hl
    | some e1 => simp only [h1, Option.bind_some, Env.load, Option.some.injEq] at hl; rw [hl]
  obtain ⟨ha, hhas, hund⟩ := load_spec [104] item _ env rfl hload (by intro o h; simp [alookup] at h)
  have hget : env.get [104] = .ok (if ahas [104] item then (alookup [104] env.store).getD Obj.undefined else Obj.undefined) := by
    unfold Env.get
    have hres : env.resolveName [104] = [104] := by simp [Env.resolveName, ha, alookup]
    rw [hres]
    cases hs : alookup [104] env.store with
    | some o =>
      have : ahas [104] item = true := by
        have : ahas [104] env.store = true := by simp [ahas, hs]
        rw [hhas] at this; simpa [ahas, alookup] using this
      simp [hs, this, pure, Except.pure]
    | none =>
      have : ahas [104] item = false := by
        have : ahas [104] env.store = false := by simp [ahas, hs]
        rw [hhas] at this; simpa [ahas, alookup] using this
      simp [this, ha, Env.expandName, Env.splitDots, Env.splitDots.go, alookup, hs, pure, Except.pure]
  have hu : Interp.undefinedValue notExistsH [] = false := by decide
  unfold Interp.langMatch
  simp only [hu, Bool.false_eq_true, if_false]
  unfold Interp.langMatchCore
  rw [parse_notExists]
  simp only [hl]
  have hev : Eval.eval env notExistsTree = .ok (.bool (!(ahas [104] item))) := by
    unfold notExistsTree
    rw [Eval.eval]
    have hfl : Eval.fnLookup (.ident { typ := .ident, lit := Eval.fn_attribute_not_exists }) false = .ok (Eval.fn_attribute_not_exists, 1) := by rfl
    simp only [hfl, bind, Except.bind, Eval.evalList, Eval.eval, Eval.evalIdentifier]
    have hr : Eval.isReserved [104] = false := by decide +kernel
    simp only [hr, Bool.and_false, Bool.false_eq_true, if_false, hget]
    have hne : (Eval.fn_attribute_not_exists == Eval.fn_attribute_exists) = false := by decide
    cases hh : ahas [104] item
    · simp [pure, Except.pure, Eval.callFn, Eval.bool, hne]
      try rfl
    · cases hs : alookup [104] env.store with
      | none =>
        have : ahas [104] env.store = true := by rw [hhas, hh]; simp
        simp [ahas, hs] at this
      | some o =>
        have := hund o hs
        simp [pure, Except.pure, Eval.callFn, Eval.bool, this, hne]
  unfold Eval.evalCondition
  have hid : (Eval.identOf notExistsTree).isSome = false := by rfl
  simp only [hid, Bool.false_eq_true, if_false, hev, bind, Except.bind, pure, Except.pure]


/-- the built-in interpreter as the table's matcher (native interpreter off, no placeholders) -/
theorem matcher_notExists (c : Client) (hn : c.useNative = false) (table : Bytes) (item : Item) (env : Env)
    (hl : Interp.mkEnv [] item [] = some env) :
    matcher c table { names := [], values := [] } .cond notExistsH item = .ok (!(ahas [104] item)) := by
  unfold matcher
  simp only [hn, Bool.false_eq_true, if_false, langMatch_notExists item env hl]

/-- **first writer wins, end to end on the model**: any number of `PutItem … ConditionExpression
    attribute_not_exists(h)` for one absent key of a table whose hash key is `h`, evaluated by the
    built-in lexer, parser and evaluator: the first is applied, all others are refused -/
theorem first_put_wins_builtin (c : Client) (hn : c.useNative = false) (table : Bytes) (t : Table) (hT : TableInv t)
    (hh : t.schema.hash = [104]) (hsec : t.schema.secondary = false)
    (key : Bytes) (first : Item) (rest : List Item) (env : Env) (hl : Interp.mkEnv [] first [] = some env)
    (hk : ∀ it ∈ first :: rest, Key.getKey t.schema t.attrs it = .ok key)
    (hv : t.validateIndexKeys first = true) (habs : abs t key = none) :
    let m := matcher c table { names := [], values := [] }
    (C05Seq.puts m notExistsH t (first :: rest)).2 = true :: rest.map (fun _ => false) ∧
    abs (C05Seq.puts m notExistsH t (first :: rest)).1 key = some first := by
  intro m
  have h0 : m .cond notExistsH [] = .ok true := matcher_notExists c hn table [] _ rfl
  have h1 : m .cond notExistsH first = .ok false := by
    have := matcher_notExists c hn table first env hl
    have hhas : ahas [104] first = true := by
      rw [← hh]; exact C05Seq.has_hash_of_getKey hsec (hk first (List.mem_cons_self ..))
    rw [hhas] at this; exact this
  have := C05Seq.first_put_wins' m notExistsH (by decide) t hT key first rest h0 h1 hk hv habs
  exact ⟨this.1, this.2.1⟩

end Minidyn.Props.C05Lit
