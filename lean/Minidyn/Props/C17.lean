/-
  C17 — the SDK v1 and SDK v2 clients are behaviourally equivalent.

  Both Go clients are modelled by one `Client` with an `sdk` field; this file proves
  where that field can matter.  `withSdk` switches the flavour of a client.  For every
  operation other than the three difference points

    * `BatchGetItem`           (the v1 client has no such call: KF-C17-v1-no-batchget),
    * `UpdateItem` asking for the old item on a failed condition
                               (only v2 returns it: KF-C17-v1-no-return-on-condition-failure),
    * paginated reads          (the next request is built from the mapped key; tied to the
                                code by the correspondence check only)

  the v2 step is the v1 step with every returned item passed through the v2 output mapper
  (`step_v2_is_mapped_v1`), the stored state is the same (`step_state_sdk`), and when no
  returned value is an empty binary/list/map/set the two outputs are identical
  (`outputs_equal_partial`; the empty values are KF-C10-v2-empty-as-null).
-/
import Minidyn.Model.Client
import Minidyn.Props.C10
namespace Minidyn
namespace Client
open Minidyn.Props.C10

def withSdk (c : Client) (s : Sdk) : Client := { c with sdk := s }

@[simp] theorem withSdk_tables (c : Client) (s : Sdk) : (c.withSdk s).tables = c.tables := rfl
@[simp] theorem withSdk_failure (c : Client) (s : Sdk) : (c.withSdk s).failure = c.failure := rfl
@[simp] theorem withSdk_sdk (c : Client) (s : Sdk) : (c.withSdk s).sdk = s := rfl
theorem withSdk_matcher (c : Client) (s : Sdk) (t : Bytes) (ex : Exprs) : matcher (c.withSdk s) t ex = matcher c t ex := rfl
theorem withSdk_updater (c : Client) (s : Sdk) (t e : Bytes) (ex : Exprs) :
    updater (c.withSdk s) t e ex = updater c t e ex := rfl

/-- the output with every returned item mapped -/
def mapOut (f : Item → Item) : Out → Out
  | .item it => .item (it.map f)
  | .search items n lek => .search (items.map f) n (f lek)
  | .err cls it => .err cls (it.map f)
  | o => o

/-- the operations on which the two clients are designed (or known) to differ -/
def isDifferencePoint : Op → Bool
  | .batchGet _ => true
  | .update _ _ _ _ _ retOnFail => retOnFail
  | .pages _ _ _ _ _ => true
  | _ => false

theorem setTable_withSdk (c : Client) (s : Sdk) (n : Bytes) (t : Table) :
    setTable (c.withSdk s) n t = (setTable c n t).withSdk s := rfl

theorem putItem_sdk (c : Client) (s : Sdk) (t : Bytes) (item : Item) (cond : Option Bytes) (ex : Exprs) :
    putItem (c.withSdk s) t item cond ex = ((putItem c t item cond ex).1.withSdk s, (putItem c t item cond ex).2) := by
  unfold putItem withTable
  simp only [withSdk_failure, withSdk_tables, withSdk_matcher, withSdk_sdk]
  cases c.failure with
  | some f => rfl
  | none =>
    simp only
    split
    · rfl
    · cases alookup t c.tables with
      | none => rfl
      | some tb =>
        simp only
        cases h : tb.put (matcher c t ex) item cond with
        | ok t' => rfl
        | error e => cases e <;> first | rfl | (simp only [writeErrOut]; split <;> rfl)

theorem deleteItem_sdk (c : Client) (t : Bytes) (key : Item) (cond : Option Bytes) (ex : Exprs) (ro : Bool) :
    deleteItem (c.withSdk .v2) t key cond ex ro =
      ((deleteItem (c.withSdk .v1) t key cond ex ro).1.withSdk .v2,
        mapOut (outItem .v2) (deleteItem (c.withSdk .v1) t key cond ex ro).2) := by
  unfold deleteItem withTable
  simp only [withSdk_failure, withSdk_tables, withSdk_matcher, withSdk_sdk]
  cases c.failure with
  | some f => cases f <;> rfl
  | none =>
    simp only
    split
    · rfl
    · cases alookup t c.tables with
      | none => rfl
      | some tb =>
        simp only
        cases h : tb.delete (matcher c t ex) key cond with
        | ok r =>
          obtain ⟨t', old⟩ := r
          cases ro <;> rfl
        | error e => cases e <;> first | rfl | (simp only [writeErrOut]; split <;> rfl)

theorem updateItem_sdk (c : Client) (t : Bytes) (key : Item) (expr : Bytes) (cond : Option Bytes) (ex : Exprs) :
    updateItem (c.withSdk .v2) t key expr cond ex false =
      ((updateItem (c.withSdk .v1) t key expr cond ex false).1.withSdk .v2,
        mapOut (outItem .v2) (updateItem (c.withSdk .v1) t key expr cond ex false).2) := by
  unfold updateItem withTable
  simp only [withSdk_failure, withSdk_tables, withSdk_matcher, withSdk_updater, withSdk_sdk]
  cases c.failure with
  | some f => cases f <;> rfl
  | none =>
    simp only
    split
    · rfl
    · cases alookup t c.tables with
      | none => rfl
      | some tb =>
        simp only
        cases h : tb.update (matcher c t ex) (updater c t expr ex) key cond with
        | ok r =>
          obtain ⟨t', it⟩ := r
          rfl
        | error e => cases e <;> first | rfl | (simp only [writeErrOut]; split <;> rfl)

theorem getItem_sdk (c : Client) (t : Bytes) (key : Item) :
    getItem (c.withSdk .v2) t key =
      ((getItem (c.withSdk .v1) t key).1.withSdk .v2, mapOut (outItem .v2) (getItem (c.withSdk .v1) t key).2) := by
  unfold getItem withTable
  simp only [withSdk_failure, withSdk_tables, withSdk_sdk]
  cases c.failure with
  | some f => cases f <;> rfl
  | none =>
    simp only
    cases alookup t c.tables with
    | none => rfl
    | some tb =>
      simp only
      cases Key.getKey tb.schema tb.attrs key with
      | error _ => rfl
      | ok k => rfl

theorem searchOnce_sdk (c : Client) (t : Bytes) (q : Table.Query) (ex : Exprs) :
    searchOnce (c.withSdk .v2) t q ex =
      match searchOnce (c.withSdk .v1) t q ex with
      | .ok (items, lek) => .ok (items.map (outItem .v2), outItem .v2 lek)
      | .error o => .error o := by
  unfold searchOnce
  simp only [withSdk_failure, withSdk_tables, withSdk_matcher, withSdk_sdk]
  cases c.failure with
  | some f => rfl
  | none =>
    simp only
    generalize (if q.scan = true then [[], q.filter] else [q.keyCond, q.filter, []]) = exprs
    by_cases hv : (!validateExprAttrs ex exprs) = true
    · simp only [hv, if_true]
    · have hv' : validateExprAttrs ex exprs = true := by simpa using hv
      simp only [hv', Bool.not_true, Bool.false_eq_true, if_false]
      cases alookup t c.tables with
      | none => rfl
      | some tb =>
        simp only
        cases hi : (!q.index.isEmpty && !ahas q.index tb.indexes) with
        | true => simp only [if_true]
        | false =>
          simp only [Bool.false_eq_true, if_false]
          cases hs : (!startKeyOk tb q) with
          | true => simp only [if_true]
          | false =>
            simp only [Bool.false_eq_true, if_false]
            cases tb.searchData (matcher c t ex) q with
            | ok r => simp [outItem]
            | error cls => rfl

theorem query_sdk (c : Client) (t : Bytes) (q : Table.Query) (ex : Exprs) :
    query (c.withSdk .v2) t q ex =
      ((query (c.withSdk .v1) t q ex).1.withSdk .v2, mapOut (outItem .v2) (query (c.withSdk .v1) t q ex).2) := by
  unfold query
  rw [searchOnce_sdk]
  cases h : searchOnce (c.withSdk .v1) t q ex with
  | ok r => obtain ⟨items, lek⟩ := r; simp [mapOut, withSdk]
  | error o =>
    simp only
    -- an error of a read carries no item
    have : mapOut (outItem .v2) o = o := by
      unfold searchOnce at h
      simp only [withSdk_failure, withSdk_tables] at h
      cases hf : c.failure with
      | some f => rw [hf] at h; cases f <;> (cases h; rfl)
      | none =>
        rw [hf] at h
        simp only at h
        generalize (if q.scan = true then [[], q.filter] else [q.keyCond, q.filter, []]) = exprs at h
        by_cases hv : (!validateExprAttrs ex exprs) = true
        · simp only [hv, if_true] at h; cases h; rfl
        · have hv' : validateExprAttrs ex exprs = true := by simpa using hv
          simp only [hv', Bool.not_true, Bool.false_eq_true, if_false] at h
          cases ht : alookup t c.tables with
          | none => rw [ht] at h; cases h; rfl
          | some tb =>
            rw [ht] at h
            simp only at h
            cases hi : (!q.index.isEmpty && !ahas q.index tb.indexes) with
            | true => rw [hi] at h; simp only [if_true] at h; cases h; rfl
            | false =>
              rw [hi] at h
              simp only [Bool.false_eq_true, if_false] at h
              cases hs : (!startKeyOk tb q) with
              | true => rw [hs] at h; simp only [if_true] at h; cases h; rfl
              | false =>
                rw [hs] at h
                simp only [Bool.false_eq_true, if_false] at h
                split at h
                · cases h
                · cases h; rfl
    rw [this]; rfl

/-- a batch write: same state, same output (its output carries requests, not stored items) -/
theorem applyWrite_sdk (c : Client) (s : Sdk) (t : Bytes) (r : WriteReq) :
    applyWrite (c.withSdk s) t r = ((applyWrite c t r).1.withSdk s, (applyWrite c t r).2) := by
  cases r with
  | put item => exact putItem_sdk c s t item none {}
  | both item k => exact putItem_sdk c s t item none {}
  | neither => rfl
  | del key =>
    simp only [applyWrite]
    unfold deleteItem withTable
    simp only [withSdk_failure, withSdk_tables, withSdk_matcher, withSdk_sdk]
    cases c.failure with
    | some f => rfl
    | none =>
      simp only
      split
      · rfl
      · cases alookup t c.tables with
        | none => rfl
        | some tb =>
          simp only
          cases h : tb.delete (matcher c t {}) key none with
          | ok r => rfl
          | error e => cases e <;> first | rfl | (simp only [writeErrOut]; split <;> rfl)

theorem batchWrite_go_sdk (s : Sdk) (flat : List (Bytes × WriteReq)) :
    ∀ (c : Client) (unp : List (Bytes × List WriteReq)),
    batchWrite.go (c.withSdk s) unp flat = ((batchWrite.go c unp flat).1.withSdk s, (batchWrite.go c unp flat).2) := by
  induction flat with
  | nil => intro c unp; rfl
  | cons p rest ih =>
    intro c unp
    obtain ⟨t, r⟩ := p
    simp only [batchWrite.go]
    rw [applyWrite_sdk]
    generalize applyWrite c t r = res
    obtain ⟨c', o⟩ := res
    simp only
    cases o with
    | err cls it =>
      cases cls <;> first | exact ih _ _ | rfl
    | panicErr cls => rfl
    | _ => exact ih _ _

theorem batchWrite_sdk (c : Client) (s : Sdk) (reqs : List (Bytes × List WriteReq)) :
    batchWrite (c.withSdk s) reqs = ((batchWrite c reqs).1.withSdk s, (batchWrite c reqs).2) := by
  unfold batchWrite
  simp only
  split
  · rfl
  · exact batchWrite_go_sdk s _ c []

/-- the outputs of single writes inside a batch carry no stored item -/
theorem applyWrite_noitem (f : Item → Item) (c : Client) (t : Bytes) (r : WriteReq) :
    mapOut f (applyWrite c t r).2 = (applyWrite c t r).2 := by
  have hput : ∀ item, mapOut f (putItem c t item none {}).2 = (putItem c t item none {}).2 := by
    intro item
    unfold putItem withTable
    cases c.failure with
    | some fl => cases fl <;> rfl
    | none =>
      simp only
      split
      · rfl
      · cases alookup t c.tables with
        | none => rfl
        | some tb =>
          simp only
          cases tb.put (matcher c t {}) item none with
          | ok t' => rfl
          | error e => cases e <;> first | rfl | (simp only [writeErrOut]; split <;> rfl)
  cases r with
  | put item => exact hput item
  | both item k => exact hput item
  | neither => rfl
  | del key =>
    simp only [applyWrite]
    unfold deleteItem withTable
    cases c.failure with
    | some fl => cases fl <;> rfl
    | none =>
      simp only
      split
      · rfl
      · cases alookup t c.tables with
        | none => rfl
        | some tb =>
          simp only
          cases tb.delete (matcher c t {}) key none with
          | ok r => rfl
          | error e => cases e <;> first | rfl | (simp only [writeErrOut]; split <;> rfl)

theorem batchWrite_go_noitem (f : Item → Item) (flat : List (Bytes × WriteReq)) :
    ∀ (c : Client) (unp : List (Bytes × List WriteReq)),
    mapOut f (batchWrite.go c unp flat).2 = (batchWrite.go c unp flat).2 := by
  induction flat with
  | nil => intro c unp; rfl
  | cons p rest ih =>
    intro c unp
    obtain ⟨t, r⟩ := p
    simp only [batchWrite.go]
    have h := applyWrite_noitem f c t r
    generalize applyWrite c t r = res at h
    obtain ⟨c', o⟩ := res
    simp only at h ⊢
    cases o with
    | err cls it =>
      cases cls <;> first | exact ih _ _ | exact h
    | panicErr cls => rfl
    | _ => exact ih _ _

theorem batchWrite_noitem (f : Item → Item) (c : Client) (reqs : List (Bytes × List WriteReq)) :
    mapOut f (batchWrite c reqs).2 = (batchWrite c reqs).2 := by
  unfold batchWrite
  simp only
  split
  · rfl
  · exact batchWrite_go_noitem f _ c []

theorem updateTable_sdk (c : Client) (s : Sdk) (n : Bytes) (chs : List IndexChange) :
    updateTable (c.withSdk s) n chs = ((updateTable c n chs).1.withSdk s, (updateTable c n chs).2) := by
  unfold updateTable
  simp only [withSdk_tables]
  cases alookup n c.tables with
  | none => rfl
  | some t =>
    simp only
    split
    · rfl
    · split <;> rfl

theorem updateTable_noitem (f : Item → Item) (c : Client) (n : Bytes) (chs : List IndexChange) :
    mapOut f (updateTable c n chs).2 = (updateTable c n chs).2 := by
  unfold updateTable
  cases alookup n c.tables with
  | none => rfl
  | some t =>
    simp only
    split
    · rfl
    · split <;> rfl

/-- **C17**: away from the difference points, a v2 step is the v1 step with the returned
    items passed through the v2 output mapper, and leaves the same stored state -/
theorem step_v2_is_mapped_v1 (c : Client) (op : Op) (h : isDifferencePoint op = false) :
    step (c.withSdk .v2) op =
      ((step (c.withSdk .v1) op).1.withSdk .v2, mapOut (outItem .v2) (step (c.withSdk .v1) op).2) := by
  cases op with
  | createTable r =>
    simp only [step, createTable, withSdk_tables]
    by_cases hh : ahas r.table c.tables = true
    · simp [hh, mapOut, withSdk]
    · simp only [hh]
      cases buildTable r <;> simp [mapOut, withSdk]
  | deleteTable n =>
    simp only [step, withSdk_tables]
    cases alookup n c.tables <;> rfl
  | describeTable n =>
    simp only [step, withTable, withSdk_tables]
    cases alookup n c.tables <;> rfl
  | updateTable n chs =>
    simp only [step]
    rw [updateTable_sdk c .v2, updateTable_sdk c .v1, updateTable_noitem]
    rfl
  | clearTable n =>
    simp only [step, withTable, withSdk_tables]
    cases alookup n c.tables <;> rfl
  | put t item cond ex =>
    simp only [step]
    rw [putItem_sdk c .v2, putItem_sdk c .v1]
    have : mapOut (outItem .v2) (putItem c t item cond ex).2 = (putItem c t item cond ex).2 := by
      unfold putItem withTable
      cases c.failure with
      | some fl => cases fl <;> rfl
      | none =>
        simp only
        split
        · rfl
        · cases alookup t c.tables with
          | none => rfl
          | some tb =>
            simp only
            cases tb.put (matcher c t ex) item cond with
            | ok t' => rfl
            | error e => cases e <;> first | rfl | (simp only [writeErrOut]; split <;> rfl)
    simp only [this]; rfl
  | update t key expr cond ex rf =>
    have : rf = false := by simpa [isDifferencePoint] using h
    subst this
    exact updateItem_sdk c t key expr cond ex
  | delete t key cond ex ro => exact deleteItem_sdk c t key cond ex ro
  | get t key => exact getItem_sdk c t key
  | query t q ex => exact query_sdk c t q ex
  | pages t q ex da mx => simp [isDifferencePoint] at h
  | batchWrite reqs =>
    simp only [step]
    rw [batchWrite_sdk c .v2, batchWrite_sdk c .v1, batchWrite_noitem]
    rfl
  | batchGet reqs => simp [isDifferencePoint] at h
  | transactWrite =>
    simp only [step, withSdk_failure]
    cases c.failure with
    | none => rfl
    | some fl => cases fl <;> rfl
  | setFailure f => rfl
  | activateNative => rfl
  | setInterpreter => rfl
  | registerMatcher t kind expr id => rfl
  | registerUpdater t expr id => rfl

/-- the stored state never depends on the SDK flavour (difference points included, except
    paginated reads, whose deletions are addressed through the mapped key) -/
theorem step_state_sdk (c : Client) (op : Op) (h : isDifferencePoint op = false) :
    (step (c.withSdk .v2) op).1.tables = (step (c.withSdk .v1) op).1.tables := by
  rw [step_v2_is_mapped_v1 c op h]; rfl

/-! ### when no returned value is empty the outputs are identical -/

def NoEmptyOut : Out → Bool
  | .item (some it) => NoEmptyKvs it
  | .search items _ lek => items.all NoEmptyKvs && NoEmptyKvs lek
  | .err _ (some it) => NoEmptyKvs it
  | _ => true

theorem mapOut_id_of_noEmpty (o : Out) (h : NoEmptyOut o = true) : mapOut (outItem .v2) o = o := by
  cases o with
  | item it =>
    cases it with
    | none => rfl
    | some it => simp only [mapOut, Option.map]; rw [v2_roundtrip_partial it h]
  | search items n lek =>
    simp only [NoEmptyOut, Bool.and_eq_true, List.all_eq_true] at h
    simp only [mapOut]
    rw [v2_roundtrip_partial lek h.2]
    congr 1
    have : ∀ it ∈ items, outItem .v2 it = it := fun it hit => v2_roundtrip_partial it (h.1 it hit)
    clear h
    induction items with
    | nil => rfl
    | cons a rest ih =>
      simp only [List.map_cons]
      rw [this a (by simp), ih (fun it hit => this it (by simp [hit]))]
  | err cls it =>
    cases it with
    | none => rfl
    | some it => simp only [mapOut, Option.map]; rw [v2_roundtrip_partial it h]
  | _ => rfl

/-- **C17, partial** (what is missing: values that are an empty binary, list, map or set —
    `KF-C10-v2-empty-as-null` — and the difference points): same outcome at every step -/
theorem outputs_equal_partial (c : Client) (op : Op) (h : isDifferencePoint op = false)
    (hne : NoEmptyOut (step (c.withSdk .v1) op).2 = true) :
    (step (c.withSdk .v2) op).2 = (step (c.withSdk .v1) op).2 := by
  rw [step_v2_is_mapped_v1 c op h]
  exact mapOut_id_of_noEmpty _ hne

/-- the difference points themselves: the v1 client has no BatchGetItem -/
theorem v1_has_no_batchGet (c : Client) (reqs : List (Bytes × List Item)) :
    (step (c.withSdk .v1) (.batchGet reqs)).2 = .na := rfl

end Client
end Minidyn
