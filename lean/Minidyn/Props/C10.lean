/-
  Minidyn.Props.C10 — attribute values survive a write/read round trip.

  The SDK v1 mappers copy every field (`outItem .v1 = id`, `v1_roundtrip`).  The SDK v2 output
  mapper `outV2` is the identity on every value tree that contains no empty binary, list, map or
  set at any depth (`v2_roundtrip_partial`, by induction on the tree); all four read paths (Get,
  Query, Scan, BatchGet) go through that one mapper (`read_paths_share_mapper`).
  The full statement is false through the v2 client: `v2_refuted_empty_list` &c. — the known
  finding KF-C10-v2-empty-as-null, pinned by baseline tests.
-/
import Minidyn.Model.Client
namespace Minidyn.Props.C10
open Minidyn Minidyn.Client

theorem v1_roundtrip (it : Item) : outItem .v1 it = it := rfl

/- no empty binary / list / map / set anywhere in the tree -/
mutual
  def NoEmpty : AV → Bool
    | .b v => !v.isEmpty
    | .l xs => !xs.isEmpty && NoEmptyList xs
    | .m kvs => !kvs.isEmpty && NoEmptyKvs kvs
    | .ss xs => !xs.isEmpty
    | .ns xs => !xs.isEmpty
    | .bs xs => !xs.isEmpty
    | _ => true
  def NoEmptyList : List AV → Bool
    | [] => true
    | x :: xs => NoEmpty x && NoEmptyList xs
  def NoEmptyKvs : List (Bytes × AV) → Bool
    | [] => true
    | (_, x) :: xs => NoEmpty x && NoEmptyKvs xs
end

mutual
  theorem outV2_id : ∀ v : AV, NoEmpty v = true → outV2 v = v
    | .s _, _ => rfl
    | .n _, _ => rfl
    | .bool _, _ => rfl
    | .null, _ => rfl
    | .b v, h => by simp only [NoEmpty, Bool.not_eq_true'] at h; simp [outV2, h]
    | .ss xs, h => by simp only [NoEmpty, Bool.not_eq_true'] at h; simp [outV2, h]
    | .ns xs, h => by simp only [NoEmpty, Bool.not_eq_true'] at h; simp [outV2, h]
    | .bs xs, h => by simp only [NoEmpty, Bool.not_eq_true'] at h; simp [outV2, h]
    | .l xs, h => by
      simp only [NoEmpty, Bool.and_eq_true, Bool.not_eq_true'] at h
      simp [outV2, h.1, outV2List_id xs h.2]
    | .m kvs, h => by
      simp only [NoEmpty, Bool.and_eq_true, Bool.not_eq_true'] at h
      simp [outV2, h.1, outV2Kvs_id kvs h.2]
  theorem outV2List_id : ∀ xs : List AV, NoEmptyList xs = true → outV2List xs = xs
    | [], _ => rfl
    | x :: xs, h => by
      simp only [NoEmptyList, Bool.and_eq_true] at h
      simp [outV2List, outV2_id x h.1, outV2List_id xs h.2]
  theorem outV2Kvs_id : ∀ kvs : List (Bytes × AV), NoEmptyKvs kvs = true → outV2Kvs kvs = kvs
    | [], _ => rfl
    | (k, x) :: xs, h => by
      simp only [NoEmptyKvs, Bool.and_eq_true] at h
      simp [outV2Kvs, outV2_id x h.1, outV2Kvs_id xs h.2]
end

/-- v2 round trip for items without empty containers, to any depth -/
theorem v2_roundtrip_partial (it : Item) (h : NoEmptyKvs it = true) : outItem .v2 it = it := outV2Kvs_id it h

/-- every read path hands the stored item to the same mapper -/
theorem read_paths_share_mapper (c : Client) (t : Bytes) (key : Item) (tb : Table) (k : Bytes)
    (hf : c.failure = none) (ht : alookup t c.tables = some tb) (hk : Key.getKey tb.schema tb.attrs key = .ok k) :
    (getItem c t key).2 = .item (some (outItem c.sdk (tb.getItem k))) := by
  simp [getItem, hf, withTable, ht, hk]

/-- the full statement fails through the v2 client (known finding, pinned by baseline tests) -/
theorem v2_refuted_empty_list : outV2 (.l []) = .null := rfl
theorem v2_refuted_empty_map : outV2 (.m []) = .null := rfl
theorem v2_refuted_empty_binary : outV2 (.b []) = .null := rfl
theorem v2_refuted_nested : outV2 (.m [([107], .l [])]) = .m [([107], .null)] := rfl

/-- non-vacuity: a deep tree of all ten types without empty members -/
example : NoEmpty (.m [([97], .l [.s [], .n [49], .b [0], .bool false, .null, .ss [[120]], .ns [[49]], .bs [[1]], .m [([107], .l [.s [121]])]])]) = true := by
  decide

end Minidyn.Props.C10
