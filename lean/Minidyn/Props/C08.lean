/-
  Minidyn.Props.C08 — a request that fails leaves no trace.

  Every single-item operation and every read of `Model.Client` that answers an error, or raises
  the documented panic of an interpreter error, returns the client state it was given
  (`*_fail_unchanged`): validation failures, unknown table, failed conditions, key and index-key
  type errors, every interpreter error.  At table level a failing `put`/`update`/`delete` yields
  `Except.error`, which carries no table; the index-key check (`validateIndexKeys`) happens
  before the first write, which is what makes a write all-or-nothing across the base table and
  its indexes.  Not covered (known finding KF-C08-batch-partial): BatchWriteItem applies its
  requests one by one and may fail after some were applied (`batchWrite_partial_trace`).
  A failing UpdateTable keeps neither the attribute definitions nor the index changes of the request
  (`updateTable_fail_unchanged`).
-/
import Minidyn.Model.Client
namespace Minidyn.Props.C08
open Minidyn Minidyn.Client

def isFailure : Out → Bool
  | .err _ _ | .panicErr _ => true
  | _ => false

theorem withTable_fail {c : Client} {name : Bytes} {f : Table → Client × Out}
    (hf : ∀ t, isFailure (f t).2 = true → (f t).1 = c) (h : isFailure (withTable c name f).2 = true) :
    (withTable c name f).1 = c := by
  unfold withTable at h ⊢
  cases hl : alookup name c.tables with
  | none => rfl
  | some t => simp only [hl] at h ⊢; exact hf t h

theorem put_fail_unchanged (c : Client) (t item cond ex) (h : isFailure (putItem c t item cond ex).2 = true) :
    (putItem c t item cond ex).1 = c := by
  unfold putItem at h ⊢
  cases hf : c.failure with
  | some f => simp
  | none =>
    simp only [hf] at h ⊢
    by_cases hv : validateExprAttrs ex [cond.getD []] = true
    · simp only [hv, Bool.not_true, Bool.false_eq_true, if_false] at h ⊢
      refine withTable_fail ?_ h
      intro tb hfail
      cases hp : tb.put (matcher c t ex) item cond with
      | ok t' => simp [hp, isFailure] at hfail
      | error e => simp
    · simp [hv]

theorem update_fail_unchanged (c : Client) (t key expr cond ex rf)
    (h : isFailure (updateItem c t key expr cond ex rf).2 = true) : (updateItem c t key expr cond ex rf).1 = c := by
  unfold updateItem at h ⊢
  cases hf : c.failure with
  | some f => simp
  | none =>
    simp only [hf] at h ⊢
    by_cases hv : validateExprAttrs ex [expr, cond.getD []] = true
    · simp only [hv, Bool.not_true, Bool.false_eq_true, if_false] at h ⊢
      refine withTable_fail ?_ h
      intro tb hfail
      cases hp : tb.update (matcher c t ex) (updater c t expr ex) key cond with
      | ok r => simp [hp, isFailure] at hfail
      | error e => simp
    · simp [hv]

theorem delete_fail_unchanged (c : Client) (t key cond ex ro)
    (h : isFailure (deleteItem c t key cond ex ro).2 = true) : (deleteItem c t key cond ex ro).1 = c := by
  unfold deleteItem at h ⊢
  cases hf : c.failure with
  | some f => simp
  | none =>
    simp only [hf] at h ⊢
    by_cases hv : validateExprAttrs ex [cond.getD []] = true
    · simp only [hv, Bool.not_true, Bool.false_eq_true, if_false] at h ⊢
      refine withTable_fail ?_ h
      intro tb hfail
      cases hp : tb.delete (matcher c t ex) key cond with
      | ok r =>
        obtain ⟨t', old⟩ := r
        simp only [hp] at hfail
        cases ro <;> simp [isFailure] at hfail
      | error e => simp
    · simp [hv]

/-- reads never change the state, whatever they answer -/
theorem get_unchanged (c : Client) (t key) : (getItem c t key).1 = c := by
  unfold getItem
  cases hf : c.failure with
  | some f => simp
  | none =>
    simp only [withTable]
    cases hl : alookup t c.tables with
    | none => rfl
    | some tb => simp only; split <;> rfl

theorem query_unchanged (c : Client) (t q ex) : (query c t q ex).1 = c := by
  unfold query; split <;> rfl

/-- the all-or-nothing order of `Table.put`: an item whose index key has the wrong type is
    rejected before anything is written (the result carries no table) -/
theorem put_bad_index_key_rejected {t : Table} {m : Matcher} {item : Item} {key : Bytes}
    (hk : Key.getKey t.schema t.attrs item = .ok key) (hv : t.validateIndexKeys item = false) :
    t.put m item none = .error .validation := by
  simp [Table.put, hk, Table.checkCondition, hv, bind, Except.bind]

/-- the recorded finding, on the model: a batch whose second request has no key has applied the
    first one when it returns the validation error -/
theorem batchWrite_partial_trace :
    let c0 : Client := (createTable { sdk := .v2 } { table := [116, 97, 98], key := { hash := ([104], [83]) } }).1
    let r := batchWrite c0 [([116, 97, 98], [.put [([104], .s [97])], .put [([120], .s [97])]])]
    (match r.2 with | .err .validation _ => true | _ => false) = true ∧
    ((alookup [116, 97, 98] r.1.tables).map (·.sortedKeys)) = some [[97]] := by
  decide

/-- **C08**: an UpdateTable that fails — unknown table, a definition that re-types a key attribute in use, an index
    that cannot be created, an index to delete that does not exist, at any position of the list of changes —
    leaves the client exactly as it was: no definition, no index of the request remains -/
theorem updateTable_fail_unchanged (c : Client) (name : Bytes) (chs : List IndexChange)
    (h : isFailure (updateTable c name chs).2 = true) : (updateTable c name chs).1 = c := by
  unfold updateTable at h ⊢
  cases ht : alookup name c.tables with
  | none => rfl
  | some t =>
    simp only [ht] at h ⊢
    split
    · rfl
    · rename_i hr
      rw [if_neg hr] at h
      generalize updateTable.go _ chs = res at h ⊢
      obtain ⟨t', e⟩ := res
      cases e with
      | none => simp [isFailure] at h
      | some cls => rfl

/-- non-vacuity: the second change fails, the index created by the first one is not there afterwards -/
example :
    let c0 : Client := (createTable { sdk := .v2 } { table := [116], key := { hash := ([104], [83]) }, payPerRequest := true }).1
    let r := updateTable c0 [116] [.create { name := [105], key := { hash := ([103], [83]) } }, .delete [122]]
    isFailure r.2 = true ∧ ((alookup [116] r.1.tables).map (·.indexes.length)) = some 0 := by decide +kernel

end Minidyn.Props.C08
