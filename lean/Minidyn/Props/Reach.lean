/-
  Every reachable state of the client satisfies the invariants the read theorems assume.

  `ClientInv`  : every table satisfies `TableInv` (the sorted key list is sorted, duplicate-free and is exactly the
                 key set of the stored data);
  `ClientInv2` : … and every index of every table satisfies `IndexInv` (its sorted keys are the sorted multiset of the
                 index keys of its references, one reference per primary key);
  `ClientInv3` : … and every index agrees with its table (`IndexAgree`): for every primary key it holds exactly the
                 index key of the stored item, nothing when the item lacks the key attributes.
  Each holds for a new client and is preserved by EVERY operation of the model — data operations, batches, paginated
  reads with deletions in between, table and index creation (with backfill) and removal, test helpers — hence by every
  history (`reachable_inv`, `reachable_inv2`, `reachable_inv3`).  This discharges, for all states a user of the library
  can reach, the hypotheses of `C02.search_exact`, `C04.page_spec`, `C03.aligned` and `C03.index_search_exact`, and it
  is C03's "at every point of any history" as a theorem.  The one proviso (`SafeOp`): an UpdateTable must not redefine,
  with another type, an attribute that an existing index uses as key — DynamoDB rejects such a request, the library
  does not check it, the generators do not produce it.
-/
import Minidyn.Props.C01
import Minidyn.Props.C18
import Minidyn.Props.C03
import Minidyn.Props.C02
import Minidyn.Props.C03Read
import Minidyn.Lemmas.Search
namespace Minidyn.Props.Reach
open Minidyn Minidyn.Client Minidyn.Props.C01 Minidyn.Props.C03

def ClientInv (c : Client) : Prop := ∀ n t, alookup n c.tables = some t → TableInv t

theorem inv_new (sdk : Sdk) : ClientInv { sdk := sdk } := by
  intro n t h; simp [alookup] at h

/-- the invariant only looks at the key list and the data -/
theorem tableInv_of_same {t t' : Table} (h : TableInv t) (hk : t'.sortedKeys = t.sortedKeys) (hd : t'.data = t.data) : TableInv t' :=
  ⟨by rw [hk]; exact h.sorted, by rw [hk]; exact h.nodup, by rw [hd]; exact h.dataNodup, by intro k; rw [hk, hd]; exact h.memIff k⟩

theorem inv_setTable (c : Client) (n : Bytes) (t : Table) (hc : ClientInv c) (ht : TableInv t) : ClientInv (setTable c n t) := by
  intro m t' h
  simp only [setTable] at h
  by_cases hm : m = n
  · subst hm; rw [alookup_ainsert_self] at h; cases h; exact ht
  · rw [alookup_ainsert_ne _ _ hm] at h; exact hc m t' h

theorem inv_tables_eq (c c' : Client) (hc : ClientInv c) (h : c'.tables = c.tables) : ClientInv c' := by
  intro n t ht; rw [h] at ht; exact hc n t ht

theorem inv_erase (c : Client) (n : Bytes) (hc : ClientInv c) : ClientInv { c with tables := aerase n c.tables } := by
  intro m t h
  by_cases hm : m = n
  · subst hm; simp only [alookup_aerase_self] at h; cases h
  · simp only [alookup_aerase_ne _ hm] at h; exact hc m t h

/-! ### data operations -/

theorem inv_putItem (c : Client) (table : Bytes) (item : Item) (cond : Option Bytes) (ex : Exprs) (hc : ClientInv c) :
    ClientInv (putItem c table item cond ex).1 := by
  unfold putItem withTable
  cases c.failure with
  | some f => exact hc
  | none =>
    simp only
    split
    · exact hc
    · cases ht : alookup table c.tables with
      | none => exact hc
      | some t =>
        simp only
        cases hp : t.put (matcher c table ex) item cond with
        | error e => exact hc
        | ok t' =>
          obtain ⟨_, _, hinv, _⟩ := put_ok (hc table t ht) hp
          exact inv_setTable c table t' hc hinv

theorem inv_updateItem (c : Client) (table : Bytes) (key : Item) (expr : Bytes) (cond : Option Bytes) (ex : Exprs) (rf : Bool)
    (hc : ClientInv c) : ClientInv (updateItem c table key expr cond ex rf).1 := by
  unfold updateItem withTable
  cases c.failure with
  | some f => exact hc
  | none =>
    simp only
    split
    · exact hc
    · cases ht : alookup table c.tables with
      | none => exact hc
      | some t =>
        simp only
        cases hp : t.update (matcher c table ex) (updater c table expr ex) key cond with
        | error e => exact hc
        | ok r =>
          obtain ⟨t', res⟩ := r
          obtain ⟨_, _, hinv, _⟩ := update_ok (hc table t ht) hp
          exact inv_setTable c table t' hc hinv

theorem inv_deleteItem (c : Client) (table : Bytes) (key : Item) (cond : Option Bytes) (ex : Exprs) (ro : Bool)
    (hc : ClientInv c) : ClientInv (deleteItem c table key cond ex ro).1 := by
  unfold deleteItem withTable
  cases c.failure with
  | some f => exact hc
  | none =>
    simp only
    split
    · exact hc
    · cases ht : alookup table c.tables with
      | none => exact hc
      | some t =>
        simp only
        cases hp : t.delete (matcher c table ex) key cond with
        | error e => exact hc
        | ok r =>
          obtain ⟨t', old⟩ := r
          obtain ⟨_, _, hinv, _⟩ := delete_ok (hc table t ht) hp
          exact inv_setTable c table t' hc hinv

theorem getItem_state (c : Client) (table : Bytes) (key : Item) : (getItem c table key).1 = c := by
  unfold getItem withTable
  cases c.failure with
  | some f => rfl
  | none =>
    simp only
    cases alookup table c.tables with
    | none => rfl
    | some t => simp only; split <;> rfl

theorem query_state (c : Client) (table : Bytes) (q : Table.Query) (ex : Exprs) : (query c table q ex).1 = c := by
  unfold query; split <;> rfl

theorem inv_pagesLoop (table : Bytes) (ex : Exprs) (da : Option Nat) : ∀ (fuel n : Nat) (q : Table.Query) (c : Client)
    (acc : List (List Item × Item)), ClientInv c → ClientInv (pagesLoop table q ex da fuel n c acc).1 := by
  intro fuel
  induction fuel with
  | zero => intro n q c acc hc; exact hc
  | succ fuel ih =>
    intro n q c acc hc
    simp only [pagesLoop]
    cases searchOnce c table q ex with
    | error o =>
      simp only
      split
      · exact hc
      · split <;> exact hc
    | ok r =>
      obtain ⟨items, lek⟩ := r
      simp only
      split
      · exact hc
      · apply ih
        split
        · cases alookup table c.tables with
          | none => exact hc
          | some t => exact inv_deleteItem c table _ none {} false hc
        · exact hc

theorem inv_applyWrite (c : Client) (table : Bytes) (r : WriteReq) (hc : ClientInv c) : ClientInv (applyWrite c table r).1 := by
  cases r with
  | put item => exact inv_putItem c table item none {} hc
  | both item k => exact inv_putItem c table item none {} hc
  | del key => exact inv_deleteItem c table key none {} false hc
  | neither => exact hc

theorem inv_batchWrite_go : ∀ (flat : List (Bytes × WriteReq)) (c : Client) (unp : List (Bytes × List WriteReq)),
    ClientInv c → ClientInv (batchWrite.go c unp flat).1 := by
  intro flat
  induction flat with
  | nil => intro c unp hc; exact hc
  | cons p rest ih =>
    intro c unp hc
    obtain ⟨t, r⟩ := p
    have h1 := inv_applyWrite c t r hc
    simp only [batchWrite.go]
    generalize applyWrite c t r = res at h1
    obtain ⟨c', o⟩ := res
    simp only at h1 ⊢
    cases o with
    | err cls it => cases cls <;> first | exact ih _ _ h1 | exact h1
    | panicErr cls => exact h1
    | _ => exact ih _ _ h1

theorem inv_batchWrite (c : Client) (reqs : List (Bytes × List WriteReq)) (hc : ClientInv c) : ClientInv (batchWrite c reqs).1 := by
  unfold batchWrite
  simp only
  split
  · exact hc
  · exact inv_batchWrite_go _ c [] hc

theorem batchGet_state (c : Client) (reqs : List (Bytes × List Item)) : (batchGet c reqs).1 = c := by
  unfold batchGet
  split
  · rfl
  · cases c.failure <;> rfl

/-! ### table management -/

theorem inv_createTable (c : Client) (r : CreateTable) (hc : ClientInv c) : ClientInv (createTable c r).1 := by
  unfold createTable
  split
  · exact hc
  · cases hb : buildTable r with
    | none => exact hc
    | some t =>
      obtain ⟨hk, hd, _⟩ := C18.buildTable_empty hb
      intro m t' h
      simp only at h
      by_cases hm : m = r.table
      · subst hm; rw [alookup_ainsert_self] at h; cases h; exact tableInv_new t hk hd
      · rw [alookup_ainsert_ne _ _ hm] at h; exact hc m t' h

theorem updateTable_go_keeps : ∀ (chs : List IndexChange) (t : Table),
    (updateTable.go t chs).1.sortedKeys = t.sortedKeys ∧ (updateTable.go t chs).1.data = t.data := by
  intro chs
  induction chs with
  | nil => intro t; exact ⟨rfl, rfl⟩
  | cons ch rest ih =>
    intro t
    cases ch with
    | create d =>
      simp only [updateTable.go]
      cases ha : addGlobalIndex t (isPPR t) d with
      | none => exact ⟨rfl, rfl⟩
      | some t' =>
        simp only
        have h1 := C18.addGlobalIndex_keeps ha
        have h2 := ih t'
        exact ⟨h2.1.trans h1.1, h2.2.trans h1.2.1⟩
    | delete n =>
      simp only [updateTable.go]
      split
      · have h2 := ih { t with indexes := aerase n t.indexes }
        exact ⟨h2.1, h2.2⟩
      · exact ⟨rfl, rfl⟩

theorem inv_updateTable (c : Client) (name : Bytes) (chs : List IndexChange) (hc : ClientInv c) : ClientInv (updateTable c name chs).1 := by
  unfold updateTable
  cases ht : alookup name c.tables with
  | none => exact hc
  | some t =>
    simp only
    split
    · exact hc
    · generalize List.foldl _ t.attrs _ = A
      have hk := updateTable_go_keeps chs { t with attrs := A }
      have hinv : TableInv (updateTable.go { t with attrs := A } chs).1 :=
        tableInv_of_same (hc name t ht) hk.1 hk.2
      generalize updateTable.go _ chs = res at hinv
      obtain ⟨t', e⟩ := res
      simp only at hinv ⊢
      cases e
      · exact inv_setTable c name t' hc hinv
      · exact hc

/-! ### every operation, every history -/

theorem step_inv (c : Client) (op : Op) (hc : ClientInv c) : ClientInv (step c op).1 := by
  cases op with
  | createTable r => exact inv_createTable c r hc
  | deleteTable n =>
    simp only [step]
    cases alookup n c.tables with
    | none => exact hc
    | some t => exact inv_erase c n hc
  | describeTable n =>
    simp only [step, withTable]
    cases alookup n c.tables <;> exact hc
  | updateTable n chs => exact inv_updateTable c n chs hc
  | clearTable n =>
    simp only [step, withTable]
    cases alookup n c.tables with
    | none => exact hc
    | some t => exact inv_setTable c n t.clear hc (tableInv_new _ rfl rfl)
  | put t item cond ex => exact inv_putItem c t item cond ex hc
  | update t key expr cond ex rf => exact inv_updateItem c t key expr cond ex rf hc
  | delete t key cond ex ro => exact inv_deleteItem c t key cond ex ro hc
  | get t key => simp only [step]; rw [getItem_state]; exact hc
  | query t q ex => simp only [step]; rw [query_state]; exact hc
  | pages t q ex da mx => exact inv_pagesLoop t ex da mx 0 q c [] hc
  | batchWrite reqs => exact inv_batchWrite c reqs hc
  | batchGet reqs => simp only [step]; rw [batchGet_state]; exact hc
  | transactWrite => simp only [step]; cases c.failure <;> exact hc
  | setFailure f => exact inv_tables_eq c _ hc rfl
  | activateNative => exact inv_tables_eq c _ hc rfl
  | setInterpreter => exact inv_tables_eq c _ hc rfl
  | registerMatcher t kind expr id => exact inv_tables_eq c _ hc rfl
  | registerUpdater t expr id => exact inv_tables_eq c _ hc rfl

/-- **every reachable state**: whatever operations a client has executed, all its tables satisfy the invariant -/
theorem run_inv : ∀ (ops : List Op) (c : Client), ClientInv c → ClientInv (run c ops).1 := by
  intro ops
  induction ops with
  | nil => intro c hc; exact hc
  | cons op rest ih =>
    intro c hc
    simp only [run]
    have h1 := step_inv c op hc
    generalize step c op = r at h1
    obtain ⟨c', o⟩ := r
    have h2 := ih c' h1
    generalize run c' rest = r2 at h2
    obtain ⟨c'', os⟩ := r2
    exact h2

theorem reachable_inv (sdk : Sdk) (ops : List Op) : ClientInv (run { sdk := sdk } ops).1 :=
  run_inv ops _ (inv_new sdk)


/-! ### every index of every reachable table is internally consistent -/

/-- every index of the table satisfies `IndexInv` (sorted keys = sorted multiset of the references' index keys, one
    reference per primary key) -/
def IxInv (t : Table) : Prop := ∀ n ix, alookup n t.indexes = some ix → IndexInv ix

theorem alookup_map {β γ : Type} (f : β → γ) (n : Bytes) : ∀ (m : List (Bytes × β)),
    alookup n (m.map fun (p : Bytes × β) => (p.1, f p.2)) = (alookup n m).map f
  | [] => rfl
  | (k, v) :: t => by
    simp only [List.map_cons, alookup]
    split
    · rfl
    · exact alookup_map f n t

theorem ixInv_mapIndexes (t : Table) (f : Index → Index) (h : IxInv t) (hf : ∀ ix, IndexInv ix → IndexInv (f ix)) :
    IxInv (t.mapIndexes f) := by
  intro n ix hl
  have : (t.mapIndexes f).indexes = t.indexes.map fun (p : Bytes × Index) => (p.1, f p.2) := rfl
  rw [this, alookup_map] at hl
  cases h0 : alookup n t.indexes with
  | none => rw [h0] at hl; cases hl
  | some ix0 => rw [h0] at hl; cases hl; exact hf ix0 (h n ix0 h0)

theorem indexInv_setOrKeep (attrs : List (Bytes × Bytes)) (key : Bytes) (item : Item) (ix : Index) (h : IndexInv ix) :
    IndexInv (match ix.set attrs key item with | .ok ix' => ix' | .error _ => ix) := by
  cases hs : ix.set attrs key item with
  | error e => exact h
  | ok ix' => obtain ⟨_, _, hi, _⟩ := set_ok h hs; exact hi

theorem setItem_indexes (t : Table) (k : Bytes) (item : Item) : (t.setItem k item).indexes = t.indexes := by
  unfold Table.setItem; split <;> rfl

theorem ixInv_of_indexes {t t' : Table} (h : IxInv t) (he : t'.indexes = t.indexes) : IxInv t' := by
  intro n ix hl; rw [he] at hl; exact h n ix hl

theorem ixInv_put {t t' : Table} {m : Matcher} {item : Item} {cond : Option Bytes} (h : IxInv t)
    (hp : t.put m item cond = .ok t') : IxInv t' := by
  unfold Table.put at hp
  split at hp
  · cases hp
  · rename_i key _
    simp only [bind, Except.bind] at hp
    split at hp
    · cases hp
    · split at hp
      · cases hp
      · simp only [pure, Except.pure] at hp
        cases hp
        exact ixInv_mapIndexes _ _ (ixInv_of_indexes h (setItem_indexes t key item)) (indexInv_setOrKeep _ key item)

theorem ixInv_update {t t' : Table} {m : Matcher} {upd : Table.Updater} {keyAttrs : Item} {cond : Option Bytes} {res : Item}
    (h : IxInv t) (hp : t.update m upd keyAttrs cond = .ok (t', res)) : IxInv t' := by
  unfold Table.update at hp
  split at hp
  · cases hp
  · rename_i key _
    simp only [bind, Except.bind] at hp
    split at hp
    · cases hp
    · split at hp
      · cases hp
      · rename_i item _
        split at hp
        · cases hp
        · simp only [pure, Except.pure] at hp
          cases hp
          exact ixInv_mapIndexes _ _ (ixInv_of_indexes h (setItem_indexes t key _)) (indexInv_setOrKeep _ key _)

theorem ixInv_delete {t t' : Table} {m : Matcher} {keyAttrs : Item} {cond : Option Bytes} {old : Option Item}
    (h : IxInv t) (hp : t.delete m keyAttrs cond = .ok (t', old)) : IxInv t' := by
  unfold Table.delete at hp
  split at hp
  · cases hp
  · rename_i key _
    simp only [bind, Except.bind] at hp
    split at hp
    · cases hp
    · split at hp
      · simp only [pure, Except.pure] at hp; cases hp; exact h
      · split at hp
        · simp only [pure, Except.pure] at hp; cases hp; exact ixInv_of_indexes h rfl
        · simp only [pure, Except.pure] at hp; cases hp
          exact ixInv_mapIndexes _ _ (ixInv_of_indexes h rfl) (fun ix hi => indexInv_remove hi key)

theorem ixInv_clear (t : Table) : IxInv t.clear := by
  intro n ix hl
  have : t.clear.indexes = t.indexes.map fun (p : Bytes × Index) => (p.1, p.2.clear) := rfl
  rw [this, alookup_map] at hl
  cases h0 : alookup n t.indexes with
  | none => rw [h0] at hl; cases hl
  | some ix0 => rw [h0] at hl; cases hl; exact ⟨trivial, List.Perm.refl _, List.nodup_nil⟩

theorem ixInv_insert (t : Table) (name : Bytes) (ix : Index) (h : IxInv t) (hi : IndexInv ix) :
    IxInv { t with indexes := ainsert name ix t.indexes } := by
  intro n ix' hl
  by_cases hn : n = name
  · subst hn; simp only [alookup_ainsert_self] at hl; cases hl; exact hi
  · simp only [alookup_ainsert_ne _ _ hn] at hl; exact h n ix' hl

theorem indexInv_backfill (attrs : List (Bytes × Bytes)) (get : Bytes → Item) : ∀ (keys : List Bytes) (ix : Index), IndexInv ix →
    IndexInv (keys.foldl (fun ix key => match ix.set attrs key (get key) with | .ok ix' => ix' | .error _ => ix) ix) := by
  intro keys
  induction keys with
  | nil => intro ix h; exact h
  | cons k ks ih => intro ix h; exact ih _ (indexInv_setOrKeep attrs k (get k) ix h)

theorem ixInv_addGlobalIndex {t t' : Table} {ppr : Bool} {d : IndexDef} (h : IxInv t) (ha : addGlobalIndex t ppr d = some t') : IxInv t' := by
  unfold addGlobalIndex at ha
  simp only at ha
  repeat (split at ha; · simp at ha)
  simp only [Option.some.injEq] at ha
  subst ha
  exact ixInv_insert t _ _ h (indexInv_backfill _ _ _ _ (indexInv_new _ _))

theorem ixInv_addLocalIndex {t t' : Table} {d : IndexDef} (h : IxInv t) (ha : addLocalIndex t d = some t') : IxInv t' := by
  unfold addLocalIndex at ha
  simp only at ha
  repeat (split at ha; · simp at ha)
  simp only [Option.some.injEq] at ha
  subst ha
  exact ixInv_insert t _ _ h (indexInv_new _ _)

theorem ixInv_addIndexes {f : Table → IndexDef → Option Table} (hf : ∀ t t' d, IxInv t → f t d = some t' → IxInv t') :
    ∀ (ds : List IndexDef) (t t' : Table), IxInv t → addIndexes f ds t = some t' → IxInv t' := by
  intro ds
  induction ds with
  | nil => intro t t' h ha; simp [addIndexes] at ha; subst ha; exact h
  | cons d ds ih =>
    intro t t' h ha
    simp only [addIndexes] at ha
    cases hfd : f t d with
    | none => simp [hfd] at ha
    | some t1 => simp only [hfd] at ha; exact ih t1 t' (hf t t1 d h hfd) ha

theorem ixInv_buildTable {r : CreateTable} {t : Table} (hb : buildTable r = some t) : IxInv t := by
  unfold buildTable at hb
  simp only at hb
  split at hb
  · simp at hb
  · split at hb
    · simp at hb
    · unfold addAllIndexes at hb
      have h0 : IxInv (baseTable r) := by intro n ix hl; simp [baseTable] at hl
      cases hg : addIndexes (fun t d => addGlobalIndex t r.payPerRequest d) (r.gsi.getD []) (baseTable r) with
      | none => simp [hg] at hb
      | some t1 =>
        simp only [hg] at hb
        have h1 := ixInv_addIndexes (fun _ _ _ h ha => ixInv_addGlobalIndex h ha) _ _ _ h0 hg
        exact ixInv_addIndexes (fun _ _ _ h ha => ixInv_addLocalIndex h ha) _ _ _ h1 hb

theorem ixInv_updateTable_go : ∀ (chs : List IndexChange) (t : Table), IxInv t → IxInv (updateTable.go t chs).1 := by
  intro chs
  induction chs with
  | nil => intro t h; exact h
  | cons ch rest ih =>
    intro t h
    cases ch with
    | create d =>
      simp only [updateTable.go]
      cases ha : addGlobalIndex t (isPPR t) d with
      | none => exact h
      | some t' => exact ih t' (ixInv_addGlobalIndex h ha)
    | delete n =>
      simp only [updateTable.go]
      split
      · apply ih
        intro m ix hl
        by_cases hm : m = n
        · subst hm; simp only [alookup_aerase_self] at hl; cases hl
        · simp only [alookup_aerase_ne _ hm] at hl; exact h m ix hl
      · exact h

/-- the invariant of the whole client: every table, and every index of every table -/
def ClientInv2 (c : Client) : Prop := ∀ n t, alookup n c.tables = some t → TableInv t ∧ IxInv t

theorem inv2_new (sdk : Sdk) : ClientInv2 { sdk := sdk } := by
  intro n t h; simp [alookup] at h

theorem inv2_setTable (c : Client) (n : Bytes) (t : Table) (hc : ClientInv2 c) (ht : TableInv t) (hi : IxInv t) :
    ClientInv2 (setTable c n t) := by
  intro m t' h
  simp only [setTable] at h
  by_cases hm : m = n
  · subst hm; rw [alookup_ainsert_self] at h; cases h; exact ⟨ht, hi⟩
  · rw [alookup_ainsert_ne _ _ hm] at h; exact hc m t' h

theorem inv2_putItem (c : Client) (table : Bytes) (item : Item) (cond : Option Bytes) (ex : Exprs) (hc : ClientInv2 c) :
    ClientInv2 (putItem c table item cond ex).1 := by
  unfold putItem withTable
  cases c.failure with
  | some f => exact hc
  | none =>
    simp only
    split
    · exact hc
    · cases ht : alookup table c.tables with
      | none => exact hc
      | some t =>
        simp only
        cases hp : t.put (matcher c table ex) item cond with
        | error e => exact hc
        | ok t' =>
          obtain ⟨_, _, hinv, _⟩ := put_ok (hc table t ht).1 hp
          exact inv2_setTable c table t' hc hinv (ixInv_put (hc table t ht).2 hp)

theorem inv2_updateItem (c : Client) (table : Bytes) (key : Item) (expr : Bytes) (cond : Option Bytes) (ex : Exprs) (rf : Bool)
    (hc : ClientInv2 c) : ClientInv2 (updateItem c table key expr cond ex rf).1 := by
  unfold updateItem withTable
  cases c.failure with
  | some f => exact hc
  | none =>
    simp only
    split
    · exact hc
    · cases ht : alookup table c.tables with
      | none => exact hc
      | some t =>
        simp only
        cases hp : t.update (matcher c table ex) (updater c table expr ex) key cond with
        | error e => exact hc
        | ok r =>
          obtain ⟨t', res⟩ := r
          obtain ⟨_, _, hinv, _⟩ := update_ok (hc table t ht).1 hp
          exact inv2_setTable c table t' hc hinv (ixInv_update (hc table t ht).2 hp)

theorem inv2_deleteItem (c : Client) (table : Bytes) (key : Item) (cond : Option Bytes) (ex : Exprs) (ro : Bool)
    (hc : ClientInv2 c) : ClientInv2 (deleteItem c table key cond ex ro).1 := by
  unfold deleteItem withTable
  cases c.failure with
  | some f => exact hc
  | none =>
    simp only
    split
    · exact hc
    · cases ht : alookup table c.tables with
      | none => exact hc
      | some t =>
        simp only
        cases hp : t.delete (matcher c table ex) key cond with
        | error e => exact hc
        | ok r =>
          obtain ⟨t', old⟩ := r
          obtain ⟨_, _, hinv, _⟩ := delete_ok (hc table t ht).1 hp
          exact inv2_setTable c table t' hc hinv (ixInv_delete (hc table t ht).2 hp)

theorem inv2_pagesLoop (table : Bytes) (ex : Exprs) (da : Option Nat) : ∀ (fuel n : Nat) (q : Table.Query) (c : Client)
    (acc : List (List Item × Item)), ClientInv2 c → ClientInv2 (pagesLoop table q ex da fuel n c acc).1 := by
  intro fuel
  induction fuel with
  | zero => intro n q c acc hc; exact hc
  | succ fuel ih =>
    intro n q c acc hc
    simp only [pagesLoop]
    cases searchOnce c table q ex with
    | error o =>
      simp only
      split
      · exact hc
      · split <;> exact hc
    | ok r =>
      obtain ⟨items, lek⟩ := r
      simp only
      split
      · exact hc
      · apply ih
        split
        · cases alookup table c.tables with
          | none => exact hc
          | some t => exact inv2_deleteItem c table _ none {} false hc
        · exact hc

theorem inv2_applyWrite (c : Client) (table : Bytes) (r : WriteReq) (hc : ClientInv2 c) : ClientInv2 (applyWrite c table r).1 := by
  cases r with
  | put item => exact inv2_putItem c table item none {} hc
  | both item k => exact inv2_putItem c table item none {} hc
  | del key => exact inv2_deleteItem c table key none {} false hc
  | neither => exact hc

theorem inv2_batchWrite_go : ∀ (flat : List (Bytes × WriteReq)) (c : Client) (unp : List (Bytes × List WriteReq)),
    ClientInv2 c → ClientInv2 (batchWrite.go c unp flat).1 := by
  intro flat
  induction flat with
  | nil => intro c unp hc; exact hc
  | cons p rest ih =>
    intro c unp hc
    obtain ⟨t, r⟩ := p
    have h1 := inv2_applyWrite c t r hc
    simp only [batchWrite.go]
    generalize applyWrite c t r = res at h1
    obtain ⟨c', o⟩ := res
    simp only at h1 ⊢
    cases o with
    | err cls it => cases cls <;> first | exact ih _ _ h1 | exact h1
    | panicErr cls => exact h1
    | _ => exact ih _ _ h1

theorem inv2_tables_eq (c c' : Client) (hc : ClientInv2 c) (h : c'.tables = c.tables) : ClientInv2 c' := by
  intro n t ht; rw [h] at ht; exact hc n t ht

/-- **every operation keeps every table and every index consistent** -/
theorem step_inv2 (c : Client) (op : Op) (hc : ClientInv2 c) : ClientInv2 (step c op).1 := by
  cases op with
  | createTable r =>
    simp only [step, createTable]
    split
    · exact hc
    · cases hb : buildTable r with
      | none => exact hc
      | some t =>
        obtain ⟨hk, hd, _⟩ := C18.buildTable_empty hb
        intro m t' h
        simp only at h
        by_cases hm : m = r.table
        · subst hm; rw [alookup_ainsert_self] at h; cases h; exact ⟨tableInv_new t hk hd, ixInv_buildTable hb⟩
        · rw [alookup_ainsert_ne _ _ hm] at h; exact hc m t' h
  | deleteTable n =>
    simp only [step]
    cases alookup n c.tables with
    | none => exact hc
    | some t =>
      intro m t' h
      by_cases hm : m = n
      · subst hm; simp only [alookup_aerase_self] at h; cases h
      · simp only [alookup_aerase_ne _ hm] at h; exact hc m t' h
  | describeTable n =>
    simp only [step, withTable]
    cases alookup n c.tables <;> exact hc
  | updateTable name chs =>
    simp only [step, updateTable]
    cases ht : alookup name c.tables with
    | none => exact hc
    | some t =>
      simp only
      split
      · exact hc
      · generalize List.foldl _ t.attrs _ = A
        have hk := updateTable_go_keeps chs { t with attrs := A }
        have hinv : TableInv (updateTable.go { t with attrs := A } chs).1 :=
          tableInv_of_same (hc name t ht).1 hk.1 hk.2
        have hix : IxInv (updateTable.go { t with attrs := A } chs).1 :=
          ixInv_updateTable_go chs _ (ixInv_of_indexes (hc name t ht).2 rfl)
        generalize updateTable.go _ chs = res at hinv hix
        obtain ⟨t', e⟩ := res
        simp only at hinv hix ⊢
        cases e
        · exact inv2_setTable c name t' hc hinv hix
        · exact hc
  | clearTable n =>
    simp only [step, withTable]
    cases alookup n c.tables with
    | none => exact hc
    | some t => exact inv2_setTable c n t.clear hc (tableInv_new _ rfl rfl) (ixInv_clear t)
  | put t item cond ex => exact inv2_putItem c t item cond ex hc
  | update t key expr cond ex rf => exact inv2_updateItem c t key expr cond ex rf hc
  | delete t key cond ex ro => exact inv2_deleteItem c t key cond ex ro hc
  | get t key => simp only [step]; rw [getItem_state]; exact hc
  | query t q ex => simp only [step]; rw [query_state]; exact hc
  | pages t q ex da mx => exact inv2_pagesLoop t ex da mx 0 q c [] hc
  | batchWrite reqs =>
    simp only [step, batchWrite]
    split
    · exact hc
    · exact inv2_batchWrite_go _ c [] hc
  | batchGet reqs => simp only [step]; rw [batchGet_state]; exact hc
  | transactWrite => simp only [step]; cases c.failure <;> exact hc
  | setFailure f => exact inv2_tables_eq c _ hc rfl
  | activateNative => exact inv2_tables_eq c _ hc rfl
  | setInterpreter => exact inv2_tables_eq c _ hc rfl
  | registerMatcher t kind expr id => exact inv2_tables_eq c _ hc rfl
  | registerUpdater t expr id => exact inv2_tables_eq c _ hc rfl

theorem run_inv2 : ∀ (ops : List Op) (c : Client), ClientInv2 c → ClientInv2 (run c ops).1 := by
  intro ops
  induction ops with
  | nil => intro c hc; exact hc
  | cons op rest ih =>
    intro c hc
    simp only [run]
    have h1 := step_inv2 c op hc
    generalize step c op = r at h1
    obtain ⟨c', o⟩ := r
    have h2 := ih c' h1
    generalize run c' rest = r2 at h2
    obtain ⟨c'', os⟩ := r2
    exact h2

/-- **every reachable state of the client**: all tables satisfy `TableInv`, all their indexes `IndexInv` — the
    hypotheses of `C02.search_exact`, `C04.page_spec`, `C03.aligned` and `C03.index_search_exact` -/
theorem reachable_inv2 (sdk : Sdk) (ops : List Op) : ClientInv2 (run { sdk := sdk } ops).1 :=
  run_inv2 ops _ (inv2_new sdk)


/-! ### every index of every reachable table mirrors the table (C03 for whole histories) -/

theorem expectedRef_congr {t t' : Table} (ix : Index) (hd : t'.data = t.data) (ha : t'.attrs = t.attrs) (pk : Bytes) :
    expectedRef t' ix pk = expectedRef t ix pk := by
  unfold expectedRef; rw [hd, ha]

theorem agree_congr {t t' : Table} {ix : Index} (h : IndexAgree t ix) (hd : t'.data = t.data) (ha : t'.attrs = t.attrs) :
    IndexAgree t' ix := fun pk => by rw [expectedRef_congr ix hd ha]; exact h pk

theorem set_schema {ix ix' : Index} {attrs : List (Bytes × Bytes)} {key : Bytes} {item : Item}
    (hs : ix.set attrs key item = .ok ix') : ix'.schema = ix.schema := by
  have hrem : (ix.remove key).schema = ix.schema := by
    unfold Index.remove; cases alookup key ix.refs <;> simp <;> split <;> rfl
  unfold Index.set at hs
  cases hk : Key.getKey ix.schema attrs item with
  | error e => simp [hk] at hs
  | ok ik =>
    simp only [hk] at hs
    split at hs <;> (cases hs; exact hrem)

theorem set_isOk {ix : Index} {attrs : List (Bytes × Bytes)} {key : Bytes} {item : Item} {ik : Bytes}
    (hk : Key.getKey ix.schema attrs item = .ok ik) : ∃ ix', ix.set attrs key item = .ok ix' := by
  unfold Index.set
  simp only [hk]
  split <;> exact ⟨_, rfl⟩

theorem mem_of_alookup {β} {n : Bytes} {v : β} : ∀ {m : List (Bytes × β)}, alookup n m = some v → (n, v) ∈ m
  | [], h => by cases h
  | (k, w) :: t, h => by
    simp only [alookup] at h
    by_cases hk : (k == n) = true
    · simp only [hk, if_true, Option.some.injEq] at h
      have : k = n := by simpa using hk
      subst this; subst h; simp
    · simp only [hk] at h
      exact List.mem_cons_of_mem _ (mem_of_alookup h)

/-- the table invariant together with: every index is consistent and mirrors the table -/
structure TblInv (t : Table) : Prop where
  table : TableInv t
  index : ∀ n ix, alookup n t.indexes = some ix → IndexInv ix ∧ IndexAgree t ix

theorem validate_set_ok {t : Table} {item : Item} (hv : t.validateIndexKeys item = true) {n : Bytes} {ix : Index}
    (hl : alookup n t.indexes = some ix) (key : Bytes) : ∃ ix', ix.set t.attrs key item = .ok ix' := by
  unfold Table.validateIndexKeys at hv
  have := List.all_eq_true.1 hv (n, ix) (mem_of_alookup hl)
  have h2 : (Key.getKey ix.schema t.attrs item).toBool = true := this
  cases hk : Key.getKey ix.schema t.attrs item with
  | error e => rw [hk] at h2; simp [Except.toBool] at h2
  | ok ik => exact set_isOk hk

/-- a table whose data received `item` under `key` and whose indexes were mapped by a function that performs
    `Index.set` wherever that succeeds -/
theorem tblInv_mapSet (t t1 : Table) (key : Bytes) (item : Item) (f : Index → Index) (h : TblInv t) (hv : t.validateIndexKeys item = true)
    (hf : ∀ ix ix', ix.set t.attrs key item = .ok ix' → f ix = ix')
    (hT : TableInv t1) (hdata : t1.data = ainsert key item t.data) (hattrs : t1.attrs = t.attrs)
    (hidx : t1.indexes = t.indexes.map fun (p : Bytes × Index) => (p.1, f p.2)) : TblInv t1 := by
  refine ⟨hT, ?_⟩
  intro n ix' hl
  rw [hidx, alookup_map] at hl
  cases h0 : alookup n t.indexes with
  | none => rw [h0] at hl; cases hl
  | some ix =>
    rw [h0] at hl
    simp only [Option.map_some, Option.some.injEq] at hl
    obtain ⟨ixs, hs⟩ := validate_set_ok hv h0 key
    rw [hf ix ixs hs] at hl
    subst hl
    obtain ⟨hi, ha⟩ := h.index n ix h0
    obtain ⟨_, _, hi', _⟩ := set_ok hi hs
    exact ⟨hi', agree_congr (agree_after_set hi ha hs (set_schema hs)) hdata hattrs⟩

/-- a write that stores `item` under `key` and sets it in every index keeps `TblInv` -/
theorem tblInv_write (t : Table) (key : Bytes) (item : Item) (h : TblInv t) (hv : t.validateIndexKeys item = true) :
    TblInv ((t.setItem key item).indexSet key item) := by
  have hattrs0 : (t.setItem key item).attrs = t.attrs := by unfold Table.setItem; split <;> rfl
  have hdata0 : (t.setItem key item).data = ainsert key item t.data := by unfold Table.setItem; split <;> rfl
  have hT := tableInv_indexSet (tableInv_setItem h.table key item) key item
  unfold Table.indexSet at hT ⊢
  refine tblInv_mapSet t _ key item (fun ix => match ix.set (t.setItem key item).attrs key item with | .ok ix' => ix' | .error _ => ix) h hv ?_ hT hdata0 hattrs0 ?_
  · intro ix ix' hs
    simp only [hattrs0, hs]
  · simp only [Table.mapIndexes, setItem_indexes]
    apply List.map_congr_left
    intro x _
    cases x.2.set (t.setItem key item).attrs key item <;> rfl

theorem tblInv_put {t t' : Table} {m : Matcher} {item : Item} {cond : Option Bytes} (h : TblInv t)
    (hp : t.put m item cond = .ok t') : TblInv t' := by
  unfold Table.put at hp
  split at hp
  · cases hp
  · rename_i key _
    simp only [bind, Except.bind] at hp
    split at hp
    · cases hp
    · cases hv : t.validateIndexKeys item with
      | false => simp [hv] at hp
      | true =>
        simp only [hv, Bool.not_true, Bool.false_eq_true, if_false, pure, Except.pure, Except.ok.injEq] at hp
        subst hp
        exact tblInv_write t key item h hv

theorem tblInv_update {t t' : Table} {m : Matcher} {upd : Table.Updater} {keyAttrs : Item} {cond : Option Bytes} {res : Item}
    (h : TblInv t) (hp : t.update m upd keyAttrs cond = .ok (t', res)) : TblInv t' := by
  unfold Table.update at hp
  split at hp
  · cases hp
  · rename_i key _
    simp only [bind, Except.bind] at hp
    split at hp
    · cases hp
    · split at hp
      · cases hp
      · rename_i item _
        cases hv : t.validateIndexKeys item with
        | false => simp [hv] at hp
        | true =>
          simp only [hv, Bool.not_true, Bool.false_eq_true, if_false, pure, Except.pure, Except.ok.injEq, Prod.mk.injEq] at hp
          obtain ⟨h1, h2⟩ := hp
          subst h1
          exact tblInv_write t key item h hv

theorem remove_schema (ix : Index) (key : Bytes) : (ix.remove key).schema = ix.schema := by
  unfold Index.remove; cases alookup key ix.refs <;> simp <;> split <;> rfl

theorem tblInv_delete {t t' : Table} {m : Matcher} {keyAttrs : Item} {cond : Option Bytes} {old : Option Item}
    (h : TblInv t) (hp : t.delete m keyAttrs cond = .ok (t', old)) : TblInv t' := by
  obtain ⟨key0, hk0, hT', _⟩ := delete_ok h.table hp
  unfold Table.delete at hp
  split at hp
  · cases hp
  · rename_i key hkey
    simp only [bind, Except.bind] at hp
    split at hp
    · cases hp
    · cases hst : alookup key t.data with
      | none => simp only [hst, pure, Except.pure, Except.ok.injEq, Prod.mk.injEq] at hp; obtain ⟨h1, _⟩ := hp; subst h1; exact h
      | some item =>
        simp only [hst] at hp
        have hmem : key ∈ t.sortedKeys := (h.table.memIff key).2 (by simp [ahas, hst])
        obtain ⟨hpos, _⟩ := searchStrings_of_mem h.table.sorted key hmem
        have hne : (searchStrings t.sortedKeys key == t.sortedKeys.length) = false := by simp; omega
        simp only [hne, Bool.false_eq_true, if_false, pure, Except.pure, Except.ok.injEq, Prod.mk.injEq] at hp
        obtain ⟨h1, _⟩ := hp
        subst h1
        refine ⟨hT', ?_⟩
        intro n ix' hl
        have hidx : (Table.mapIndexes { t with data := aerase key t.data, sortedKeys := removeAt t.sortedKeys (searchStrings t.sortedKeys key) }
            fun ix => ix.remove key).indexes = t.indexes.map fun (p : Bytes × Index) => (p.1, p.2.remove key) := rfl
        have hmap := alookup_map (fun ix : Index => ix.remove key) n t.indexes
        rw [hidx] at hl
        rw [show (List.map (fun (p : Bytes × Index) => (p.1, p.2.remove key)) t.indexes) = List.map (fun (p : Bytes × Index) => (p.1, (fun ix : Index => ix.remove key) p.2)) t.indexes from rfl, hmap] at hl
        cases h0 : alookup n t.indexes with
        | none => rw [h0] at hl; cases hl
        | some ix =>
          rw [h0] at hl
          simp only [Option.map_some, Option.some.injEq] at hl
          subst hl
          obtain ⟨hi, ha⟩ := h.index n ix h0
          exact ⟨indexInv_remove hi key, agree_congr (agree_after_remove ha) rfl rfl⟩

theorem tblInv_clear (t : Table) : TblInv t.clear := by
  refine ⟨tableInv_new _ rfl rfl, ?_⟩
  intro n ix hl
  have : t.clear.indexes = t.indexes.map fun (p : Bytes × Index) => (p.1, p.2.clear) := rfl
  rw [this, alookup_map] at hl
  cases h0 : alookup n t.indexes with
  | none => rw [h0] at hl; cases hl
  | some ix0 =>
    rw [h0] at hl; cases hl
    refine ⟨⟨trivial, List.Perm.refl _, List.nodup_nil⟩, ?_⟩
    intro pk
    simp [Index.clear, expectedRef, Table.clear]

/-! ### creating an index over a table that already holds items -/

theorem expectedRef_schema (t : Table) (ix ix' : Index) (h : ix'.schema = ix.schema) (pk : Bytes) :
    expectedRef t ix' pk = expectedRef t ix pk := by unfold expectedRef; rw [h]

theorem backfill_agree (t : Table) (hT : TableInv t) (f : Index → Bytes → Index)
    (hf_ok : ∀ ix key ix', ix.set t.attrs key (t.getItem key) = .ok ix' → f ix key = ix')
    (hf_err : ∀ ix key e, ix.set t.attrs key (t.getItem key) = .error e → f ix key = ix) :
    ∀ (keys done : List Bytes) (ix : Index), IndexInv ix →
    (∀ k ∈ keys, k ∈ t.sortedKeys) → (keys.Nodup) → (∀ k ∈ keys, k ∉ done) →
    (∀ pk, alookup pk ix.refs = if pk ∈ done then expectedRef t ix pk else none) →
    IndexInv (keys.foldl f ix) ∧ (keys.foldl f ix).schema = ix.schema ∧
      ∀ pk, alookup pk (keys.foldl f ix).refs = if pk ∈ done ++ keys then expectedRef t ix pk else none := by
  intro keys
  induction keys with
  | nil => intro done ix hi _ _ _ hP; exact ⟨hi, rfl, fun pk => by rw [List.append_nil]; exact hP pk⟩
  | cons k ks ih =>
    intro done ix hi hmem hnd hfresh hP
    simp only [List.foldl_cons]
    have hk : k ∈ t.sortedKeys := hmem k (by simp)
    have hstored := (hT.memIff k).1 hk
    simp only [ahas, Option.isSome_iff_exists] at hstored
    obtain ⟨item, hitem⟩ := hstored
    have hget : t.getItem k = item := by simp [Table.getItem, hitem]
    have hnd' := List.nodup_cons.1 hnd
    have hkd : k ∉ done := hfresh k (by simp)
    -- the state after this key
    have hstep : IndexInv (f ix k) ∧ (f ix k).schema = ix.schema ∧
        ∀ pk, alookup pk (f ix k).refs = if pk ∈ k :: done then expectedRef t ix pk else none := by
      cases hs : ix.set t.attrs k (t.getItem k) with
      | error e =>
        rw [hf_err ix k e hs]
        refine ⟨hi, rfl, ?_⟩
        intro pk
        by_cases hpk : pk = k
        · subst hpk
          rw [hP pk]; simp only [hkd, if_false, List.mem_cons, true_or, if_true]
          -- the key could not be computed: nothing is expected
          unfold expectedRef; rw [hitem]; simp only
          unfold Index.set at hs
          rw [hget] at hs
          cases hg : Key.getKey ix.schema t.attrs item with
          | error e' => rfl
          | ok ik => simp only [hg] at hs; split at hs <;> cases hs
        · rw [hP pk]; simp [hpk]
      | ok ix1 =>
        rw [hf_ok ix k ix1 hs]
        obtain ⟨ik, hik, hi1, hl⟩ := set_ok hi hs
        refine ⟨hi1, set_schema hs, ?_⟩
        intro pk
        rw [hl pk]
        by_cases hpk : pk = k
        · subst hpk
          simp only [if_true, List.mem_cons, true_or]
          unfold expectedRef; rw [hitem]; simp only
          rw [hget] at hik; rw [hik]
        · simp only [hpk, if_false, List.mem_cons, false_or]; exact hP pk
    obtain ⟨hi1, hs1, hP1⟩ := hstep
    have := ih (k :: done) (f ix k) hi1 (fun x hx => hmem x (by simp [hx])) hnd'.2
      (fun x hx hxd => by
        rcases List.mem_cons.1 hxd with rfl | hxd
        · exact hnd'.1 hx
        · exact hfresh x (by simp [hx]) hxd)
      (fun pk => by rw [hP1 pk]; simp only [expectedRef_schema t ix (f ix k) hs1])
    obtain ⟨a, b, c⟩ := this
    refine ⟨a, b.trans hs1, ?_⟩
    intro pk
    rw [c pk, expectedRef_schema t ix (f ix k) hs1]
    have hiff : (pk ∈ k :: done ++ ks) ↔ (pk ∈ done ++ k :: ks) := by
      simp only [List.cons_append, List.mem_cons, List.mem_append]
      constructor
      · rintro (h | h | h)
        · exact .inr (.inl h)
        · exact .inl h
        · exact .inr (.inr h)
      · rintro (h | h | h)
        · exact .inr (.inl h)
        · exact .inl h
        · exact .inr (.inr h)
    by_cases hin : pk ∈ k :: done ++ ks
    · rw [if_pos hin, if_pos (hiff.1 hin)]
    · rw [if_neg hin, if_neg (fun h' => hin (hiff.2 h'))]

theorem tblInv_insertIndex (t : Table) (name : Bytes) (ix : Index) (h : TblInv t) (hi : IndexInv ix) (ha : IndexAgree t ix) :
    TblInv { t with indexes := ainsert name ix t.indexes } := by
  refine ⟨tableInv_of_same h.table rfl rfl, ?_⟩
  intro n ix' hl
  by_cases hn : n = name
  · subst hn; simp only [alookup_ainsert_self] at hl; cases hl; exact ⟨hi, agree_congr ha rfl rfl⟩
  · simp only [alookup_ainsert_ne _ _ hn] at hl
    obtain ⟨a, b⟩ := h.index n ix' hl
    exact ⟨a, agree_congr b rfl rfl⟩

theorem tblInv_addGlobalIndex {t t' : Table} {ppr : Bool} {d : IndexDef} (h : TblInv t) (ha : addGlobalIndex t ppr d = some t') : TblInv t' := by
  unfold addGlobalIndex at ha
  simp only at ha
  repeat (split at ha; · simp at ha)
  simp only [Option.some.injEq] at ha
  subst ha
  have key : ∀ f : Index → Bytes → Index,
      (∀ ix key ix', ix.set t.attrs key (t.getItem key) = .ok ix' → f ix key = ix') →
      (∀ ix key e, ix.set t.attrs key (t.getItem key) = .error e → f ix key = ix) →
      TblInv { t with indexes := ainsert d.name (List.foldl f { schema := schemaOf d.key true, typ := .global } t.sortedKeys) t.indexes } := by
    intro f hok herr
    have hb := backfill_agree t h.table f hok herr
      t.sortedKeys [] { schema := schemaOf d.key true, typ := .global } (indexInv_new _ _)
      (fun k hk => hk) h.table.nodup (fun k _ hk => by cases hk) (fun pk => by simp [alookup])
    obtain ⟨hi, hs, hP⟩ := hb
    refine tblInv_insertIndex t _ _ h hi ?_
    intro pk
    rw [hP pk, expectedRef_schema t _ _ hs]
    simp only [List.nil_append]
    by_cases hin : pk ∈ t.sortedKeys
    · rw [if_pos hin]
    · rw [if_neg hin]
      have : alookup pk t.data = none := by
        cases hl : alookup pk t.data with
        | none => rfl
        | some it => exact absurd ((h.table.memIff pk).2 (by simp [ahas, hl])) hin
      unfold expectedRef; rw [this]
  exact key _ (fun ix key ix' hs => by simp only [hs]) (fun ix key e hs => by simp only [hs])

theorem tblInv_addLocalIndex {t t' : Table} {d : IndexDef} (h : TblInv t) (hd : t.data = []) (ha : addLocalIndex t d = some t') : TblInv t' := by
  unfold addLocalIndex at ha
  simp only at ha
  repeat (split at ha; · simp at ha)
  simp only [Option.some.injEq] at ha
  subst ha
  refine tblInv_insertIndex t _ _ h (indexInv_new _ _) ?_
  intro pk
  simp [expectedRef, hd, alookup]

theorem tblInv_addIndexes {f : Table → IndexDef → Option Table} (P : Table → Prop)
    (hf : ∀ t t' d, TblInv t → P t → f t d = some t' → TblInv t' ∧ P t') :
    ∀ (ds : List IndexDef) (t t' : Table), TblInv t → P t → addIndexes f ds t = some t' → TblInv t' ∧ P t' := by
  intro ds
  induction ds with
  | nil => intro t t' h hp ha; simp [addIndexes] at ha; subst ha; exact ⟨h, hp⟩
  | cons d ds ih =>
    intro t t' h hp ha
    simp only [addIndexes] at ha
    cases hfd : f t d with
    | none => simp [hfd] at ha
    | some t1 =>
      simp only [hfd] at ha
      obtain ⟨h1, p1⟩ := hf t t1 d h hp hfd
      exact ih t1 t' h1 p1 ha

theorem tblInv_buildTable {r : CreateTable} {t : Table} (hb : buildTable r = some t) : TblInv t := by
  unfold buildTable at hb
  simp only at hb
  split at hb
  · simp at hb
  · split at hb
    · simp at hb
    · unfold addAllIndexes at hb
      have h0 : TblInv (baseTable r) := ⟨tableInv_new _ rfl rfl, by intro n ix hl; simp [baseTable] at hl⟩
      cases hg : addIndexes (fun t d => addGlobalIndex t r.payPerRequest d) (r.gsi.getD []) (baseTable r) with
      | none => simp [hg] at hb
      | some t1 =>
        simp only [hg] at hb
        have h1 := tblInv_addIndexes (fun t => t.data = [])
          (fun t t' d h hp ha => ⟨tblInv_addGlobalIndex h ha, (C18.addGlobalIndex_keeps ha).2.1.trans hp⟩) _ _ _ h0 rfl hg
        exact (tblInv_addIndexes (fun t => t.data = [])
          (fun t t' d h hp ha => ⟨tblInv_addLocalIndex h hp ha, (C18.addLocalIndex_keeps ha).2.1.trans hp⟩) _ _ _ h1.1 h1.2 hb).1

theorem tblInv_updateTable_go : ∀ (chs : List IndexChange) (t : Table), TblInv t → TblInv (updateTable.go t chs).1 := by
  intro chs
  induction chs with
  | nil => intro t h; exact h
  | cons ch rest ih =>
    intro t h
    cases ch with
    | create d =>
      simp only [updateTable.go]
      cases ha : addGlobalIndex t (isPPR t) d with
      | none => exact h
      | some t' => exact ih t' (tblInv_addGlobalIndex h ha)
    | delete n =>
      simp only [updateTable.go]
      split
      · apply ih
        refine ⟨tableInv_of_same h.table rfl rfl, ?_⟩
        intro m ix hl
        by_cases hm : m = n
        · subst hm; simp only [alookup_aerase_self] at hl; cases hl
        · simp only [alookup_aerase_ne _ hm] at hl
          obtain ⟨a, b⟩ := h.index m ix hl
          exact ⟨a, agree_congr b rfl rfl⟩
      · exact h

/-- new attribute definitions that leave the definitions of every index key attribute as they are -/
def AttrsKeep (t : Table) (attrs' : List (Bytes × Bytes)) : Prop :=
  ∀ n ix, alookup n t.indexes = some ix →
    (alookup ix.schema.hash attrs').getD [] = (alookup ix.schema.hash t.attrs).getD [] ∧
    (alookup ix.schema.range attrs').getD [] = (alookup ix.schema.range t.attrs).getD []

theorem getKey_attrs_congr (ks : KeySchema) (attrs attrs' : List (Bytes × Bytes)) (item : Item)
    (hh : (alookup ks.hash attrs').getD [] = (alookup ks.hash attrs).getD [])
    (hr : (alookup ks.range attrs').getD [] = (alookup ks.range attrs).getD []) :
    Key.getKey ks attrs' item = Key.getKey ks attrs item := by
  unfold Key.getKey Key.keyValue Key.keyAttrValue Key.itemValue
  rw [hh, hr]

theorem tblInv_attrs (t : Table) (attrs' : List (Bytes × Bytes)) (h : TblInv t) (hk : AttrsKeep t attrs') :
    TblInv { t with attrs := attrs' } := by
  refine ⟨tableInv_of_same h.table rfl rfl, ?_⟩
  intro n ix hl
  obtain ⟨a, b⟩ := h.index n ix hl
  refine ⟨a, ?_⟩
  intro pk
  rw [b pk]
  unfold expectedRef
  cases alookup pk t.data with
  | none => rfl
  | some item =>
    simp only
    rw [getKey_attrs_congr ix.schema t.attrs attrs' item (hk n ix hl).1 (hk n ix hl).2]

theorem addGlobalIndex_attrs {t t' : Table} {ppr : Bool} {d : IndexDef} (h : addGlobalIndex t ppr d = some t') : t'.attrs = t.attrs := by
  unfold addGlobalIndex at h
  simp only at h
  repeat (split at h; · simp at h)
  simp only [Option.some.injEq] at h
  subst h; rfl

theorem updateTable_go_attrs : ∀ (chs : List IndexChange) (t : Table), (updateTable.go t chs).1.attrs = t.attrs := by
  intro chs
  induction chs with
  | nil => intro t; rfl
  | cons ch rest ih =>
    intro t
    cases ch with
    | create d =>
      simp only [updateTable.go]
      cases ha : addGlobalIndex t (isPPR t) d with
      | none => rfl
      | some t' => simp only; rw [ih t', addGlobalIndex_attrs ha]
    | delete n =>
      simp only [updateTable.go]
      split
      · rw [ih]
      · rfl

/-- the invariant of the whole client -/
def ClientInv3 (c : Client) : Prop := ∀ n t, alookup n c.tables = some t → TblInv t

theorem inv3_new (sdk : Sdk) : ClientInv3 { sdk := sdk } := by
  intro n t h; simp [alookup] at h

theorem inv3_setTable (c : Client) (n : Bytes) (t : Table) (hc : ClientInv3 c) (ht : TblInv t) : ClientInv3 (setTable c n t) := by
  intro m t' h
  simp only [setTable] at h
  by_cases hm : m = n
  · subst hm; rw [alookup_ainsert_self] at h; cases h; exact ht
  · rw [alookup_ainsert_ne _ _ hm] at h; exact hc m t' h

theorem inv3_putItem (c : Client) (table : Bytes) (item : Item) (cond : Option Bytes) (ex : Exprs) (hc : ClientInv3 c) :
    ClientInv3 (putItem c table item cond ex).1 := by
  unfold putItem withTable
  cases c.failure with
  | some f => exact hc
  | none =>
    simp only
    split
    · exact hc
    · cases ht : alookup table c.tables with
      | none => exact hc
      | some t =>
        simp only
        cases hp : t.put (matcher c table ex) item cond with
        | error e => exact hc
        | ok t' => exact inv3_setTable c table t' hc (tblInv_put (hc table t ht) hp)

theorem inv3_updateItem (c : Client) (table : Bytes) (key : Item) (expr : Bytes) (cond : Option Bytes) (ex : Exprs) (rf : Bool)
    (hc : ClientInv3 c) : ClientInv3 (updateItem c table key expr cond ex rf).1 := by
  unfold updateItem withTable
  cases c.failure with
  | some f => exact hc
  | none =>
    simp only
    split
    · exact hc
    · cases ht : alookup table c.tables with
      | none => exact hc
      | some t =>
        simp only
        cases hp : t.update (matcher c table ex) (updater c table expr ex) key cond with
        | error e => exact hc
        | ok r =>
          obtain ⟨t', res⟩ := r
          exact inv3_setTable c table t' hc (tblInv_update (hc table t ht) hp)

theorem inv3_deleteItem (c : Client) (table : Bytes) (key : Item) (cond : Option Bytes) (ex : Exprs) (ro : Bool)
    (hc : ClientInv3 c) : ClientInv3 (deleteItem c table key cond ex ro).1 := by
  unfold deleteItem withTable
  cases c.failure with
  | some f => exact hc
  | none =>
    simp only
    split
    · exact hc
    · cases ht : alookup table c.tables with
      | none => exact hc
      | some t =>
        simp only
        cases hp : t.delete (matcher c table ex) key cond with
        | error e => exact hc
        | ok r =>
          obtain ⟨t', old⟩ := r
          exact inv3_setTable c table t' hc (tblInv_delete (hc table t ht) hp)

theorem inv3_pagesLoop (table : Bytes) (ex : Exprs) (da : Option Nat) : ∀ (fuel n : Nat) (q : Table.Query) (c : Client)
    (acc : List (List Item × Item)), ClientInv3 c → ClientInv3 (pagesLoop table q ex da fuel n c acc).1 := by
  intro fuel
  induction fuel with
  | zero => intro n q c acc hc; exact hc
  | succ fuel ih =>
    intro n q c acc hc
    simp only [pagesLoop]
    cases searchOnce c table q ex with
    | error o =>
      simp only
      split
      · exact hc
      · split <;> exact hc
    | ok r =>
      obtain ⟨items, lek⟩ := r
      simp only
      split
      · exact hc
      · apply ih
        split
        · cases alookup table c.tables with
          | none => exact hc
          | some t => exact inv3_deleteItem c table _ none {} false hc
        · exact hc

theorem inv3_applyWrite (c : Client) (table : Bytes) (r : WriteReq) (hc : ClientInv3 c) : ClientInv3 (applyWrite c table r).1 := by
  cases r with
  | put item => exact inv3_putItem c table item none {} hc
  | both item k => exact inv3_putItem c table item none {} hc
  | del key => exact inv3_deleteItem c table key none {} false hc
  | neither => exact hc

theorem inv3_batchWrite_go : ∀ (flat : List (Bytes × WriteReq)) (c : Client) (unp : List (Bytes × List WriteReq)),
    ClientInv3 c → ClientInv3 (batchWrite.go c unp flat).1 := by
  intro flat
  induction flat with
  | nil => intro c unp hc; exact hc
  | cons p rest ih =>
    intro c unp hc
    obtain ⟨t, r⟩ := p
    have h1 := inv3_applyWrite c t r hc
    simp only [batchWrite.go]
    generalize applyWrite c t r = res at h1
    obtain ⟨c', o⟩ := res
    simp only at h1 ⊢
    cases o with
    | err cls it => cases cls <;> first | exact ih _ _ h1 | exact h1
    | panicErr cls => exact h1
    | _ => exact ih _ _ h1

theorem inv3_tables_eq (c c' : Client) (hc : ClientInv3 c) (h : c'.tables = c.tables) : ClientInv3 c' := by
  intro n t ht; rw [h] at ht; exact hc n t ht

/-- UpdateTable may add attribute definitions; the ones it gives for key attributes of existing indexes must not
    change their type (DynamoDB rejects such a request; the library does not check it) -/
def SafeOp (c : Client) : Op → Prop
  | .updateTable name chs => ∀ t t', alookup name c.tables = some t →
      alookup name (updateTable c name chs).1.tables = some t' → AttrsKeep t t'.attrs
  | _ => True

/-- **every operation keeps every index of every table in agreement with the table** -/
theorem step_inv3 (c : Client) (op : Op) (hc : ClientInv3 c) (hsafe : SafeOp c op) : ClientInv3 (step c op).1 := by
  cases op with
  | createTable r =>
    simp only [step, createTable]
    split
    · exact hc
    · cases hb : buildTable r with
      | none => exact hc
      | some t =>
        intro m t' h
        simp only at h
        by_cases hm : m = r.table
        · subst hm; rw [alookup_ainsert_self] at h; cases h; exact tblInv_buildTable hb
        · rw [alookup_ainsert_ne _ _ hm] at h; exact hc m t' h
  | deleteTable n =>
    simp only [step]
    cases alookup n c.tables with
    | none => exact hc
    | some t =>
      intro m t' h
      by_cases hm : m = n
      · subst hm; simp only [alookup_aerase_self] at h; cases h
      · simp only [alookup_aerase_ne _ hm] at h; exact hc m t' h
  | describeTable n =>
    simp only [step, withTable]
    cases alookup n c.tables <;> exact hc
  | updateTable name chs =>
    simp only [SafeOp] at hsafe
    simp only [step]
    unfold updateTable at hsafe ⊢
    cases ht : alookup name c.tables with
    | none => exact hc
    | some t =>
      simp only [ht] at hsafe ⊢
      split
      · exact hc
      · rename_i hr
        rw [if_neg hr] at hsafe
        generalize List.foldl _ t.attrs _ = A at hsafe ⊢
        have hattrs := updateTable_go_attrs chs { t with attrs := A }
        cases hres : updateTable.go { t with attrs := A } chs with
        | mk t' e =>
          rw [hres] at hsafe hattrs
          cases e with
          | some cls => exact hc
          | none =>
            simp only at hsafe hattrs ⊢
            have hkeep : AttrsKeep t A := by
              have := hsafe t t' rfl (by simp [alookup_ainsert_self])
              rw [hattrs] at this
              exact this
            have hinv := tblInv_updateTable_go chs { t with attrs := A } (tblInv_attrs t A (hc name t ht) hkeep)
            rw [hres] at hinv
            exact inv3_setTable c name t' hc hinv
  | clearTable n =>
    simp only [step, withTable]
    cases alookup n c.tables with
    | none => exact hc
    | some t => exact inv3_setTable c n t.clear hc (tblInv_clear t)
  | put t item cond ex => exact inv3_putItem c t item cond ex hc
  | update t key expr cond ex rf => exact inv3_updateItem c t key expr cond ex rf hc
  | delete t key cond ex ro => exact inv3_deleteItem c t key cond ex ro hc
  | get t key => simp only [step]; rw [getItem_state]; exact hc
  | query t q ex => simp only [step]; rw [query_state]; exact hc
  | pages t q ex da mx => exact inv3_pagesLoop t ex da mx 0 q c [] hc
  | batchWrite reqs =>
    simp only [step, batchWrite]
    split
    · exact hc
    · exact inv3_batchWrite_go _ c [] hc
  | batchGet reqs => simp only [step]; rw [batchGet_state]; exact hc
  | transactWrite => simp only [step]; cases c.failure <;> exact hc
  | setFailure f => exact inv3_tables_eq c _ hc rfl
  | activateNative => exact inv3_tables_eq c _ hc rfl
  | setInterpreter => exact inv3_tables_eq c _ hc rfl
  | registerMatcher t kind expr id => exact inv3_tables_eq c _ hc rfl
  | registerUpdater t expr id => exact inv3_tables_eq c _ hc rfl

/-- every operation of the history is safe in the state it is executed in -/
def SafeRun : Client → List Op → Prop
  | _, [] => True
  | c, op :: rest => SafeOp c op ∧ SafeRun (step c op).1 rest

/-- **C03 for whole histories**: in every state reachable by writes, deletes, clears, batches, paginated reads with
    deletions, table and index creation and removal, every secondary index is internally consistent and holds
    exactly — for every primary key — the index key of the stored item (nothing when the item lacks it) -/
theorem run_inv3 : ∀ (ops : List Op) (c : Client), ClientInv3 c → SafeRun c ops → ClientInv3 (run c ops).1 := by
  intro ops
  induction ops with
  | nil => intro c hc _; exact hc
  | cons op rest ih =>
    intro c hc hs
    simp only [run]
    have h1 := step_inv3 c op hc hs.1
    have hs2 := hs.2
    generalize step c op = r at h1 hs2
    obtain ⟨c', o⟩ := r
    have h2 := ih c' h1 hs2
    generalize run c' rest = r2 at h2
    obtain ⟨c'', os⟩ := r2
    exact h2

theorem reachable_inv3 (sdk : Sdk) (ops : List Op) (hs : SafeRun { sdk := sdk } ops) : ClientInv3 (run { sdk := sdk } ops).1 :=
  run_inv3 ops _ (inv3_new sdk) hs

/-! ### every UpdateTable is safe: the library rejects the definitions that would re-type a key attribute in use -/

theorem foldl_ainsert_getD (k : Bytes) : ∀ (defs : List (Bytes × Bytes)) (base : List (Bytes × Bytes)),
    (∀ p ∈ defs, p.1 = k → (alookup k base).getD [] = p.2) →
    (alookup k (defs.foldl (fun acc (p : Bytes × Bytes) => ainsert p.1 p.2 acc) base)).getD [] = (alookup k base).getD []
  | [], _, _ => rfl
  | (n, ty) :: rest, base, h => by
    simp only [List.foldl_cons]
    by_cases hn : n = k
    · subst hn
      have h1 : (alookup n base).getD [] = ty := h (n, ty) (by simp) rfl
      have h2 : alookup n (ainsert n ty base) = some ty := alookup_ainsert_self _ _ _
      rw [foldl_ainsert_getD n rest (ainsert n ty base) (by
        intro p hp hpk
        rw [h2]; simp only [Option.getD_some]
        rw [← h1]; exact h p (List.mem_cons_of_mem _ hp) hpk)]
      rw [h2, h1]; rfl
    · have h2 : alookup k (ainsert n ty base) = alookup k base := alookup_ainsert_ne _ _ (fun e => hn e.symm)
      rw [foldl_ainsert_getD k rest (ainsert n ty base) (by
        intro p hp hpk; rw [h2]; exact h p (List.mem_cons_of_mem _ hp) hpk)]
      rw [h2]

theorem index_attrs_inUse {t : Table} {n : Bytes} {ix : Index} (h : alookup n t.indexes = some ix) :
    ix.schema.hash ∈ keyAttrsInUse t ∧ ix.schema.range ∈ keyAttrsInUse t := by
  have hm := mem_of_alookup h
  unfold keyAttrsInUse
  constructor
  · apply List.mem_append_right
    exact List.mem_flatMap.2 ⟨(n, ix), hm, by simp⟩
  · apply List.mem_append_right
    exact List.mem_flatMap.2 ⟨(n, ix), hm, by simp⟩

theorem attrsKeep_of_not_redefines (t : Table) (defs : List (Bytes × Bytes)) (h : redefinesKeyAttr t defs = false) :
    AttrsKeep t (defs.foldl (fun acc (n, ty) => ainsert n ty acc) t.attrs) := by
  have hdef : ∀ p ∈ defs, p.1 ∈ keyAttrsInUse t → (alookup p.1 t.attrs).getD [] = p.2 := by
    intro p hp hin
    unfold redefinesKeyAttr at h
    have := List.any_eq_false.1 h p hp
    obtain ⟨n, ty⟩ := p
    simp only at this hin ⊢
    have h' : n ∈ keyAttrsInUse t → (alookup n t.attrs).getD [] = ty := by simpa using this
    exact h' hin
  intro n ix hl
  obtain ⟨hh, hr⟩ := index_attrs_inUse hl
  constructor
  · exact foldl_ainsert_getD _ defs t.attrs (fun p hp hk => by rw [← hk]; exact hdef p hp (by rw [hk]; exact hh))
  · exact foldl_ainsert_getD _ defs t.attrs (fun p hp hk => by rw [← hk]; exact hdef p hp (by rw [hk]; exact hr))

theorem attrsKeep_refl (t : Table) : AttrsKeep t t.attrs := fun _ _ _ => ⟨rfl, rfl⟩

/-- **every operation is safe in every state** -/
theorem safeOp_always (c : Client) (op : Op) : SafeOp c op := by
  cases op with
  | updateTable name chs =>
    simp only [SafeOp]
    intro t t' ht ht'
    unfold updateTable at ht'
    simp only [ht] at ht'
    split at ht'
    · simp only at ht'
      rw [ht] at ht'; cases ht'
      exact attrsKeep_refl t
    · rename_i hr
      have hkeep := attrsKeep_of_not_redefines t _ (by simpa using hr)
      generalize hA : List.foldl _ t.attrs _ = A at ht' hkeep
      have hattrs := updateTable_go_attrs chs { t with attrs := A }
      generalize updateTable.go { t with attrs := A } chs = res at ht' hattrs
      obtain ⟨t2, e⟩ := res
      simp only at ht' hattrs
      cases e with
      | none =>
        simp only [alookup_ainsert_self, Option.some.injEq] at ht'
        rw [← ht', hattrs]; exact hkeep
      | some cls =>
        simp only at ht'
        rw [ht] at ht'; cases ht'
        exact attrsKeep_refl t
  | _ => trivial

theorem safeRun_always : ∀ (ops : List Op) (c : Client), SafeRun c ops
  | [], _ => trivial
  | op :: rest, c => ⟨safeOp_always c op, safeRun_always rest _⟩

/-- **C03 for every history, unconditionally**: in every state reachable by any sequence of operations of the client
    — writes, deletes, clears, batches, paginated reads with deletions, table creation and deletion, index creation
    (with backfill) and removal, any UpdateTable — every secondary index is internally consistent and holds, for every
    primary key, exactly the index key of the stored item (nothing when the item lacks it) -/
theorem reachable_inv3_all (sdk : Sdk) (ops : List Op) : ClientInv3 (run { sdk := sdk } ops).1 :=
  reachable_inv3 sdk ops (safeRun_always ops _)

/-- histories without UpdateTable are always safe -/
theorem safeRun_of_no_updateTable : ∀ (ops : List Op) (c : Client), (∀ op ∈ ops, ∀ n chs, op ≠ .updateTable n chs) → SafeRun c ops := by
  intro ops
  induction ops with
  | nil => intro c _; trivial
  | cons op rest ih =>
    intro c h
    refine ⟨?_, ih _ (fun o ho => h o (by simp [ho]))⟩
    cases op with
    | updateTable n chs => exact absurd rfl (h _ (by simp) n chs)
    | _ => trivial


theorem alookup_of_mem_nodup' {m : List (Bytes × Bytes)} (hn : (keysOf m).Nodup) {r : Bytes × Bytes} (h : r ∈ m) : alookup r.1 m = some r.2 := by
  induction m with
  | nil => cases h
  | cons p rest ih =>
    obtain ⟨k0, v0⟩ := p
    simp only [keysOf, List.map_cons, List.nodup_cons] at hn
    simp only [alookup]
    rcases List.mem_cons.1 h with h | h
    · subst h; simp
    · have hne : (k0 == r.1) = false := by
        apply beq_eq_false_iff_ne.2
        intro e
        exact hn.1 (e ▸ List.mem_map_of_mem (f := (·.1)) h)
      simp only [hne, Bool.false_eq_true, if_false]
      exact ih hn.2 h

/-! ### the read theorems, for every reachable state -/

open Minidyn.Props.C02 in
/-- **C02 end to end**: in every state reachable by any history, an unpaginated Query or Scan of a table returns
    exactly the stored items that satisfy the request, in key order -/
theorem reachable_table_read (sdk : Sdk) (ops : List Op) (name : Bytes) (t : Table) (m : Matcher) (q : Table.Query)
    (ht : alookup name (run { sdk := sdk } ops).1.tables = some t)
    (hidx : q.index = []) (hl : q.limit = 0) (hsk : q.startKey = [])
    (ha : ∀ k item, alookup k t.data = some item → Answers m q item) :
    ∃ r, t.searchData m q = .ok r ∧
      r.items = pick t m q (if q.forward then t.sortedKeys else t.sortedKeys.reverse) ∧ r.lastKey = [] :=
  search_exact t m q (reachable_inv sdk ops name t ht) hidx hl hsk ha

open Minidyn.Props.C02 in
/-- **C03 end to end**: in every state reachable by a (safe) history, an unpaginated read through a secondary index
    returns exactly the stored items that have the index's key attributes — `referenced_iff` — once each, in
    (index key, primary key) order -/
theorem reachable_index_read (sdk : Sdk) (ops : List Op) (hs : SafeRun { sdk := sdk } ops) (name : Bytes) (t : Table) (ix : Index)
    (m : Matcher) (q : Table.Query)
    (ht : alookup name (run { sdk := sdk } ops).1.tables = some t)
    (hix : alookup q.index t.indexes = some ix) (hne : q.index.isEmpty = false) (hl : q.limit = 0) (hsk : q.startKey = [])
    (ha : ∀ k item, alookup k t.data = some item → Answers m q item) :
    (∃ r, t.searchData m q = .ok r ∧ r.items = pick t m q ((ix.sortedRefs q.forward).map (·.1)) ∧ r.lastKey = []) ∧
    (∀ pk, (alookup pk ix.refs).isSome = true ↔
      ∃ item ik, alookup pk t.data = some item ∧ Key.getKey ix.schema t.attrs item = .ok ik ∧ ik ≠ []) := by
  obtain ⟨hinv, hag⟩ := (reachable_inv3 sdk ops hs name t ht).index q.index ix hix
  refine ⟨index_search_exact t m q ix hix hne hinv hl hsk ?_, fun pk => referenced_iff t ix hag pk⟩
  intro r hr
  have hl := alookup_of_mem_nodup' hinv.refsNodup hr
  have := (referenced_iff t ix hag r.1).1 (by simp [hl])
  obtain ⟨item, ik, hi, _, _⟩ := this
  exact ⟨item, hi, ha r.1 item hi⟩

end Minidyn.Props.Reach
