import Minidyn.Props.C12
namespace Minidyn
namespace F64

/-- rescaling to a smaller common exponent multiplies by a positive power of two -/
theorem scaled_rescale (x : F64) (e e' : Int) (h1 : e' ≤ e) (h2 : e ≤ x.exp) :
    scaled x e' = scaled x e * ((2 ^ (e - e').toNat : Nat) : Int) := by
  unfold scaled
  have hs : (x.exp - e').toNat = (x.exp - e).toNat + (e - e').toNat := by omega
  simp only [hs, Nat.shiftLeft_eq, Nat.pow_add, ← Nat.mul_assoc]
  split
  · rw [Int.neg_mul, Int.natCast_mul]
  · exact Int.natCast_mul _ _

theorem pow_pos' (k : Nat) : (0 : Int) < ((2 ^ k : Nat) : Int) := by
  have : 0 < 2 ^ k := Nat.two_pow_pos k
  omega

theorem compare_mul_pos (a b k : Int) (hk : 0 < k) : compare (a * k) (b * k) = compare a b := by
  rcases Int.lt_trichotomy a b with h | h | h
  · rw [Int.compare_eq_lt.mpr h, Int.compare_eq_lt.mpr ((Int.mul_lt_mul_right hk).mpr h)]
  · subst h; simp
  · rw [Int.compare_eq_gt.mpr h, Int.compare_eq_gt.mpr ((Int.mul_lt_mul_right hk).mpr h)]

/-- the comparison may be made at any exponent below both -/
theorem cmp_at (a b : F64) (e : Int) (ha : e ≤ a.exp) (hb : e ≤ b.exp) :
    cmp a b = compare (scaled a e) (scaled b e) := by
  unfold cmp
  have hm : e ≤ min a.exp b.exp := by omega
  rw [scaled_rescale a (min a.exp b.exp) e hm (by omega), scaled_rescale b (min a.exp b.exp) e hm (by omega)]
  exact (compare_mul_pos _ _ _ (pow_pos' _)).symm

/-- `<` on numbers is transitive -/
theorem lt_trans (a b c : F64) (h1 : lt a b = true) (h2 : lt b c = true) : lt a c = true := by
  unfold lt at *
  let e := min a.exp (min b.exp c.exp)
  rw [cmp_at a b e (by omega) (by omega)] at h1
  rw [cmp_at b c e (by omega) (by omega)] at h2
  rw [cmp_at a c e (by omega) (by omega)]
  simp only [beq_iff_eq, Int.compare_eq_lt] at *
  omega

/-- `≤` on numbers is transitive -/
theorem le_trans (a b c : F64) (h1 : le a b = true) (h2 : le b c = true) : le a c = true := by
  unfold le at *
  let e := min a.exp (min b.exp c.exp)
  rw [cmp_at a b e (by omega) (by omega)] at h1
  rw [cmp_at b c e (by omega) (by omega)] at h2
  rw [cmp_at a c e (by omega) (by omega)]
  simp only [bne_iff_ne, ne_eq, Int.compare_eq_gt] at *
  omega

/-- equality of numbers is transitive: spellings of one value form one class -/
theorem eq_trans (a b c : F64) (h1 : eq a b = true) (h2 : eq b c = true) : eq a c = true := by
  unfold eq at *
  let e := min a.exp (min b.exp c.exp)
  rw [cmp_at a b e (by omega) (by omega)] at h1
  rw [cmp_at b c e (by omega) (by omega)] at h2
  rw [cmp_at a c e (by omega) (by omega)]
  simp only [beq_iff_eq, Int.compare_eq_eq] at *
  omega

/-- any two numbers are comparable -/
theorem le_total (a b : F64) : le a b = true ∨ le b a = true := by
  unfold le
  rw [← cmp_swap a b]
  cases cmp a b <;> simp [Ordering.swap]

/-- equal numbers are interchangeable in every comparison -/
theorem cmp_congr_left (a a' b : F64) (h : eq a a' = true) : cmp a b = cmp a' b := by
  unfold eq at h
  let e := min a.exp (min a'.exp b.exp)
  rw [cmp_at a a' e (by omega) (by omega)] at h
  rw [cmp_at a b e (by omega) (by omega), cmp_at a' b e (by omega) (by omega)]
  simp only [beq_iff_eq, Int.compare_eq_eq] at h
  rw [h]

example : lt (ofNat 1) (ofNat 2) = true ∧ lt (ofNat 2) (ofNat 10) = true := by decide

end F64
end Minidyn
