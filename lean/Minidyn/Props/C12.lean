/-
  C12 — numbers behave as exact decimals, not floats or strings.

  The code under test parses, compares and computes N values in `float64`.  The property
  (38 significant digits, exact arithmetic) is therefore FALSE of the code and of its
  model beyond 53 bits of precision: the negation is proved here on concrete witnesses
  (`precision_lost_*`), the same witnesses are replayed on the implementation from
  `corpus/C12` and are listed as the known finding `KF-C12-float-arithmetic`.

  What does hold, for all inputs, is proved at full generality:
    * comparison is by value, never by text (`cmp_refl`, `cmp_swap`, `eq_symm`,
      `twin_numerals_*`);
    * integers below 2^53 are represented exactly (`toInt_ofNat`, `ofNat_injective`);
    * an update never alters a number it does not target (C07's `update_frame`: untouched
      attributes keep their stored text, digit for digit).
-/
import Minidyn.Model.Num
import Minidyn.Props.C07
namespace Minidyn
namespace F64

/-! ### comparison is by value -/

theorem cmp_refl (a : F64) : cmp a a = .eq := by
  simp [cmp]

theorem cmp_swap (a b : F64) : (cmp a b).swap = cmp b a := by
  simp only [cmp, Int.min_comm a.exp b.exp]
  exact Int.compare_swap _ _

theorem eq_symm (a b : F64) : eq a b = eq b a := by
  unfold eq; rw [← cmp_swap b a]; cases cmp b a <;> rfl

theorem lt_irrefl (a : F64) : lt a a = false := by simp [lt, cmp_refl]

theorem lt_asymm (a b : F64) (h : lt a b = true) : lt b a = false := by
  unfold lt at *; rw [← cmp_swap a b]; cases hc : cmp a b <;> simp_all [Ordering.swap]

/-- negative zero equals zero (they are distinct `float64` values and equal map keys in Go) -/
theorem neg_zero_eq : eq (zero true) (zero false) = true := by decide

/-! ### differently written numerals of equal value are one number -/

-- "1.0" "1" ; "100" "1e2" ; "0.50" ".5" ; "-0" "0"
theorem twin_numerals_1 : ofText [49, 46, 48] = ofText [49] := by decide +kernel
theorem twin_numerals_2 : ofText [49, 48, 48] = ofText [49, 101, 50] := by decide +kernel
theorem twin_numerals_3 : ofText [48, 46, 53, 48] = ofText [46, 53] := by decide +kernel
theorem twin_numerals_4 : (do let a ← ofText [45, 48]; let b ← ofText [48]; pure (eq a b)) = some true := by
  decide +kernel

/-- value order, not text order: "9" < "10" although "10" sorts first as a string -/
theorem value_order : (do let a ← ofText [57]; let b ← ofText [49, 48]; pure (lt a b)) = some true ∧
    Bytes.lt [49, 48] [57] = true := by decide +kernel

/-! ### integers below 2^53 are exact -/

theorem bits_le (n : Nat) (h0 : n ≠ 0) (h : n < 2 ^ 53) : Nat.log2 n + 1 ≤ 53 := by
  have := (Nat.log2_lt h0 (k := 53)).2 h
  omega

theorem ofNat_pos (n : Nat) (h0 : n ≠ 0) (h : n < 2 ^ 53) :
    ofNat n = ⟨false, n <<< (53 - (Nat.log2 n + 1)), -((53 - (Nat.log2 n + 1) : Nat) : Int)⟩ := by
  have hb := bits_le n h0 h
  simp [ofNat, normRound, h0, hb]

/-- reading the stored value back as an integer gives the integer: no rounding happened -/
theorem toInt_ofNat (n : Nat) (h : n < 2 ^ 53) : toInt (ofNat n) = n := by
  by_cases h0 : n = 0
  · subst h0; decide
  · rw [ofNat_pos n h0 h]
    have hb := bits_le n h0 h
    by_cases hk : 53 - (Nat.log2 n + 1) = 0
    · simp [toInt, hk]
    · have hneg : ¬ (-((53 - (Nat.log2 n + 1) : Nat) : Int) ≥ 0) := by omega
      simp only [toInt, hneg, if_false, Int.neg_neg, Int.toNat_natCast, Nat.shiftLeft_shiftRight]
      simp

theorem ofNat_injective (a b : Nat) (ha : a < 2 ^ 53) (hb : b < 2 ^ 53) (h : ofNat a = ofNat b) : a = b := by
  have := congrArg toInt h
  rw [toInt_ofNat a ha, toInt_ofNat b hb] at this
  exact Int.ofNat.inj this

/-! ### the property is false beyond 53 bits: the witnesses of KF-C12-float-arithmetic -/

-- 9007199254740993 (2^53 + 1) and 9007199254740992 are one number to the code
theorem precision_lost_compare :
    ofText [57, 48, 48, 55, 49, 57, 57, 50, 53, 52, 55, 52, 48, 57, 57, 51] =
    ofText [57, 48, 48, 55, 49, 57, 57, 50, 53, 52, 55, 52, 48, 57, 57, 50] := by decide +kernel

-- 0.1 + 0.2 is not 0.3
theorem precision_lost_add :
    (do let a ← ofText [48, 46, 49]; let b ← ofText [48, 46, 50]; let c ← ofText [48, 46, 51]
        pure (eq (add a b) c)) = some false := by decide +kernel

-- and the sum is written back as 0.30000000000000004
theorem precision_lost_format :
    (do let a ← ofText [48, 46, 49]; let b ← ofText [48, 46, 50]
        pure (decide (format (add a b) = "0.30000000000000004"))) = some true := by decide +kernel

/-- small integer arithmetic is exact on examples at the edge of the exact range
    (2^53 - 1 = 9007199254740991): a test, not the general claim -/
example : add (ofNat 9007199254740990) (ofNat 1) = ofNat 9007199254740991 := by decide +kernel
example : sub (ofNat 9007199254740991) (ofNat 9007199254740990) = ofNat 1 := by decide +kernel

end F64

/-- **an update never alters a number it does not target**: restated from C07 for an
    attribute holding a number — its stored text is untouched, digit for digit -/
theorem untargeted_number_kept (env env' : Env) (tok : Token) (acts : List Expr) (item : Item)
    (name digits : Bytes) (hclean : env.modified = [])
    (hnum : alookup name item = some (.n digits))
    (h : Eval.evalUpdate env (.update tok acts) = .ok env')
    (hname : ∀ a ∈ acts, ∀ op left right, a = Expr.action op left right →
      ∀ n, targetOf env left = some n → env.itemName n ≠ name) :
    alookup name (env'.apply item []) = some (.n digits) := by
  rw [update_frame env env' tok acts item [] name hclean h hname, hnum]

end Minidyn
