/-
  C12 — numbers behave as exact decimals, not floats or strings.

  The code under test parses, compares and computes N values in `float64`.  The property
  (38 significant digits, exact arithmetic) is therefore FALSE of the code and of its
  model beyond 53 bits of precision: the negation is proved here on concrete witnesses
  (`precision_lost_*`), the same witnesses are replayed on the implementation from
  `corpus/C12` and are listed as the known finding `KF-C12-float-arithmetic`.

  What does hold, for all inputs, is proved at full generality:
    * comparison is by value, never by text (`cmp_refl`, `cmp_swap`, `eq_symm`,
      `twin_numerals_*`);
    * integers below 2^53 are represented exactly (`toInt_ofNat`, `ofNat_injective`), are compared as integers
      (`cmp_ofNat`) and are added and subtracted without rounding as long as the result stays below 2^53
      (`normRound_pow`, `add_ofNat`, `sub_ofNat`);
    * an update never alters a number it does not target (C07's `update_frame`: untouched
      attributes keep their stored text, digit for digit).
-/
import Minidyn.Model.Num
import Minidyn.Props.C07
namespace Minidyn
namespace F64

/-! ### comparison is by value -/

theorem cmp_refl (a : F64) : cmp a a = .eq := by
  simp [cmp]

theorem cmp_swap (a b : F64) : (cmp a b).swap = cmp b a := by
  simp only [cmp, Int.min_comm a.exp b.exp]
  exact Int.compare_swap _ _

theorem eq_symm (a b : F64) : eq a b = eq b a := by
  unfold eq; rw [← cmp_swap b a]; cases cmp b a <;> rfl

theorem lt_irrefl (a : F64) : lt a a = false := by simp [lt, cmp_refl]

theorem lt_asymm (a b : F64) (h : lt a b = true) : lt b a = false := by
  unfold lt at *; rw [← cmp_swap a b]; cases hc : cmp a b <;> simp_all [Ordering.swap]

/-- negative zero equals zero (they are distinct `float64` values and equal map keys in Go) -/
theorem neg_zero_eq : eq (zero true) (zero false) = true := by decide

/-! ### differently written numerals of equal value are one number -/

-- "1.0" "1" ; "100" "1e2" ; "0.50" ".5" ; "-0" "0"
theorem twin_numerals_1 : ofText [49, 46, 48] = ofText [49] := by decide +kernel
theorem twin_numerals_2 : ofText [49, 48, 48] = ofText [49, 101, 50] := by decide +kernel
theorem twin_numerals_3 : ofText [48, 46, 53, 48] = ofText [46, 53] := by decide +kernel
theorem twin_numerals_4 : (do let a ← ofText [45, 48]; let b ← ofText [48]; pure (eq a b)) = some true := by
  decide +kernel

/-- value order, not text order: "9" < "10" although "10" sorts first as a string -/
theorem value_order : (do let a ← ofText [57]; let b ← ofText [49, 48]; pure (lt a b)) = some true ∧
    Bytes.lt [49, 48] [57] = true := by decide +kernel

/-! ### integers below 2^53 are exact -/

theorem bits_le (n : Nat) (h0 : n ≠ 0) (h : n < 2 ^ 53) : Nat.log2 n + 1 ≤ 53 := by
  have := (Nat.log2_lt h0 (k := 53)).2 h
  omega

theorem ofNat_pos (n : Nat) (h0 : n ≠ 0) (h : n < 2 ^ 53) :
    ofNat n = ⟨false, n <<< (53 - (Nat.log2 n + 1)), -((53 - (Nat.log2 n + 1) : Nat) : Int)⟩ := by
  have hb := bits_le n h0 h
  simp [ofNat, normRound, h0, hb]

/-- reading the stored value back as an integer gives the integer: no rounding happened -/
theorem toInt_ofNat (n : Nat) (h : n < 2 ^ 53) : toInt (ofNat n) = n := by
  by_cases h0 : n = 0
  · subst h0; decide
  · rw [ofNat_pos n h0 h]
    have hb := bits_le n h0 h
    by_cases hk : 53 - (Nat.log2 n + 1) = 0
    · simp [toInt, hk]
    · have hneg : ¬ (-((53 - (Nat.log2 n + 1) : Nat) : Int) ≥ 0) := by omega
      simp only [toInt, hneg, if_false, Int.neg_neg, Int.toNat_natCast, Nat.shiftLeft_shiftRight]
      simp

theorem ofNat_injective (a b : Nat) (ha : a < 2 ^ 53) (hb : b < 2 ^ 53) (h : ofNat a = ofNat b) : a = b := by
  have := congrArg toInt h
  rw [toInt_ofNat a ha, toInt_ofNat b hb] at this
  exact Int.ofNat.inj this

/-! ### integer arithmetic below 2^53 is exact -/

theorem log2_mul_pow (n K : Nat) (hn : n ≠ 0) : Nat.log2 (n * 2 ^ K) = Nat.log2 n + K := by
  have hne : n * 2 ^ K ≠ 0 := Nat.mul_ne_zero hn (Nat.pos_iff_ne_zero.1 (Nat.two_pow_pos K))
  rw [Nat.log2_eq_iff hne]
  have h1 : 2 ^ Nat.log2 n ≤ n := Nat.log2_self_le hn
  have h2 : n < 2 ^ (Nat.log2 n + 1) := Nat.lt_log2_self
  constructor
  · rw [Nat.pow_add]; exact Nat.mul_le_mul_right _ h1
  · have : 2 ^ (Nat.log2 n + K + 1) = 2 ^ (Nat.log2 n + 1) * 2 ^ K := by
      rw [← Nat.pow_add]; congr 1; omega
    rw [this]
    exact Nat.mul_lt_mul_of_pos_right h2 (Nat.two_pow_pos K)

/-- the shift that normalises `n` to 53 bits -/
def kOf (n : Nat) : Nat := 53 - (Nat.log2 n + 1)

theorem ofNat_eq (n : Nat) (h0 : n ≠ 0) (h : n < 2 ^ 53) : ofNat n = ⟨false, n <<< kOf n, -((kOf n : Nat) : Int)⟩ :=
  ofNat_pos n h0 h

/-- rounding an integer that is `n·2^K` with `n < 2^53`, carried with exponent `-K`, gives `n` exactly -/
theorem normRound_pow (n K : Nat) (h0 : n ≠ 0) (h : n < 2 ^ 53) :
    normRound false (n <<< K) false (-(K : Int)) = ofNat n := by
  have hB := bits_le n h0 h
  have hq : n <<< K = n * 2 ^ K := Nat.shiftLeft_eq n K
  have hq0 : (n <<< K == 0) = false := by
    rw [hq]
    have : n * 2 ^ K ≠ 0 := Nat.mul_ne_zero h0 (Nat.ne_of_gt (Nat.two_pow_pos K))
    simpa using this
  have hlog : Nat.log2 (n <<< K) = Nat.log2 n + K := by rw [hq]; exact log2_mul_pow n K h0
  rw [ofNat_eq n h0 h]
  unfold normRound
  simp only [hq0, Bool.false_eq_true, if_false, hlog]
  by_cases hc : Nat.log2 n + K + 1 ≤ 53
  · simp only [hc, if_true, kOf]
    congr 1
    · rw [← Nat.shiftLeft_add]; congr 1; omega
    · omega
  · -- K = a + s: `s` bits are shifted out again, all of them zero
    obtain ⟨s, hs, hs1⟩ : ∃ s, K = (53 - (Nat.log2 n + 1)) + s ∧ 1 ≤ s := ⟨Nat.log2 n + K + 1 - 53, by omega, by omega⟩
    have hsh : Nat.log2 n + K + 1 - 53 = s := by omega
    simp only [hc, if_false, kOf, hsh]
    generalize ha : 53 - (Nat.log2 n + 1) = a at hs
    subst hs
    have htop : (n <<< (a + s)) >>> s = n <<< a := by
      rw [Nat.shiftLeft_add]; exact Nat.shiftLeft_shiftRight _ _
    have hrem : (n <<< (a + s)) % 2 ^ s = 0 := by
      rw [Nat.shiftLeft_add, Nat.shiftLeft_eq (n <<< a)]; exact Nat.mul_mod_left _ _
    have hhalf : 0 < 2 ^ (s - 1) := Nat.two_pow_pos _
    have h1 : decide (0 > 2 ^ (s - 1)) = false := decide_eq_false (Nat.not_lt_zero _)
    have h2 : (0 == 2 ^ (s - 1)) = false := beq_eq_false_iff_ne.2 (Nat.ne_of_lt hhalf)
    have hlt : n <<< a < 2 ^ 53 := by
      rw [Nat.shiftLeft_eq]
      have h2' : n < 2 ^ (Nat.log2 n + 1) := Nat.lt_log2_self
      have : 2 ^ 53 = 2 ^ (Nat.log2 n + 1) * 2 ^ a := by
        rw [← Nat.pow_add]; congr 1; omega
      rw [this]
      exact Nat.mul_lt_mul_of_pos_right h2' (Nat.two_pow_pos _)
    have hne53 : (n <<< a == 2 ^ 53) = false := beq_eq_false_iff_ne.2 (Nat.ne_of_lt hlt)
    simp only [htop, hrem, h1, h2, Bool.false_and, Bool.or_self, Bool.false_eq_true, if_false, hne53]
    congr 1
    omega


theorem ofNat_zero : ofNat 0 = zero false := by decide

theorem scaled_zero (neg : Bool) (e : Int) : scaled (zero neg) e = 0 := by
  unfold scaled zero; cases neg <;> simp

theorem scaled_ofNat (n K : Nat) (h0 : n ≠ 0) (h : n < 2 ^ 53) (hK : kOf n ≤ K) :
    scaled (ofNat n) (-(K : Int)) = ((n <<< K : Nat) : Int) := by
  rw [ofNat_eq n h0 h]
  unfold scaled
  simp only [Bool.false_eq_true, if_false]
  have : (-((kOf n : Nat) : Int) - -(K : Int)).toNat = K - kOf n := by omega
  rw [this, ← Nat.shiftLeft_add]
  congr 2; omega

theorem exp_ofNat (n : Nat) (h0 : n ≠ 0) (h : n < 2 ^ 53) : (ofNat n).exp = -((kOf n : Nat) : Int) := by
  rw [ofNat_eq n h0 h]

/-- **exact addition of integers**: as long as the sum stays below 2^53 no rounding happens -/
theorem add_ofNat (a b : Nat) (h : a + b < 2 ^ 53) : add (ofNat a) (ofNat b) = ofNat (a + b) := by
  by_cases ha : a = 0
  · subst ha
    by_cases hb : b = 0
    · subst hb; decide
    · have hb' : b < 2 ^ 53 := by omega
      rw [ofNat_zero, Nat.zero_add]
      unfold add
      have he : min (zero false).exp (ofNat b).exp = -((kOf b : Nat) : Int) := by
        rw [exp_ofNat b hb hb']; simp only [zero]; omega
      simp only [he, scaled_zero, Int.zero_add, scaled_ofNat b (kOf b) hb hb' (Nat.le_refl _)]
      have hne : ((b <<< kOf b : Nat) : Int) ≠ 0 := by
        rw [Nat.shiftLeft_eq]
        have : b * 2 ^ kOf b ≠ 0 := Nat.mul_ne_zero hb (Nat.ne_of_gt (Nat.two_pow_pos _))
        exact_mod_cast this
      have hb0 : ((((b <<< kOf b : Nat) : Int)) == 0) = false := beq_eq_false_iff_ne.2 hne
      simp only [hb0, Bool.false_eq_true, if_false, Int.natAbs_natCast]
      have hneg : decide (((b <<< kOf b : Nat) : Int) < 0) = false := decide_eq_false (Int.not_lt.2 (Int.natCast_nonneg _))
      rw [hneg]
      exact normRound_pow b (kOf b) hb hb'
  · by_cases hb : b = 0
    · subst hb
      have ha' : a < 2 ^ 53 := by omega
      rw [ofNat_zero, Nat.add_zero]
      unfold add
      have he : min (ofNat a).exp (zero false).exp = -((kOf a : Nat) : Int) := by
        rw [exp_ofNat a ha ha']; simp only [zero]; omega
      simp only [he, scaled_zero, Int.add_zero, scaled_ofNat a (kOf a) ha ha' (Nat.le_refl _)]
      have hne : ((a <<< kOf a : Nat) : Int) ≠ 0 := by
        rw [Nat.shiftLeft_eq]
        have : a * 2 ^ kOf a ≠ 0 := Nat.mul_ne_zero ha (Nat.ne_of_gt (Nat.two_pow_pos _))
        exact_mod_cast this
      have hb0 : ((((a <<< kOf a : Nat) : Int)) == 0) = false := beq_eq_false_iff_ne.2 hne
      simp only [hb0, Bool.false_eq_true, if_false, Int.natAbs_natCast]
      have hneg : decide (((a <<< kOf a : Nat) : Int) < 0) = false := decide_eq_false (Int.not_lt.2 (Int.natCast_nonneg _))
      rw [hneg]
      exact normRound_pow a (kOf a) ha ha'
    · have ha' : a < 2 ^ 53 := by omega
      have hb' : b < 2 ^ 53 := by omega
      have hab : a + b ≠ 0 := by omega
      unfold add
      have he : min (ofNat a).exp (ofNat b).exp = -((max (kOf a) (kOf b) : Nat) : Int) := by
        rw [exp_ofNat a ha ha', exp_ofNat b hb hb']; omega
      simp only [he, scaled_ofNat a _ ha ha' (Nat.le_max_left _ _), scaled_ofNat b _ hb hb' (Nat.le_max_right _ _)]
      generalize max (kOf a) (kOf b) = K
      have hsum : ((a <<< K : Nat) : Int) + ((b <<< K : Nat) : Int) = (((a + b) <<< K : Nat) : Int) := by
        rw [Nat.shiftLeft_eq, Nat.shiftLeft_eq, Nat.shiftLeft_eq, Nat.add_mul]; push_cast; rfl
      rw [hsum]
      have hne : (((a + b) <<< K : Nat) : Int) ≠ 0 := by
        rw [Nat.shiftLeft_eq]
        have : (a + b) * 2 ^ K ≠ 0 := Nat.mul_ne_zero hab (Nat.ne_of_gt (Nat.two_pow_pos _))
        exact_mod_cast this
      have hb0 : (((((a + b) <<< K : Nat) : Int)) == 0) = false := beq_eq_false_iff_ne.2 hne
      simp only [hb0, Bool.false_eq_true, if_false, Int.natAbs_natCast]
      have hneg : decide ((((a + b) <<< K : Nat) : Int) < 0) = false := decide_eq_false (Int.not_lt.2 (Int.natCast_nonneg _))
      rw [hneg]
      exact normRound_pow (a + b) K hab h

/-- **exact subtraction of integers** (both positive, result non-negative) -/
theorem sub_ofNat (a b : Nat) (ha : a < 2 ^ 53) (ha0 : a ≠ 0) (hb0 : b ≠ 0) (hle : b ≤ a) :
    sub (ofNat a) (ofNat b) = ofNat (a - b) := by
  have hb : b < 2 ^ 53 := by omega
  unfold sub
  have he : min (ofNat a).exp (ofNat b).exp = -((max (kOf a) (kOf b) : Nat) : Int) := by
    rw [exp_ofNat a ha0 ha, exp_ofNat b hb0 hb]; omega
  simp only [he, scaled_ofNat a _ ha0 ha (Nat.le_max_left _ _), scaled_ofNat b _ hb0 hb (Nat.le_max_right _ _)]
  generalize max (kOf a) (kOf b) = K
  have hdiff : ((a <<< K : Nat) : Int) - ((b <<< K : Nat) : Int) = (((a - b) <<< K : Nat) : Int) := by
    rw [Nat.shiftLeft_eq, Nat.shiftLeft_eq, Nat.shiftLeft_eq, Nat.sub_mul]
    have : b * 2 ^ K ≤ a * 2 ^ K := Nat.mul_le_mul_right _ hle
    omega
  rw [hdiff]
  by_cases hab : a - b = 0
  · have haneg : (ofNat a).neg = false := by rw [ofNat_eq a ha0 ha]
    rw [hab]
    have hz : (((0 <<< K : Nat) : Int) == 0) = true := by simp
    simp only [hz, if_true, haneg, Bool.false_and]
    rfl
  · have hne : (((a - b) <<< K : Nat) : Int) ≠ 0 := by
      rw [Nat.shiftLeft_eq]
      have : (a - b) * 2 ^ K ≠ 0 := Nat.mul_ne_zero hab (Nat.ne_of_gt (Nat.two_pow_pos _))
      exact_mod_cast this
    have hb0' : (((((a - b) <<< K : Nat) : Int)) == 0) = false := beq_eq_false_iff_ne.2 hne
    simp only [hb0', Bool.false_eq_true, if_false, Int.natAbs_natCast]
    have hneg : decide ((((a - b) <<< K : Nat) : Int) < 0) = false := decide_eq_false (Int.not_lt.2 (Int.natCast_nonneg _))
    rw [hneg]
    exact normRound_pow (a - b) K hab (by omega)

/-- integers below 2^53 compare as integers -/
theorem cmp_ofNat (a b : Nat) (ha : a < 2 ^ 53) (hb : b < 2 ^ 53) (ha0 : a ≠ 0) (hb0 : b ≠ 0) :
    cmp (ofNat a) (ofNat b) = compare a b := by
  unfold cmp
  have he : min (ofNat a).exp (ofNat b).exp = -((max (kOf a) (kOf b) : Nat) : Int) := by
    rw [exp_ofNat a ha0 ha, exp_ofNat b hb0 hb]; omega
  simp only [he, scaled_ofNat a _ ha0 ha (Nat.le_max_left _ _), scaled_ofNat b _ hb0 hb (Nat.le_max_right _ _)]
  generalize max (kOf a) (kOf b) = K
  rw [Nat.shiftLeft_eq, Nat.shiftLeft_eq]
  have hp : 0 < 2 ^ K := Nat.two_pow_pos K
  rcases Nat.lt_trichotomy a b with hlt | heq | hgt
  · have h1 : a * 2 ^ K < b * 2 ^ K := Nat.mul_lt_mul_of_pos_right hlt hp
    rw [Nat.compare_eq_lt.2 hlt]
    exact Int.compare_eq_lt.2 (by exact_mod_cast h1)
  · subst heq; simp
  · have h1 : b * 2 ^ K < a * 2 ^ K := Nat.mul_lt_mul_of_pos_right hgt hp
    rw [Nat.compare_eq_gt.2 hgt]
    exact Int.compare_eq_gt.2 (by exact_mod_cast h1)


/-! ### the property is false beyond 53 bits: the witnesses of KF-C12-float-arithmetic -/

-- 9007199254740993 (2^53 + 1) and 9007199254740992 are one number to the code
theorem precision_lost_compare :
    ofText [57, 48, 48, 55, 49, 57, 57, 50, 53, 52, 55, 52, 48, 57, 57, 51] =
    ofText [57, 48, 48, 55, 49, 57, 57, 50, 53, 52, 55, 52, 48, 57, 57, 50] := by decide +kernel

-- 0.1 + 0.2 is not 0.3
theorem precision_lost_add :
    (do let a ← ofText [48, 46, 49]; let b ← ofText [48, 46, 50]; let c ← ofText [48, 46, 51]
        pure (eq (add a b) c)) = some false := by decide +kernel

-- and the sum is written back as 0.30000000000000004
theorem precision_lost_format :
    (do let a ← ofText [48, 46, 49]; let b ← ofText [48, 46, 50]
        pure (decide (format (add a b) = "0.30000000000000004"))) = some true := by decide +kernel

/-- small integer arithmetic is exact on examples at the edge of the exact range
    (2^53 - 1 = 9007199254740991): a test, not the general claim -/
example : add (ofNat 9007199254740990) (ofNat 1) = ofNat 9007199254740991 := by decide +kernel
example : sub (ofNat 9007199254740991) (ofNat 9007199254740990) = ofNat 1 := by decide +kernel

end F64

/-- **an update never alters a number it does not target**: restated from C07 for an
    attribute holding a number — its stored text is untouched, digit for digit -/
theorem untargeted_number_kept (env env' : Env) (tok : Token) (acts : List Expr) (item : Item)
    (name digits : Bytes) (hclean : env.modified = [])
    (hnum : alookup name item = some (.n digits))
    (h : Eval.evalUpdate env (.update tok acts) = .ok env')
    (hname : ∀ a ∈ acts, ∀ op left right, a = Expr.action op left right →
      ∀ n, targetOf env left = some n → env.itemName n ≠ name) :
    alookup name (env'.apply item []) = some (.n digits) := by
  rw [update_frame env env' tok acts item [] name hclean h hname, hnum]

end Minidyn
