/-
  C04 — the concatenation theorem, for reads of the table itself (Query or Scan without IndexName).

  `page_spec`: one page is the items of the keys positioned after the start key — whether or not
  that key is still in the table — in read order, up to the item that brings the number of evaluated
  items to the Limit; LastEvaluatedKey is reported exactly when the Limit was reached.  Because the
  statement does not require the start key to be present, it is also the "resuming stays correct when
  the item named by the LastEvaluatedKey has meanwhile been deleted" clause: `after_member` and
  `page_spec` on the table after the deletion.
  `paginate_complete`: passing each LastEvaluatedKey back as ExclusiveStartKey ends within
  (number of keys after the start) + 1 pages and the pages concatenate to exactly the unpaginated
  result (`paginate_eq_unpaginated`), for every Limit, direction, matcher that answers, and every
  table in which items are stored under their own keys (`Keyed`, established by PutItem and kept by
  DeleteItem: `keyed_put`, `keyed_delete`; UpdateItem can break it — KF-C13-update-changes-key).
  The proof needs the key string of a stored item to be non-empty (`C13.key_nonempty`); the code
  did not guarantee that — an item with the empty string as key made pagination loop for ever —
  and was repaired (fix 001b480).
  Reads through a secondary index: `C04.page_le_limit` and the correspondence check.
-/
import Minidyn.Model.Client
import Minidyn.Props.C02
import Minidyn.Props.C04
import Minidyn.Props.C13
namespace Minidyn.Props.C04
open Minidyn Minidyn.Table Minidyn.Props.C01 Minidyn.Props.C02

def aft (fwd : Bool) (a b : Bytes) : Bool := if fwd then Bytes.cmp a b == .gt else Bytes.cmp a b == .lt
def Chain (fwd : Bool) : List Bytes → Prop
  | [] => True
  | x :: xs => (∀ y ∈ xs, aft fwd y x = true) ∧ Chain fwd xs

theorem cmp_gt_lt {a b : Bytes} : Bytes.cmp a b = .gt ↔ Bytes.cmp b a = .lt := (Bytes.cmp_lt_gt (a := b) (b := a)).symm

theorem cmp_trans_gt {a b c : Bytes} (h1 : Bytes.cmp a b = .gt) (h2 : Bytes.cmp b c = .gt) : Bytes.cmp a c = .gt :=
  cmp_gt_lt.2 (Bytes.cmp_trans_lt (cmp_gt_lt.1 h2) (cmp_gt_lt.1 h1))

theorem aft_trans (fwd : Bool) {a b c : Bytes} (h1 : aft fwd a b = true) (h2 : aft fwd b c = true) : aft fwd a c = true := by
  cases fwd
  · simp only [aft, Bool.false_eq_true, if_false, beq_iff_eq] at *
    exact Bytes.cmp_trans_lt h1 h2
  · simp only [aft, if_true, beq_iff_eq] at *
    exact cmp_trans_gt h1 h2

theorem aft_irrefl (fwd : Bool) (a : Bytes) : aft fwd a a = false := by
  cases fwd <;> simp [aft, Bytes.cmp_refl]

theorem aft_asymm (fwd : Bool) {a b : Bytes} (h : aft fwd a b = true) : aft fwd b a = false := by
  cases fwd
  · simp only [aft, Bool.false_eq_true, if_false, beq_iff_eq] at *
    have := Bytes.cmp_lt_gt.1 h
    simp [this]
  · simp only [aft, if_true, beq_iff_eq] at *
    have := cmp_gt_lt.1 h
    simp [this]

/-- the elements of a chain that lie after `s` are a suffix of it -/
theorem chain_split (fwd : Bool) (s : Bytes) : ∀ (l : List Bytes), Chain fwd l →
    ∃ lo hi, l = lo ++ hi ∧ (∀ x ∈ lo, aft fwd x s = false) ∧ (∀ x ∈ hi, aft fwd x s = true) := by
  intro l
  induction l with
  | nil => intro _; exact ⟨[], [], rfl, by simp, by simp⟩
  | cons x xs ih =>
    intro hc
    cases hx : aft fwd x s with
    | true =>
      refine ⟨[], x :: xs, rfl, by simp, ?_⟩
      intro y hy
      rcases List.mem_cons.1 hy with rfl | hy
      · exact hx
      · exact aft_trans fwd (hc.1 y hy) hx
    | false =>
      obtain ⟨lo, hi, he, hlo, hhi⟩ := ih hc.2
      refine ⟨x :: lo, hi, by rw [he]; rfl, ?_, hhi⟩
      intro y hy
      rcases List.mem_cons.1 hy with rfl | hy
      · exact hx
      · exact hlo y hy

theorem chain_append (fwd : Bool) : ∀ (a b : List Bytes), Chain fwd (a ++ b) →
    Chain fwd a ∧ Chain fwd b ∧ ∀ x ∈ a, ∀ y ∈ b, aft fwd y x = true := by
  intro a
  induction a with
  | nil => intro b h; exact ⟨trivial, h, by simp⟩
  | cons x xs ih =>
    intro b h
    obtain ⟨h1, h2, h3⟩ := ih b h.2
    refine ⟨⟨fun y hy => h.1 y (by simp [hy]), h1⟩, h2, ?_⟩
    intro z hz y hy
    rcases List.mem_cons.1 hz with rfl | hz
    · exact h.1 y (by simp [hy])
    · exact h3 z hz y hy

/-- in a chain `pre ++ k :: post`, the elements after `k` are exactly `post` -/
theorem chain_after_member (fwd : Bool) (pre post : List Bytes) (k : Bytes) (h : Chain fwd (pre ++ k :: post)) :
    (∀ x ∈ pre, aft fwd x k = false) ∧ aft fwd k k = false ∧ (∀ y ∈ post, aft fwd y k = true) := by
  obtain ⟨_, h2, h3⟩ := chain_append fwd pre (k :: post) h
  refine ⟨?_, aft_irrefl fwd k, h2.1⟩
  intro x hx
  exact aft_asymm fwd (h3 x hx k (by simp))

/-! ### the table's key list is a chain in both directions -/

theorem lt_of_sorted_nodup {l : List Bytes} (hs : SortedBy Bytes.le l) (hn : l.Nodup) : Chain true l := by
  induction l with
  | nil => trivial
  | cons x xs ih =>
    have hall := (sortedBy_cons_iff Bytes.le_trans').1 hs
    have hn' := List.nodup_cons.1 hn
    refine ⟨?_, ih hall.2 hn'.2⟩
    intro y hy
    have hle := hall.1 y hy
    have hne : x ≠ y := fun e => hn'.1 (e ▸ hy)
    have hlt : Bytes.lt x y = true := Bytes.lt_iff_le_ne.2 ⟨hle, hne⟩
    simp only [aft, if_true, beq_iff_eq]
    simp only [Bytes.lt, beq_iff_eq] at hlt
    exact Bytes.cmp_lt_gt.1 hlt

theorem chain_snoc (fwd : Bool) (x : Bytes) : ∀ (l : List Bytes), Chain fwd l → (∀ y ∈ l, aft fwd x y = true) →
    Chain fwd (l ++ [x]) := by
  intro l
  induction l with
  | nil => intro _ _; exact ⟨by simp, trivial⟩
  | cons z zs ih =>
    intro h hx
    refine ⟨?_, ih h.2 (fun y hy => hx y (by simp [hy]))⟩
    intro y hy
    rcases List.mem_append.1 hy with hy | hy
    · exact h.1 y hy
    · have : y = x := by simpa using hy
      subst this; exact hx z (by simp)

theorem chain_reverse_aux : ∀ (l : List Bytes), Chain true l → Chain false l.reverse := by
  intro l
  induction l with
  | nil => intro _; trivial
  | cons x xs ih =>
    intro h
    simp only [List.reverse_cons]
    apply chain_snoc false x _ (ih h.2)
    intro y hy
    have := h.1 y (by simpa using hy)
    simp only [aft, if_true, Bool.false_eq_true, if_false, beq_iff_eq] at this ⊢
    exact cmp_gt_lt.1 this

theorem order_chain (t : Table) (hinv : TableInv t) (fwd : Bool) :
    Chain fwd (if fwd then t.sortedKeys else t.sortedKeys.reverse) := by
  have h := lt_of_sorted_nodup hinv.sorted hinv.nodup
  cases fwd
  · exact chain_reverse_aux _ h
  · exact h


/-! ### the search loop on the table itself -/

theorem isAfter_base (start : SearchStart) (k : Bytes) (fwd : Bool) : isAfter start false k k fwd = aft fwd k start.key := by
  simp only [isAfter, Bool.false_and, Bool.false_eq_true, if_false, aft]

/-- whether a visited item counts against the Limit -/
def counts (m : Matcher) (q : Query) (item : Item) : Bool :=
  match matchKey m q item with
  | .ok (ty, b) => shouldCount ty b
  | .error _ => false

def itemOf (t : Table) (k : Bytes) : Item := (alookup k t.data).getD []

/-- the keys a page processes out of `ks`, starting with `c` counted items: up to and including the
    one that brings the count to the Limit; the flag says the Limit was reached -/
def cut (t : Table) (m : Matcher) (q : Query) : Nat → List Bytes → List Bytes × Bool
  | _, [] => ([], false)
  | c, k :: ks =>
    let c' := if counts m q (itemOf t k) then c + 1 else c
    if q.limit != 0 && q.limit == c' then ([k], true)
    else ((k :: (cut t m q c' ks).1), (cut t m q c' ks).2)

def lastItem (t : Table) (P : List Bytes) (dflt : Item) : Item :=
  match P.getLast? with
  | some k => itemOf t k
  | none => dflt

/-- keys that are skipped before the start position leave everything but the bookkeeping alone -/
theorem skip_phase (t : Table) (m : Matcher) (q : Query) (start : SearchStart) :
    ∀ (lo : List Bytes) (st : SearchState), st.started = false → Chain q.forward lo →
    (∀ x ∈ lo, aft q.forward x start.key = false) →
    ∃ st', (∀ rest, searchLoop t m q false start st (lo ++ rest) = searchLoop t m q false start st' rest) ∧
      st'.items = st.items ∧ st'.count = st.count ∧ st'.last = st.last ∧ st'.scanned = st.scanned + lo.length := by
  intro lo
  induction lo with
  | nil => intro st _ _ _; exact ⟨st, fun _ => rfl, rfl, rfl, rfl, rfl⟩
  | cons x xs ih =>
    intro st hs hc hna
    have hx : aft q.forward x start.key = false := hna x (by simp)
    by_cases hxs : (x == start.key) = true
    · -- the start key itself: the search starts after it; nothing else can follow in `lo`
      have hxe : x = start.key := by simpa using hxs
      have hnil : xs = [] := by
        cases xs with
        | nil => rfl
        | cons y ys =>
          have h1 := hc.1 y (by simp)
          have h2 := hna y (by simp)
          rw [hxe] at h1; rw [h1] at h2; cases h2
      subst hnil
      refine ⟨{ st with started := true, scanned := st.scanned + 1 }, ?_, rfl, rfl, rfl, rfl⟩
      intro rest
      simp only [List.cons_append, List.nil_append, searchLoop, searchStep, getPrimaryKey, Bool.false_eq_true, if_false,
        prepareSearch, hs, isAfter_base, hx, hxs, if_true, bind, Except.bind, pure, Except.pure]
    · obtain ⟨st', h1, h2, h3, h4, h5⟩ := ih { st with scanned := st.scanned + 1 } hs hc.2 (fun y hy => hna y (by simp [hy]))
      refine ⟨st', ?_, h2, h3, h4, by rw [h5]; simp only [List.length_cons]; omega⟩
      intro rest
      rw [← h1 rest]
      simp only [List.cons_append, searchLoop, searchStep, getPrimaryKey, Bool.false_eq_true, if_false,
        prepareSearch, hs, isAfter_base, hx, hxs, bind, Except.bind, pure, Except.pure]


theorem processItem_eq (t : Table) (m : Matcher) (q : Query) (st : SearchState) (k : Bytes) (item : Item)
    (hs : st.started = true) (hk : alookup k t.data = some item) (ha : Answers m q item) :
    processItem t m q st k = .ok ({ st with
        items := if verdict m q item then item :: st.items else st.items,
        scanned := st.scanned + 1,
        count := if counts m q item then st.count + 1 else st.count,
        last := item },
      q.limit != 0 && q.limit == (if counts m q item then st.count + 1 else st.count)) := by
  obtain ⟨ty, b, hb⟩ := ha
  simp only [processItem, hk, Option.getD_some, hb, bind, Except.bind, Option.isSome_some, Bool.true_and, hs, pure,
    Except.pure, verdict, counts]
  cases b <;> simp

theorem searchStep_started (t : Table) (m : Matcher) (q : Query) (start : SearchStart) (st : SearchState) (k : Bytes)
    (hs : st.started = true) : searchStep t m q false start st k = processItem t m q st k := by
  simp only [searchStep, getPrimaryKey, Bool.false_eq_true, if_false, prepareSearch, hs, if_true]

/-- the first key after the start position switches the search on -/
theorem searchStep_first (t : Table) (m : Matcher) (q : Query) (start : SearchStart) (st : SearchState) (k : Bytes)
    (hs : st.started = false) (ha : aft q.forward k start.key = true) :
    searchStep t m q false start st k = processItem t m q { st with started := true } k := by
  simp only [searchStep, getPrimaryKey, Bool.false_eq_true, if_false, prepareSearch, hs, isAfter_base, ha, if_true]

structure PageOut (t : Table) (m : Matcher) (q : Query) (st st' : SearchState) (ks : List Bytes) : Prop where
  items : st'.items = (pick t m q (cut t m q st.count ks).1).reverse ++ st.items
  last : st'.last = lastItem t (cut t m q st.count ks).1 st.last
  scanned : st'.scanned = st.scanned + (cut t m q st.count ks).1.length
  stopped : (cut t m q st.count ks).2 = true → st'.count = q.limit ∧ q.limit ≠ 0
  complete : (cut t m q st.count ks).2 = false → (cut t m q st.count ks).1 = ks ∧ (q.limit ≠ 0 → st'.count < q.limit)

theorem lastItem_cons (t : Table) (k : Bytes) (P : List Bytes) (d : Item) :
    lastItem t (k :: P) d = lastItem t P (itemOf t k) := by
  cases P with
  | nil => simp [lastItem]
  | cons p ps =>
    simp only [lastItem, List.getLast?_cons_cons]
    cases h : (p :: ps).getLast? with
    | some x => rfl
    | none => simp at h

theorem process_phase (t : Table) (m : Matcher) (q : Query) (start : SearchStart) :
    ∀ (ks : List Bytes) (st : SearchState), st.started = true → (q.limit ≠ 0 → st.count < q.limit) →
    (∀ k ∈ ks, ∃ item, alookup k t.data = some item ∧ Answers m q item) →
    ∃ st', searchLoop t m q false start st ks = .ok st' ∧ PageOut t m q st st' ks := by
  intro ks
  induction ks with
  | nil =>
    intro st _ hlt _
    exact ⟨st, rfl, ⟨by simp [cut, pick], by simp [cut, lastItem], by simp [cut], by simp [cut],
      fun _ => ⟨by simp [cut], hlt⟩⟩⟩
  | cons k ks ih =>
    intro st hs hlt hall
    obtain ⟨item, hk, ha⟩ := hall k (by simp)
    have hitem : itemOf t k = item := by simp [itemOf, hk]
    have hstep := processItem_eq t m q st k item hs hk ha
    simp only [searchLoop, searchStep_started t m q start st k hs, hstep, bind, Except.bind]
    cases hstop : (q.limit != 0 && q.limit == (if counts m q item then st.count + 1 else st.count)) with
    | true =>
      simp only [if_true, pure, Except.pure]
      have hcut : cut t m q st.count (k :: ks) = ([k], true) := by
        simp only [cut, hitem, hstop, if_true]
      refine ⟨_, rfl, ⟨?_, ?_, ?_, ?_, ?_⟩⟩
      · simp only [hcut, pick, List.filterMap_cons, List.filterMap_nil, hk, Option.getD_some]
        cases verdict m q item <;> simp
      · simp [hcut, lastItem, itemOf, hk]
      · simp [hcut]
      · intro _
        simp only [Bool.and_eq_true, bne_iff_ne, ne_eq, beq_iff_eq] at hstop
        exact ⟨hstop.2.symm, hstop.1⟩
      · intro h; rw [hcut] at h; cases h
    | false =>
      simp only [Bool.false_eq_true, if_false]
      have hlt' : q.limit ≠ 0 → (if counts m q item then st.count + 1 else st.count) < q.limit := by
        intro h0
        have := hlt h0
        simp only [Bool.and_eq_false_imp, bne_iff_ne, ne_eq, beq_eq_false_iff_ne] at hstop
        have hne := hstop h0
        split <;> split at hne <;> omega
      obtain ⟨st', hloop, hout⟩ := ih { st with
          items := if verdict m q item then item :: st.items else st.items,
          scanned := st.scanned + 1,
          count := if counts m q item then st.count + 1 else st.count,
          last := item } hs hlt' (fun k' hk' => hall k' (by simp [hk']))
      have hcut1 : (cut t m q st.count (k :: ks)).1 = k :: (cut t m q (if counts m q item then st.count + 1 else st.count) ks).1 := by
        simp only [cut, hitem, hstop, Bool.false_eq_true, if_false]
      have hcut2 : (cut t m q st.count (k :: ks)).2 = (cut t m q (if counts m q item then st.count + 1 else st.count) ks).2 := by
        simp only [cut, hitem, hstop, Bool.false_eq_true, if_false]
      refine ⟨st', hloop, ⟨?_, ?_, ?_, ?_, ?_⟩⟩
      · rw [hout.items, hcut1]
        simp only [pick, List.filterMap_cons, hk, Option.getD_some]
        cases verdict m q item <;> simp
      · rw [hout.last, hcut1, lastItem_cons, hitem]
      · rw [hout.scanned, hcut1]; simp only [List.length_cons]; omega
      · intro h; rw [hcut2] at h; exact hout.stopped h
      · intro h; rw [hcut2] at h
        obtain ⟨h1, h2⟩ := hout.complete h
        exact ⟨by rw [hcut1, h1], h2⟩


theorem cut_cons (t : Table) (m : Matcher) (q : Query) (c : Nat) (k : Bytes) (ks : List Bytes) :
    cut t m q c (k :: ks) =
      (if q.limit != 0 && q.limit == (if counts m q (itemOf t k) then c + 1 else c) then ([k], true)
       else ((k :: (cut t m q (if counts m q (itemOf t k) then c + 1 else c) ks).1),
             (cut t m q (if counts m q (itemOf t k) then c + 1 else c) ks).2)) := rfl

theorem cut_length_le (t : Table) (m : Matcher) (q : Query) : ∀ (ks : List Bytes) (c : Nat),
    (cut t m q c ks).1.length ≤ ks.length := by
  intro ks
  induction ks with
  | nil => intro c; simp [cut]
  | cons k ks ih =>
    intro c
    rw [cut_cons]
    generalize (if counts m q (itemOf t k) then c + 1 else c) = c'
    cases (q.limit != 0 && q.limit == c')
    · simp only [Bool.false_eq_true, if_false, List.length_cons]; have := ih c'; omega
    · simp

/-- the cut is a prefix -/
theorem cut_prefix (t : Table) (m : Matcher) (q : Query) : ∀ (ks : List Bytes) (c : Nat),
    ∃ rest, ks = (cut t m q c ks).1 ++ rest := by
  intro ks
  induction ks with
  | nil => intro c; exact ⟨[], by simp [cut]⟩
  | cons k ks ih =>
    intro c
    rw [cut_cons]
    generalize (if counts m q (itemOf t k) then c + 1 else c) = c'
    cases (q.limit != 0 && q.limit == c')
    · obtain ⟨rest, hr⟩ := ih c'
      exact ⟨rest, by simp only [Bool.false_eq_true, if_false, List.cons_append]; rw [← hr]⟩
    · exact ⟨ks, rfl⟩

/-- the start position of a read of the table: the key string of ExclusiveStartKey, empty when there is none -/
def startOf (t : Table) (q : Query) : Bytes := (parseSearchStart t none q.startKey).key

def orderOf (t : Table) (q : Query) : List Bytes := if q.forward then t.sortedKeys else t.sortedKeys.reverse

/-- the keys positioned after the start of the read, in read order -/
def afterKeys (t : Table) (q : Query) : List Bytes :=
  if (startOf t q).isEmpty then orderOf t q else (orderOf t q).filter fun k => aft q.forward k (startOf t q)

theorem filter_split (p : Bytes → Bool) (lo hi : List Bytes) (h1 : ∀ x ∈ lo, p x = false) (h2 : ∀ x ∈ hi, p x = true) :
    (lo ++ hi).filter p = hi := by
  rw [List.filter_append]
  have : lo.filter p = [] := by
    rw [List.filter_eq_nil_iff]; intro x hx; simp [h1 x hx]
  rw [this, List.nil_append, List.filter_eq_self]
  exact h2

/-- the LastEvaluatedKey a page reports -/
def lekOf (t : Table) (m : Matcher) (q : Query) : Item :=
  let c := cut t m q 0 (afterKeys t q)
  if c.2 && !(lastItem t c.1 []).isEmpty then Key.keyItem t.schema (lastItem t c.1 []) else []

/-- **what one page is**: the items of the keys positioned after the start key — whether or not
    that key is (still) in the table — in read order, up to the one that brings the count of
    evaluated items to the Limit; LastEvaluatedKey is reported exactly when the Limit was reached -/
theorem page_spec (t : Table) (m : Matcher) (q : Query) (hinv : TableInv t) (hchain : Chain q.forward (orderOf t q))
    (hidx : q.index = [])
    (ha : ∀ k item, alookup k t.data = some item → Answers m q item) :
    ∃ r, t.searchData m q = .ok r ∧ r.items = pick t m q (cut t m q 0 (afterKeys t q)).1 ∧ r.lastKey = lekOf t m q := by
  have hall : ∀ ks : List Bytes, (∀ k ∈ ks, k ∈ t.sortedKeys) →
      ∀ k ∈ ks, ∃ item, alookup k t.data = some item ∧ Answers m q item := by
    intro ks hks k hk
    have := (hinv.memIff k).1 (hks k hk)
    simp only [ahas, Option.isSome_iff_exists] at this
    obtain ⟨item, hi⟩ := this
    exact ⟨item, hi, ha k item hi⟩
  have hsub : ∀ k ∈ orderOf t q, k ∈ t.sortedKeys := by
    intro k hk; unfold orderOf at hk; split at hk
    · exact hk
    · simpa using hk
  have hlen : (orderOf t q).length = t.sortedKeys.length := by unfold orderOf; split <;> simp
  -- the loop, from the initial state, in terms of the keys after the start
  have hloop : ∃ st', searchLoop t m q false (parseSearchStart t none q.startKey)
        { started := (startOf t q).isEmpty, refs := [] } (orderOf t q) = .ok st' ∧
      st'.items = (pick t m q (cut t m q 0 (afterKeys t q)).1).reverse ∧
      st'.last = lastItem t (cut t m q 0 (afterKeys t q)).1 [] ∧
      st'.scanned ≤ t.sortedKeys.length ∧
      ((cut t m q 0 (afterKeys t q)).2 = true → st'.count = q.limit ∧ q.limit ≠ 0) ∧
      ((cut t m q 0 (afterKeys t q)).2 = false → q.limit ≠ 0 → st'.count < q.limit) := by
    cases hse : (startOf t q).isEmpty with
    | true =>
      have hA : afterKeys t q = orderOf t q := by simp [afterKeys, hse]
      obtain ⟨st', h1, hout⟩ := process_phase t m q (parseSearchStart t none q.startKey) (orderOf t q)
        { started := true, refs := [] } rfl (fun h => by simp; omega) (hall _ hsub)
      refine ⟨st', h1, ?_, ?_, ?_, ?_, ?_⟩
      · rw [hA]; simpa using hout.items
      · rw [hA]; exact hout.last
      · rw [hout.scanned, ← hlen]; have := cut_length_le t m q (orderOf t q) 0; simp only at this ⊢; omega
      · rw [hA]; exact hout.stopped
      · rw [hA]; intro h; exact (hout.complete h).2
    | false =>
      obtain ⟨lo, hi, he, hlo, hhi⟩ := chain_split q.forward (startOf t q) (orderOf t q) hchain
      have hA : afterKeys t q = hi := by
        simp only [afterKeys, hse, Bool.false_eq_true, if_false]
        rw [he]; exact filter_split _ lo hi hlo hhi
      have hclo : Chain q.forward lo := by rw [he] at hchain; exact (chain_append q.forward lo hi hchain).1
      obtain ⟨st1, hskip, hi1, hc1, hl1, hs1⟩ := skip_phase t m q (parseSearchStart t none q.startKey) lo
        { started := false, refs := [] } rfl hclo hlo
      cases hi with
      | nil =>
        -- nothing lies after the start key
        refine ⟨st1, ?_, ?_, ?_, ?_, ?_, ?_⟩
        · rw [he, hskip []]; rfl
        · rw [hA]; simp [cut, pick, hi1]
        · rw [hA]; simp [cut, lastItem, hl1]
        · rw [hs1, ← hlen, he]; simp
        · rw [hA]; simp [cut]
        · rw [hA]; intro _ h0; rw [hc1]; simp; omega
      | cons h hs =>
        -- whether or not the start key itself was met, the first key after it runs as started
        have hsame : searchLoop t m q false (parseSearchStart t none q.startKey) st1 (h :: hs) =
            searchLoop t m q false (parseSearchStart t none q.startKey) { st1 with started := true } (h :: hs) := by
          cases hst : st1.started with
          | true => cases st1; simp_all
          | false =>
            simp only [searchLoop]
            rw [searchStep_first t m q _ st1 h hst (hhi h (by simp)), searchStep_started t m q _ { st1 with started := true } h rfl]
        have hmem : ∀ k ∈ h :: hs, k ∈ t.sortedKeys := fun k hk => hsub k (by rw [he]; exact List.mem_append_right _ hk)
        obtain ⟨st', h1, hout⟩ := process_phase t m q (parseSearchStart t none q.startKey) (h :: hs)
          { st1 with started := true } rfl (fun h => by simp only [hc1]; omega) (hall _ hmem)
        refine ⟨st', ?_, ?_, ?_, ?_, ?_, ?_⟩
        · rw [he, hskip (h :: hs), hsame]; exact h1
        · rw [hA, hout.items]; simp only [hc1, hi1, List.append_nil]
        · rw [hA, hout.last]; simp only [hc1, hl1]
        · rw [hout.scanned, ← hlen, he]
          have := cut_length_le t m q (h :: hs) 0
          simp only [hc1, hs1, List.length_append, List.length_nil, Nat.zero_add] at this ⊢
          omega
        · rw [hA]; intro hh; have := hout.stopped; simp only [hc1] at this; exact this hh
        · rw [hA]; intro hh; have := hout.complete; simp only [hc1] at this; exact (this hh).2
  obtain ⟨st', hl, hitems, hlast, hscan, hstop, hcomp⟩ := hloop
  refine ⟨{ items := st'.items.reverse, lastKey := lekOf t m q }, ?_, by simp [hitems], rfl⟩
  simp only [searchData, hidx, List.isEmpty_nil, if_true, Option.isSome_none, bind, Except.bind]
  have hl' : searchLoop t m q false (parseSearchStart t none q.startKey)
      { started := (parseSearchStart t none q.startKey).key.isEmpty, refs := [] }
      (if q.forward = true then t.sortedKeys else t.sortedKeys.reverse) = .ok st' := hl
  rw [hl']
  simp only [pure, Except.pure]
  congr 1
  -- the reported key
  simp only [lekOf, hlast]
  cases hcut : (cut t m q 0 (afterKeys t q)).2 with
  | true =>
    obtain ⟨hcnt, hne⟩ := hstop hcut
    have h0 : (q.limit == 0) = false := by simpa using hne
    have hle : decide (st'.scanned ≤ t.sortedKeys.length) = true := by simpa using hscan
    simp only [h0, hle, hcnt, Nat.le_refl, decide_true, Bool.and_self, Bool.not_true, Bool.or_false, Bool.true_and]
    cases (lastItem t (cut t m q 0 (afterKeys t q)).1 []).isEmpty <;> simp
  | false =>
    simp only [Bool.false_and, Bool.false_eq_true, if_false]
    by_cases h0 : q.limit = 0
    · simp [h0]
    · have := hcomp hcut h0
      have : decide (q.limit ≤ st'.count) = false := by simp; omega
      simp [this]

/-! ### from one page to the next -/

/-- every item is stored under the key string of its own key attributes (what `Put` establishes;
    `UpdateItem` may break it: KF-C13-update-changes-key) -/
structure Keyed (t : Table) : Prop where
  primary : t.schema.secondary = false
  keyed : ∀ k item, alookup k t.data = some item → Key.getKey t.schema t.attrs (Key.keyItem t.schema item) = .ok k

theorem getKey_nil (ks : KeySchema) (attrs : List (Bytes × Bytes)) (h : ks.secondary = false) :
    Key.getKey ks attrs [] = .error .missing := by
  simp [Key.getKey, Key.keyValue, Key.keyAttrValue, Key.itemValue, alookup, h, bind, Except.bind]

theorem keyItem_nil (ks : KeySchema) : Key.keyItem ks [] = [] := by
  simp [Key.keyItem, alookup]

theorem cut_stopped_last (t : Table) (m : Matcher) (q : Query) : ∀ (ks : List Bytes) (c : Nat),
    (cut t m q c ks).2 = true → ∃ pre kn rest, (cut t m q c ks).1 = pre ++ [kn] ∧ ks = pre ++ kn :: rest := by
  intro ks
  induction ks with
  | nil => intro c h; simp [cut] at h
  | cons k ks ih =>
    intro c h
    rw [cut_cons] at h ⊢
    generalize (if counts m q (itemOf t k) then c + 1 else c) = c' at h ⊢
    cases hs : (q.limit != 0 && q.limit == c') with
    | true => exact ⟨[], k, ks, by simp, by simp⟩
    | false =>
      rw [hs] at h
      simp only [Bool.false_eq_true, if_false] at h ⊢
      obtain ⟨pre, kn, rest, h1, h2⟩ := ih c' h
      exact ⟨k :: pre, kn, rest, by rw [h1]; rfl, by rw [h2]; rfl⟩

/-- a cut that did not stop is the whole list -/
theorem cut_complete (t : Table) (m : Matcher) (q : Query) : ∀ (ks : List Bytes) (c : Nat),
    (cut t m q c ks).2 = false → (cut t m q c ks).1 = ks := by
  intro ks
  induction ks with
  | nil => intro c _; rfl
  | cons k ks ih =>
    intro c h
    rw [cut_cons] at h ⊢
    generalize (if counts m q (itemOf t k) then c + 1 else c) = c' at h ⊢
    cases hs : (q.limit != 0 && q.limit == c') with
    | true => simp [hs] at h
    | false =>
      simp only [hs, Bool.false_eq_true, if_false] at h ⊢
      rw [ih c' h]

theorem lastItem_snoc (t : Table) (pre : List Bytes) (kn : Bytes) (d : Item) : lastItem t (pre ++ [kn]) d = itemOf t kn := by
  simp [lastItem]

theorem pick_append (t : Table) (m : Matcher) (q : Query) (a b : List Bytes) :
    pick t m q (a ++ b) = pick t m q a ++ pick t m q b := by
  simp [pick, List.filterMap_append]

/-- the same request with another ExclusiveStartKey -/
def withStart (q : Query) (esk : Item) : Query := { q with startKey := esk }

@[simp] theorem withStart_forward (q : Query) (esk : Item) : (withStart q esk).forward = q.forward := rfl
@[simp] theorem withStart_limit (q : Query) (esk : Item) : (withStart q esk).limit = q.limit := rfl
@[simp] theorem withStart_index (q : Query) (esk : Item) : (withStart q esk).index = q.index := rfl
@[simp] theorem withStart_startKey (q : Query) (esk : Item) : (withStart q esk).startKey = esk := rfl

/-- the verdict on an item does not depend on where the read starts -/
theorem pick_startKey (t : Table) (m : Matcher) (q : Query) (esk : Item) (ks : List Bytes) :
    pick t m (withStart q esk) ks = pick t m q ks := rfl

theorem answers_startKey (m : Matcher) (q : Query) (esk : Item) (item : Item) (h : Answers m q item) : Answers m (withStart q esk) item := h

theorem cut_startKey (t : Table) (m : Matcher) (q : Query) (esk : Item) (c : Nat) (ks : List Bytes) :
    cut t m (withStart q esk) c ks = cut t m q c ks := by
  induction ks generalizing c with
  | nil => rfl
  | cons k ks ih =>
    have hc : counts m (withStart q esk) (itemOf t k) = counts m q (itemOf t k) := rfl
    rw [cut_cons, cut_cons, hc, ih, withStart_limit]

/-- the keys after the start are a suffix of the read order, so they form a chain themselves and the
    keys after one of them are the rest of that suffix -/
theorem afterKeys_suffix (t : Table) (q : Query) (hchain : Chain q.forward (orderOf t q)) :
    ∃ lo, orderOf t q = lo ++ afterKeys t q := by
  cases hse : (startOf t q).isEmpty with
  | true => exact ⟨[], by simp [afterKeys, hse]⟩
  | false =>
    obtain ⟨lo, hi, he, hlo, hhi⟩ := chain_split q.forward (startOf t q) (orderOf t q) hchain
    refine ⟨lo, ?_⟩
    simp only [afterKeys, hse, Bool.false_eq_true, if_false]
    rw [he, filter_split _ lo hi hlo hhi]

/-- **resuming after key `kn`**: if the keys after the start of one read are `pre ++ kn :: rest`, then
    the keys after `kn` are exactly `rest` — in the same table; nothing is skipped and nothing repeated -/
theorem after_member (t : Table) (q : Query) (hchain : Chain q.forward (orderOf t q)) (pre rest : List Bytes) (kn : Bytes)
    (hA : afterKeys t q = pre ++ kn :: rest) :
    (orderOf t q).filter (fun k => aft q.forward k kn) = rest := by
  obtain ⟨lo, he⟩ := afterKeys_suffix t q hchain
  rw [hA] at he
  have hc : Chain q.forward ((lo ++ pre) ++ kn :: rest) := by rw [List.append_assoc, ← he]; exact hchain
  obtain ⟨h1, h2, h3⟩ := chain_after_member q.forward (lo ++ pre) rest kn hc
  have : orderOf t q = (lo ++ pre ++ [kn]) ++ rest := by rw [he]; simp
  rw [this]
  apply filter_split
  · intro x hx
    rcases List.mem_append.1 hx with hx | hx
    · exact h1 x hx
    · have : x = kn := by simpa using hx
      rw [this]; exact h2
  · exact h3


/-- read page after page, passing each LastEvaluatedKey back as ExclusiveStartKey, until none comes
    back; `none` when `fuel` pages were not enough -/
def paginate (t : Table) (m : Matcher) (q : Query) : Nat → Item → Except String (Option (List Item))
  | 0, _ => pure none
  | fuel + 1, esk => do
    let r ← t.searchData m (withStart q esk)
    if r.lastKey.isEmpty then pure (some r.items)
    else do
      let rest ← paginate t m q fuel r.lastKey
      pure (rest.map (r.items ++ ·))

theorem orderOf_startKey (t : Table) (q : Query) (esk : Item) : orderOf t (withStart q esk) = orderOf t q := rfl

/-- **C04**: for every positive Limit, pagination from any start ends within (number of keys after
    the start) + 1 pages and returns, concatenated, exactly the items an unlimited read returns
    from that start — nothing lost, duplicated or reordered -/
theorem paginate_complete (t : Table) (m : Matcher) (q : Query) (hinv : TableInv t) (hkeyed : Keyed t)
    (hidx : q.index = [])
    (ha : ∀ k item, alookup k t.data = some item → Answers m q item) :
    ∀ (n : Nat) (esk : Item), (afterKeys t (withStart q esk)).length ≤ n → ∀ fuel, n < fuel →
      paginate t m q fuel esk = .ok (some (pick t m q (afterKeys t (withStart q esk)))) := by
  have hchain : ∀ esk, Chain q.forward (orderOf t (withStart q esk)) := fun _ => order_chain t hinv q.forward
  intro n
  induction n with
  | zero =>
    intro esk hn fuel hf
    obtain ⟨fuel', rfl⟩ : ∃ f, fuel = f + 1 := ⟨fuel - 1, by omega⟩
    have hA : afterKeys t (withStart q esk) = [] := List.eq_nil_of_length_eq_zero (by omega)
    obtain ⟨r, hr, hitems, hlek⟩ := page_spec t m (withStart q esk) hinv (hchain esk) hidx (fun k item hk => answers_startKey m q esk item (ha k item hk))
    simp only [paginate, hr, bind, Except.bind]
    have : r.lastKey = [] := by rw [hlek]; simp [lekOf, hA, cut]
    simp only [this, List.isEmpty_nil, if_true, pure, Except.pure]
    rw [hitems, hA]; simp [cut, pick]
  | succ n ih =>
    intro esk hn fuel hf
    obtain ⟨fuel', rfl⟩ : ∃ f, fuel = f + 1 := ⟨fuel - 1, by omega⟩
    obtain ⟨r, hr, hitems, hlek⟩ := page_spec t m (withStart q esk) hinv (hchain esk) hidx (fun k item hk => answers_startKey m q esk item (ha k item hk))
    simp only [paginate, hr, bind, Except.bind]
    cases hstop : (cut t m (withStart q esk) 0 (afterKeys t (withStart q esk))).2 with
    | false =>
      -- the Limit was not reached: the page is the whole rest, no key is reported
      have hl : r.lastKey = [] := by rw [hlek]; simp [lekOf, hstop]
      simp only [hl, List.isEmpty_nil, if_true, pure, Except.pure]
      obtain ⟨rest, hrest⟩ := cut_prefix t m (withStart q esk) (afterKeys t (withStart q esk)) 0
      rw [hitems, cut_complete t m (withStart q esk) _ 0 hstop]
      rfl
    | true =>
      obtain ⟨pre, kn, rest, hP, hAeq⟩ := cut_stopped_last t m (withStart q esk) _ 0 hstop
      -- the item under the last key of the page
      have hmemA : kn ∈ afterKeys t (withStart q esk) := by rw [hAeq]; simp
      obtain ⟨lo, hord⟩ := afterKeys_suffix t (withStart q esk) (hchain esk)
      have hmemS : kn ∈ t.sortedKeys := by
        have : kn ∈ orderOf t (withStart q esk) := by rw [hord]; exact List.mem_append_right _ hmemA
        unfold orderOf at this; split at this
        · exact this
        · simpa using this
      have hstored := (hinv.memIff kn).1 hmemS
      simp only [ahas, Option.isSome_iff_exists] at hstored
      obtain ⟨item, hitem⟩ := hstored
      have hkey := hkeyed.keyed kn item hitem
      have hitemOf : itemOf t kn = item := by simp [itemOf, hitem]
      have hne : item ≠ [] := by
        intro h0; rw [h0, keyItem_nil, getKey_nil _ _ hkeyed.primary] at hkey; cases hkey
      have hkne : Key.keyItem t.schema item ≠ [] := by
        intro h0; rw [h0, getKey_nil _ _ hkeyed.primary] at hkey; cases hkey
      have hl : r.lastKey = Key.keyItem t.schema item := by
        rw [hlek]
        simp only [lekOf, hstop, hP, lastItem_snoc, hitemOf, Bool.true_and]
        have : item.isEmpty = false := by cases item <;> simp_all
        simp [this]
      have hlne : r.lastKey.isEmpty = false := by rw [hl]; cases h : Key.keyItem t.schema item <;> simp_all
      simp only [hlne, Bool.false_eq_true, if_false]
      -- the next read starts after kn
      have hstart : startOf t (withStart q r.lastKey) = kn := by
        simp only [startOf, parseSearchStart, withStart_startKey, hlne, Bool.false_eq_true, if_false]
        rw [hl, hkey]; rfl
      have hknne : kn ≠ [] := C13.key_nonempty _ _ _ _ hkeyed.primary hkey
      have hnext : afterKeys t (withStart q r.lastKey) = rest := by
        have hke : kn.isEmpty = false := by cases kn <;> simp_all
        unfold afterKeys
        rw [hstart]
        simp only [hke, Bool.false_eq_true, if_false]
        exact after_member t (withStart q esk) (hchain esk) pre rest kn hAeq
      have hlen : (afterKeys t (withStart q r.lastKey)).length ≤ n := by
        rw [hnext]; rw [hAeq] at hn; simp at hn; omega
      rw [ih r.lastKey hlen fuel' (by omega)]
      simp only [pure, Except.pure, Option.map_some]
      rw [hitems, hP, hnext, hAeq]
      have : pre ++ kn :: rest = (pre ++ [kn]) ++ rest := by simp
      rw [this, pick_append, pick_append, pick_append, pick_startKey, pick_startKey]

/-- from the beginning, pagination returns what the unpaginated read returns (`C02.search_exact`) -/
theorem paginate_eq_unpaginated (t : Table) (m : Matcher) (q : Query) (hinv : TableInv t) (hkeyed : Keyed t)
    (hidx : q.index = [])
    (ha : ∀ k item, alookup k t.data = some item → Answers m q item) :
    paginate t m q (t.sortedKeys.length + 1) [] =
      .ok (some (pick t m q (if q.forward then t.sortedKeys else t.sortedKeys.reverse))) := by
  have hA : afterKeys t (withStart q []) = (if q.forward then t.sortedKeys else t.sortedKeys.reverse) := by
    have hs : startOf t (withStart q []) = [] := by simp [startOf, parseSearchStart]
    simp only [afterKeys, hs, List.isEmpty_nil, if_true, orderOf, withStart_forward]
    rfl
  have hlen : (afterKeys t (withStart q [])).length ≤ t.sortedKeys.length := by
    rw [hA]; split <;> simp
  rw [paginate_complete t m q hinv hkeyed hidx ha t.sortedKeys.length [] hlen (t.sortedKeys.length + 1) (by omega), hA]


/-! ### the writes of the model establish `Keyed` -/

theorem alookup_keyItem_hash (ks : KeySchema) (item : Item) : alookup ks.hash (Key.keyItem ks item) = alookup ks.hash item := by
  unfold Key.keyItem
  cases hh : alookup ks.hash item with
  | some v => simp [alookup]
  | none =>
    simp only [List.nil_append]
    split
    · rfl
    · cases hr : alookup ks.range item with
      | none => rfl
      | some v =>
        simp only [alookup]
        split
        · rename_i heq
          have : ks.range = ks.hash := by simpa using heq
          rw [this, hh] at hr; cases hr
        · rfl

theorem alookup_keyItem_range (ks : KeySchema) (item : Item) (hr : ks.range.isEmpty = false) :
    alookup ks.range (Key.keyItem ks item) = alookup ks.range item := by
  unfold Key.keyItem
  simp only [hr, Bool.false_eq_true, if_false]
  cases hh : alookup ks.hash item with
  | some v =>
    simp only [List.cons_append, List.nil_append, alookup]
    split
    · rename_i heq
      have : ks.hash = ks.range := by simpa using heq
      rw [← this, hh]
    · cases hr2 : alookup ks.range item with
      | none => rfl
      | some w => simp [alookup]
  | none =>
    simp only [List.nil_append]
    cases hr2 : alookup ks.range item with
    | none => rfl
    | some w => simp [alookup]

theorem keyAttrValue_congr (ks : KeySchema) (attrs : List (Bytes × Bytes)) (i j : Item) (f : Bytes)
    (h : alookup f i = alookup f j) : Key.keyAttrValue ks attrs i f = Key.keyAttrValue ks attrs j f := by
  simp only [Key.keyAttrValue, Key.itemValue, h]

/-- the key string only depends on the key attributes -/
theorem getKey_keyItem (ks : KeySchema) (attrs : List (Bytes × Bytes)) (item : Item) :
    Key.getKey ks attrs (Key.keyItem ks item) = Key.getKey ks attrs item := by
  have hv : Key.keyValue ks attrs (Key.keyItem ks item) = Key.keyValue ks attrs item := by
    unfold Key.keyValue
    rw [keyAttrValue_congr ks attrs _ item ks.hash (alookup_keyItem_hash ks item)]
    cases hr : ks.range.isEmpty with
    | true => rfl
    | false => rw [keyAttrValue_congr ks attrs _ item ks.range (alookup_keyItem_range ks item hr)]
  unfold Key.getKey
  rw [hv]

theorem keyed_setItem (t : Table) (k : Bytes) (item : Item) (hk : Keyed t)
    (hkey : Key.getKey t.schema t.attrs item = .ok k) : Keyed (t.setItem k item) := by
  have hd : (t.setItem k item).data = ainsert k item t.data := by unfold Table.setItem; split <;> rfl
  have hs : (t.setItem k item).schema = t.schema := by unfold Table.setItem; split <;> rfl
  have ha : (t.setItem k item).attrs = t.attrs := by unfold Table.setItem; split <;> rfl
  refine ⟨by rw [hs]; exact hk.primary, ?_⟩
  intro k' item' hst
  rw [hd] at hst
  rw [hs, ha]
  by_cases hkk : k' = k
  · subst hkk
    rw [alookup_ainsert_self] at hst
    cases hst
    rw [getKey_keyItem]; exact hkey
  · rw [alookup_ainsert_ne _ _ hkk] at hst
    exact hk.keyed k' item' hst

theorem keyed_mapIndexes (t : Table) (f : Index → Index) (hk : Keyed t) : Keyed (t.mapIndexes f) := ⟨hk.primary, hk.keyed⟩

/-- **PutItem keeps every item under its own key** -/
theorem keyed_put (t t' : Table) (m : Matcher) (item : Item) (cond : Option Bytes) (hk : Keyed t)
    (h : t.put m item cond = .ok t') : Keyed t' := by
  unfold Table.put at h
  split at h
  · cases h
  · rename_i key hkey
    simp only [bind, Except.bind] at h
    split at h
    · cases h
    · split at h
      · cases h
      · simp only [pure, Except.pure] at h
        cases h
        exact keyed_mapIndexes _ _ (keyed_setItem t key item hk hkey)

/-- a fresh or cleared table is keyed -/
theorem keyed_empty (t : Table) (hp : t.schema.secondary = false) (hd : t.data = []) : Keyed t :=
  ⟨hp, fun k item h => by rw [hd] at h; cases h⟩


/-- DeleteItem keeps the remaining items under their own keys -/
theorem keyed_delete (t t' : Table) (m : Matcher) (keyAttrs : Item) (cond : Option Bytes) (old : Option Item) (hk : Keyed t)
    (h : t.delete m keyAttrs cond = .ok (t', old)) : Keyed t' := by
  unfold Table.delete at h
  split at h
  · cases h
  · rename_i key hkey
    simp only [bind, Except.bind] at h
    split at h
    · cases h
    · split at h
      · simp only [pure, Except.pure] at h; cases h; exact hk
      · rename_i item hitem
        have herase : ∀ k' item', alookup k' (aerase key t.data) = some item' → alookup k' t.data = some item' := by
          intro k' item' hl
          by_cases hkk : k' = key
          · subst hkk; rw [alookup_aerase_self] at hl; cases hl
          · rwa [alookup_aerase_ne _ hkk] at hl
        split at h
        · simp only [pure, Except.pure] at h; cases h
          exact ⟨hk.primary, fun k' item' hl => hk.keyed k' item' (herase k' item' hl)⟩
        · simp only [pure, Except.pure] at h; cases h
          exact keyed_mapIndexes _ _ ⟨hk.primary, fun k' item' hl => hk.keyed k' item' (herase k' item' hl)⟩

end Minidyn.Props.C04
