/-
  Minidyn.Props.C05Seq — conditional writes, continued: the applied case of UpdateItem and the two
  litmus histories the property names, for every length.

  * `update_iff`, `update_applied`: a conditional UpdateItem is applied iff the condition holds of the
    stored item (the empty item for an absent key), the updater accepts the base item and the result
    has valid index keys; the condition is decided before the updater runs (`update_refused`, C05).
  * `first_put_wins`: any number of PutItem requests for one key, all carrying a condition that
    holds exactly of items without the hash attribute (`attribute_not_exists(hash)`), issued one after
    the other (the table lock serialises them: C11) against a table that does not hold the key:
    exactly the first is applied, every later one is refused with the stored item, and the table ends
    with the first request's item.
  * `updates_compose`: n unconditional updates of one key apply the updater n times to the stored
    item — none is lost (`ADD n :one` n times adds n).
-/
import Minidyn.Props.C01
import Minidyn.Props.C05
import Minidyn.Props.Reach
namespace Minidyn.Props.C05Seq
open Minidyn Minidyn.Table Minidyn.Props.C01 Minidyn.Props.C05

/-! ### UpdateItem, the applied case -/

theorem update_applied {t : Table} {m : Matcher} {upd : Updater} {keyAttrs item : Item} {c key : Bytes} (hc : c ≠ [])
    (hk : Key.getKey t.schema t.attrs keyAttrs = .ok key) (hm : m .cond c (t.getItem key) = .ok true)
    (hu : upd ((alookup key t.data).getD keyAttrs) = .ok item) (hv : t.validateIndexKeys item = true) :
    t.update m upd keyAttrs (some c) = .ok ((t.setItem key item).indexSet key item, item) := by
  unfold Table.update
  have : (alookup key t.data).getD [] = t.getItem key := rfl
  simp [hk, this, checkCondition_spec m c hc, hm, hu, hv, bind, Except.bind, pure, Except.pure]

theorem update_iff {t : Table} {m : Matcher} {upd : Updater} {keyAttrs : Item} {c key : Bytes} (hc : c ≠ [])
    (hk : Key.getKey t.schema t.attrs keyAttrs = .ok key) :
    (∃ r, t.update m upd keyAttrs (some c) = .ok r) ↔
      m .cond c (t.getItem key) = .ok true ∧
      ∃ item, upd ((alookup key t.data).getD keyAttrs) = .ok item ∧ t.validateIndexKeys item = true := by
  constructor
  · rintro ⟨r, hr⟩
    unfold Table.update at hr
    have hg : (alookup key t.data).getD [] = t.getItem key := rfl
    simp only [hk, hg, checkCondition_spec m c hc] at hr
    cases hm : m .cond c (t.getItem key) with
    | panic cls => simp [hm, bind, Except.bind] at hr
    | ok b =>
      cases b
      · simp [hm, bind, Except.bind] at hr
      · refine ⟨by first | rfl | trivial, ?_⟩
        simp only [hm, bind, Except.bind] at hr
        cases hu : upd ((alookup key t.data).getD keyAttrs) with
        | error e => simp [hu] at hr
        | ok item =>
          simp only [hu] at hr
          by_cases hv : t.validateIndexKeys item = true
          · exact ⟨item, rfl, hv⟩
          · simp [hv] at hr
  · rintro ⟨hm, item, hu, hv⟩
    exact ⟨_, update_applied hc hk hm hu hv⟩

/-! ### what a write keeps: the key schema, the declared types and the index schemas -/

/-- the part of a table that decides how keys are built and which items are acceptable -/
structure SameShape (t t' : Table) : Prop where
  schema : t'.schema = t.schema
  attrs : t'.attrs = t.attrs
  validate : ∀ item, t'.validateIndexKeys item = t.validateIndexKeys item

theorem SameShape.rfl' (t : Table) : SameShape t t := ⟨rfl, rfl, fun _ => rfl⟩

theorem SameShape.trans {a b c : Table} (h1 : SameShape a b) (h2 : SameShape b c) : SameShape a c :=
  ⟨h2.schema.trans h1.schema, h2.attrs.trans h1.attrs, fun i => (h2.validate i).trans (h1.validate i)⟩

theorem all_map_schema (attrs : List (Bytes × Bytes)) (item : Item) (f : Index → Index) (hf : ∀ ix, (f ix).schema = ix.schema) :
    ∀ l : List (Bytes × Index),
      (l.map fun (n, ix) => (n, f ix)).all (fun (_, ix) => (Key.getKey ix.schema attrs item).toBool) =
      l.all (fun (_, ix) => (Key.getKey ix.schema attrs item).toBool)
  | [] => rfl
  | (n, ix) :: l => by
    simp only [List.map, List.all_cons, hf, all_map_schema attrs item f hf l]

theorem setOrKeep_schema (attrs : List (Bytes × Bytes)) (key : Bytes) (item : Item) (ix : Index) :
    (match ix.set attrs key item with | .ok ix' => ix' | .error _ => ix).schema = ix.schema := by
  cases hs : ix.set attrs key item with
  | error e => rfl
  | ok ix' => exact Reach.set_schema hs

theorem sameShape_write (t : Table) (key : Bytes) (item : Item) :
    SameShape t ((t.setItem key item).indexSet key item) := by
  have hsch : (t.setItem key item).schema = t.schema := by unfold Table.setItem; split <;> rfl
  have hat : (t.setItem key item).attrs = t.attrs := by unfold Table.setItem; split <;> rfl
  have hix : (t.setItem key item).indexes = t.indexes := Reach.setItem_indexes t key item
  have hat2 : ((t.setItem key item).indexSet key item).attrs = t.attrs := hat
  refine ⟨hsch, hat, ?_⟩
  intro it
  unfold Table.validateIndexKeys
  rw [hat2]
  show ((t.setItem key item).indexes.map _).all _ = t.indexes.all _
  rw [hix]
  exact all_map_schema t.attrs it _ (setOrKeep_schema _ key item) t.indexes

theorem sameShape_put {t t' : Table} {m : Matcher} {item : Item} {cond : Option Bytes}
    (h : t.put m item cond = .ok t') : SameShape t t' := by
  unfold Table.put at h
  cases hk : Key.getKey t.schema t.attrs item with
  | error e => simp [hk] at h
  | ok key =>
    simp only [hk] at h
    cases hc : Table.checkCondition m cond (t.getItem key) with
    | error e => simp [hc, bind, Except.bind] at h
    | ok u =>
      simp only [hc, bind, Except.bind] at h
      by_cases hv : t.validateIndexKeys item = true
      · simp only [hv, Bool.not_true, Bool.false_eq_true, if_false, pure, Except.pure, Except.ok.injEq] at h
        subst h; exact sameShape_write t key item
      · simp [hv] at h

theorem sameShape_update {t t' : Table} {m : Matcher} {upd : Updater} {keyAttrs res : Item} {cond : Option Bytes}
    (h : t.update m upd keyAttrs cond = .ok (t', res)) : SameShape t t' := by
  unfold Table.update at h
  cases hk : Key.getKey t.schema t.attrs keyAttrs with
  | error e => simp [hk] at h
  | ok key =>
    simp only [hk] at h
    cases hc : Table.checkCondition m cond ((alookup key t.data).getD []) with
    | error e => simp [hc, bind, Except.bind] at h
    | ok u =>
      simp only [hc, bind, Except.bind] at h
      cases hu : upd ((alookup key t.data).getD keyAttrs) with
      | error e => simp [hu] at h
      | ok item =>
        simp only [hu] at h
        by_cases hv : t.validateIndexKeys item = true
        · simp only [hv, Bool.not_true, Bool.false_eq_true, if_false, pure, Except.pure, Except.ok.injEq, Prod.mk.injEq] at h
          obtain ⟨rfl, rfl⟩ := h; exact sameShape_write t key item
        · simp [hv] at h

/-! ### first conditional put wins -/

/-- the requests one after the other; `true` for an applied request -/
def puts (m : Matcher) (c : Bytes) : Table → List Item → Table × List Bool
  | t, [] => (t, [])
  | t, it :: rest =>
    match t.put m it (some c) with
    | .ok t' => let r := puts m c t' rest; (r.1, true :: r.2)
    | .error _ => let r := puts m c t rest; (r.1, false :: r.2)

/-- an item that yields a key has the hash attribute -/
theorem has_hash_of_getKey {ks : KeySchema} {attrs : List (Bytes × Bytes)} {item : Item} {k : Bytes}
    (hs : ks.secondary = false) (h : Key.getKey ks attrs item = .ok k) : ahas ks.hash item = true := by
  have hk : Key.keyValue ks attrs item = .ok k := by
    unfold Key.getKey at h
    split at h
    · simp [hs] at h
    · exact h
  unfold Key.keyValue at hk
  cases h1 : Key.keyAttrValue ks attrs item ks.hash with
  | error e => simp [h1, bind, Except.bind] at hk
  | ok a =>
    have h2 := C13.keyAttrValue_ok h1
    unfold Key.itemValue at h2
    cases h3 : alookup ks.hash item with
    | none => simp [h3] at h2
    | some v => simp [ahas, h3]

/-- once the key is stored, every further request is refused and the table stays as it is -/
theorem puts_all_refused (m : Matcher) (c : Bytes) (hc : c ≠ []) (key : Bytes) :
    ∀ (its : List Item) (t : Table),
      (∀ it ∈ its, Key.getKey t.schema t.attrs it = .ok key) →
      m .cond c (t.getItem key) = .ok false →
      puts m c t its = (t, its.map fun _ => false)
  | [], t, _, _ => rfl
  | it :: rest, t, hk, hf => by
    have h1 := put_refused (item := it) hc (hk it (List.mem_cons_self ..)) hf
    simp only [puts, h1, List.map]
    rw [puts_all_refused m c hc key rest t (fun i hi => hk i (List.mem_cons_of_mem _ hi)) hf]

/-- **first writer wins**, from the two verdicts that matter: the condition holds of the empty item
    (nothing stored) and fails on the first request's item -/
theorem first_put_wins' (m : Matcher) (c : Bytes) (hc : c ≠ []) (t : Table) (hT : TableInv t)
    (key : Bytes) (first : Item) (rest : List Item)
    (hm0 : m .cond c [] = .ok true) (hm1 : m .cond c first = .ok false)
    (hk : ∀ it ∈ first :: rest, Key.getKey t.schema t.attrs it = .ok key)
    (hv : t.validateIndexKeys first = true)
    (habs : abs t key = none) :
    (puts m c t (first :: rest)).2 = true :: rest.map (fun _ => false) ∧
    abs (puts m c t (first :: rest)).1 key = some first ∧
    ∀ k, k ≠ key → abs (puts m c t (first :: rest)).1 k = abs t k := by
  have hk1 := hk first (List.mem_cons_self ..)
  have hget : t.getItem key = [] := by
    have : alookup key t.data = none := habs
    simp [Table.getItem, this]
  have htrue : m .cond c (t.getItem key) = .ok true := by rw [hget]; exact hm0
  obtain ⟨t1, h1⟩ := (put_iff hc hk1 hv).mpr htrue
  obtain ⟨key', hk', hT1, hself, hother⟩ := put_ok hT h1
  have : key' = key := by rw [hk1] at hk'; cases hk'; rfl
  subst this
  have hsh := sameShape_put h1
  have hstored : t1.getItem key' = first := by
    have : alookup key' t1.data = some first := hself
    simp [Table.getItem, this]
  have hfalse : m .cond c (t1.getItem key') = .ok false := by rw [hstored]; exact hm1
  have hk2 : ∀ it ∈ rest, Key.getKey t1.schema t1.attrs it = .ok key' := by
    intro it hi; rw [hsh.schema, hsh.attrs]; exact hk it (List.mem_cons_of_mem _ hi)
  have hrest := puts_all_refused m c hc key' rest t1 hk2 hfalse
  simp only [puts, h1, hrest]
  exact ⟨trivial, hself, hother⟩

/-- **first writer wins.** `hm`: the condition holds exactly of items that lack the hash attribute. -/
theorem first_put_wins (m : Matcher) (c : Bytes) (hc : c ≠ []) (t : Table) (hT : TableInv t) (hsec : t.schema.secondary = false)
    (hm : ∀ stored, m .cond c stored = .ok (!(ahas t.schema.hash stored)))
    (key : Bytes) (first : Item) (rest : List Item)
    (hk : ∀ it ∈ first :: rest, Key.getKey t.schema t.attrs it = .ok key)
    (hv : t.validateIndexKeys first = true)
    (habs : abs t key = none) :
    (puts m c t (first :: rest)).2 = true :: rest.map (fun _ => false) ∧
    abs (puts m c t (first :: rest)).1 key = some first ∧
    ∀ k, k ≠ key → abs (puts m c t (first :: rest)).1 k = abs t k :=
  first_put_wins' m c hc t hT key first rest (by rw [hm]; rfl)
    (by rw [hm, has_hash_of_getKey hsec (hk first (List.mem_cons_self ..))]; rfl) hk hv habs

/-! ### no lost update -/

/-- n unconditional updates of one key -/
def updates (m : Matcher) (upd : Updater) (keyAttrs : Item) : Nat → Table → Option Table
  | 0, t => some t
  | n + 1, t =>
    match t.update m upd keyAttrs none with
    | .ok (t', _) => updates m upd keyAttrs n t'
    | .error _ => none

/-- the updater applied n times, starting from the stored item or the key attributes -/
def iter (upd : Updater) : Nat → Item → Option Item
  | 0, it => some it
  | n + 1, it => match upd it with | .ok it' => iter upd n it' | .error _ => none

/-- **no update is lost**: if the n updates all go through, the stored item is the updater applied n
    times to what was stored before (the key attributes when nothing was), and no other key moved -/
theorem updates_compose (m : Matcher) (upd : Updater) (keyAttrs : Item) (key : Bytes) :
    ∀ (n : Nat) (t t' : Table), TableInv t → Key.getKey t.schema t.attrs keyAttrs = .ok key →
      updates m upd keyAttrs (n + 1) t = some t' →
      (∃ res, iter upd (n + 1) ((abs t key).getD keyAttrs) = some res ∧ abs t' key = some res) ∧
      ∀ k, k ≠ key → abs t' k = abs t k
  | 0, t, t', hT, hk, h => by
    simp only [updates] at h
    cases hu : t.update m upd keyAttrs none with
    | error e => simp [hu] at h
    | ok r =>
      obtain ⟨t1, res⟩ := r
      simp only [hu, Option.some.injEq] at h
      subst h
      obtain ⟨key', hk', _, hupd, hself, hother⟩ := update_ok hT hu
      have : key' = key := by rw [hk] at hk'; cases hk'; rfl
      subst this
      exact ⟨⟨res, by simp [iter, hupd], hself⟩, hother⟩
  | n + 1, t, t', hT, hk, h => by
    rw [updates] at h
    cases hu : t.update m upd keyAttrs none with
    | error e => simp [hu] at h
    | ok r =>
      obtain ⟨t1, res⟩ := r
      simp only [hu] at h
      obtain ⟨key', hk', hT1, hupd, hself, hother⟩ := update_ok hT hu
      have : key' = key := by rw [hk] at hk'; cases hk'; rfl
      subst this
      have hsh := sameShape_update hu
      have hk1 : Key.getKey t1.schema t1.attrs keyAttrs = .ok key' := by rw [hsh.schema, hsh.attrs]; exact hk
      obtain ⟨⟨res', hit, hst⟩, hoth⟩ := updates_compose m upd keyAttrs key' n t1 t' hT1 hk1 h
      refine ⟨⟨res', ?_, hst⟩, fun k hne => (hoth k hne).trans (hother k hne)⟩
      rw [hself] at hit
      rw [iter, hupd]; exact hit

/-- non-vacuity: three racing creations of key "a" on an empty table; the condition is
    `attribute_not_exists(h)` as a matcher -/
example :
    let m : Matcher := fun _ _ item => .ok (!(ahas [104] item))
    let t : Table := { name := [116], schema := { hash := [104] }, attrs := [([104], [83])] }
    (puts m [99] t [[([104], .s [97]), ([118], .s [49])], [([104], .s [97]), ([118], .s [50])], [([104], .s [97])]]).2
      = [true, false, false] := by decide

/-- non-vacuity: `ADD n 1` three times on an absent key counts to three -/
example :
    let upd : Updater := fun item =>
      match alookup [110] item with
      | some (.n x) => .ok (ainsert [110] (.n (x ++ [49])) item)
      | _ => .ok (ainsert [110] (.n [49]) item)
    let t : Table := { name := [116], schema := { hash := [104] }, attrs := [([104], [83])] }
    (((updates (fun _ _ _ => .ok true) upd [([104], .s [97])] 3 t).map fun t' => alookup [110] (t'.getItem [97]))
      == some (some (.n [49, 49, 49]))) = true := by decide

end Minidyn.Props.C05Seq
