/-
  Minidyn.Props.C19Get — BatchGetItem accounts for every requested key.

  `batchGet_accounts`: with no emulated failure, every key of every table entry is either answered
  (its item is among the responses of that table) or reported among the unprocessed keys — never
  both, never dropped: the numbers of returned items and unprocessed keys add up to the number of
  requested keys, for any request.  `batchGet_tables`: the responses list one entry per requested
  table, in request order.  (Which of the two a key lands in is `getItem`'s answer, by definition
  of the model; that the implementation does the same is the `decomp` family.)
-/
import Minidyn.Model.Client
namespace Minidyn.Props.C19Get
open Minidyn Minidyn.Client

def sumLen {α β} (l : List (α × List β)) : Nat := (l.map (·.2.length)).sum

/-- the per-key classification of `batchGet` -/
def foundOf (o : Out) : Option Item := match o with
  | Out.item (some it) => if it.isEmpty then none else some it
  | _ => none

def unpOf (k : Item) (o : Out) : Option Item := match o with
  | Out.item (some it) => if it.isEmpty then some k else none
  | _ => some k

theorem one_of (k : Item) (o : Out) : (foundOf o).isSome = !(unpOf k o).isSome := by
  unfold foundOf unpOf
  cases o <;> try rfl
  rename_i it
  cases it with
  | none => rfl
  | some it => cases h : it.isEmpty <;> simp [h]

theorem partition_len : ∀ rs : List (Item × Out),
    (rs.filterMap fun p => foundOf p.2).length + (rs.filterMap fun p => unpOf p.1 p.2).length = rs.length
  | [] => rfl
  | (k, o) :: rs => by
    have ih := partition_len rs
    have h1 := one_of k o
    simp only [List.filterMap_cons]
    cases hf : foundOf o with
    | none =>
      cases hu : unpOf k o with
      | none => simp [hf, hu] at h1
      | some u => simp only [List.length_cons]; omega
    | some f =>
      cases hu : unpOf k o with
      | none => simp only [List.length_cons]; omega
      | some u => simp [hf, hu] at h1

/-- one table entry of the batch, as `batchGet` computes it -/
def perTable (c : Client) (t : Bytes) (keys : List Item) : Bytes × List Item × List Item :=
  let rs := keys.map fun k => (k, (getItem c t k).2)
  (t, rs.filterMap (fun p => foundOf p.2), rs.filterMap (fun p => unpOf p.1 p.2))

theorem perTable_len (c : Client) (t : Bytes) (keys : List Item) :
    (perTable c t keys).2.1.length + (perTable c t keys).2.2.length = keys.length := by
  simp only [perTable]
  rw [partition_len]; simp

theorem batchGet_eq (c : Client) (hs : c.sdk = .v2) (hf : c.failure = none) (reqs : List (Bytes × List Item)) :
    batchGet c reqs =
      (c, .batchGet ((reqs.map fun r => perTable c r.1 r.2).map fun p => (p.1, p.2.1))
                    ((reqs.map fun r => perTable c r.1 r.2).filterMap fun p => if p.2.2.isEmpty then none else some (p.1, p.2.2))) := by
  unfold batchGet
  simp only [hs, hf]
  rfl

theorem sum_found_unp : ∀ per : List (Bytes × List Item × List Item),
    sumLen (per.map fun p => (p.1, p.2.1)) +
      sumLen (per.filterMap fun p => if p.2.2.isEmpty then none else some (p.1, p.2.2)) =
    (per.map fun p => p.2.1.length + p.2.2.length).sum
  | [] => rfl
  | (t, f, u) :: per => by
    have ih := sum_found_unp per
    simp only [sumLen] at ih ⊢
    simp only [List.map_cons, List.filterMap_cons, List.sum_cons]
    cases u with
    | nil => simp only [List.isEmpty_nil, if_true, List.length_nil]; omega
    | cons x xs => simp only [List.isEmpty_cons, Bool.false_eq_true, if_false, List.map_cons, List.sum_cons]; omega

/-- **every key is accounted for** -/
theorem batchGet_accounts (c : Client) (hs : c.sdk = .v2) (hf : c.failure = none) (reqs : List (Bytes × List Item)) :
    ∃ resp unp, (batchGet c reqs).2 = .batchGet resp unp ∧ sumLen resp + sumLen unp = sumLen reqs := by
  refine ⟨_, _, by rw [batchGet_eq c hs hf], ?_⟩
  rw [sum_found_unp]
  simp only [sumLen, List.map_map]
  congr 1
  apply List.map_congr_left
  intro r _
  exact perTable_len c r.1 r.2

/-- one response entry per requested table, in request order -/
theorem batchGet_tables (c : Client) (hs : c.sdk = .v2) (hf : c.failure = none) (reqs : List (Bytes × List Item)) :
    ∃ resp unp, (batchGet c reqs).2 = .batchGet resp unp ∧ resp.map (·.1) = reqs.map (·.1) := by
  refine ⟨_, _, by rw [batchGet_eq c hs hf], ?_⟩
  simp only [List.map_map]
  apply List.map_congr_left
  intro r _; rfl

/-- the state never changes -/
theorem batchGet_reads_only (c : Client) (reqs : List (Bytes × List Item)) : (batchGet c reqs).1 = c := by
  unfold batchGet
  split
  · rfl
  · split <;> rfl

end Minidyn.Props.C19Get
