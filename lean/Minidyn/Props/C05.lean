/-
  Minidyn.Props.C05 — conditional writes are decided on the target item only, atomically.

  For each of the three writes of `Model.Table` (with any interpreter `m`, any update function):
  * `*_iff`: with a condition `c` the write succeeds iff `m` answers `true` on the item stored
    under the request's own key (the empty item when nothing is stored);
  * `*_local`: two tables that agree on that one key give the same verdict — other items never
    matter (this is what the unrepaired DeleteItem violated: it searched the whole table);
  * a refused write returns `conditionFailed` carrying the stored item and no new state, so the
    table and all its indexes are exactly as before (`Except.error` holds no table).
-/
import Minidyn.Model.Table
namespace Minidyn.Props.C05
open Minidyn Minidyn.Table

/-- the verdict of a condition on the stored item -/
theorem checkCondition_spec (m : Matcher) (c : Bytes) (hc : c ≠ []) (stored : Item) :
    checkCondition m (some c) stored =
      match m .cond c stored with
      | .ok true => .ok ()
      | .ok false => .error (.conditionFailed stored)
      | .panic cls => .error (.panic cls) := by
  have : c.isEmpty = false := by cases c <;> simp_all
  simp only [checkCondition, this, Bool.false_eq_true, if_false]
  cases m .cond c stored with
  | ok b => cases b <;> rfl
  | panic cls => rfl

theorem checkCondition_none (m : Matcher) (stored : Item) : checkCondition m none stored = .ok () := rfl

/-- PutItem with a condition succeeds iff the condition holds of the item under the request's key -/
theorem put_iff {t : Table} {m : Matcher} {item : Item} {c key : Bytes} (hc : c ≠ [])
    (hk : Key.getKey t.schema t.attrs item = .ok key) (hv : t.validateIndexKeys item = true) :
    (∃ t', t.put m item (some c) = .ok t') ↔ m .cond c (t.getItem key) = .ok true := by
  unfold Table.put
  simp only [hk, checkCondition_spec m c hc]
  cases hm : m .cond c (t.getItem key) with
  | ok b => cases b <;> simp [hv, bind, Except.bind, pure, Except.pure]
  | panic cls => simp [bind, Except.bind]

theorem put_refused {t : Table} {m : Matcher} {item : Item} {c key : Bytes} (hc : c ≠ [])
    (hk : Key.getKey t.schema t.attrs item = .ok key) (hf : m .cond c (t.getItem key) = .ok false) :
    t.put m item (some c) = .error (.conditionFailed (t.getItem key)) := by
  unfold Table.put
  simp [hk, checkCondition_spec m c hc, hf, bind, Except.bind]

/-- DeleteItem: decided on the target item (`getItem key`), not on a search of the table -/
theorem delete_iff {t : Table} {m : Matcher} {keyAttrs : Item} {c key : Bytes} (hc : c ≠ [])
    (hk : Key.getKey t.schema t.attrs keyAttrs = .ok key) :
    (∃ r, t.delete m keyAttrs (some c) = .ok r) ↔ m .cond c (t.getItem key) = .ok true := by
  unfold Table.delete
  simp only [hk, checkCondition_spec m c hc]
  cases hm : m .cond c (t.getItem key) with
  | ok b =>
    cases b
    · simp [bind, Except.bind]
    · simp only [bind, Except.bind]
      constructor
      · intro _; trivial
      · intro _
        cases alookup key t.data with
        | none => exact ⟨_, rfl⟩
        | some it =>
          simp only [pure, Except.pure]
          split <;> exact ⟨_, rfl⟩
  | panic cls => simp [bind, Except.bind]

theorem delete_refused {t : Table} {m : Matcher} {keyAttrs : Item} {c key : Bytes} (hc : c ≠ [])
    (hk : Key.getKey t.schema t.attrs keyAttrs = .ok key) (hf : m .cond c (t.getItem key) = .ok false) :
    t.delete m keyAttrs (some c) = .error (.conditionFailed (t.getItem key)) := by
  unfold Table.delete
  simp [hk, checkCondition_spec m c hc, hf, bind, Except.bind]

/-- UpdateItem: decided on the stored item (the empty item for an absent key) -/
theorem update_refused {t : Table} {m : Matcher} {upd : Updater} {keyAttrs : Item} {c key : Bytes} (hc : c ≠ [])
    (hk : Key.getKey t.schema t.attrs keyAttrs = .ok key) (hf : m .cond c (t.getItem key) = .ok false) :
    t.update m upd keyAttrs (some c) = .error (.conditionFailed (t.getItem key)) := by
  unfold Table.update
  have : (alookup key t.data).getD [] = t.getItem key := rfl
  simp [hk, this, checkCondition_spec m c hc, hf, bind, Except.bind]

/-- locality: tables that store the same item under `key` decide a conditional delete alike,
    whatever else they contain -/
theorem delete_local {t u : Table} {m : Matcher} {keyAttrs : Item} {c key : Bytes} (hc : c ≠ [])
    (hkt : Key.getKey t.schema t.attrs keyAttrs = .ok key) (hku : Key.getKey u.schema u.attrs keyAttrs = .ok key)
    (hsame : t.getItem key = u.getItem key) :
    (∃ r, t.delete m keyAttrs (some c) = .ok r) ↔ (∃ r, u.delete m keyAttrs (some c) = .ok r) := by
  rw [delete_iff hc hkt, delete_iff hc hku, hsame]

theorem put_local {t u : Table} {m : Matcher} {item : Item} {c key : Bytes} (hc : c ≠ [])
    (hkt : Key.getKey t.schema t.attrs item = .ok key) (hku : Key.getKey u.schema u.attrs item = .ok key)
    (hvt : t.validateIndexKeys item = true) (hvu : u.validateIndexKeys item = true)
    (hsame : t.getItem key = u.getItem key) :
    (∃ t', t.put m item (some c) = .ok t') ↔ (∃ u', u.put m item (some c) = .ok u') := by
  rw [put_iff hc hkt hvt, put_iff hc hku hvu, hsame]

/-- non-vacuity: a bystander that satisfies the condition does not let the delete through -/
example :
    let m : Matcher := fun _ _ item => .ok (alookup [118] item == some (.s [97]))      -- v = "a"
    let t : Table := { name := [116], schema := { hash := [104] }, attrs := [([104], [83])],
                       sortedKeys := [[49], [50]],
                       data := [([49], [([104], .s [49]), ([118], .s [97])]), ([50], [([104], .s [50]), ([118], .s [98])])] }
    (t.delete m [([104], .s [50])] (some [99])).toOption.isNone = true := by
  decide

end Minidyn.Props.C05
