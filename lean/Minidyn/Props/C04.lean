/-
  C04 — paginating with any Limit yields the same result as one unpaginated read.

  Proved here, for every table, index, start key, direction and matcher:
    * `page_le_limit`: a page never holds more than Limit items.
  The concatenation theorem is in `Props/C04Paging.lean`, for reads of the table itself.
-/
import Minidyn.Model.Client
import Minidyn.Props.C02
namespace Minidyn.Props.C04
open Minidyn Minidyn.Table

theorem matchKey_ty (m : Matcher) (q : Query) (item : Item) (ty : Option ExprKind) (b : Bool)
    (h : matchKey m q item = .ok (ty, b)) : shouldCount ty true = true := by
  unfold matchKey at h
  simp only [bind, Except.bind] at h
  by_cases hk : q.keyCond.isEmpty = true
  · simp only [hk, if_true, pure, Except.pure] at h
    by_cases hf : q.filter.isEmpty = true
    · simp only [hf, if_true] at h; cases h; rfl
    · simp only [hf] at h
      by_cases hs : (!q.scan) = true
      · simp only [hs, if_true] at h; cases h; rfl
      · simp only [hs] at h
        cases hm : m .filter q.filter item with
        | ok b1 => simp only [hm] at h; cases h; rfl
        | panic c => simp [hm] at h
  · simp only [hk] at h
    cases hm : m .key q.keyCond item with
    | panic c => simp [hm] at h
    | ok b0 =>
      simp only [hm, pure, Except.pure] at h
      by_cases hf : q.filter.isEmpty = true
      · simp only [hf, if_true] at h; cases h; rfl
      · simp only [hf] at h
        by_cases hs : (!b0) = true
        · simp only [hs, if_true] at h; cases h; rfl
        · simp only [hs] at h
          cases hm2 : m .filter q.filter item with
          | ok b1 => simp only [hm2] at h; cases h; rfl
          | panic c => simp [hm2] at h

/-- the loop invariant: returned items were counted, and the count has not reached the limit -/
structure Inv (q : Query) (st : SearchState) : Prop where
  items_le : st.items.length ≤ st.count
  count_lt : st.count < q.limit

theorem getPrimaryKey_keeps (onIndex : Bool) (st : SearchState) (k : Bytes) :
    (getPrimaryKey onIndex st k).2.items = st.items ∧ (getPrimaryKey onIndex st k).2.count = st.count := by
  unfold getPrimaryKey
  split
  · split <;> simp
  · simp

theorem prepareSearch_keeps (start : SearchStart) (onIndex fwd : Bool) (st : SearchState) (k pk : Bytes) :
    (prepareSearch start onIndex fwd st k pk).2.items = st.items ∧
    (prepareSearch start onIndex fwd st k pk).2.count = st.count := by
  unfold prepareSearch
  split
  · simp
  · split
    · simp
    · split <;> simp

theorem processItem_inv (t : Table) (m : Matcher) (q : Query) (st st' : SearchState) (pk : Bytes) (stop : Bool)
    (hinv : Inv q st) (h : processItem t m q st pk = .ok (st', stop)) :
    st'.items.length ≤ st'.count ∧ st'.count ≤ q.limit ∧ (stop = false → st'.count < q.limit) := by
  have hi := hinv.items_le
  have hc := hinv.count_lt
  unfold processItem at h
  simp only [bind, Except.bind] at h
  cases hm : matchKey m q ((alookup pk t.data).getD []) with
  | error e => simp [hm] at h
  | ok r =>
    obtain ⟨ty, b0⟩ := r
    have hty := matchKey_ty m q _ ty b0 hm
    simp only [hm, pure, Except.pure] at h
    cases h
    generalize (if ((alookup pk t.data).isSome && !(st.started && b0)) = true then false else true) = matched
    cases matched with
    | true =>
      simp only [if_true, hty, List.length_cons]
      refine ⟨by omega, by omega, ?_⟩
      intro hstop
      simp only [Bool.and_eq_false_imp, bne_iff_ne, ne_eq, beq_eq_false_iff_ne] at hstop
      have := hstop (by omega)
      omega
    | false =>
      simp only [Bool.false_eq_true, if_false]
      split
      · refine ⟨by omega, by omega, ?_⟩
        intro hstop
        simp only [Bool.and_eq_false_imp, bne_iff_ne, ne_eq, beq_eq_false_iff_ne] at hstop
        have := hstop (by omega)
        omega
      · exact ⟨by omega, by omega, fun _ => by omega⟩

theorem searchStep_inv (t : Table) (m : Matcher) (q : Query) (onIndex : Bool) (start : SearchStart)
    (st st' : SearchState) (k : Bytes) (stop : Bool) (hinv : Inv q st)
    (h : searchStep t m q onIndex start st k = .ok (st', stop)) :
    st'.items.length ≤ st'.count ∧ st'.count ≤ q.limit ∧ (stop = false → st'.count < q.limit) := by
  have hi := hinv.items_le
  have hc := hinv.count_lt
  have hg := getPrimaryKey_keeps onIndex st k
  unfold searchStep at h
  generalize getPrimaryKey onIndex st k = g at h hg
  obtain ⟨pko, st1⟩ := g
  simp only at hg
  cases pko with
  | none =>
    simp only [pure, Except.pure] at h
    cases h
    simp only [hg.1, hg.2]
    exact ⟨hi, by omega, fun _ => hc⟩
  | some pk =>
    simp only at h
    have hp := prepareSearch_keeps start onIndex q.forward st1 k pk
    generalize prepareSearch start onIndex q.forward st1 k pk = g2 at h hp
    obtain ⟨go, st2⟩ := g2
    simp only at hp
    cases go with
    | false =>
      simp only [pure, Except.pure] at h
      cases h
      simp only [hp.1, hp.2, hg.1, hg.2]
      exact ⟨hi, by omega, fun _ => hc⟩
    | true =>
      simp only at h
      exact processItem_inv t m q st2 st' pk stop ⟨by rw [hp.1, hp.2, hg.1, hg.2]; exact hi, by rw [hp.2, hg.2]; exact hc⟩ h

theorem searchLoop_inv (t : Table) (m : Matcher) (q : Query) (onIndex : Bool) (start : SearchStart)
    (ks : List Bytes) : ∀ (st st' : SearchState), Inv q st → searchLoop t m q onIndex start st ks = .ok st' →
    st'.items.length ≤ st'.count ∧ st'.count ≤ q.limit := by
  induction ks with
  | nil =>
    intro st st' hinv h
    simp only [searchLoop, pure, Except.pure] at h
    cases h
    exact ⟨hinv.items_le, Nat.le_of_lt hinv.count_lt⟩
  | cons k rest ih =>
    intro st st' hinv h
    simp only [searchLoop, bind, Except.bind] at h
    cases hs : searchStep t m q onIndex start st k with
    | error e => simp [hs] at h
    | ok r =>
      obtain ⟨st1, stop⟩ := r
      simp only [hs] at h
      have h1 := searchStep_inv t m q onIndex start st st1 k stop hinv hs
      cases stop with
      | true =>
        simp only [if_true, pure, Except.pure] at h
        cases h
        exact ⟨h1.1, h1.2.1⟩
      | false =>
        simp only [Bool.false_eq_true, if_false] at h
        exact ih st1 st' ⟨h1.1, h1.2.2 rfl⟩ h

/-- **C04, page size**: with a positive Limit a page never holds more than Limit items —
    for the table and for every index, any start key, either direction -/
theorem page_le_limit (t : Table) (m : Matcher) (q : Query) (r : SearchResult) (hl : q.limit ≠ 0)
    (h : t.searchData m q = .ok r) : r.items.length ≤ q.limit := by
  unfold searchData at h
  simp only [bind, Except.bind] at h
  split at h
  · cases h
  · rename_i st hst
    simp only [pure, Except.pure] at h
    cases h
    have := searchLoop_inv t m q _ _ _ _ st ⟨by simp, by simp; omega⟩ hst
    simpa using Nat.le_trans this.1 this.2

end Minidyn.Props.C04
