/-
  Minidyn.Props.C20 — native-interpreter overrides are dispatched exactly and fall back safely.

  Registrations are keyed by (kind, table, normWS text) — a struct key in Go, an injective
  encoding of the pair in the model.  After registering a matcher for (table, kind, text) the
  registry answers it for a request (table', kind', text') iff the keys are equal, and two keys
  are equal iff kind = kind', table = table' and the whitespace-normalised texts are equal
  (`nativeKey_inj`, `matcherKey_inj`: for any bytes in table names and texts).  `normWS` drops leading and
  trailing white space and collapses inner runs (`normWS_idem`, examples); an anagram has a
  different normal form.  `fallback_match`: without a registration the verdict is the built-in
  interpreter's; `no_updater_fails`: an update without a registered updater fails with the
  unsupported-feature error and returns no item.
-/
import Minidyn.Model.Client
import Minidyn.Lemmas.Assoc
import Minidyn.Props.C13
namespace Minidyn.Props.C20
open Minidyn Minidyn.Client

/-- the registration key separates table and text: two keys are equal iff the tables are equal and
    the whitespace-normalised texts are — whatever bytes the table name and the text contain -/
theorem nativeKey_inj (table table' e e' : Bytes) :
    nativeKey table e = nativeKey table' e' ↔ (table = table' ∧ Interp.normWS e = Interp.normWS e') := by
  unfold nativeKey
  constructor
  · intro h; exact C13.escape_sep_injective _ _ _ _ h
  · rintro ⟨rfl, h⟩; rw [h]

theorem matcherKey_inj (kind kind' : ExprKind) (table table' e e' : Bytes) :
    matcherKey kind table e = matcherKey kind' table' e' ↔
      (kind = kind' ∧ table = table' ∧ Interp.normWS e = Interp.normWS e') := by
  unfold matcherKey
  constructor
  · intro h
    simp only [List.cons.injEq] at h
    refine ⟨?_, (nativeKey_inj table table' e e').mp h.2⟩
    cases kind <;> cases kind' <;> simp_all [kindByte]
  · rintro ⟨rfl, rfl, h⟩; rw [(nativeKey_inj table table e e').mpr ⟨rfl, h⟩]

/-- the collision the concatenated key `table ++ "|" ++ text` had: table `tab|x` with text `y` against
    table `tab` with text `x|y` — different keys now -/
example : nativeKey [116, 97, 98, 124, 120] [121] ≠ nativeKey [116, 97, 98] [120, 124, 121] := by decide

/-- registering a matcher makes exactly its own (kind, table, text) key answer with its id … -/
theorem lookup_registered (c : Client) (t : Bytes) (kind : ExprKind) (e : Bytes) (id : Nat) :
    alookup (matcherKey kind t e) (step c (.registerMatcher t kind e id)).1.matchers = some id := by
  simp only [step]; exact alookup_ainsert_self _ _ _

/-- … and leaves every other key as it was: a registration never fires for another table (prefix),
    kind (first byte) or text (normal form) -/
theorem lookup_other (c : Client) (t : Bytes) (kind : ExprKind) (e : Bytes) (id : Nat) (k : Bytes)
    (h : k ≠ matcherKey kind t e) :
    alookup k (step c (.registerMatcher t kind e id)).1.matchers = alookup k c.matchers := by
  simp only [step]; exact alookup_ainsert_ne _ _ h

/-- with the native interpreter off, or without a registration, the verdict is the language's -/
theorem fallback_match (c : Client) (t : Bytes) (ex : Exprs) (kind : ExprKind) (e : Bytes) (item : Item)
    (h : c.useNative = false ∨ alookup (matcherKey kind t e) c.matchers = none) :
    matcher c t ex kind e item =
      match Interp.langMatch e item ex.names ex.values with
      | .ok b => .ok b
      | .error err => .panic (ierrClass err) := by
  unfold matcher
  cases h with
  | inl h => simp only [h, Bool.false_eq_true, if_false]; rfl
  | inr h => simp only [h]; split <;> rfl

/-- the registered matcher's verdict is what the operation uses -/
theorem verdict_used (c : Client) (t : Bytes) (ex : Exprs) (kind : ExprKind) (e : Bytes) (item : Item) (id : Nat)
    (hn : c.useNative = true) (h : alookup (matcherKey kind t e) c.matchers = some id) :
    matcher c t ex kind e item = .ok (matcherVerdict id item) := by
  simp [matcher, hn, h]

/-- no registered updater: unsupported-feature error, no item -/
theorem no_updater_fails (c : Client) (t e : Bytes) (ex : Exprs) (item : Item)
    (hn : c.useNative = true) (h : alookup (nativeKey t e) c.updaters = none) :
    updater c t e ex item = .error "Unsupported" := by
  simp [updater, hn, h]

/-- white space: surrounding and repeated white space is irrelevant, an anagram is another text -/
example : Interp.normWS [32, 32, 97, 98, 32, 32, 61, 9, 58, 120, 10] = Interp.normWS [97, 98, 32, 61, 32, 58, 120] := by decide
example : Interp.normWS [98, 97, 32, 61, 32, 58, 120] ≠ Interp.normWS [97, 98, 32, 61, 32, 58, 120] := by decide
example : Interp.normWS [97, 32, 98, 32, 61, 32, 58, 120] ≠ Interp.normWS [97, 98, 32, 61, 32, 58, 120] := by decide

end Minidyn.Props.C20
