/-
  Minidyn.Props.C19 — batch operations equal their item-by-item decomposition.

  `batchWrite_eq_fold`: a BatchWriteItem none of whose requests fails leaves the client in the
  state obtained by applying the same put and delete requests one after the other with the
  single-item operations (tables in the order given, requests in slice order) and reports
  nothing as unprocessed.  `batchGet_responses`: the response of BatchGetItem for a table is
  the list of the non-empty results of the individual GetItem calls, in key order.
  Not covered (known finding KF-C19-absent-key-unprocessed): keys without a stored item are
  also reported in UnprocessedKeys (`batchGet_absent_unprocessed`).
-/
import Minidyn.Model.Client
namespace Minidyn.Props.C19
open Minidyn Minidyn.Client

/-- the single-item decomposition -/
def applyAll (c : Client) : List (Bytes × WriteReq) → Client
  | [] => c
  | (t, r) :: rest => applyAll (applyWrite c t r).1 rest

def succeeded : Out → Bool
  | .ok | .item _ => true
  | _ => false

/-- every request, applied in turn, succeeds -/
def allSucceed (c : Client) : List (Bytes × WriteReq) → Bool
  | [] => true
  | (t, r) :: rest => succeeded (applyWrite c t r).2 && allSucceed (applyWrite c t r).1 rest

theorem go_eq_fold : ∀ (flat : List (Bytes × WriteReq)) (c : Client) (unp : List (Bytes × List WriteReq)),
    allSucceed c flat = true → batchWrite.go c unp flat = (applyAll c flat, .batchWrite unp) := by
  intro flat
  induction flat with
  | nil => intro c unp _; rfl
  | cons p rest ih =>
    intro c unp h
    obtain ⟨t, r⟩ := p
    simp only [allSucceed, Bool.and_eq_true] at h
    simp only [batchWrite.go, applyAll]
    cases hw : applyWrite c t r with
    | mk c' o =>
      simp only [hw] at h ⊢
      cases o <;> simp [succeeded] at h <;> simp [ih _ _ h]

theorem batchWrite_eq_fold (c : Client) (reqs : List (Bytes × List WriteReq))
    (hvalid : (reqs.flatMap fun (_, rs) => rs).any isBadReq = false) (hlimit : (reqs.flatMap fun (_, rs) => rs).length ≤ 25)
    (hall : allSucceed c (reqs.flatMap fun (t, rs) => rs.map fun r => (t, r)) = true) :
    batchWrite c reqs = (applyAll c (reqs.flatMap fun (t, rs) => rs.map fun r => (t, r)), .batchWrite []) := by
  unfold batchWrite
  have : ¬ (reqs.flatMap fun (_, rs) => rs).length > 25 := by omega
  simp only [hvalid, this, decide_false, Bool.or_false, Bool.false_eq_true, if_false]
  exact go_eq_fold _ c [] hall

/-- more than 25 requests, or a request that is both or neither, rejects the whole batch unapplied -/
theorem batchWrite_rules (c : Client) (reqs : List (Bytes × List WriteReq))
    (h : (reqs.flatMap fun (_, rs) => rs).any isBadReq = true ∨ (reqs.flatMap fun (_, rs) => rs).length > 25) :
    batchWrite c reqs = (c, .err .validation none) := by
  unfold batchWrite
  have : ((reqs.flatMap fun (_, rs) => rs).any isBadReq || decide ((reqs.flatMap fun (_, rs) => rs).length > 25)) = true := by
    cases h with
    | inl h => simp only [h, Bool.true_or]
    | inr h => simp only [h, decide_true, Bool.or_true]
  simp only [this, if_true]

/-- the finding, on the model: an absent key is reported as unprocessed -/
theorem batchGet_absent_unprocessed :
    let c0 : Client := (createTable { sdk := .v2 } { table := [116, 97, 98], key := { hash := ([104], [83]) } }).1
    (match (batchGet c0 [([116, 97, 98], [[([104], .s [97])]])]).2 with
     | .batchGet resp unp => resp.map (·.2.length) == [0] && unp.map (·.2.length) == [1]
     | _ => false) = true := by
  decide

end Minidyn.Props.C19
