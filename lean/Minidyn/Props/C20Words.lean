/-
  Minidyn.Props.C20Words — what "the same expression text up to surrounding and repeated white space" means.

  `Interp.normWS` (Go: `strings.Fields` joined by one space) is characterised by the list of *words* of a text: two
  texts have the same registration key exactly when they have the same words (`normWS_eq_iff`).  Blanks in front,
  behind, doubled or of another kind (space, tab, newline, carriage return) do not change the words
  (`words_leading`, `words_trailing`, `words_repeat`, `words_kind`); a blank inside a word does (example).
-/
import Minidyn.Props.C20
namespace Minidyn.Props.C20
open Minidyn Minidyn.Interp

/-- the words of a text: maximal runs of non-blank bytes -/
def words (s : Bytes) : List Bytes := normWS.fields s []

theorem normWS_def (s : Bytes) : normWS s = normWS.join (words s) := rfl

/-- a blank in front changes nothing -/
theorem words_leading (c : Nat) (s : Bytes) (h : Lexer.isSpace c = true) : words (c :: s) = words s := by
  simp [words, normWS.fields, h]

theorem fields_trailing (c : Nat) (h : Lexer.isSpace c = true) : ∀ (s cur : Bytes),
    normWS.fields (s ++ [c]) cur = normWS.fields s cur := by
  intro s
  induction s with
  | nil => intro cur; cases cur <;> simp [normWS.fields, h]
  | cons x xs ih =>
    intro cur
    simp only [List.cons_append, normWS.fields]
    split
    · split <;> simp [ih]
    · exact ih _

/-- a blank behind changes nothing -/
theorem words_trailing (c : Nat) (s : Bytes) (h : Lexer.isSpace c = true) : words (s ++ [c]) = words s :=
  fields_trailing c h s []

theorem fields_repeat (c d : Nat) (hc : Lexer.isSpace c = true) (hd : Lexer.isSpace d = true) (post : Bytes) : ∀ (pre cur : Bytes),
    normWS.fields (pre ++ c :: d :: post) cur = normWS.fields (pre ++ c :: post) cur := by
  intro pre
  induction pre with
  | nil => intro cur; cases cur <;> simp [normWS.fields, hc, hd]
  | cons x xs ih =>
    intro cur
    simp only [List.cons_append, normWS.fields]
    split
    · split <;> simp [ih]
    · exact ih _

/-- a doubled blank counts once, wherever it stands -/
theorem words_repeat (c d : Nat) (pre post : Bytes) (hc : Lexer.isSpace c = true) (hd : Lexer.isSpace d = true) :
    words (pre ++ c :: d :: post) = words (pre ++ c :: post) :=
  fields_repeat c d hc hd post pre []

theorem fields_kind (c d : Nat) (hc : Lexer.isSpace c = true) (hd : Lexer.isSpace d = true) (post : Bytes) : ∀ (pre cur : Bytes),
    normWS.fields (pre ++ c :: post) cur = normWS.fields (pre ++ d :: post) cur := by
  intro pre
  induction pre with
  | nil => intro cur; cases cur <;> simp [normWS.fields, hc, hd]
  | cons x xs ih =>
    intro cur
    simp only [List.cons_append, normWS.fields]
    split
    · split <;> simp [ih]
    · exact ih _

/-- which of the four blanks stands between two words does not matter -/
theorem words_kind (c d : Nat) (pre post : Bytes) (hc : Lexer.isSpace c = true) (hd : Lexer.isSpace d = true) :
    words (pre ++ c :: post) = words (pre ++ d :: post) :=
  fields_kind c d hc hd post pre []

/-! ### the key determines the words -/

def IsWord (w : Bytes) : Prop := w ≠ [] ∧ ∀ c ∈ w, Lexer.isSpace c = false

theorem fields_isWord : ∀ (s cur : Bytes), (∀ c ∈ cur, Lexer.isSpace c = false) → ∀ w ∈ normWS.fields s cur, IsWord w := by
  intro s
  induction s with
  | nil =>
    intro cur hcur w hw
    cases cur with
    | nil => simp [normWS.fields] at hw
    | cons x xs =>
      simp only [normWS.fields, List.isEmpty_cons, Bool.false_eq_true, if_false, List.mem_singleton] at hw
      subst hw
      exact ⟨by simp, fun c hc => hcur c (by simp only [List.mem_reverse] at hc; exact hc)⟩
  | cons c cs ih =>
    intro cur hcur w hw
    simp only [normWS.fields] at hw
    split at hw
    · split at hw
      · exact ih [] (by simp) w hw
      · rename_i hne
        simp only [List.mem_cons] at hw
        rcases hw with rfl | hw
        · refine ⟨?_, fun x hx => hcur x (by simp only [List.mem_reverse] at hx; exact hx)⟩
          intro h0; apply hne; simpa using h0
        · exact ih [] (by simp) w hw
    · rename_i hsp
      refine ih (c :: cur) ?_ w hw
      intro x hx
      simp only [List.mem_cons] at hx
      rcases hx with rfl | hx
      · simpa using hsp
      · exact hcur x hx

theorem words_isWord (s : Bytes) : ∀ w ∈ words s, IsWord w := fields_isWord s [] (by simp)

/-- reading a run of non-blank bytes only grows the word in progress -/
theorem fields_word : ∀ (w rest cur : Bytes), (∀ c ∈ w, Lexer.isSpace c = false) →
    normWS.fields (w ++ rest) cur = normWS.fields rest (w.reverse ++ cur) := by
  intro w
  induction w with
  | nil => intro rest cur _; rfl
  | cons c cs ih =>
    intro rest cur h
    have hc : Lexer.isSpace c = false := h c (by simp)
    simp only [List.cons_append, normWS.fields, hc, Bool.false_eq_true, if_false]
    rw [ih rest (c :: cur) (fun x hx => h x (by simp [hx]))]
    simp

theorem fields_join : ∀ (ws : List Bytes), (∀ w ∈ ws, IsWord w) → normWS.fields (normWS.join ws) [] = ws := by
  intro ws
  induction ws with
  | nil => intro _; rfl
  | cons x xs ih =>
    intro h
    have hx := h x (by simp)
    cases xs with
    | nil =>
      simp only [normWS.join]
      have := fields_word x [] [] hx.2
      simp only [List.append_nil] at this
      rw [this]
      cases hr : x.reverse with
      | nil => exact absurd (by simpa using hr) hx.1
      | cons a as =>
        simp only [normWS.fields, List.isEmpty_cons, Bool.false_eq_true, if_false]
        rw [← hr]; simp
    | cons y ys =>
      simp only [normWS.join]
      rw [List.append_assoc, fields_word x _ [] hx.2]
      simp only [List.append_nil, List.singleton_append, normWS.fields]
      have h32 : Lexer.isSpace 32 = true := by decide
      simp only [h32, if_true]
      cases hr : x.reverse with
      | nil => exact absurd (by simpa using hr) hx.1
      | cons a as =>
        simp only [List.isEmpty_cons, Bool.false_eq_true, if_false]
        rw [← hr, List.reverse_reverse, ih (fun w hw => h w (by simp [hw]))]

/-- **two texts have the same registration text exactly when they consist of the same words** -/
theorem normWS_eq_iff (a b : Bytes) : normWS a = normWS b ↔ words a = words b := by
  constructor
  · intro h
    have := congrArg (fun t => normWS.fields t []) h
    simp only [normWS_def] at this
    rwa [fields_join _ (words_isWord a), fields_join _ (words_isWord b)] at this
  · intro h; rw [normWS_def, normWS_def, h]

/-- normalising twice is normalising once -/
theorem normWS_idem (s : Bytes) : normWS (normWS s) = normWS s := by
  rw [normWS_def (normWS s), normWS_def s]
  show normWS.join (normWS.fields (normWS.join (words s)) []) = _
  rw [fields_join _ (words_isWord s)]

/-- a registration answers for a request exactly when table and kind agree and the two texts have the same words -/
theorem matcherKey_eq_iff_words (kind kind' : ExprKind) (table table' e e' : Bytes) :
    Client.matcherKey kind table e = Client.matcherKey kind' table' e' ↔ (kind = kind' ∧ table = table' ∧ words e = words e') := by
  rw [matcherKey_inj, normWS_eq_iff]

/-- a blank inside a word makes other words: `attribute _exists(v)` is not `attribute_exists(v)` -/
example : words (Bytes.ofString "v = : x") ≠ words (Bytes.ofString "v = :x") := by decide +kernel

end Minidyn.Props.C20
