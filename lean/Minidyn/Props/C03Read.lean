/-
  C02 / C03 — reading through a secondary index.

  `aligned`: for an index that satisfies `IndexInv`, the sorted key list a read walks and the list of
  references it consumes alongside (sorted by index key, then primary key) agree position by position, in
  both directions — two sorted permutations of one multiset are equal (`sorted_perm_eq`).  Hence
  `index_search_exact`: an unpaginated Query or Scan on the index returns the stored items of exactly the
  primary keys the index references, once each, filtered by the verdict, in (index key, primary key) order.
  With `IndexAgree` (C03) those primary keys are exactly the ones whose stored item has the complete,
  non-empty index key (`referenced_iff`).
-/
import Minidyn.Props.C03
import Minidyn.Props.C04Paging
namespace Minidyn.Props.C03
open Minidyn Minidyn.Table Minidyn.Props.C01 Minidyn.Props.C02

/-! ### two sorted permutations of one another are equal -/

theorem sorted_perm_eq : ∀ (l1 l2 : List Bytes), SortedBy Bytes.le l1 → SortedBy Bytes.le l2 → l1.Perm l2 → l1 = l2 := by
  intro l1
  induction l1 with
  | nil => intro l2 _ _ hp; exact (List.Perm.nil_eq hp)
  | cons x xs ih =>
    intro l2 h1 h2 hp
    cases l2 with
    | nil => exact absurd hp.symm (by simp)
    | cons y ys =>
      have hx := (sortedBy_cons_iff Bytes.le_trans').1 h1
      have hy := (sortedBy_cons_iff Bytes.le_trans').1 h2
      -- x is a member of y :: ys and y of x :: xs, so each is ≤ the other
      have hxy : x = y := by
        have hxm : x ∈ y :: ys := hp.subset (by simp)
        have hym : y ∈ x :: xs := hp.symm.subset (by simp)
        rcases List.mem_cons.1 hxm with h | h
        · exact h
        · rcases List.mem_cons.1 hym with h' | h'
          · exact h'.symm
          · exact Bytes.le_antisymm (hx.1 y h') (hy.1 x h)
      subst hxy
      rw [ih ys hx.2 hy.2 (List.Perm.cons_inv hp)]

/-! ### the references sorted by (index key, primary key) -/

def refLe (a b : Bytes × Bytes) : Bool := Index.lessRef a b || a == b

theorem lessRef_le2 {a b : Bytes × Bytes} (h : refLe a b = true) : Bytes.le a.2 b.2 = true := by
  unfold refLe at h
  rcases Bool.or_eq_true_iff.1 h with h | h
  · unfold Index.lessRef at h
    cases hc : Bytes.cmp a.2 b.2 with
    | lt => simp [Bytes.le, hc]
    | eq => simp [Bytes.le, hc]
    | gt => rw [hc] at h; cases h
  · have : a = b := by simpa using h
    subst this; exact Bytes.le_refl _

theorem refLe_total (a b : Bytes × Bytes) : refLe a b = true ∨ refLe b a = true := by
  unfold refLe Index.lessRef
  cases hc : Bytes.cmp a.2 b.2 with
  | lt => simp
  | gt =>
    have : Bytes.cmp b.2 a.2 = .lt := C04.cmp_gt_lt.1 hc
    simp [this]
  | eq =>
    have h2 : a.2 = b.2 := Bytes.cmp_eq_iff.1 hc
    have hc' : Bytes.cmp b.2 a.2 = .eq := by rw [h2]; exact Bytes.cmp_refl _
    simp only [hc']
    cases h1 : Bytes.cmp a.1 b.1 with
    | lt => simp [Bytes.lt, h1]
    | gt =>
      have : Bytes.cmp b.1 a.1 = .lt := C04.cmp_gt_lt.1 h1
      simp [Bytes.lt, this]
    | eq =>
      have : a.1 = b.1 := Bytes.cmp_eq_iff.1 h1
      have hab : a = b := Prod.ext this h2
      simp [hab]


theorem refLe_iff (a b : Bytes × Bytes) :
    refLe a b = true ↔ (Bytes.cmp a.2 b.2 = .lt ∨ (a.2 = b.2 ∧ Bytes.le a.1 b.1 = true)) := by
  unfold refLe Index.lessRef
  cases hc : Bytes.cmp a.2 b.2 with
  | lt => simp
  | gt =>
    have hne : a.2 ≠ b.2 := fun e => by rw [e, Bytes.cmp_refl] at hc; cases hc
    have hab : (a == b) = false := by
      apply beq_eq_false_iff_ne.2; intro e; exact hne (congrArg Prod.snd e)
    simp [hab, hne]
  | eq =>
    have h2 : a.2 = b.2 := Bytes.cmp_eq_iff.1 hc
    simp only [h2, true_and, reduceCtorEq, false_or]
    constructor
    · intro h
      rcases Bool.or_eq_true_iff.1 h with h | h
      · exact (Bytes.lt_iff_le_ne.1 h).1
      · have : a = b := by simpa using h
        rw [this]; exact Bytes.le_refl _
    · intro h
      by_cases he : a.1 = b.1
      · have : a = b := Prod.ext he h2
        simp [this]
      · have : Bytes.lt a.1 b.1 = true := Bytes.lt_iff_le_ne.2 ⟨h, he⟩
        simp [this]

theorem refLe_trans (a b c : Bytes × Bytes) (h1 : refLe a b = true) (h2 : refLe b c = true) : refLe a c = true := by
  rw [refLe_iff] at *
  rcases h1 with h1 | ⟨e1, l1⟩
  · rcases h2 with h2 | ⟨e2, _⟩
    · exact .inl (Bytes.cmp_trans_lt h1 h2)
    · exact .inl (by rw [← e2]; exact h1)
  · rcases h2 with h2 | ⟨e2, l2⟩
    · exact .inl (by rw [e1]; exact h2)
    · exact .inr ⟨e1.trans e2, Bytes.le_trans l1 l2⟩

/-- the index keys of the sorted references are in ascending order -/
theorem sortedRefs_keys_sorted (refs : List (Bytes × Bytes)) :
    SortedBy Bytes.le ((sortBy refLe refs).map (·.2)) := by
  have hs : SortedBy refLe (sortBy refLe refs) := sortedBy_sortBy refLe_total refLe_trans refs
  generalize sortBy refLe refs = l at hs
  induction l with
  | nil => trivial
  | cons x xs ih =>
    cases xs with
    | nil => trivial
    | cons y ys => exact ⟨lessRef_le2 hs.1, ih hs.2⟩

/-- **the two sorted views of an index agree position by position**: the i-th sorted index key is the
    index key of the i-th reference in (index key, primary key) order -/
theorem sortedKeys_eq_refKeys (ix : Index) (h : IndexInv ix) :
    ix.sortedKeys = (sortBy refLe ix.refs).map (·.2) := by
  apply sorted_perm_eq _ _ h.sorted (sortedRefs_keys_sorted ix.refs)
  exact h.perm.trans ((sortBy_perm refLe ix.refs).map (·.2)).symm

theorem sortedRefs_eq (ix : Index) (fwd : Bool) :
    ix.sortedRefs fwd = if fwd then sortBy refLe ix.refs else (sortBy refLe ix.refs).reverse := rfl

/-- the key list a read walks and the reference list it consumes alongside are aligned, in both directions -/
theorem aligned (ix : Index) (h : IndexInv ix) (fwd : Bool) :
    (if fwd then ix.sortedKeys else ix.sortedKeys.reverse) = (ix.sortedRefs fwd).map (·.2) := by
  rw [sortedRefs_eq, sortedKeys_eq_refKeys ix h]
  cases fwd <;> simp [List.map_reverse]


/-! ### reading through an index -/

open Minidyn.Props.C04 in
/-- the loop over an index: the key list and the reference list are consumed together -/
theorem process_phase_ix (t : Table) (m : Matcher) (q : Query) (start : SearchStart) (hl : q.limit = 0) :
    ∀ (rs : List (Bytes × Bytes)) (st : SearchState), st.started = true → st.refs = rs →
    (∀ r ∈ rs, ∃ item, alookup r.1 t.data = some item ∧ Answers m q item) →
    ∃ st', searchLoop t m q true start st (rs.map (·.2)) = .ok st' ∧
      st'.items = (pick t m q (rs.map (·.1))).reverse ++ st.items := by
  intro rs
  induction rs with
  | nil => intro st _ _ _; exact ⟨st, rfl, by simp [pick]⟩
  | cons r rs ih =>
    intro st hs hr hall
    obtain ⟨pk, ik⟩ := r
    obtain ⟨item, hk, ha⟩ := hall (pk, ik) (by simp)
    have hstep : searchStep t m q true start st ik = processItem t m q { st with refs := rs } pk := by
      simp only [searchStep, getPrimaryKey, if_true, hr, beq_self_eq_true, prepareSearch, hs]
    have hproc := processItem_eq t m q { st with refs := rs } pk item hs hk ha
    simp only [List.map_cons, searchLoop, hstep, hproc, bind, Except.bind, hl, bne_self_eq_false, Bool.false_and,
      Bool.false_eq_true, if_false]
    obtain ⟨st', hloop, hitems⟩ := ih { st with
        refs := rs,
        items := if verdict m q item then item :: st.items else st.items,
        scanned := st.scanned + 1,
        count := if counts m q item then st.count + 1 else st.count,
        last := item } hs rfl (fun r hr' => hall r (by simp [hr']))
    refine ⟨st', hloop, ?_⟩
    rw [hitems]
    simp only [pick, List.filterMap_cons, hk, Option.getD_some]
    cases verdict m q item <;> simp

/-- **C02/C03 through an index**: an unpaginated Query or Scan on a secondary index returns the stored
    items of exactly the primary keys the index references — once each — filtered by the verdict, in
    (index key, primary key) order, reversed when asked -/
theorem index_search_exact (t : Table) (m : Matcher) (q : Query) (ix : Index)
    (hix : alookup q.index t.indexes = some ix) (hne : q.index.isEmpty = false) (hinv : IndexInv ix)
    (hl : q.limit = 0) (hsk : q.startKey = [])
    (hstored : ∀ r ∈ ix.refs, ∃ item, alookup r.1 t.data = some item ∧ Answers m q item) :
    ∃ r, t.searchData m q = .ok r ∧ r.items = pick t m q ((ix.sortedRefs q.forward).map (·.1)) ∧ r.lastKey = [] := by
  have hmem : ∀ r ∈ ix.sortedRefs q.forward, r ∈ ix.refs := by
    intro r hr
    rw [sortedRefs_eq] at hr
    have hp := (sortBy_perm refLe ix.refs)
    cases hf : q.forward <;> simp only [hf, if_true, Bool.false_eq_true, if_false] at hr
    · exact hp.subset (by simpa using hr)
    · exact hp.subset hr
  obtain ⟨st', hloop, hitems⟩ := process_phase_ix t m q (parseSearchStart t (some ix) q.startKey) hl
    (ix.sortedRefs q.forward) { started := true, refs := ix.sortedRefs q.forward } rfl rfl
    (fun r hr => hstored r (hmem r hr))
  refine ⟨{ items := st'.items.reverse, lastKey := [] }, ?_, by simp [hitems], rfl⟩
  simp only [searchData, hne, Bool.false_eq_true, if_false, hix, hsk, parseSearchStart, List.isEmpty_nil, if_true,
    Option.isSome_some, bind, Except.bind]
  rw [aligned ix hinv q.forward]
  simp only [parseSearchStart, hsk, List.isEmpty_nil, if_true] at hloop
  rw [hloop]
  simp [hl, pure, Except.pure]

/-- with `IndexAgree`, the primary keys an index references are exactly those whose stored item has the
    complete, non-empty index key: "the base-table items that currently possess all of that index's key
    attributes", none missing and none extra -/
theorem referenced_iff (t : Table) (ix : Index) (hag : IndexAgree t ix) (pk : Bytes) :
    (alookup pk ix.refs).isSome = true ↔
      ∃ item ik, alookup pk t.data = some item ∧ Key.getKey ix.schema t.attrs item = .ok ik ∧ ik ≠ [] := by
  rw [hag pk]
  unfold expectedRef
  cases hd : alookup pk t.data with
  | none => simp
  | some item =>
    simp only
    cases hk : Key.getKey ix.schema t.attrs item with
    | error e =>
      simp only [Option.isSome_none, Bool.false_eq_true, false_iff]
      rintro ⟨item', ik, h1, h2, _⟩
      cases h1; rw [hk] at h2; cases h2
    | ok ik =>
      simp only
      by_cases he : ik.isEmpty = true
      · have h0 : ik = [] := by cases ik <;> simp_all
        simp only [he, if_true, Option.isSome_none, Bool.false_eq_true, false_iff]
        rintro ⟨item', ik', h1, h2, h3⟩
        cases h1; rw [hk] at h2; cases h2; exact h3 h0
      · have h0 : ik ≠ [] := by intro h0; apply he; rw [h0]; rfl
        have he' : ik.isEmpty = false := by simpa using he
        simp only [he', Bool.false_eq_true, if_false, Option.isSome_some, true_iff]
        exact ⟨item, ik, rfl, hk, h0⟩

end Minidyn.Props.C03
