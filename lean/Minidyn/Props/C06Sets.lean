/-
  Minidyn.Props.C06Sets — sets are values without an order.

  `canonSet_congr`: the stored form of a string set or a binary set (sorted insertion without duplicates, as
  `MapToObject` followed by `sortBinaries` builds it) depends only on which elements the attribute value
  lists, not on their order or multiplicity.  Hence `toObj_bs_congr` / `toObj_ss_congr`: two attribute values
  that list the same elements are the same object, so every comparison (`=`, `<>`, IN, `contains`, at any
  depth of a list or map) treats them alike (`set_eq_true`).
-/
import Minidyn.Model.Eval
import Minidyn.Lemmas.Order
import Minidyn.Props.C03Read
namespace Minidyn.Props.C06Sets
open Minidyn

def canonSet (xs : List Bytes) : List Bytes := xs.foldl (fun acc x => ssetInsert x acc) []

theorem beq_iff (a b : Bytes) : (a == b) = true ↔ a = b := by simp

theorem mem_insertUniq (x z : Bytes) : ∀ l : List Bytes, z ∈ insertUniq Bytes.le (· == ·) x l ↔ z = x ∨ z ∈ l
  | [] => by simp [insertUniq]
  | y :: ys => by
    unfold insertUniq
    by_cases h1 : (x == y) = true
    · have : x = y := by simpa using h1
      subst this
      simp [h1]
    · simp only [h1, Bool.false_eq_true, if_false]
      by_cases h2 : Bytes.le x y = true
      · simp [h2]
      · simp only [h2, Bool.false_eq_true, if_false, List.mem_cons, mem_insertUniq x z ys]
        constructor
        · rintro (h | h | h)
          · exact Or.inr (Or.inl h)
          · exact Or.inl h
          · exact Or.inr (Or.inr h)
        · rintro (h | h | h)
          · exact Or.inr (Or.inl h)
          · exact Or.inl h
          · exact Or.inr (Or.inr h)

/-- strictly ascending: sorted and without duplicates -/
def Strict (l : List Bytes) : Prop := SortedBy Bytes.le l ∧ l.Nodup

theorem strict_insertUniq (x : Bytes) : ∀ l : List Bytes, Strict l → Strict (insertUniq Bytes.le (· == ·) x l)
  | [], _ => by
    unfold insertUniq
    exact ⟨by simp [SortedBy], by simp⟩
  | y :: ys, h => by
    have hs := (sortedBy_cons_iff Bytes.le_trans').1 h.1
    have hn := List.nodup_cons.1 h.2
    unfold insertUniq
    by_cases h1 : (x == y) = true
    · simp only [h1, if_true]; exact h
    · simp only [h1, Bool.false_eq_true, if_false]
      have hne : x ≠ y := by simpa using h1
      by_cases h2 : Bytes.le x y = true
      · simp only [h2, if_true]
        refine ⟨(sortedBy_cons_iff Bytes.le_trans').2 ⟨?_, h.1⟩, List.nodup_cons.2 ⟨?_, h.2⟩⟩
        · intro z hz
          rcases List.mem_cons.1 hz with rfl | hz
          · exact h2
          · exact Bytes.le_trans h2 (hs.1 z hz)
        · intro hmem
          rcases List.mem_cons.1 hmem with rfl | hmem
          · exact hne rfl
          · exact hne (Bytes.le_antisymm h2 (hs.1 x hmem))
      · simp only [h2, Bool.false_eq_true, if_false]
        have hyx : Bytes.le y x = true := by
          rcases Bytes.le_total x y with h | h
          · exact absurd h h2
          · exact h
        have ih := strict_insertUniq x ys ⟨hs.2, hn.2⟩
        refine ⟨(sortedBy_cons_iff Bytes.le_trans').2 ⟨?_, ih.1⟩, List.nodup_cons.2 ⟨?_, ih.2⟩⟩
        · intro z hz
          rcases (mem_insertUniq x z ys).1 hz with rfl | hz
          · exact hyx
          · exact hs.1 z hz
        · intro hmem
          rcases (mem_insertUniq x y ys).1 hmem with h | h
          · exact hne h.symm
          · exact hn.1 h

theorem foldl_spec : ∀ (xs acc : List Bytes), Strict acc →
    Strict (xs.foldl (fun acc x => ssetInsert x acc) acc) ∧
    ∀ z, z ∈ xs.foldl (fun acc x => ssetInsert x acc) acc ↔ z ∈ acc ∨ z ∈ xs
  | [], acc, h => ⟨h, by simp⟩
  | x :: xs, acc, h => by
    simp only [List.foldl_cons]
    have ih := foldl_spec xs (ssetInsert x acc) (strict_insertUniq x acc h)
    refine ⟨ih.1, fun z => ?_⟩
    rw [ih.2 z]
    unfold ssetInsert
    rw [mem_insertUniq]
    simp only [List.mem_cons]
    constructor
    · rintro ((h | h) | h)
      · exact Or.inr (Or.inl h)
      · exact Or.inl h
      · exact Or.inr (Or.inr h)
    · rintro (h | h | h)
      · exact Or.inl (Or.inr h)
      · exact Or.inl (Or.inl h)
      · exact Or.inr h

theorem canonSet_strict (xs : List Bytes) : Strict (canonSet xs) :=
  (foldl_spec xs [] ⟨by simp [SortedBy], by simp⟩).1

theorem mem_canonSet (xs : List Bytes) (z : Bytes) : z ∈ canonSet xs ↔ z ∈ xs := by
  have := (foldl_spec xs [] ⟨by simp [SortedBy], by simp⟩).2 z
  simpa [canonSet] using this

/-- **the stored form of a set depends on its elements only** -/
theorem canonSet_congr (xs ys : List Bytes) (h : ∀ z, z ∈ xs ↔ z ∈ ys) : canonSet xs = canonSet ys := by
  have hx := canonSet_strict xs
  have hy := canonSet_strict ys
  apply Minidyn.Props.C03.sorted_perm_eq _ _ hx.1 hy.1
  rw [List.perm_ext_iff_of_nodup hx.2 hy.2]
  intro z
  rw [mem_canonSet, mem_canonSet, h]

theorem canonSet_perm (xs ys : List Bytes) (h : xs.Perm ys) : canonSet xs = canonSet ys :=
  canonSet_congr xs ys (fun _ => h.mem_iff)

theorem toObj_ss_congr (xs ys : List Bytes) (h : ∀ z, z ∈ xs ↔ z ∈ ys) : (AV.ss xs).toObj = (AV.ss ys).toObj := by
  simp only [AV.toObj]
  exact congrArg (fun l => some (Obj.sset l)) (canonSet_congr xs ys h)

theorem toObj_bs_congr (xs ys : List Bytes) (h : ∀ z, z ∈ xs ↔ z ∈ ys) : (AV.bs xs).toObj = (AV.bs ys).toObj := by
  simp only [AV.toObj]
  have : ∀ l : List Bytes, l.foldl (fun acc x => bsetAdd x acc) [] = canonSet l := fun l => rfl
  rw [this, this]
  exact congrArg (fun l => some (Obj.bset l)) (canonSet_congr xs ys h)

/-- a set written in any order and with repetitions is the set: elements twice, reversed -/
example : (AV.bs [[98], [97], [98]]).toObj = (AV.bs [[97], [98]]).toObj :=
  toObj_bs_congr _ _ (by intro z; simp; intro h; exact Or.inr h)

end Minidyn.Props.C06Sets
