/-
  Minidyn.Props.C20Blank — a blank inside a word makes another text.

  `words_append_blank`: the words of `x ++ blank :: y` are the words of `x` followed by the words of `y`.
  `blank_inside_word`: writing `w1 w2` for the word `w1w2` (anywhere in a text) changes the words, hence the
  registration key (`matcherKey_blank_inside`): a registration for `attribute_exists(v)` never answers for
  `attribute _exists(v)`, nor one for `v = :x` for `v = : x`.
-/
import Minidyn.Props.C20Words
namespace Minidyn.Props.C20
open Minidyn Minidyn.Interp

theorem fields_append_blank (c : Nat) (h : Lexer.isSpace c = true) (y : Bytes) : ∀ (x cur : Bytes),
    normWS.fields (x ++ c :: y) cur = normWS.fields (x ++ [c]) cur ++ normWS.fields y [] := by
  intro x
  induction x with
  | nil => intro cur; cases cur <;> simp [normWS.fields, h]
  | cons a as ih =>
    intro cur
    simp only [List.cons_append, normWS.fields]
    split
    · split <;> simp [ih]
    · exact ih _

/-- the words on either side of a blank are read independently -/
theorem words_append_blank (c : Nat) (x y : Bytes) (h : Lexer.isSpace c = true) : words (x ++ c :: y) = words x ++ words y := by
  unfold words
  rw [fields_append_blank c h y x [], fields_trailing c h x []]

/-- a word in front of a blank (or at the end) is a word of the text -/
theorem words_word_first (w b : Bytes) (hw : IsWord w) (hb : b = [] ∨ ∃ c b0, b = c :: b0 ∧ Lexer.isSpace c = true) :
    words (w ++ b) = w :: words b := by
  unfold words
  rw [fields_word w b [] hw.2]
  simp only [List.append_nil]
  have hne : w.reverse ≠ [] := by intro h0; exact hw.1 (by simpa using h0)
  rcases hb with rfl | ⟨c, b0, rfl, hc⟩
  · cases hr : w.reverse with
    | nil => exact absurd hr hne
    | cons a as => simp only [normWS.fields, List.isEmpty_cons, Bool.false_eq_true, if_false]; rw [← hr]; simp
  · cases hr : w.reverse with
    | nil => exact absurd hr hne
    | cons a as =>
      simp only [normWS.fields, hc, if_true, List.isEmpty_cons, Bool.false_eq_true, if_false, List.isEmpty_nil]
      rw [← hr]; simp

/-- **a blank inside a word makes two words of it** -/
theorem blank_inside_word (a b w1 w2 : Bytes) (h1 : IsWord w1) (h2 : IsWord w2)
    (ha : a = [] ∨ ∃ a0 c, a = a0 ++ [c] ∧ Lexer.isSpace c = true)
    (hb : b = [] ∨ ∃ c b0, b = c :: b0 ∧ Lexer.isSpace c = true) :
    words (a ++ (w1 ++ 32 :: (w2 ++ b))) = words a ++ w1 :: w2 :: words b ∧
    words (a ++ ((w1 ++ w2) ++ b)) = words a ++ (w1 ++ w2) :: words b := by
  have h12 : IsWord (w1 ++ w2) := ⟨by intro h0; exact h1.1 (List.append_eq_nil_iff.1 h0).1,
    fun c hc => by rcases List.mem_append.1 hc with h | h; exact h1.2 c h; exact h2.2 c h⟩
  have hin1 : words (w1 ++ 32 :: (w2 ++ b)) = w1 :: w2 :: words b := by
    rw [words_append_blank 32 w1 (w2 ++ b) (by decide), words_word_first w2 b h2 hb]
    have := words_word_first w1 [] h1 (Or.inl rfl)
    simp only [List.append_nil] at this
    rw [this]; rfl
  have hin2 : words ((w1 ++ w2) ++ b) = (w1 ++ w2) :: words b := words_word_first _ b h12 hb
  rcases ha with rfl | ⟨a0, c, rfl, hc⟩
  · simp only [List.nil_append]
    exact ⟨by rw [hin1]; rfl, by rw [hin2]; rfl⟩
  · constructor
    · rw [List.append_assoc, List.singleton_append, words_append_blank c a0 _ hc, hin1,
        ← words_trailing c a0 hc]
    · rw [List.append_assoc, List.singleton_append, words_append_blank c a0 _ hc, hin2,
        ← words_trailing c a0 hc]

/-- ... so the text with the blank has another registration key than the text without it -/
theorem matcherKey_blank_inside (kind : ExprKind) (table a b w1 w2 : Bytes) (h1 : IsWord w1) (h2 : IsWord w2)
    (ha : a = [] ∨ ∃ a0 c, a = a0 ++ [c] ∧ Lexer.isSpace c = true)
    (hb : b = [] ∨ ∃ c b0, b = c :: b0 ∧ Lexer.isSpace c = true) :
    Client.matcherKey kind table (a ++ (w1 ++ 32 :: (w2 ++ b))) ≠ Client.matcherKey kind table (a ++ ((w1 ++ w2) ++ b)) := by
  intro h
  have hw := ((matcherKey_eq_iff_words kind kind table table _ _).1 h).2.2
  obtain ⟨e1, e2⟩ := blank_inside_word a b w1 w2 h1 h2 ha hb
  rw [e1, e2] at hw
  have := congrArg List.length hw
  simp at this

/-- non-vacuity: `attribute _exists(v)` against `attribute_exists(v)` -/
example : words (Bytes.ofString "attribute _exists(v)") ≠ words (Bytes.ofString "attribute_exists(v)") := by decide +kernel

end Minidyn.Props.C20
