/-
  Minidyn.Props.C03 — secondary indexes mirror the base table.

  `IndexInv`: the sorted index keys are exactly (as a multiset) the index keys the references
  hold, sorted, one reference per primary key.  It holds for a new index and is preserved by
  `Index.set` (PutItem, UpdateItem, backfill) and `Index.remove` (DeleteItem), whatever the
  previous entry of the primary key was: first entry, changed key, dropped key, same key.
  `set_lookup` / `remove_lookup` say what the index holds afterwards: the index key of the
  written item under its primary key (nothing if the item lacks the index key attributes —
  sparse), every other primary key untouched.  Hence (`IndexAgree`) after any history of writes
  the references are a function of the base table's items alone.
-/
import Minidyn.Model.Table
import Minidyn.Lemmas.Assoc
import Minidyn.Lemmas.Search
import Minidyn.Props.C01
namespace Minidyn.Props.C03
open Minidyn

structure IndexInv (ix : Index) : Prop where
  sorted : SortedBy Bytes.le ix.sortedKeys
  perm : ix.sortedKeys.Perm (ix.refs.map (·.2))
  refsNodup : (keysOf ix.refs).Nodup

theorem indexInv_new (ks : KeySchema) (ty : IndexType) : IndexInv { schema := ks, typ := ty } :=
  ⟨trivial, List.Perm.refl _, List.nodup_nil⟩

/-! ### list lemmas -/

theorem removeAt_perm_erase : ∀ (l : List Bytes) (pos : Nat) (h : pos < l.length), (removeAt l pos).Perm (l.erase l[pos])
  | [], pos, h => by simp at h
  | x :: xs, 0, _ => by simp [removeAt]
  | x :: xs, p + 1, h => by
    have hp : p < xs.length := by simpa using h
    have ih := removeAt_perm_erase xs p hp
    simp only [removeAt, List.getElem_cons_succ]
    by_cases hx : x = xs[p]
    · have : (x :: xs).erase xs[p] = xs := by rw [← hx]; exact List.erase_cons_head ..
      rw [this]
      have ih' : (removeAt xs p).Perm (xs.erase x) := by rw [hx]; exact ih
      exact (List.Perm.cons _ ih').trans (List.perm_cons_erase (hx ▸ List.getElem_mem _)).symm
    · rw [List.erase_cons_tail (by simpa using hx)]
      exact List.Perm.cons x ih

theorem aerase_of_not_has {β} {k : Bytes} {m : List (Bytes × β)} (h : k ∉ keysOf m) : aerase k m = m := by
  induction m with
  | nil => rfl
  | cons p t ih =>
    obtain ⟨k0, v0⟩ := p
    simp only [keysOf, List.map_cons, List.mem_cons, not_or] at h
    have : (k0 == k) = false := by simpa using fun h' => h.1 h'.symm
    simp only [aerase, this, Bool.false_eq_true, if_false]
    rw [ih h.2]

theorem alookup_mem_values {k v : Bytes} {m : List (Bytes × Bytes)} (h : alookup k m = some v) : v ∈ m.map (·.2) := by
  induction m with
  | nil => simp at h
  | cons p t ih =>
    obtain ⟨k0, v0⟩ := p
    simp only [alookup] at h
    by_cases h0 : (k0 == k) = true
    · simp [h0] at h; simp [h]
    · simp [h0] at h; simp [ih h]

theorem values_aerase_perm {k v : Bytes} {m : List (Bytes × Bytes)} (hn : (keysOf m).Nodup) (h : alookup k m = some v) :
    ((aerase k m).map (·.2)).Perm ((m.map (·.2)).erase v) := by
  induction m with
  | nil => simp at h
  | cons p t ih =>
    obtain ⟨k0, v0⟩ := p
    simp only [keysOf, List.map_cons, List.nodup_cons] at hn
    simp only [alookup] at h
    by_cases h0 : (k0 == k) = true
    · have hk : k0 = k := by simpa using h0
      simp only [h0, if_true, Option.some.injEq] at h
      subst h hk
      simp only [aerase, h0, if_true, List.map_cons, List.erase_cons_head]
      rw [aerase_of_not_has hn.1]
    · simp only [h0, Bool.false_eq_true, if_false] at h
      simp only [aerase, h0, Bool.false_eq_true, if_false, List.map_cons]
      by_cases hv : v0 = v
      · subst hv
        rw [List.erase_cons_head]
        exact (List.Perm.cons _ (ih hn.2 h)).trans (List.perm_cons_erase (alookup_mem_values h)).symm
      · rw [List.erase_cons_tail (by simpa using hv)]
        exact List.Perm.cons _ (ih hn.2 h)

theorem ainsert_of_not_has {β} {k : Bytes} (v : β) {m : List (Bytes × β)} (h : ahas k m = false) :
    ainsert k v m = m ++ [(k, v)] := by
  induction m with
  | nil => rfl
  | cons p t ih =>
    obtain ⟨k0, v0⟩ := p
    by_cases h0 : (k0 == k) = true
    · simp [ahas, alookup, h0] at h
    · have ht : ahas k t = false := by
        simp only [ahas, alookup, h0] at h
        simpa [ahas] using h
      simp only [ainsert, h0, Bool.false_eq_true, if_false, List.cons_append, ih ht]

/-! ### remove -/

theorem remove_lookup (ix : Index) (key k : Bytes) :
    alookup k (ix.remove key).refs = if k = key then none else alookup k ix.refs := by
  unfold Index.remove
  cases h : alookup key ix.refs with
  | none =>
    by_cases hk : k = key
    · subst hk; simp [h]
    · simp [hk]
  | some ik =>
    have : ∀ (c : Bool) (a b : Index), a.refs = aerase key ix.refs → b.refs = aerase key ix.refs →
        alookup k (if c then a else b).refs = alookup k (aerase key ix.refs) := by
      intro c a b ha hb; cases c <;> simp [ha, hb]
    simp only
    rw [this _ _ _ rfl rfl]
    by_cases hk : k = key
    · subst hk; simp [alookup_aerase_self]
    · simp [hk, alookup_aerase_ne ix.refs hk]

theorem indexInv_remove {ix : Index} (h : IndexInv ix) (key : Bytes) : IndexInv (ix.remove key) := by
  unfold Index.remove
  cases hl : alookup key ix.refs with
  | none => exact h
  | some ik =>
    have hmem : ik ∈ ix.sortedKeys := h.perm.mem_iff.mpr (alookup_mem_values hl)
    obtain ⟨hpos, hat⟩ := searchStrings_of_mem h.sorted ik hmem
    have hne : (searchStrings ix.sortedKeys ik == ix.sortedKeys.length) = false := by simp; omega
    have hat' : ix.sortedKeys[searchStrings ix.sortedKeys ik]? = some ik := by
      rw [List.getElem?_eq_getElem hpos, hat]
    have hcond : (searchStrings ix.sortedKeys ik == ix.sortedKeys.length ||
        ix.sortedKeys[searchStrings ix.sortedKeys ik]? != some ik) = false := by simp [hne, hat']
    simp only [hcond, Bool.false_eq_true, if_false]
    refine ⟨C01.sortedBy_sublist (C01.removeAt_sublist _ _) h.sorted, ?_, nodup_keysOf_aerase h.refsNodup⟩
    show (removeAt ix.sortedKeys (searchStrings ix.sortedKeys ik)).Perm ((aerase key ix.refs).map (·.2))
    have p1 := removeAt_perm_erase ix.sortedKeys _ hpos
    rw [hat] at p1
    exact p1.trans ((h.perm.erase ik).trans (values_aerase_perm h.refsNodup hl).symm)

/-! ### set (putData / updateData / backfill) -/

theorem set_ok {ix ix' : Index} {attrs : List (Bytes × Bytes)} {key : Bytes} {item : Item}
    (h : IndexInv ix) (hs : ix.set attrs key item = .ok ix') :
    ∃ ik, Key.getKey ix.schema attrs item = .ok ik ∧ IndexInv ix' ∧
      (∀ k, alookup k ix'.refs = if k = key then (if ik.isEmpty then none else some ik) else alookup k ix.refs) := by
  unfold Index.set at hs
  cases hk : Key.getKey ix.schema attrs item with
  | error e => simp [hk] at hs
  | ok ik =>
    simp only [hk] at hs
    refine ⟨ik, rfl, ?_⟩
    have hr := indexInv_remove h key
    by_cases he : ik.isEmpty = true
    · simp only [he, if_true, Except.ok.injEq] at hs
      subst hs
      refine ⟨hr, ?_⟩
      intro k; rw [remove_lookup]; simp [he]
    · have he' : ik.isEmpty = false := by simpa using he
      simp only [he', Bool.false_eq_true, if_false, Except.ok.injEq] at hs
      subst hs
      have hnot : ahas key (ix.remove key).refs = false := by
        have := remove_lookup ix key key
        simp only [if_true] at this
        simp [ahas, this]
      refine ⟨⟨sortedBy_sortBytes _, ?_, ?_⟩, ?_⟩
      · show (sortBytes ((ix.remove key).sortedKeys ++ [ik])).Perm ((ainsert key ik (ix.remove key).refs).map (·.2))
        rw [ainsert_of_not_has ik hnot, List.map_append]
        exact (sortBy_perm Bytes.le _).trans (List.Perm.append hr.perm (List.Perm.refl _))
      · show (keysOf (ainsert key ik (ix.remove key).refs)).Nodup
        rw [keysOf_ainsert_of_not_has ik hnot, List.nodup_append]
        refine ⟨hr.refsNodup, by simp, ?_⟩
        intro a ha b hb
        simp only [List.mem_singleton] at hb
        rw [hb]
        intro hab
        have : ahas key (ix.remove key).refs = true := (ahas_iff_mem_keys _ _).mpr (hab ▸ ha)
        rw [hnot] at this; cases this
      · intro k
        show alookup k (ainsert key ik (ix.remove key).refs) = _
        by_cases hkk : k = key
        · rw [hkk]; simp [alookup_ainsert_self, he']
        · rw [alookup_ainsert_ne ik _ hkk, remove_lookup]; simp [hkk]

/-- what an index must hold for a primary key, as a function of the base table alone -/
def expectedRef (t : Table) (ix : Index) (pk : Bytes) : Option Bytes :=
  match alookup pk t.data with
  | none => none
  | some item =>
    match Key.getKey ix.schema t.attrs item with
    | .ok ik => if ik.isEmpty then none else some ik
    | .error _ => none

/-- the index holds, for every primary key, the index key of the stored item (sparse) -/
def IndexAgree (t : Table) (ix : Index) : Prop := ∀ pk, alookup pk ix.refs = expectedRef t ix pk

/-- a write of `item` under `key` (data map updated, index set) keeps the index in agreement -/
theorem agree_after_set {t : Table} {ix ix' : Index} {key : Bytes} {item : Item}
    (hi : IndexInv ix) (ha : IndexAgree t ix) (hs : ix.set t.attrs key item = .ok ix') (hsch : ix'.schema = ix.schema) :
    IndexAgree { t with data := ainsert key item t.data } ix' := by
  obtain ⟨ik, hk, _, hl⟩ := set_ok hi hs
  intro pk
  rw [hl pk]
  unfold expectedRef
  by_cases hpk : pk = key
  · subst hpk
    simp [alookup_ainsert_self, hsch, hk]
  · simp only [hpk, if_false, alookup_ainsert_ne item t.data hpk, hsch]
    exact ha pk

/-- a delete of `key` keeps the index in agreement -/
theorem agree_after_remove {t : Table} {ix : Index} {key : Bytes} (ha : IndexAgree t ix) :
    IndexAgree { t with data := aerase key t.data } (ix.remove key) := by
  intro pk
  rw [remove_lookup]
  unfold expectedRef
  have hsch : (ix.remove key).schema = ix.schema := by
    unfold Index.remove; cases alookup key ix.refs <;> simp <;> split <;> rfl
  by_cases hpk : pk = key
  · subst hpk; simp [alookup_aerase_self]
  · simp only [hpk, if_false, alookup_aerase_ne t.data hpk, hsch]
    exact ha pk

/-- the count DescribeTable reports for an index is the number of references -/
theorem count_eq_refs {ix : Index} (h : IndexInv ix) : ix.sortedKeys.length = ix.refs.length := by
  simpa using h.perm.length_eq

/-- non-vacuity and the historic defect: put h=1 g=x; put h=2 g=y; put h=1 g=z leaves the index
    consistent (the sorted keys follow the references) -/
example :
    let ix0 : Index := { schema := { hash := [103], secondary := true }, typ := .global }
    let attrs : List (Bytes × Bytes) := [([103], [83])]
    let r := do
      let a ← ix0.set attrs [49] [([103], .s [120])]
      let b ← a.set attrs [50] [([103], .s [121])]
      b.set attrs [49] [([103], .s [122])]
    (r.toOption.map fun ix => (ix.sortedKeys, ix.refs)) = some ([[121], [122]], [([50], [121]), ([49], [122])]) := by
  decide

end Minidyn.Props.C03
