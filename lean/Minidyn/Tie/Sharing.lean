/-
  Minidyn.Tie.Sharing — C14, code-specific obligation: no value-carrying field store of the
  attribute-value mappers of either client shares memory between the caller's structures
  and the stored item, and the evaluator never hands out the address of a package-level
  object.  The field transfers are regenerated from the mapper sources on every run.
-/
import Minidyn.Generated.Sharing
namespace Minidyn.Tie
open Minidyn.Generated

def isolating : Transfer → Bool
  | .fresh | .recursive => true
  | .share | .unknown => false

def noSharing (ts : List (String × String × Transfer × String)) : Bool :=
  ts.all fun (_, _, mode, _) => isolating mode

/-- the mapper functions the obligation must cover are all present in the extraction -/
def covers (ts : List (String × String × Transfer × String)) (fns : List String) : Bool :=
  fns.all fun f => ts.any fun (g, _, _, _) => g == f

theorem noSharing_generated_v1 : noSharing transfersV1 = true := by decide
theorem noSharing_generated_v2 : noSharing transfersV2 = true := by decide

theorem sharing_covers_mappers :
    covers transfersV1 ["mapAttributeValueToTypes", "mapAttributeValueListToTypes", "mapAttributeValueToDynamodb",
                        "mapAttributeValueListToDynamodb"] = true ∧
    covers transfersV2 ["mapDynamoToTypesItem", "mapDynamoToTypesAttributeDefinitionMapOrList", "mapTypesToDynamoItem",
                        "mapTypesToDynamoAttributeDefinitionMapOrList"] = true ∧
    transfersV1.length ≥ 40 ∧ transfersV2.length ≥ 20 := by decide

/-- no `&TRUE.Value`-style expression is left in interpreter/language -/
theorem no_singleton_leak : singletonLeaks = [] := by decide

end Minidyn.Tie
