/-
  Minidyn.Tie.Sharing — C14, code-specific obligation: no value-carrying field store of the
  attribute-value mappers of either client shares memory between the caller's structures
  and the stored item, and the evaluator never hands out the address of a package-level
  object.  The field transfers are regenerated from the mapper sources on every run.
-/
import Minidyn.Generated.Sharing
import Minidyn.Generated.Fingerprints
namespace Minidyn.Tie
open Minidyn.Generated

def isolating : Transfer → Bool
  | .fresh | .recursive => true
  | .share | .unknown => false

def noSharing (ts : List (String × String × Transfer × String)) : Bool :=
  ts.all fun (_, _, mode, _) => isolating mode

/-- the mapper functions the obligation must cover are all present in the extraction -/
def covers (ts : List (String × String × Transfer × String)) (fns : List String) : Bool :=
  fns.all fun f => ts.any fun (g, _, _, _) => g == f

theorem noSharing_generated_v1 : noSharing transfersV1 = true := by decide
theorem noSharing_generated_v2 : noSharing transfersV2 = true := by decide

theorem sharing_covers_mappers :
    covers transfersV1 ["mapAttributeValueToTypes", "mapAttributeValueListToTypes", "mapAttributeValueToDynamodb",
                        "mapAttributeValueListToDynamodb"] = true ∧
    covers transfersV2 ["mapDynamoToTypesItem", "mapDynamoToTypesAttributeDefinitionMapOrList", "mapTypesToDynamoItem",
                        "mapTypesToDynamoAttributeDefinitionMapOrList"] = true ∧
    transfersV1.length ≥ 40 ∧ transfersV2.length ≥ 20 := by decide

def fpOf (name : String) : Option String :=
  (fingerprints.find? fun p => p.1 == name).map (·.2)

/-- the helpers the transfer analysis trusts to return fresh memory (`.fresh`) are the ones that were
    reviewed: each allocates (`make`, a local whose address is taken) and copies element by element, to
    the innermost byte.  Their normalised source is pinned here; a rewrite of a helper breaks this theorem
    (and the poke family of the check then looks for a shared location). -/
theorem copy_helpers_reviewed :
    fpOf "v1.copyBytes" = some "ba88506d4435" ∧ fpOf "v1.copyBytesSlice" = some "5bba426f143a" ∧
    fpOf "v1.copyString" = some "614d66b5dd80" ∧ fpOf "v1.copyStringSlice" = some "23e3f9df9b07" ∧
    fpOf "v1.copyBool" = some "fd5d41562142" ∧
    fpOf "v2.copyBytes" = some "ba88506d4435" ∧ fpOf "v2.copyBytesSlice" = some "5bba426f143a" ∧
    fpOf "v2.toStringSlice" = some "b3e1bc8ef0b2" ∧ fpOf "v2.toString" = some "73a0da9dda6f" ∧
    fpOf "core.copyItem" = some "c01b5c94c6fd" := by decide +kernel

/-- no `&TRUE.Value`-style expression is left in interpreter/language -/
theorem no_singleton_leak : singletonLeaks = [] := by decide

end Minidyn.Tie
