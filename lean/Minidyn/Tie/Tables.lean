/-
  Minidyn.Tie.Tables — the regenerated tie (T1).  `tools/gofacts` rewrites
  `Minidyn/Generated/*.lean` from the Go sources on every run; the theorems below state
  what the hand-written model assumes about those tables.  A change to a table in the Go
  code makes one of them fail to check, which the verdict procedure reports as a broken
  proof obligation (and then searches for a failing input).
-/
import Minidyn.Model.Eval
import Minidyn.Generated.Tables
import Minidyn.Generated.Reserved
namespace Minidyn.Tie
open Minidyn

def tokOfName : String → Option Tok
  | "ILLEGAL" => some .illegal | "EOF" => some .eof | "IDENT" => some .ident
  | "<" => some .lt | "<=" => some .lte | ">" => some .gt | ">=" => some .gte | "=" => some .eq | "<>" => some .neq
  | "," => some .comma | "(" => some .lparen | ")" => some .rparen | "[" => some .lbracket | "]" => some .rbracket
  | "." => some .dot | "AND" => some .and | "OR" => some .or | "NOT" => some .not | "BETWEEN" => some .between
  | "IN" => some .in_ | "SET" => some .set | "REMOVE" => some .remove | "ADD" => some .add | "DELETE" => some .delete
  | "+" => some .plus | "-" => some .minus
  | _ => none

def allToks : List Tok :=
  [.illegal, .ident, .lt, .lte, .gt, .gte, .eq, .neq, .comma, .lparen, .rparen, .lbracket, .rbracket, .dot,
   .and, .or, .not, .between, .in_, .set, .remove, .add, .delete, .plus, .minus, .eof]

def tokName : Tok → String
  | .illegal => "ILLEGAL" | .eof => "EOF" | .ident => "IDENT"
  | .lt => "<" | .lte => "<=" | .gt => ">" | .gte => ">=" | .eq => "=" | .neq => "<>"
  | .comma => "," | .lparen => "(" | .rparen => ")" | .lbracket => "[" | .rbracket => "]" | .dot => "."
  | .and => "AND" | .or => "OR" | .not => "NOT" | .between => "BETWEEN" | .in_ => "IN"
  | .set => "SET" | .remove => "REMOVE" | .add => "ADD" | .delete => "DELETE" | .plus => "+" | .minus => "-"

/-! ### lexer tables -/

/-- every entry of `keywords` is what `Lexer.lookupIdent` answers … -/
theorem keywords_tie :
    Generated.keywords.all (fun (lit, name) => some (Lexer.lookupIdent lit) == tokOfName name) = true := by decide

/-- … and there are exactly the nine keywords the model knows -/
theorem keywords_count : Generated.keywords.length = 9 := by decide

theorem singleChar_expected :
    Generated.singleChar = [(40, "("), (41, ")"), (43, "+"), (44, ","), (45, "-"), (61, "=")] := by decide

theorem singleChar_tie :
    Generated.singleChar.all (fun (c, name) => Lexer.single c == tokOfName name) = true := by decide

theorem especialChars_expected : Generated.especialChars = [35, 58, 95] := by decide

/-! ### parser tables -/

def lookupS {β} (k : String) : List (String × β) → Option β
  | [] => none
  | (k', v) :: t => if k' == k then some v else lookupS k t

/-- `Parser.prec` is the table `precedences` with `precedenceValueLowset` as default -/
theorem precedences_tie :
    allToks.all (fun t => Parser.prec t == (lookupS (tokName t) Generated.precedences).getD 1) = true := by decide

theorem precedenceValues_expected :
    Generated.precedenceValues =
      [("precedenceValueLowset", 1), ("precedenceValueOR", 2), ("precedenceValueAND", 3), ("precedenceValueNOT", 4),
       ("precedenceValueEqualComparators", 5), ("precedenceValueBetweenComparator", 6), ("precedenceValueComparators", 7),
       ("precedenceValueOperators", 8), ("precedenceValueCall", 9), ("precedenceValueINDEX", 10),
       ("precedenceValueInComparator", 11)] := by decide

/-- the precedence handed to `parseExpression` by the NOT parser, the parenthesis parser,
    the argument parser and the action parser -/
theorem parse_call_precedences :
    Generated.parsePrefixExpressionPrec = [Parser.pNot] ∧ Generated.parseGroupedExpressionPrec = [Parser.pLowest] ∧
    Generated.parseCallArgumentsPrec = [Parser.pLowest, Parser.pLowest] ∧
    Generated.parseActionPrec = [Parser.pLowest, Parser.pLowest] := by decide

def prefixOfName : String → Option Parser.PrefixFn
  | "parseIdentifier" => some .ident | "parsePrefixExpression" => some .not
  | "parseGroupedExpression" => some .group | "parseUpdateActionExpression" => some .updateAction
  | _ => none

def infixOfName : String → Option Parser.InfixFn
  | "parseInfixExpression" => some .infix | "parseIndexExpression" => some .index
  | "parseBetweenExpression" => some .between | "parseCallExpression" => some .call
  | "parseInExpression" => some .isIn
  | _ => none

theorem registrations_tie :
    allToks.all (fun t =>
      Parser.prefixFn .cond t == (lookupS (tokName t) Generated.condPrefix).bind prefixOfName &&
      Parser.prefixFn .upd t == (lookupS (tokName t) Generated.updPrefix).bind prefixOfName &&
      Parser.infixFn .cond t == (lookupS (tokName t) Generated.condInfix).bind infixOfName &&
      Parser.infixFn .upd t == (lookupS (tokName t) Generated.updInfix).bind infixOfName) = true := by decide

/-- every registered parse function is one the model knows -/
theorem registrations_known :
    (Generated.condPrefix ++ Generated.updPrefix).all (fun p => (prefixOfName p.2).isSome) = true ∧
    (Generated.condInfix ++ Generated.updInfix).all (fun p => (infixOfName p.2).isSome) = true := by decide

/-! ### evaluator tables -/

theorem functions_tie :
    Generated.functions.all (fun (name, _, upd, arity) => Eval.fnInfo name == some (arity, upd)) = true := by decide

theorem functions_expected :
    Generated.functions.map (fun (_, impl, _, _) => impl) =
      ["attributeExists", "attributeNotExists", "attributeType", "beginsWith", "contains", "ifNotExists", "listAppend", "objectSize"] := by
  decide

theorem comparableTypes_expected : Generated.comparableTypes = [[66], [78], [83]] := by decide

theorem dynamodbTypes_tie : Generated.dynamodbTypes.all Eval.dynamodbTypeCodes.contains = true ∧
    Generated.dynamodbTypes.length = 10 := by decide

/-! ### client constants -/

theorem batch_limit_expected : Generated.batchRequestsLimitV1 = 25 ∧ Generated.batchRequestsLimitV2 = 25 := by decide

theorem regex_expected :
    Generated.expressionAttributeNamesRegexV1 = "^#[A-Za-z0-9_]+$" ∧ Generated.expressionAttributeValuesRegexV1 = "^:[A-Za-z0-9_]+$" ∧
    Generated.expressionAttributeNamesRegexV2 = "^#[A-Za-z0-9_]+$" ∧ Generated.expressionAttributeValuesRegexV2 = "^:[A-Za-z0-9_]+$" := by
  decide

theorem emulatingErrors_expected :
    Generated.emulatingErrorsV1 = ["deprecated=>ErrForcedFailure", "internal_server=>emulatedInternalServeError", "none=>nil"] ∧
    Generated.emulatingErrorsV2 = ["deprecated=>ErrForcedFailure", "internal_server=>&emulatedInternalServeError", "none=>nil"] := by
  decide

/-- the four registration maps of `interpreter.Native` are keyed by the struct `expressionKey`, whose
    fields keep the table name and the expression text apart (the model's `nativeKey` encodes that pair) -/
theorem native_keys_tie :
    Generated.nativeMapKeyTypes = [("filterExpressions", "expressionKey"), ("keyExpressions", "expressionKey"),
      ("writeCondExpressions", "expressionKey"), ("updateExpressions", "expressionKey")] ∧
    Generated.expressionKeyFields = [("tablename", "string"), ("expression", "string")] := by decide

end Minidyn.Tie
