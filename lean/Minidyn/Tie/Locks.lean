/-
  Minidyn.Tie.Locks — C11, code-specific obligation: every entry point of both clients
  respects the lock discipline.  The skeletons are regenerated from client.go/minidyn.go
  by `tools/gofacts` on every run; `wellLocked_generated` is re-checked against them.
  What the discipline implies for executions is proved once, generically, in
  `Minidyn.Props.C11`.
-/
import Minidyn.Generated.Locks
namespace Minidyn.Tie
open Minidyn.Generated

abbrev Skeletons := List (String × Bool × List LockEv)

def lookupSk (k : String) : Skeletons → Option (List LockEv)
  | [] => none
  | (k', _, v) :: t => if k' == k then some v else lookupSk k t

/-- a deferred unlock releases at the return of *that* function: close the skeleton of a
    function before it is inlined into its caller -/
def closeDeferred (evs : List LockEv) : List LockEv :=
  if evs.contains .deferUnlock then (evs.filter (· != .deferUnlock)) ++ [.unlock] else evs

/-- flatten a skeleton into lock / unlock / shared-access events by inlining its calls.
    `fuel` decreases at every step; `none` = unknown callee or fuel exhausted. -/
def flatten (sk : Skeletons) : Nat → List LockEv → Option (List LockEv)
  | _, [] => some []
  | 0, _ => none
  | fuel + 1, .call m :: rest =>
    match lookupSk m sk with
    | none => none
    | some body =>
      match flatten sk fuel (closeDeferred body), flatten sk fuel rest with
      | some b, some r => some (b ++ r)
      | _, _ => none
  | fuel + 1, e :: rest =>
    match flatten sk fuel rest with
    | some r => some (e :: r)
    | none => none

/-- walk a flattened sequence; `held`: this thread holds the mutex.  Rejected: locking while
    holding (the mutex is not re-entrant), touching shared state without holding, unlocking
    without holding, returning while holding. -/
def disciplined : Bool → List LockEv → Bool
  | held, [] => !held
  | held, .lock :: rest => !held && disciplined true rest
  | held, .unlock :: rest => held && disciplined false rest
  | held, .read _ :: rest => held && disciplined held rest
  | held, .write _ :: rest => held && disciplined held rest
  | held, .table _ :: rest => held && disciplined held rest
  | _, .deferUnlock :: _ => false
  | _, .call _ :: _ => false

/-- the flattened event sequence of an entry point (`none` if it cannot be built) -/
def flatOf (sk : Skeletons) (evs : List LockEv) : Option (List LockEv) := flatten sk 400 (closeDeferred evs)

def wellLockedMethod (sk : Skeletons) (evs : List LockEv) : Bool :=
  match flatOf sk evs with
  | some flat => disciplined false flat
  | none => false

/-- every method a user of the library can call respects the discipline -/
def wellLocked (sk : Skeletons) : Bool :=
  sk.all fun (_, exported, evs) => !exported || wellLockedMethod sk evs

theorem wellLocked_generated_v1 : wellLocked locksV1 = true := by decide
theorem wellLocked_generated_v2 : wellLocked locksV2 = true := by decide

/-- non-vacuity: the skeletons are there, and a skeleton that touches shared state
    without the lock (the code before the repair of `CreateTable`) is rejected -/
theorem wellLocked_nonvacuous :
    locksV1.length ≥ 30 ∧ locksV2.length ≥ 20 ∧
    wellLocked [("CreateTable", true, [.read "tables", .write "tables"])] = false ∧
    wellLocked [("Batch", true, [.lock, .deferUnlock, .call "PutItem"]), ("PutItem", true, [.lock, .deferUnlock, .table "Put"])] = false := by
  decide

end Minidyn.Tie
