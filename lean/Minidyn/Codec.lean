/-
  Minidyn.Codec — JSON wire format between the Go harness and the Lean driver
  (DESIGN Appendix A).  Bytes travel as lower-case hex; attribute values as tagged
  trees; canonical output sorts map entries, attributes and set members.
  This file is driver plumbing (not part of the model the theorems are about).
-/
import Lean.Data.Json
import Minidyn.Model.Client
open Lean
namespace Minidyn.Codec

def hexOf (j : Json) : Except String Bytes := do
  let s ← j.getStr?
  match Bytes.ofHex s with
  | some b => pure b
  | none => throw s!"bad hex {s}"

partial def avOfJson (j : Json) : Except String AV := do
  let o ← j.getObj?
  match o.toList with
  | [(tag, v)] =>
    match tag with
    | "S" => return .s (← hexOf v)
    | "N" => return .n (← hexOf v)
    | "B" => return .b (← hexOf v)
    | "BOOL" => return .bool (← v.getBool?)
    | "NULL" => return .null
    | "L" => do
      let arr ← v.getArr?
      return .l (← arr.toList.mapM avOfJson)
    | "M" => do
      let arr ← v.getArr?
      let kvs ← arr.toList.mapM fun p => do
        let pa ← p.getArr?
        if h : pa.size = 2 then
          let k ← hexOf pa[0]
          let x ← avOfJson pa[1]
          pure (k, x)
        else throw "bad M entry"
      return .m kvs
    | "SS" => return .ss (← (← v.getArr?).toList.mapM hexOf)
    | "NS" => return .ns (← (← v.getArr?).toList.mapM hexOf)
    | "BS" => return .bs (← (← v.getArr?).toList.mapM hexOf)
    | t => throw s!"bad tag {t}"
  | _ => throw "attribute value must have exactly one tag"

def itemOfJson (j : Json) : Except String Item := do
  let arr ← j.getArr?
  arr.toList.mapM fun p => do
    let pa ← p.getArr?
    if h : pa.size = 2 then
      let k ← hexOf pa[0]
      let x ← avOfJson pa[1]
      pure (k, x)
    else throw "bad item entry"

def namesOfJson (j : Json) : Except String (List (Bytes × Bytes)) := do
  let arr ← j.getArr?
  arr.toList.mapM fun p => do
    let pa ← p.getArr?
    if h : pa.size = 2 then
      pure (← hexOf pa[0], ← hexOf pa[1])
    else throw "bad names entry"

def hexJ (b : Bytes) : Json := Json.str (Bytes.toHex b)

def tag (t : String) (v : Json) : Json := Json.mkObj [(t, v)]

/-- canonical rendering: map entries sorted by key, set members sorted -/
partial def avToJson : AV → Json
  | .s v => tag "S" (hexJ v)
  | .n v => tag "N" (hexJ v)
  | .b v => tag "B" (hexJ v)
  | .bool v => tag "BOOL" (Json.bool v)
  | .null => tag "NULL" (Json.bool true)
  | .l xs => tag "L" (Json.arr (xs.map avToJson).toArray)
  | .m kvs => tag "M" (Json.arr ((sortAssoc kvs).map fun (k, x) => Json.arr #[hexJ k, avToJson x]).toArray)
  | .ss xs => tag "SS" (Json.arr ((sortBytes xs).map hexJ).toArray)
  | .ns xs => tag "NS" (Json.arr ((sortBytes xs).map hexJ).toArray)
  | .bs xs => tag "BS" (Json.arr ((sortBytes xs).map hexJ).toArray)

def itemToJson (it : Item) : Json :=
  Json.arr ((sortAssoc it).map fun (k, x) => Json.arr #[hexJ k, avToJson x]).toArray

def ierrName : IErr → String
  | .syntax => "Syntax"
  | .unsupported => "Unsupported"
  | .outOfFuel => "OutOfFuel"

end Minidyn.Codec

/-! ### histories -/
namespace Minidyn.Codec
open Lean

def fld (j : Json) (k : String) : Except String Json :=
  match j.getObjVal? k with
  | .ok v => pure v
  | .error _ => throw s!"missing field {k}"

def fldOpt (j : Json) (k : String) : Option Json :=
  match j.getObjVal? k with
  | .ok v => if v.isNull then none else some v
  | .error _ => none

def hexFld (j : Json) (k : String) : Except String Bytes :=
  match fldOpt j k with
  | some v => hexOf v
  | none => pure []

def boolFld (j : Json) (k : String) : Bool :=
  match fldOpt j k with
  | some (Json.bool b) => b
  | _ => false

def natFld (j : Json) (k : String) : Nat :=
  match fldOpt j k with
  | some v => (v.getNat?.toOption).getD 0
  | none => 0

def itemFld (j : Json) (k : String) : Except String Item :=
  match fldOpt j k with
  | some v => itemOfJson v
  | none => pure []

def pairOfJson (j : Json) : Except String (Bytes × Bytes) := do
  let pa ← j.getArr?
  if h : pa.size = 2 then pure (← hexOf pa[0], ← hexOf pa[1]) else throw "bad pair"

def keyDefOfJson (j : Json) : Except String KeyDef := do
  let h ← pairOfJson (← fld j "hash")
  let r ← match fldOpt j "range" with
    | some v => do let p ← pairOfJson v; pure (some p)
    | none => pure none
  pure { hash := h, range := r }

def indexDefOfJson (j : Json) : Except String IndexDef := do
  pure { name := ← hexFld j "name", key := ← keyDefOfJson (← fld j "key"), throughput := boolFld j "tp", noDefs := boolFld j "noDefs" }

def indexDefsOpt (j : Json) (k : String) : Except String (Option (List IndexDef)) :=
  match fldOpt j k with
  | some v => do
    let arr ← v.getArr?
    let l ← arr.toList.mapM indexDefOfJson
    pure (some l)
  | none => pure none

def exprsOf (j : Json) : Except String Exprs := do
  let names ← match fldOpt j "names" with | some v => namesOfJson v | none => pure []
  let values ← itemFld j "values"
  pure { names, values }

def condOf (j : Json) : Except String (Option Bytes) :=
  match fldOpt j "cond" with
  | some v => do let b ← hexOf v; pure (some b)
  | none => pure none

def queryOf (j : Json) : Except String Table.Query := do
  pure { index := ← hexFld j "index", limit := natFld j "limit", startKey := ← itemFld j "startKey",
         keyCond := ← hexFld j "keyCond", filter := ← hexFld j "filter", forward := boolFld j "forward",
         scan := boolFld j "scan" }

def wreqOfJson (j : Json) : Except String WriteReq := do
  match fldOpt j "both" with
  | some v => do
    let pa ← v.getArr?
    if h : pa.size = 2 then pure (.both (← itemOfJson pa[0]) (← itemOfJson pa[1])) else throw "bad both"
  | none =>
    if boolFld j "neither" then pure .neither
    else match fldOpt j "put" with
      | some v => pure (.put (← itemOfJson v))
      | none => pure (.del (← itemFld j "del"))

def kindOf (s : String) : ExprKind :=
  if s == "key" then .key else if s == "filter" then .filter else .cond

def opOfJson (j : Json) : Except String Op := do
  let name ← (← fld j "op").getStr?
  let table ← hexFld j "table"
  match name with
  | "createTable" =>
    pure (.createTable { table, key := ← keyDefOfJson (← fld j "key"), gsi := ← indexDefsOpt j "gsi",
                         lsi := ← indexDefsOpt j "lsi", payPerRequest := boolFld j "ppr", throughput := boolFld j "tp" })
  | "deleteTable" => pure (.deleteTable table)
  | "describeTable" => pure (.describeTable table)
  | "clearTable" => pure (.clearTable table)
  | "updateTable" =>
    let chs ← match fldOpt j "changes" with
      | some v => do
        let arr ← v.getArr?
        arr.toList.mapM fun c => match fldOpt c "create" with
          | some d => do pure (IndexChange.create (← indexDefOfJson d))
          | none => do pure (IndexChange.delete (← hexFld c "delete"))
      | none => pure []
    pure (.updateTable table chs)
  | "put" => pure (.put table (← itemFld j "item") (← condOf j) (← exprsOf j))
  | "update" => pure (.update table (← itemFld j "keyItem") (← hexFld j "expr") (← condOf j) (← exprsOf j) (boolFld j "retOnFail"))
  | "delete" => pure (.delete table (← itemFld j "keyItem") (← condOf j) (← exprsOf j) (boolFld j "retOld"))
  | "get" => pure (.get table (← itemFld j "keyItem"))
  | "query" => pure (.query table (← queryOf j) (← exprsOf j))
  | "pages" =>
    let da := match fldOpt j "delAfter" with | some v => v.getNat?.toOption | none => none
    pure (.pages table (← queryOf j) (← exprsOf j) da (natFld j "maxPages"))
  | "batchWrite" =>
    let reqs ← match fldOpt j "wreqs" with
      | some v => do
        let arr ← v.getArr?
        arr.toList.mapM fun p => do
          let pa ← p.getArr?
          if h : pa.size = 2 then
            let rs ← (← pa[1].getArr?).toList.mapM wreqOfJson
            pure (← hexOf pa[0], rs)
          else throw "bad wreqs"
      | none => pure []
    pure (.batchWrite reqs)
  | "batchGet" =>
    let reqs ← match fldOpt j "greqs" with
      | some v => do
        let arr ← v.getArr?
        arr.toList.mapM fun p => do
          let pa ← p.getArr?
          if h : pa.size = 2 then
            let ks ← (← pa[1].getArr?).toList.mapM itemOfJson
            pure (← hexOf pa[0], ks)
          else throw "bad greqs"
      | none => pure []
    pure (.batchGet reqs)
  | "transactWrite" => pure .transactWrite
  | "setFailure" =>
    let f ← (← fld j "f").getStr?
    pure (.setFailure (if f == "internal_server" then some .internalServer else if f == "deprecated" then some .deprecated else none))
  | "activateNative" => pure .activateNative
  | "setInterpreter" => pure .setInterpreter
  | "registerMatcher" => pure (.registerMatcher table (kindOf ((← fld j "kind").getStr?.toOption.getD "")) (← hexFld j "expr") (natFld j "id"))
  | "registerUpdater" => pure (.registerUpdater table (← hexFld j "expr") (natFld j "id"))
  | o => throw s!"unknown op {o}"

def errClassName : ErrClass → String
  | .validation => "Validation" | .conditionFailed => "ConditionalCheckFailed"
  | .resourceNotFound => "ResourceNotFound" | .resourceInUse => "ResourceInUse"
  | .internalServer => "InternalServerError" | .forcedFailure => "ForcedFailure"
  | .unsupported => "Unsupported" | .syntax => "Syntax"

def pairsJ (l : List (Bytes × Bytes)) : Json := Json.arr (l.map fun (a, b) => Json.arr #[hexJ a, hexJ b]).toArray

def indexDescJ (d : IndexDesc) : Json :=
  Json.mkObj [("name", hexJ d.name), ("count", Json.num d.count), ("schema", pairsJ d.schema)]

def wreqJ : WriteReq → Json
  | .put it => Json.mkObj [("put", itemToJson it)]
  | .del k => Json.mkObj [("del", itemToJson k)]
  | .both it k => Json.mkObj [("both", Json.arr #[itemToJson it, itemToJson k])]
  | .neither => Json.mkObj [("neither", Json.bool true)]

def outToJson : Out → Json
  | .ok => Json.mkObj [("ok", Json.bool true)]
  | .item none => Json.mkObj [("item", Json.null)]
  | .item (some it) => Json.mkObj [("item", itemToJson it)]
  | .search items count lek =>
    Json.mkObj [("search", Json.mkObj [("items", Json.arr (items.map itemToJson).toArray), ("count", Json.num count), ("lek", itemToJson lek)])]
  | .pages ps =>
    Json.mkObj [("pages", Json.arr (ps.map fun (items, lek) =>
      Json.mkObj [("items", Json.arr (items.map itemToJson).toArray), ("lek", itemToJson lek)]).toArray)]
  | .pagesErr ps err panicCls =>
    let pj := Json.arr (ps.map fun (items, lek) =>
      Json.mkObj [("items", Json.arr (items.map itemToJson).toArray), ("lek", itemToJson lek)]).toArray
    Json.mkObj [("pagesErr", Json.mkObj [("pages", pj), ("error", match err with
      | some cls => Json.mkObj [("err", Json.str (errClassName cls))]
      | none => Json.mkObj [("panicErr", Json.str panicCls)])])]
  | .describe d =>
    Json.mkObj [("describe", Json.mkObj [("count", Json.num d.count), ("schema", pairsJ d.schema),
      ("gsi", Json.arr (d.gsi.map indexDescJ).toArray), ("lsi", Json.arr (d.lsi.map indexDescJ).toArray)])]
  | .batchWrite unp =>
    Json.mkObj [("batchWrite", Json.arr ((sortAssoc unp).map fun (t, rs) => Json.arr #[hexJ t, Json.arr (rs.map wreqJ).toArray]).toArray)]
  | .batchGet resp unp =>
    let tk (l : List (Bytes × List Item)) := Json.arr ((sortAssoc l).map fun (t, ks) => Json.arr #[hexJ t, Json.arr (ks.map itemToJson).toArray]).toArray
    Json.mkObj [("batchGet", Json.mkObj [("responses", tk resp), ("unprocessed", tk unp)])]
  | .err cls none => Json.mkObj [("err", Json.str (errClassName cls))]
  | .err cls (some it) => Json.mkObj [("err", Json.str (errClassName cls)), ("item", itemToJson it)]
  | .panicErr cls => Json.mkObj [("panicErr", Json.str cls)]
  | .na => Json.mkObj [("na", Json.bool true)]

end Minidyn.Codec
