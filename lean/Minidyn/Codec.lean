/-
  Minidyn.Codec — JSON wire format between the Go harness and the Lean driver
  (DESIGN Appendix A).  Bytes travel as lower-case hex; attribute values as tagged
  trees; canonical output sorts map entries, attributes and set members.
  This file is driver plumbing (not part of the model the theorems are about).
-/
import Lean.Data.Json
import Minidyn.Model.Interp
open Lean
namespace Minidyn.Codec

def hexOf (j : Json) : Except String Bytes := do
  let s ← j.getStr?
  match Bytes.ofHex s with
  | some b => pure b
  | none => throw s!"bad hex {s}"

partial def avOfJson (j : Json) : Except String AV := do
  let o ← j.getObj?
  match o.toList with
  | [(tag, v)] =>
    match tag with
    | "S" => return .s (← hexOf v)
    | "N" => return .n (← hexOf v)
    | "B" => return .b (← hexOf v)
    | "BOOL" => return .bool (← v.getBool?)
    | "NULL" => return .null
    | "L" => do
      let arr ← v.getArr?
      return .l (← arr.toList.mapM avOfJson)
    | "M" => do
      let arr ← v.getArr?
      let kvs ← arr.toList.mapM fun p => do
        let pa ← p.getArr?
        if h : pa.size = 2 then
          let k ← hexOf pa[0]
          let x ← avOfJson pa[1]
          pure (k, x)
        else throw "bad M entry"
      return .m kvs
    | "SS" => return .ss (← (← v.getArr?).toList.mapM hexOf)
    | "NS" => return .ns (← (← v.getArr?).toList.mapM hexOf)
    | "BS" => return .bs (← (← v.getArr?).toList.mapM hexOf)
    | t => throw s!"bad tag {t}"
  | _ => throw "attribute value must have exactly one tag"

def itemOfJson (j : Json) : Except String Item := do
  let arr ← j.getArr?
  arr.toList.mapM fun p => do
    let pa ← p.getArr?
    if h : pa.size = 2 then
      let k ← hexOf pa[0]
      let x ← avOfJson pa[1]
      pure (k, x)
    else throw "bad item entry"

def namesOfJson (j : Json) : Except String (List (Bytes × Bytes)) := do
  let arr ← j.getArr?
  arr.toList.mapM fun p => do
    let pa ← p.getArr?
    if h : pa.size = 2 then
      pure (← hexOf pa[0], ← hexOf pa[1])
    else throw "bad names entry"

def hexJ (b : Bytes) : Json := Json.str (Bytes.toHex b)

def tag (t : String) (v : Json) : Json := Json.mkObj [(t, v)]

/-- canonical rendering: map entries sorted by key, set members sorted -/
partial def avToJson : AV → Json
  | .s v => tag "S" (hexJ v)
  | .n v => tag "N" (hexJ v)
  | .b v => tag "B" (hexJ v)
  | .bool v => tag "BOOL" (Json.bool v)
  | .null => tag "NULL" (Json.bool true)
  | .l xs => tag "L" (Json.arr (xs.map avToJson).toArray)
  | .m kvs => tag "M" (Json.arr ((sortAssoc kvs).map fun (k, x) => Json.arr #[hexJ k, avToJson x]).toArray)
  | .ss xs => tag "SS" (Json.arr ((sortBytes xs).map hexJ).toArray)
  | .ns xs => tag "NS" (Json.arr ((sortBytes xs).map hexJ).toArray)
  | .bs xs => tag "BS" (Json.arr ((sortBytes xs).map hexJ).toArray)

def itemToJson (it : Item) : Json :=
  Json.arr ((sortAssoc it).map fun (k, x) => Json.arr #[hexJ k, avToJson x]).toArray

def ierrName : IErr → String
  | .syntax => "Syntax"
  | .unsupported => "Unsupported"
  | .outOfFuel => "OutOfFuel"

end Minidyn.Codec
