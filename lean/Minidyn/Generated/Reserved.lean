-- placeholder: regenerated from /repo/interpreter/language/token.go by tools/gofacts
namespace Minidyn.Generated
def reservedWords : List String := ["ABORT", "ADD", "NAME", "SIZE", "STATUS"]
end Minidyn.Generated
