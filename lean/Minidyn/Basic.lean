def hello := "world"
