import Minidyn.Model.Basic
import Minidyn.Model.Num
import Minidyn.Model.Value
