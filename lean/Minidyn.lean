import Minidyn.Model.Basic
import Minidyn.Model.Num
import Minidyn.Model.Value
import Minidyn.Model.Lexer
import Minidyn.Model.Parser
import Minidyn.Model.Env
import Minidyn.Model.Eval
import Minidyn.Model.Interp
