"""Per-property configuration of ./check: case families (kind, profile, quick count),
proof obligations (module, theorem) and notes for the evidence file."""

T = "Minidyn.Tie.Tables"
TL = "Minidyn.Tie.Locks"
TS = "Minidyn.Tie.Sharing"

TABLE_TIES = [(T, "Minidyn.Tie.keywords_tie"), (T, "Minidyn.Tie.keywords_count"), (T, "Minidyn.Tie.singleChar_expected"),
              (T, "Minidyn.Tie.singleChar_tie"), (T, "Minidyn.Tie.especialChars_expected"), (T, "Minidyn.Tie.precedences_tie"),
              (T, "Minidyn.Tie.precedenceValues_expected"), (T, "Minidyn.Tie.parse_call_precedences"),
              (T, "Minidyn.Tie.registrations_tie"), (T, "Minidyn.Tie.registrations_known")]
EVAL_TIES = [(T, "Minidyn.Tie.functions_tie"), (T, "Minidyn.Tie.functions_expected"), (T, "Minidyn.Tie.comparableTypes_expected"),
             (T, "Minidyn.Tie.dynamodbTypes_tie")]
CLIENT_TIES = [(T, "Minidyn.Tie.batch_limit_expected"), (T, "Minidyn.Tie.regex_expected"), (T, "Minidyn.Tie.emulatingErrors_expected")]

def P(*mods):
    """all theorems of the given proof modules"""
    return [("Minidyn." + m, "*") for m in mods]


HIST_RULE = ("histories of abstract client operations generated from VERIF_SEED (profile-specific operation mix), run on the real "
             "v1 and v2 clients and on the Lean model; distinct = different canonical case; non-trivial = at least two successful "
             "writes and one successful read")
EXPR_RULE = ("expressions printed from generated trees (type-aware, against a generated item) plus near-miss and garbage strings, run on "
             "interpreter.Language and on the Lean model; distinct = different canonical case; non-trivial = evaluated without error")

PROPS = {
    "C01": {"families": [("hist", "general", 500), ("hist", "keys", 300), ("update", None, 2500)], "obligations": P("Props.Reach", "Props.C01", "Props.Refine", "Props.RefineMore", "Props.RefineBatch", "Lemmas.Order", "Lemmas.Search", "Lemmas.Assoc"), "rule": HIST_RULE},
    "C02": {"families": [("hist", "search", 500), ("hist", "index", 200), ("race", None, 1)], "obligations": [(TL, "Minidyn.Tie.wellLocked_generated_v1"), (TL, "Minidyn.Tie.wellLocked_generated_v2")] + P("Props.C02", "Props.C03Read", "Props.Reach", "Props.C01", "Lemmas.Order", "Lemmas.Search"), "rule": HIST_RULE},
    "C03": {"families": [("hist", "index", 600)], "obligations": P("Props.C03", "Props.C03Read", "Props.Reach"), "rule": HIST_RULE},
    "C04": {"families": [("hist", "search", 600), ("hist", "index", 200)], "obligations": P("Props.C04Paging", "Props.C04Index", "Props.C13Start", "Props.ReachGen", "Lemmas.Chain", "Props.C04", "Props.C02", "Props.C13", "Lemmas.Order", "Lemmas.Search"), "rule": HIST_RULE},
    "C05": {"families": [("hist", "cond", 600), ("match", None, 1200), ("race", None, 1)], "obligations": P("Props.C05", "Props.C05Seq", "Props.C05Lit") + [(TL, "Minidyn.Tie.wellLocked_generated_v1"), (TL, "Minidyn.Tie.wellLocked_generated_v2")], "rule": HIST_RULE},
    "C06": {"families": [("match", None, 6000)], "obligations": P("Props.C06", "Props.C06Sets") + TABLE_TIES + EVAL_TIES, "rule": EXPR_RULE},
    "C07": {"families": [("update", None, 6000)], "obligations": P("Props.C07") + TABLE_TIES + EVAL_TIES, "rule": EXPR_RULE},
    "C08": {"families": [("hist", "fail", 600), ("hist", "batch", 300)], "obligations": P("Props.C08", "Props.Refine"), "rule": HIST_RULE},
    "C09": {"families": [("match", None, 3000), ("update", None, 3000), ("garbage", None, 4000), ("hist", "fail", 300), ("hist", "native", 150)], "obligations": P("Props.C09", "Props.C09Client") + TABLE_TIES, "rule": EXPR_RULE},
    "C10": {"families": [("hist", "values", 500), ("poke", None, 80), ("match", None, 1500)], "obligations": P("Props.C10", "Props.Refine"), "rule": HIST_RULE},
    "C11": {"families": [("race", None, 1)], "obligations": P("Props.C11") + [(TL, "Minidyn.Tie.wellLocked_generated_v1"), (TL, "Minidyn.Tie.wellLocked_generated_v2"),
                                                              (TL, "Minidyn.Tie.wellLocked_nonvacuous")], "rule": "pairs of client methods run concurrently under the race detector"},
    "C12": {"families": [("hist", "numbers", 400), ("num", None, 3000), ("update", None, 2500), ("match", None, 1500)], "obligations": P("Props.C12", "Props.C12Order"), "rule": HIST_RULE},
    "C13": {"families": [("hist", "keys", 600), ("poke", None, 40)], "obligations": P("Props.C13", "Props.C13Start"), "rule": HIST_RULE},
    "C14": {"families": [("poke", None, 150)], "obligations": P("Props.C14") + [(TS, "Minidyn.Tie.noSharing_generated_v1"), (TS, "Minidyn.Tie.noSharing_generated_v2"),
                                                               (TS, "Minidyn.Tie.sharing_covers_mappers"), (TS, "Minidyn.Tie.no_singleton_leak"), (TS, "Minidyn.Tie.copy_helpers_reviewed")],
            "rule": "every mutable location of generated value trees is written after a write / on a read result, then re-read"},
    "C15": {"families": [("hist", "emul", 600)], "obligations": P("Props.C15") + CLIENT_TIES, "rule": HIST_RULE},
    "C16": {"families": [("hist", "fail", 300), ("hist", "batch", 200), ("reserved", None, 1), ("match", None, 2000), ("decomp", None, 150)], "obligations": P("Props.C16") + CLIENT_TIES, "rule": HIST_RULE},
    "C17": {"families": [("hist", "general", 300), ("hist", "lifecycle", 200), ("hist", "emul", 200), ("hist", "native", 150)], "obligations": P("Props.C17", "Props.C10"), "rule": HIST_RULE},
    "C18": {"families": [("hist", "lifecycle", 600)], "obligations": P("Props.C18") + [(TS, "Minidyn.Tie.no_singleton_leak")], "rule": HIST_RULE},
    "C19": {"families": [("hist", "batch", 600), ("decomp", None, 300), ("poke", None, 40)], "obligations": P("Props.C19", "Props.C19Get", "Props.RefineBatch") + CLIENT_TIES[:1], "rule": HIST_RULE},
    "C20": {"families": [("hist", "native", 600)], "obligations": P("Props.C20", "Props.C20Words", "Props.C20Blank") + [(T, "Minidyn.Tie.native_keys_tie")], "rule": HIST_RULE},
}
