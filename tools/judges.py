"""Judgement of *implementation* outcomes against the specification (tools/spec.py), per
property, and attribution of a rejected outcome to a known finding.

A judge never looks at the model's outcome: what it flags is a concrete input on which the
real code violates the property statement.
"""
import json, os
from fractions import Fraction
import spec
from spec import hx, tag, canon, canon_item, item_get, evalc, resolve, MISSING

HIST_PROPS = {"C01", "C02", "C03", "C04", "C05", "C08", "C10", "C12", "C13", "C15", "C16", "C17", "C18", "C19", "C20"}


def h2s(x):
    try:
        return hx(x).decode("latin1")
    except Exception:
        return x


def okind(o):
    return next(iter(o)) if o else "none"


def stats(case):
    d = {}
    if case["kind"] == "hist":
        for sdk in ("v2",):
            for op, o in zip(case["ops"], case["impl"][sdk]):
                k = "op:%s:%s" % (op["op"], okind(o) if okind(o) != "err" else "err-" + o["err"])
                d[k] = d.get(k, 0) + 1
    else:
        o = case["impl"]
        k = "%s:%s" % (case["kind"], json.dumps(o)[:24] if okind(o) in ("err", "panicErr") or isinstance(o.get("ok"), bool) else okind(o))
        d[k] = d.get(k, 0) + 1
    return d


def nontrivial(prop, case):
    if case["kind"] == "hist":
        outs = case["impl"]["v2"]
        succ = sum(1 for op, o in zip(case["ops"], outs) if op["op"] in ("put", "update", "delete", "batchWrite") and okind(o) in ("ok", "item", "batchWrite"))
        reads = sum(1 for op, o in zip(case["ops"], outs) if okind(o) in ("search", "pages", "item", "describe", "batchGet"))
        return succ >= 2 and reads >= 1
    if case["kind"] in ("match", "update"):
        return okind(case["impl"]) == "ok"
    if case["kind"] == "decomp":
        return (case.get("request") or {}).get("keys", 0) > 0
    return True


def sample(case, model):
    if case["kind"] == "hist":
        ops = []
        for op, o in list(zip(case["ops"], case["impl"]["v2"]))[:6]:
            ops.append({"op": op["op"], "table": h2s(op.get("table", "")), "impl": json.dumps(o)[:160]})
        return {"kind": "hist", "profile": case.get("profile"), "n_ops": len(case["ops"]), "first_ops": ops, "model_equal": True}
    s = {"kind": case["kind"], "text": case.get("text"), "impl": json.dumps(case.get("impl"))[:200], "model_equal": True}
    return s


# ------------------------------------------------------------------ spec world

# deviation switch used by the classifier of KF-C13-number-keys-by-text: number keys identified by their text
TEXT_KEYS = False


def keytuple(schema, item, index=False):
    """key by VALUE: (hash, range); None when an attribute is missing or has the wrong type"""
    out = []
    for name, typ in schema:
        v = item_get(item, name)
        if v is MISSING or tag(v) != typ:
            return None
        if typ in ("S", "N", "B") and v[typ] == "" and not (index and typ == "B"):
            # a primary key attribute cannot be empty; an item whose index key attribute is an empty binary
            # possesses the attribute (empty strings and numbers as index keys are outside the generated domain)
            return None
        out.append(("Ntext", v["N"]) if (TEXT_KEYS and typ == "N") else canon(v))
    return tuple(out)


def ill_typed_index_key(tt, item):
    """the item has an index key attribute with another type than the index declares: the write is rejected"""
    for ix in tt.indexes.values():
        for name, typ in ix["schema"]:
            v = item_get(item, name)
            if v is not MISSING and tag(v) != typ:
                return True
    return False


def retypes_key_attr(t, op):
    """an UpdateTable whose index definitions give a key attribute in use (of the table or of an existing index) another type"""
    in_use = dict(t.schema)
    for ix in t.indexes.values():
        for name, typ in ix["schema"]:
            in_use.setdefault(name, typ)
    for ch in op.get("changes", []):
        if "create" in ch:
            for name, typ in key_defs(ch["create"]).items():
                if name in in_use and in_use[name] != typ:
                    return True
    return False


def key_defs(d):
    """the attribute definitions a request sends along with an index definition"""
    if d.get("noDefs"):
        return {}
    k = d["key"]
    return {name: h2s(typ) for name, typ in [k["hash"]] + ([k["range"]] if k.get("range") else [])}


class SpecTable:
    def __init__(self, op):
        k = op["key"]
        self.schema = [(k["hash"][0], h2s(k["hash"][1]))] + ([(k["range"][0], h2s(k["range"][1]))] if k.get("range") else [])
        self.indexes = {}
        self.attrs = dict(self.schema)          # the attribute definitions the table knows
        for kind in ("gsi", "lsi"):
            for d in (op.get(kind) or []):
                self.add_index(d, kind)
                self.attrs.update(key_defs(d))
        self.items = {}

    def add_index(self, d, kind="gsi"):
        k = d["key"]
        self.indexes[d["name"]] = {"schema": [(k["hash"][0], h2s(k["hash"][1]))] + ([(k["range"][0], h2s(k["range"][1]))] if k.get("range") else []), "kind": kind}

    def index_items(self, name):
        sch = self.indexes[name]["schema"]
        return [it for it in self.items.values() if keytuple(sch, it, index=True) is not None]


def sort_value(av):
    t = tag(av)
    if t == "N":
        return spec.num(av[t])
    return hx(av[t])


class World:
    """replays a history: the state is what the successful writes established"""

    def __init__(self, case, sdk):
        self.case, self.sdk = case, sdk
        self.tables = {}
        self.failure = None
        self.native = False
        self.matchers = {}
        self.updaters = {}
        self.v = []

    def flag(self, step, sig, why, **kw):
        d = {"sdk": self.sdk, "step": step, "sig": sig, "why": why, "op": self.case["ops"][step]["op"]}
        d.update(kw)
        self.v.append(d)


def expected_err(o, cls):
    return okind(o) == "err" and o["err"] == cls


def items_equal(a, b):
    return canon_item(a) == canon_item(b)


def run_world(case, sdk, checks):
    w = World(case, sdk)
    ops, outs = case["ops"], case["impl"][sdk]
    for i, (op, o) in enumerate(zip(ops, outs)):
        name = op["op"]
        t = w.tables.get(op.get("table"))
        k = okind(o)
        if k == "crash":
            if "crash" in checks:
                w.flag(i, "crash", "runtime fault: " + str(o["crash"])[:100])
            continue
        if k == "na":
            continue
        if o.get("untyped") and ({"cond", "lifecycle", "map", "observe"} & set(checks)):
            w.flag(i, "error-type", "the %s error reached the caller as the library's internal error, not as the SDK's exception type (errors.As fails)" % o.get("err"), op=name)
        data_op = name in ("put", "update", "delete", "get", "query", "pages", "batchWrite", "batchGet", "transactWrite")
        if not w.failure and data_op and "failure" in checks and (expected_err(o, "InternalServerError") or expected_err(o, "ForcedFailure")):
            w.flag(i, "failure-after-deactivation", "no failure condition is active, yet the data operation returned the emulated error %s" % json.dumps(o)[:80])
            continue
        if w.failure and data_op:
            want = "InternalServerError" if w.failure == "internal_server" else "ForcedFailure"
            if "failure" in checks:
                if name == "batchWrite":
                    n_req = sum(len(r[1]) for r in op.get("wreqs", []))
                    bad = any(("both" in r or r.get("neither")) for tr in op.get("wreqs", []) for r in tr[1]) or n_req > 25
                    if w.failure == "internal_server" and not bad:
                        if k != "batchWrite" or sum(len(r[1]) for r in o["batchWrite"]) != n_req:
                            w.flag(i, "batch-under-failure", "under internal_server every request must come back as unprocessed", impl=o)
                        else:
                            # ... each under the table it was sent for
                            sent, back = {}, {}
                            for tn, rs in op.get("wreqs", []):
                                for r in rs:
                                    kind_ = "put" if "put" in r else "del"
                                    sent.setdefault(tn, []).append(json.dumps({kind_: canon_json_item(r[kind_])}, sort_keys=True))
                            for tn, rs in o["batchWrite"]:
                                back.setdefault(tn, []).extend(json.dumps(r, sort_keys=True) for r in rs)
                            if {tn: sorted(v) for tn, v in sent.items() if v} != {tn: sorted(v) for tn, v in back.items() if v}:
                                w.flag(i, "batch-under-failure", "under internal_server the unprocessed requests are not the requests that were sent, table by table", impl=json.dumps(o)[:200])
                    elif not bad and not expected_err(o, want):
                        w.flag(i, "failure-not-returned", "data operation under %s returned %s" % (w.failure, json.dumps(o)[:80]))
                elif not (expected_err(o, want) or (sdk == "v1" and expected_err(o, "Validation"))):
                    w.flag(i, "failure-not-returned", "data operation under %s returned %s" % (w.failure, json.dumps(o)[:80]))
            if name == "batchWrite" and "restrictions" in checks and k == "batchWrite":
                # the batch rules hold whatever state the database is in: a failing database does not make a malformed batch acceptable
                n_req = sum(len(r[1]) for r in op.get("wreqs", []))
                if any(("both" in r or r.get("neither")) for tr in op.get("wreqs", []) for r in tr[1]) or n_req > 25:
                    w.flag(i, "batch-rule-not-detected", "a BatchWriteItem with %d requests / a malformed write request was accepted (while a failure is emulated)" % n_req)
            continue
        if name == "setFailure":
            w.failure = None if op["f"] == "none" else op["f"]
            continue
        if name == "activateNative":
            w.native = True
            continue
        if name == "setInterpreter":
            w.matchers, w.updaters = {}, {}
            continue
        if name == "registerMatcher":
            w.matchers[(op["table"], op["kind"], norm_ws(hx(op["expr"])))] = op["id"]
            continue
        if name == "registerUpdater":
            w.updaters[(op["table"], norm_ws(hx(op["expr"])))] = op["id"]
            continue
        if name == "transactWrite":
            continue
        # ---- table management
        if name == "createTable":
            if op["table"] in w.tables:
                if "lifecycle" in checks and not expected_err(o, "ResourceInUse"):
                    w.flag(i, "create-existing", "creating an existing table returned " + json.dumps(o)[:80])
                continue
            if k == "describe":
                w.tables[op["table"]] = SpecTable(op)
                if "lifecycle" in checks:
                    check_describe(w, i, w.tables[op["table"]], o)
            continue
        if name in ("deleteTable", "describeTable", "updateTable", "clearTable") or data_op:
            missing_tables = [op.get("table")] if name not in ("batchWrite", "batchGet") else []
            if name not in ("batchWrite", "batchGet") and t is None:
                if "lifecycle" in checks and not (expected_err(o, "ResourceNotFound") or expected_err(o, "Validation") or okind(o) == "panicErr"):
                    w.flag(i, "missing-table", "%s on a table that does not exist returned %s" % (name, json.dumps(o)[:80]))
                continue
        if name == "deleteTable":
            if k == "describe":
                del w.tables[op["table"]]
            continue
        if name == "clearTable":
            if k == "ok":
                t.items = {}
            continue
        if name == "describeTable":
            if k == "describe" and ("lifecycle" in checks or "index" in checks):
                check_describe(w, i, t, o)
            continue
        if name == "updateTable" and retypes_key_attr(t, op):
            if k != "err" and ({"lifecycle", "index", "keys", "map", "observe"} & set(checks)):
                w.flag(i, "key-attribute-retyped", "UpdateTable accepted attribute definitions that give a key attribute in use another type", impl=json.dumps(o)[:100])
            continue
        if name == "updateTable":
            # an index whose key attributes the table has no definition for (none in the request, none from an earlier
            # successful request) cannot be created: the definitions of a request that failed are not there
            undefined = None
            known = dict(t.attrs)
            for ch in op.get("changes", []):
                if "create" in ch:
                    known.update(key_defs(ch["create"]))
                    kd = ch["create"]["key"]
                    for an, _ in [kd["hash"]] + ([kd["range"]] if kd.get("range") else []):
                        if an not in known and undefined is None:
                            undefined = an
            if undefined is not None and k == "describe" and ({"lifecycle", "index", "observe"} & set(checks)):
                w.flag(i, "index-on-undefined-attribute", "UpdateTable created an index on %r, an attribute the table has no definition for "
                       "(a definition sent with a request that failed is no definition)" % hx(undefined), impl=json.dumps(o)[:100])
            if k == "describe":
                # the request went through: all its definitions and changes are in effect; a request that failed leaves nothing
                for ch in op.get("changes", []):
                    if "create" in ch:
                        t.add_index(ch["create"])
                        t.attrs.update(key_defs(ch["create"]))
                    else:
                        t.indexes.pop(ch["delete"], None)
                if "lifecycle" in checks or "index" in checks:
                    check_describe(w, i, t, o)
            continue
        # ---- single item operations
        blank_cond = known_nonsentence(hx(op.get("cond") or "")) and (op["table"], "cond", norm_ws(hx(op.get("cond") or ""))) not in w.matchers
        if "frontend" in checks and name in ("put", "update", "delete") and (op.get("garbageCond") or op.get("garbageUpdate") or blank_cond):
            # the condition of a write is always evaluated, the update expression always parsed: no way around an error
            # (with the native interpreter active an update without a registered updater fails as unsupported: an error too)
            if k in ("ok", "item") or ((op.get("garbageCond") or blank_cond) and expected_err(o, "ConditionalCheckFailed")):
                w.flag(i, "malformed-expression-accepted", "%s with a %s that is not a sentence of the grammar returned %s" %
                       (name, "condition" if (op.get("garbageCond") or blank_cond) else "update expression", json.dumps(o)[:80]))
        if name == "put":
            key = keytuple(t.schema, op.get("item", []))
            cond_expect = cond_outcomes(w, op, t, key, "condTree")
            if key is None:
                if "keys" in checks and k != "err":
                    w.flag(i, "bad-key-accepted", "PutItem with a missing/ill-typed key attribute returned " + json.dumps(o)[:80])
                continue
            if "cond" in checks and cond_expect in ({"T"}, {"F"}) and okind(o) == "panicErr" and not w.native:
                w.flag(i, "cond-errored", "the condition of PutItem is %s on the target item, yet the call failed with %s" % (sorted(cond_expect), json.dumps(o)[:60]))
            if k == "ok":
                if "cond" in checks and cond_expect is not None and "T" not in cond_expect:
                    w.flag(i, "cond-should-fail", "conditional PutItem succeeded although the condition is %s on the target item" % sorted(cond_expect), impl=o)
                t.items[key] = op["item"]
            elif "cond" in checks and cond_expect is not None and expected_err(o, "ConditionalCheckFailed") and "F" not in cond_expect:
                w.flag(i, "cond-should-pass", "conditional PutItem refused although the condition is %s on the target item" % sorted(cond_expect), impl=o)
            continue
        if name == "update":
            key = keytuple(t.schema, op.get("keyItem", []))
            cond_expect = cond_outcomes(w, op, t, key, "condTree")
            if key is None:
                if "keys" in checks and k != "err":
                    w.flag(i, "bad-key-accepted", "UpdateItem with a missing/ill-typed key returned " + json.dumps(o)[:80])
                continue
            if "cond" in checks and cond_expect in ({"T"}, {"F"}) and okind(o) == "panicErr" and not w.native:
                # an error of the update expression is returned, an error of the condition is the documented panic
                w.flag(i, "cond-errored", "the condition of UpdateItem is %s on the target item, yet evaluating it failed with %s" % (sorted(cond_expect), json.dumps(o)[:60]))
            if k == "item":
                if "native" in checks and w.native and (op["table"], norm_ws(hx(op.get("expr", "")))) not in w.updaters:
                    w.flag(i, "native-update-without-updater", "with the native interpreter active and no updater registered for this table and "
                           "expression, UpdateItem must fail as unsupported; it succeeded", impl=o)
                if "cond" in checks and cond_expect is not None and "T" not in cond_expect:
                    w.flag(i, "cond-should-fail", "conditional UpdateItem succeeded although the condition is %s" % sorted(cond_expect), impl=o)
                res = o["item"]
                if "map" in checks or "keys" in checks:
                    rk = keytuple(t.schema, res)
                    if rk != key:
                        w.flag(i, "update-changed-key", "the item returned by UpdateItem has key attributes %s, the request addressed %s" % (rk, key), impl=o)
                    if key not in t.items and "map" in checks:
                        for kn, kv in op["keyItem"]:
                            if item_get(res, kn) is MISSING:
                                w.flag(i, "upsert-lost-key-attr", "UpdateItem on an absent key did not create the item from the key attributes", impl=o)
                if sdk == "v2" and key in t.items:
                    # the v2 client hands an empty binary, list, map or set back as NULL (a listed finding about what is
                    # *returned*); what is stored keeps its value, and the next state is what is stored
                    res = restore_empties(t.items[key], res)
                t.items[key] = res
            elif "native" in checks and w.native and k == "err" and o.get("err") not in ("Unsupported", "ConditionalCheckFailed", "ResourceNotFound") \
                    and key is not None and (op["table"], norm_ws(hx(op.get("expr", "")))) not in w.updaters and not op.get("cond") \
                    and not w.failure and well_formed_placeholders(op) and not op.get("noExpr"):
                w.flag(i, "native-update-wrong-error", "with the native interpreter active and no updater registered, UpdateItem must fail with the unsupported-feature error; it failed with %s" % o.get("err"), impl=o)
            elif "native" in checks and w.native and k in ("err", "panicErr") and (o.get("err") or o.get("panicErr")) == "Unsupported" \
                    and (op["table"], norm_ws(hx(op.get("expr", "")))) in w.updaters:
                w.flag(i, "native-updater-not-dispatched", "an updater is registered for this table and expression and the native interpreter is "
                       "active, but UpdateItem failed as unsupported", impl=o)
            elif k == "err" and o["err"] == "ConditionalCheckFailed":
                if "cond" in checks and cond_expect is not None and "F" not in cond_expect:
                    w.flag(i, "cond-should-pass", "conditional UpdateItem refused although the condition is %s" % sorted(cond_expect), impl=o)
                if "cond" in checks and op.get("retOnFail") and sdk == "v2":
                    cur = t.items.get(key, [])
                    if not items_equal(o.get("item", []), out_norm(cur, sdk)):
                        w.flag(i, "cond-fail-item", "the failure does not carry the unchanged stored item", impl=o)
            continue
        if name == "delete":
            key = keytuple(t.schema, op.get("keyItem", []))
            cond_expect = cond_outcomes(w, op, t, key, "condTree")
            if key is None:
                if "keys" in checks and k != "err":
                    w.flag(i, "bad-key-accepted", "DeleteItem with a missing/ill-typed key returned " + json.dumps(o)[:80])
                continue
            if "cond" in checks and cond_expect in ({"T"}, {"F"}) and okind(o) == "panicErr" and not w.native:
                w.flag(i, "cond-errored", "the condition of DeleteItem is %s on the target item, yet evaluating it failed with %s" % (sorted(cond_expect), json.dumps(o)[:60]))
            if k == "item":
                if "cond" in checks and cond_expect is not None and "T" not in cond_expect:
                    w.flag(i, "cond-should-fail", "conditional DeleteItem succeeded although the condition is %s on the target item" % sorted(cond_expect), impl=o)
                if "map" in checks and op.get("retOld"):
                    cur = t.items.get(key, [])
                    if not items_equal(o["item"] or [], out_norm(cur, sdk)):
                        w.flag(i, "delete-old-item", "DeleteItem(ALL_OLD) returned %s, the stored item was %s" % (json.dumps(o["item"])[:120], json.dumps(cur)[:120]))
                t.items.pop(key, None)
            elif "cond" in checks and cond_expect is not None and expected_err(o, "ConditionalCheckFailed") and "F" not in cond_expect:
                w.flag(i, "cond-should-pass", "conditional DeleteItem refused although the condition is %s on the target item" % sorted(cond_expect), impl=o)
            continue
        if name == "get":
            key = keytuple(t.schema, op.get("keyItem", []))
            if key is None:
                if "keys" in checks and k != "err":
                    w.flag(i, "bad-key-accepted", "GetItem with a missing/ill-typed key returned " + json.dumps(o)[:80])
                continue
            if k == "item" and ("map" in checks or "roundtrip" in checks):
                cur = t.items.get(key, [])
                if not items_equal(o["item"] or [], out_norm(cur, sdk) if "roundtrip" not in checks else cur):
                    w.flag(i, "get-mismatch", "GetItem returned %s, the last successful write established %s" % (json.dumps(o["item"])[:160], json.dumps(cur)[:160]))
                if "keys" in checks and o["item"]:
                    if keytuple(t.schema, o["item"]) != key:
                        w.flag(i, "stored-key-differs", "the item retrievable under %s carries other key attributes" % (key,), impl=o)
            continue
        if name in ("query", "pages") and op.get("badKeyCond"):
            # a condition that is not a key condition: DynamoDB rejects the request; what a read that
            # accepts it returns is judged by no other check
            if "restrictions" in checks and k in ("search", "pages", "pagesErr"):
                w.flag(i, "key-condition-shape", "Query accepted a KeyConditionExpression that is not an equality on the partition key "
                       "optionally joined by one sort-key condition (%s)" % op["badKeyCond"], impl=o)
            continue
        if name == "query" and op.get("startKey") and ({"keys", "pages", "search"} & set(checks)):
            sk = op["startKey"]
            ok = keytuple(t.schema, sk) is not None
            if ok and op.get("index") and op["index"] in t.indexes:
                ok = keytuple(t.indexes[op["index"]]["schema"], sk) is not None
            if not ok and k == "search":
                w.flag(i, "bad-start-key-accepted", "an ExclusiveStartKey that lacks a key attribute of the table (or of the index read through) or gives "
                       "it another type was accepted", impl=json.dumps(o)[:120])
                continue
            if ok and k == "err" and o["err"] == "Validation" and not op.get("names") and not op.get("values") and \
                    (not op.get("index") or op["index"] in t.indexes):
                w.flag(i, "start-key-rejected", "a well-formed ExclusiveStartKey was rejected", impl=json.dumps(o)[:120])
                continue
        if name == "query":
            if k == "search":
                check_search(w, i, t, op, o, checks)
            elif k == "err" and "index" in checks and op.get("index") and op["index"] in t.indexes and op.get("scan") and not op.get("filter") \
                    and not op.get("names") and not op.get("values") and not op.get("startKey"):
                w.flag(i, "index-scan-error", "scan of an existing index failed: " + json.dumps(o)[:80])
            continue
        if name == "pages":
            if k == "pages":
                check_pages(w, i, t, op, o, checks)
            elif k == "pagesErr":
                pages = o["pagesErr"]["pages"]
                if pages and expected_err(o["pagesErr"].get("error") or {}, "Validation") and ({"pages", "search", "index"} & set(checks)) \
                        and not (op.get("garbageKey") or op.get("garbageFilter")) and well_formed_placeholders(op):
                    w.flag(i, "own-lek-rejected", "page %d was read and returned a LastEvaluatedKey; resuming from that very key was refused with a validation error" % len(pages))
                if op.get("delAfter") is not None and len(pages) > op["delAfter"] and pages[op["delAfter"]]["lek"]:
                    dk = keytuple(t.schema, pages[op["delAfter"]]["lek"])
                    if dk is not None:
                        t.items.pop(dk, None)
            continue
        if name == "batchWrite":
            if k == "batchWrite":
                unp = {tn: list(rs) for tn, rs in o["batchWrite"]}
                # what comes back as unprocessed is part of what was sent, table by table: the caller sends it again as it is
                sent = {}
                for tn, rs in op.get("wreqs", []):
                    for r in rs:
                        if "put" in r or "del" in r:
                            kind_ = "put" if "put" in r else "del"
                            sent.setdefault(tn, []).append(json.dumps({kind_: canon_json_item(r[kind_])}, sort_keys=True))
                for tn, rs in unp.items():
                    pool = list(sent.get(tn, []))
                    for r in rs:
                        rj = json.dumps(r, sort_keys=True)
                        if rj in pool:
                            pool.remove(rj)
                        elif {"batch", "observe", "failure", "map"} & set(checks):
                            w.flag(i, "batch-unprocessed-foreign", "UnprocessedItems lists for table %s a request the batch does not hold for that table (or holds fewer times): %s" % (h2s(tn), rj[:100]))
                            break
                for tn, rs in op.get("wreqs", []):
                    tt = w.tables.get(tn)
                    if tt is None:
                        continue
                    left = [json.dumps(r, sort_keys=True) for r in unp.get(tn, [])]
                    for r in rs:
                        rj = None
                        if "put" in r:
                            rj = json.dumps({"put": canon_json_item(r["put"])}, sort_keys=True)
                        elif "del" in r:
                            rj = json.dumps({"del": canon_json_item(r["del"])}, sort_keys=True)
                        if rj in left:
                            left.remove(rj)
                            continue
                        if "put" in r:
                            key = keytuple(tt.schema, r["put"])
                            if key is not None:
                                tt.items[key] = r["put"]
                        elif "del" in r:
                            key = keytuple(tt.schema, r["del"])
                            if key is not None:
                                tt.items.pop(key, None)
            elif k == "err":
                # the clients apply the requests one by one and stop at the first one that fails:
                # keep the spec state in step with what was applied and report the trace
                n_req = sum(len(r[1]) for r in op.get("wreqs", []))
                upfront = any(("both" in r or r.get("neither")) for tr in op.get("wreqs", []) for r in tr[1]) or n_req > 25
                applied = 0
                if not upfront and len(op.get("wreqs", [])) == 1:
                    tn, rs = op["wreqs"][0]
                    tt = w.tables.get(tn)
                    for r in rs:
                        if tt is None:
                            break
                        body = r.get("put") if "put" in r else r.get("del")
                        key = keytuple(tt.schema, body or [])
                        if key is None or ("put" in r and not index_keys_ok(tt, body)):
                            break
                        if "put" in r:
                            if canon_item(tt.items.get(key, [])) != canon_item(body):
                                applied += 1
                            tt.items[key] = body
                        else:
                            if key in tt.items:
                                applied += 1
                            tt.items.pop(key, None)
                if applied and ("observe" in checks or "batch" in checks):
                    w.flag(i, "batch-partial", "BatchWriteItem returned %s after applying %d of its requests" % (json.dumps(o)[:60], applied))
            if k == "err" and "restrictions" in checks:
                n_req = sum(len(r[1]) for r in op.get("wreqs", []))
                bad = any(("both" in r or r.get("neither")) for tr in op.get("wreqs", []) for r in tr[1]) or n_req > 25
                badkey = any(("put" in r and (w.tables.get(tr[0]) is None or keytuple(w.tables[tr[0]].schema, r["put"]) is None or
                                             ill_typed_index_key(w.tables[tr[0]], r["put"]))) or
                             ("del" in r and (w.tables.get(tr[0]) is None or keytuple(w.tables[tr[0]].schema, r["del"]) is None))
                             for tr in op.get("wreqs", []) for r in tr[1])
                if not bad and not badkey:
                    w.flag(i, "compliant-batch-rejected", "a BatchWriteItem that respects the batch rules was rejected: " + json.dumps(o)[:80])
            if "restrictions" in checks and k == "batchWrite":
                n_req = sum(len(r[1]) for r in op.get("wreqs", []))
                bad = any(("both" in r or r.get("neither")) for tr in op.get("wreqs", []) for r in tr[1]) or n_req > 25
                if bad:
                    w.flag(i, "batch-rule-not-detected", "a BatchWriteItem with %d requests / a malformed write request was accepted" % n_req)
            continue
        if name == "batchGet":
            if k == "batchGet" and ("keys" in checks or "batch" in checks):
                for tn, keys in op.get("greqs", []):
                    tt = w.tables.get(tn)
                    if tt is not None and any(keytuple(tt.schema, kk) is None for kk in keys):
                        w.flag(i, "batchget-bad-key-unprocessed", "BatchGetItem with a key that lacks a key attribute or gives it another type succeeded "
                               "(the key comes back among the unprocessed keys) instead of being rejected", impl=json.dumps(o)[:160])
                        break
            if k == "batchGet" and ("batch" in checks or "roundtrip" in checks):
                resp = dict((tn, its) for tn, its in o["batchGet"]["responses"])
                unp = dict((tn, ks) for tn, ks in o["batchGet"]["unprocessed"])
                for tn, keys in op.get("greqs", []):
                    tt = w.tables.get(tn)
                    if tt is None:
                        continue
                    want = []
                    for kk in keys:
                        key = keytuple(tt.schema, kk)
                        if key is not None and key in tt.items:
                            want.append(canon_item(out_norm(tt.items[key], sdk)))
                    got = [canon_item(x) for x in resp.get(tn, [])]
                    if sorted(map(repr, want)) != sorted(map(repr, got)):
                        w.flag(i, "batchget-responses", "BatchGetItem returned other items than the individual GetItem calls would", impl=o)
                    for kk in (unp.get(tn, []) if "batch" in checks else []):
                        key = keytuple(tt.schema, kk)
                        if key is not None and key not in tt.items:
                            w.flag(i, "batchget-absent-unprocessed", "a key with no stored item is reported in UnprocessedKeys", impl=json.dumps(o)[:200])
                            break
            continue
    return w.v


def index_keys_ok(t, item):
    """no index key attribute of the item has another type than the index declares"""
    for ix in t.indexes.values():
        for name, typ in ix["schema"]:
            v = item_get(item, name)
            if v is not MISSING and tag(v) != typ:
                return False
    return True


def canon_json_item(it):
    return sorted([[k, canon_json_av(v)] for k, v in it])


def canon_json_av(av):
    t = tag(av)
    if t == "M":
        return {t: canon_json_item(av[t])}
    if t == "L":
        return {t: [canon_json_av(x) for x in av[t]]}
    if t in ("SS", "NS", "BS"):
        return {t: sorted(av[t])}
    return av


def is_empty_av(av):
    t = tag(av)
    return (t in ("B",) and av[t] == "") or (t in ("L", "M", "SS", "NS", "BS") and len(av[t]) == 0)


def restore_av(old, new):
    if new == {"NULL": True} and is_empty_av(old):
        return old
    to, tn = tag(old), tag(new)
    if to == tn == "L" and len(old["L"]) == len(new["L"]):
        return {"L": [restore_av(a, b) for a, b in zip(old["L"], new["L"])]}
    if to == tn == "M":
        o = {k: v for k, v in old["M"]}
        return {"M": [[k, restore_av(o[k], v) if k in o else v] for k, v in new["M"]]}
    return new


def restore_empties(old_item, new_item):
    o = {k: v for k, v in old_item}
    return [[k, restore_av(o[k], v) if k in o else v] for k, v in new_item]


def out_norm(item, sdk):
    return item


def norm_ws(b):
    return b" ".join(x for x in b.replace(b"\t", b" ").replace(b"\n", b" ").replace(b"\r", b" ").split(b" ") if x)


NATIVE_TREES = {
    b"v = :x": {"k": "cmp", "op": "=", "l": {"k": "path", "root": "76", "steps": []}, "r": {"k": "val", "v": {"S": "31"}}},
    b"h = :x": {"k": "cmp", "op": "=", "l": {"k": "path", "root": "68", "steps": []}, "r": {"k": "val", "v": {"S": "31"}}},
    b"ab = :x": {"k": "cmp", "op": "=", "l": {"k": "path", "root": "6162", "steps": []}, "r": {"k": "val", "v": {"S": "31"}}},
    b"ba = :x": {"k": "cmp", "op": "=", "l": {"k": "path", "root": "6261", "steps": []}, "r": {"k": "val", "v": {"S": "31"}}},
    b"attribute_exists(v)": {"k": "fn", "fn": "attribute_exists", "args": [{"k": "path", "root": "76", "steps": []}]},
    b"h = :x AND v = :x": {"k": "and", "a": {"k": "cmp", "op": "=", "l": {"k": "path", "root": "68", "steps": []}, "r": {"k": "val", "v": {"S": "31"}}},
                          "b": {"k": "cmp", "op": "=", "l": {"k": "path", "root": "76", "steps": []}, "r": {"k": "val", "v": {"S": "31"}}}},
}


def known_nonsentence(raw):
    """one of the known native texts with a blank inside a word or between ':' and its name: another text, and no sentence"""
    if not raw or norm_ws(raw) in NATIVE_TREES:
        return False
    squeeze = lambda b: bytes(c for c in b if c not in b" \t\n\r")
    return any(squeeze(raw) == squeeze(k) for k in NATIVE_TREES)


def expr_predicate(w, op, table_hex, kind, text_field, tree_field):
    """how the specification evaluates this expression on an item: returns f(item)->set of outcomes, or None if unknown"""
    text = op.get(text_field)
    if text in (None, ""):
        return lambda it: {"T"}
    raw = hx(text)
    if w.native:
        key = (table_hex, kind, norm_ws(raw))
        if key in w.matchers:
            mid = str(w.matchers[key]).encode()
            return lambda it: {"T"} if (item_get(it, "76") is not MISSING and item_get(it, "76") == {"S": mid.hex()}) else {"F"}
    if op.get({"keyCond": "garbageKey", "filter": "garbageFilter", "cond": "garbageCond"}.get(text_field, "-")):
        return lambda it: {"E"}       # the generator took the text from its list of non-sentences
    tree = op.get(tree_field)
    if tree is None:
        tree = NATIVE_TREES.get(norm_ws(raw)) if w.native or norm_ws(raw) in NATIVE_TREES else None
    if tree is None:
        squeeze = lambda b: bytes(c for c in b if c not in b" \t\n\r")
        if any(squeeze(raw) == squeeze(k) for k in NATIVE_TREES):
            # one of the known texts with a blank inside a word or between ':' and its name: not that text, and no sentence
            return lambda it: {"E"}
        if b"|" in raw or b"\\" in raw:
            # a byte no token of the grammar contains: not a sentence, whatever surrounds it
            return lambda it: {"E"}
        return None
    return lambda it: evalc(tree, it)


def must_reject_search(w, t, op):
    """a read whose key condition or filter is not a sentence (and has no native registration) and that reaches
    at least one item cannot succeed"""
    if op.get("startKey"):
        return False
    sch, pool = search_schema(t, op)
    if sch is None or not pool:
        return False
    if op.get("limit") and op["limit"] < len(pool):
        return False      # the Limit counts every scanned item: the page may end before an item reaches the expression
    kp = expr_predicate(w, op, op["table"], "key", "keyCond", "keyTree") if not op.get("scan") else (lambda it: {"T"})
    fp = expr_predicate(w, op, op["table"], "filter", "filter", "filterTree")
    try:
        if kp is not None and any(kp(it) == {"E"} for it in pool):
            return True
        if fp is not None and kp is not None and any(kp(it) == {"T"} and fp(it) == {"E"} for it in pool):
            return True
    except Exception:
        return False
    return False


def cond_outcomes(w, op, t, key, tree_field):
    if op.get("cond") is None:
        return None
    pred = expr_predicate(w, op, op["table"], "cond", "cond", tree_field)
    if pred is None:
        return None
    cur = t.items.get(key, []) if key is not None else []
    try:
        return pred(cur)
    except Exception:
        return None


def check_describe(w, i, t, o):
    d = o["describe"]
    if d["count"] != len(t.items):
        w.flag(i, "describe-count", "DescribeTable reports %d items, the table holds %d" % (d["count"], len(t.items)))
    want = {n: ix for n, ix in t.indexes.items()}
    got = {x["name"]: x for x in d["gsi"] + d["lsi"]}
    if set(want) != set(got):
        w.flag(i, "describe-indexes", "DescribeTable reports the indexes %s, the table has %s" % (sorted(h2s(x) for x in got), sorted(h2s(x) for x in want)))
        return
    for n, ix in want.items():
        exp = len(t.index_items(n))
        if got[n]["count"] != exp:
            w.flag(i, "describe-index-count", "DescribeTable reports %d items for index %s, %d items have its key attributes" % (got[n]["count"], h2s(n), exp))
        sch = [[a, ("HASH" if j == 0 else "RANGE").encode().hex()] for j, (a, _) in enumerate(ix["schema"])]
        if got[n]["schema"] != sch:
            w.flag(i, "describe-index-schema", "DescribeTable reports another key schema for index %s" % h2s(n))


def search_schema(t, op):
    if op.get("index"):
        ix = t.indexes.get(op["index"])
        if ix is None:
            return None, None
        return ix["schema"], t.index_items(op["index"])
    return t.schema, list(t.items.values())


def expected_search(w, t, op):
    """ordered list of the items the read must return (None when not decidable here)"""
    sch, pool = search_schema(t, op)
    if sch is None:
        return None
    kp = expr_predicate(w, op, op["table"], "key", "keyCond", "keyTree") if not op.get("scan") else (lambda it: {"T"})
    fp = expr_predicate(w, op, op["table"], "filter", "filter", "filterTree")
    if kp is None or fp is None:
        return None
    res = []
    for it in pool:
        try:
            a, b = kp(it), fp(it)
        except Exception:
            return None
        if len(a) != 1 or len(b) != 1 or "E" in a or "E" in b:
            return None
        if a == {"T"} and b == {"T"}:
            res.append(it)
    return res


def sort_expected(t, op, items):
    """order of a Query: by the sort key value of the addressed schema (ties: primary key)"""
    sch, _ = search_schema(t, op)
    def keyf(it):
        ks = []
        if len(sch) > 1:
            ks.append(sort_value(item_get(it, sch[1][0])))
        return ks
    try:
        out = sorted(items, key=keyf)
    except TypeError:
        return None
    if not op.get("forward", True):
        out.reverse()
    return out


def same_multiset(a, b):
    return sorted(repr(canon_item(x)) for x in a) == sorted(repr(canon_item(x)) for x in b)


def check_search(w, i, t, op, o, checks):
    s = o["search"]
    if s["count"] != len(s["items"]):
        w.flag(i, "count", "Count %d differs from the number of returned items %d" % (s["count"], len(s["items"])))
    if ("native" in checks or "search" in checks or "frontend" in checks) and must_reject_search(w, t, op):
        w.flag(i, "malformed-expression-accepted", "the key condition or filter is not a sentence of the grammar and no native matcher is registered for this "
               "table, kind and text, yet the read succeeded", impl=o)
        return
    if "frontend" in checks and ((op.get("garbageKey") and not op.get("scan")) or op.get("garbageFilter")):
        # no stored item reaches the expression, so it was never parsed
        w.flag(i, "unevaluated-malformed-expression", "the key condition or filter is not a sentence of the grammar; no stored item reaches it (empty "
               "table, nothing selected by the key condition, everything before the start key) and the read succeeded without looking at it", impl=json.dumps(o)[:120])
        return
    if op.get("startKey"):
        return
    if op.get("limit"):
        # one page: at most Limit items, all of them selected by the request; and a page without
        # LastEvaluatedKey is the complete result
        if "search" in checks or "pages" in checks:
            if len(s["items"]) > op["limit"]:
                w.flag(i, "page-too-long", "a page holds %d items, Limit is %d" % (len(s["items"]), op["limit"]))
            exp = expected_search(w, t, op)
            if exp is not None:
                have = [repr(canon_item(x)) for x in exp]
                extra = [x for x in s["items"] if repr(canon_item(x)) not in have]
                if extra:
                    w.flag(i, "search-content", "a page returned an item the request does not select", got=[json.dumps(x)[:100] for x in extra[:3]])
                elif not s["lek"] and not same_multiset(exp, s["items"]):
                    w.flag(i, "incomplete-without-lek", "the response has no LastEvaluatedKey but returned %d of the %d items the request selects"
                           % (len(s["items"]), len(exp)), got=[json.dumps(x)[:100] for x in s["items"][:4]], want=[json.dumps(x)[:100] for x in exp[:4]])
        return
    is_index = bool(op.get("index"))
    want_check = ("search" in checks) or ("index" in checks and is_index and op.get("scan") and not op.get("filter")) or \
                 ("observe" in checks and op.get("scan") and not op.get("filter"))
    if not want_check:
        return
    exp = expected_search(w, t, op)
    if exp is None:
        return
    if not same_multiset(exp, [x for x in s["items"]]):
        sig = "index-content" if is_index else "search-content"
        w.flag(i, sig, "%s of %s returned %d items, the specification selects %d" % ("Scan" if op.get("scan") else "Query", "index " + h2s(op["index"]) if is_index else "the table", len(s["items"]), len(exp)),
               got=[json.dumps(x)[:100] for x in s["items"][:4]], want=[json.dumps(x)[:100] for x in exp[:4]])
        return
    if "search" in checks and not op.get("scan"):
        check_order(w, i, t, op, s["items"])


def check_order(w, i, t, op, items):
    sch, _ = search_schema(t, op)
    if len(sch) < 2:
        return
    vals, parts = [], []
    for it in items:
        v = item_get(it, sch[1][0])
        if v is MISSING:
            return
        vals.append(sort_value(v))
        hv = item_get(it, sch[0][0])
        # with number keys identified by their text (the deviation switch of KF-C13-number-keys-by-text) two spellings of one
        # partition key value are two partitions: the order is only defined within each
        parts.append(json.dumps(hv, sort_keys=True) if (TEXT_KEYS and hv is not MISSING) else None)
    fwd = op.get("forward", True)
    for (a, pa), (b, pb) in zip(zip(vals, parts), zip(vals[1:], parts[1:])):
        if pa != pb:
            continue
        try:
            bad = (a > b) if fwd else (a < b)
        except TypeError:
            return
        if bad:
            w.flag(i, "order", "Query results are not in %s sort-key order" % ("ascending" if fwd else "descending"), keys=[str(x)[:20] for x in vals[:8]],
                   sort_key_type=sch[1][1])
            return


def check_pages(w, i, t, op, o, checks):
    try:
        check_pages_(w, i, t, op, o, checks)
    finally:
        # the deletion of the boundary item is a state change whatever was found wrong with the pages
        pages = o["pages"]
        if op.get("delAfter") is not None and len(pages) > op["delAfter"] and pages[op["delAfter"]]["lek"]:
            dk = keytuple(t.schema, pages[op["delAfter"]]["lek"])
            if dk is not None:
                t.items.pop(dk, None)


def check_pages_(w, i, t, op, o, checks):
    if "pages" not in checks:
        # the deletion of the boundary item is a state change whatever is being checked
        pages = o["pages"]
        if op.get("delAfter") is not None and len(pages) > op["delAfter"] and pages[op["delAfter"]]["lek"]:
            dk = keytuple(t.schema, pages[op["delAfter"]]["lek"])
            if dk is not None:
                t.items.pop(dk, None)
        return
    pages = o["pages"]
    lim = op.get("limit", 0)
    if len(pages) >= op.get("maxPages", 40):
        w.flag(i, "pages-unbounded", "pagination did not finish within %d pages" % len(pages))
        return
    if pages and pages[-1]["lek"]:
        w.flag(i, "pages-unfinished", "the last page still carries a LastEvaluatedKey")
    for p in pages:
        if lim and len(p["items"]) > lim:
            w.flag(i, "page-too-long", "a page holds %d items, Limit is %d" % (len(p["items"]), lim))
            return
    got = [it for p in pages for it in p["items"]]
    seen = set()
    for it in got:
        # an item is identified by its primary key (the whole item when the key attributes were projected away)
        kt = keytuple(t.schema, it)
        r = repr(kt if kt is not None else canon_item(it))
        if r in seen:
            w.flag(i, "pages-duplicate", "an item is returned twice across pages")
            return
        seen.add(r)
    exp = expected_search(w, t, op)
    deleted = None
    if op.get("delAfter") is not None and len(pages) > op["delAfter"] and pages[op["delAfter"]]["lek"]:
        lek = pages[op["delAfter"]]["lek"]
        deleted = keytuple(t.schema, lek)
    if exp is None:
        if deleted is not None:
            t.items.pop(deleted, None)
        return
    if deleted is not None:
        # the boundary item was deleted between two pages: it was already returned (or filtered out)
        # before it vanished; every other selected item must still be returned
        gone = t.items.get(deleted)
        t.items.pop(deleted, None)
        if gone is not None:
            exp_rest = [x for x in exp if keytuple(t.schema, x) != deleted]
            got_rest = [x for x in got if keytuple(t.schema, x) != deleted]
            if not same_multiset(exp_rest, got_rest):
                w.flag(i, "pages-lost-after-delete", "after the boundary item was deleted the pages returned %d of the %d other selected items" % (len(got_rest), len(exp_rest)))
            return
    if not same_multiset(exp, got):
        w.flag(i, "pages-content", "the pages hold %d items, one unpaginated read selects %d" % (len(got), len(exp)))
        return
    if not op.get("scan"):
        check_order(w, i, t, op, got)


# ------------------------------------------------------------------ per property

CHECKS = {
    "C09": {"frontend", "crash"},
    "C01": {"map", "observe", "crash"},
    "C02": {"search", "pages", "observe", "crash"},
    "C03": {"index", "observe", "crash"},
    "C04": {"pages", "crash"},
    "C05": {"cond", "observe", "crash"},
    "C08": {"observe", "index", "map", "crash"},
    "C10": {"roundtrip", "map", "observe", "crash"},
    "C12": {"map", "search", "pages", "observe", "crash"},
    "C13": {"keys", "map", "observe", "crash"},
    "C15": {"failure", "observe", "map", "crash"},
    "C16": {"restrictions", "crash"},
    "C17": {"crash"},
    "C18": {"lifecycle", "index", "observe", "crash", "native", "search"},
    "C19": {"batch", "map", "observe", "crash"},
    "C20": {"search", "cond", "observe", "crash", "native"},
}


def judge_equiv(case):
    v = []
    a, b = case["impl"]["v1"], case["impl"]["v2"]
    for i, (x, y) in enumerate(zip(a, b)):
        if okind(x) == "na" or okind(y) == "na":
            v.append({"sdk": "v1", "step": i, "sig": "v1-no-batchget", "why": "the v1 client has no BatchGetItem", "op": case["ops"][i]["op"]})
            continue
        if x != y:
            v.append({"sdk": "v1/v2", "step": i, "sig": "sdk-differ:" + case["ops"][i]["op"], "why": "v1 answered %s, v2 answered %s" % (json.dumps(x)[:120], json.dumps(y)[:120]), "op": case["ops"][i]["op"]})
            break
    return v


def judge_restrictions_hist(case, sdk):
    """C16 on histories: placeholder rules at the client API"""
    v = []
    native = False
    for i, (op, o) in enumerate(zip(case["ops"], case["impl"][sdk])):
        if op["op"] == "activateNative":
            native = True
        if op["op"] not in ("put", "update", "delete", "query", "pages"):
            continue
        names = [hx(n[0]) for n in op.get("names") or []]
        values = [hx(kv[0]) for kv in op.get("values") or []]
        text = b" ".join(hx(op.get(f) or "") for f in ("expr", "cond", "keyCond", "filter"))
        toks = set(tokens(text))
        unused = [n for n in names + values if n not in toks]
        malformed = [n for n in names + values if not placeholder_ok(n)]
        k = okind(o)
        if (unused or malformed) and k not in ("err", "panicErr"):
            why = "unused placeholder %s accepted" % unused if unused else "malformed placeholder key %s accepted" % malformed
            v.append({"sdk": sdk, "step": i, "sig": "placeholder-unused" if unused else "placeholder-malformed", "why": why, "op": op["op"],
                      "prefix": any(any(u != t and t.startswith(u) for t in toks) for u in unused)})
        # a #name or :value the expressions use has to come with the request (expressions that are no sentences are another
        # matter, and so are the texts a native registration stands for)
        garbage = any(op.get(f) for f in ("garbageKey", "garbageFilter", "garbageCond", "garbageUpdate"))
        unsupplied = sorted(t for t in toks if t[:1] in (b"#", b":") and placeholder_ok(t) and t not in names + values)
        if unsupplied and not garbage and not native and not unused and not malformed and k not in ("err", "panicErr", "pagesErr"):
            returned = None
            if k == "search":
                returned = len(o["search"]["items"])
            elif k == "pages":
                returned = sum(len(pg["items"]) for pg in o["pages"])
            v.append({"sdk": sdk, "step": i, "sig": "placeholder-unsupplied", "op": op["op"], "unsupplied": [x.decode("latin1") for x in unsupplied], "returned": returned,
                      "why": "the expressions use %s, which the request does not supply; the request was accepted" % [x.decode("latin1") for x in unsupplied]})
    return v


def tokens(text):
    out, cur = [], b""
    for c in text:
        ch = bytes([c])
        if ch.isalnum() or ch in b"_:#":
            cur += ch
        else:
            if cur:
                out.append(cur)
            cur = b""
    if cur:
        out.append(cur)
    return out


def placeholder_ok(n):
    return len(n) >= 2 and n[:1] in (b"#", b":") and all(bytes([c]).isalnum() or c == 95 for c in n[1:]) and n[1:].isascii()


def judge(prop, case):
    kind = case["kind"]
    if kind == "hist":
        if prop == "C17":
            return judge_equiv(case)
        v = []
        checks = CHECKS.get(prop, {"crash"})
        for sdk in ("v1", "v2"):
            v += run_world(case, sdk, checks)
            if prop == "C16":
                v += judge_restrictions_hist(case, sdk)
        return v
    if kind == "match":
        if prop == "C05":
            # the conditions of C05 are the clients' business: the same condition decides a Scan, a PutItem and a DeleteItem
            # through each client exactly as the interpreter decides it (what the interpreter itself answers is C06's)
            return client_flags(case)
        return judge_match(prop, case) + client_flags(case)
    if kind == "update":
        return judge_update(prop, case) + client_flags(case)
    if kind == "decomp":
        return [dict(x, sig="decomp:" + x.get("where", "")) for x in case["impl"].get("violations", [])]
    if kind == "poke":
        return [dict(x, sig="alias:" + x.get("where", "")) for x in case["impl"].get("violations", [])]
    if kind == "race":
        return [dict(x, sig="race:" + x.get("what", "")) for x in case["impl"].get("violations", [])]
    return []


def well_formed_placeholders(op):
    """every supplied name and value is well-formed and used, every placeholder used is supplied"""
    names = [hx(n[0]) for n in op.get("names") or []]
    values = [hx(kv[0]) for kv in op.get("values") or []]
    text = b" ".join(hx(op.get(f) or "") for f in ("expr", "cond", "keyCond", "filter"))
    toks = set(tokens(text))
    if any(n not in toks or not placeholder_ok(n) for n in names + values):
        return False
    return not any(t[:1] in (b"#", b":") and t not in names + values for t in toks)


def client_flags(case):
    """the same expression through the two clients (harness/clients.go): they are held to the interpreter's own answer"""
    return [dict(x, sig="client:" + x.get("where", ""), why=x.get("what", "")) for x in (case.get("clients") or [])]


def impl_letter(o):
    k = okind(o)
    if k == "ok":
        return "T" if o["ok"] is True else ("F" if o["ok"] is False else "OK")
    if k == "err":
        return "E" if o["err"] in ("Syntax", "Validation") else "U"
    if k == "panicErr":
        return "E"
    return "CRASH"


def judge_match(prop, case):
    o = case["impl"]
    letter = impl_letter(o)
    if letter == "CRASH":
        return [{"sig": "crash", "why": "runtime fault: %s" % json.dumps(o)[:120]}]
    if case.get("garbage"):
        if letter != "E":
            return [{"sig": "garbage-accepted:" + case.get("garbageClass", ""), "why": "a string that is not a sentence of the grammar was accepted: %r -> %s" % (case.get("text"), json.dumps(o))}]
        return []
    if prop == "C16" and case.get("bareReserved") and "word" in case:
        # the reserved-word sweep: the texts come from templates, there is no tree to evaluate
        if letter != "E":
            return [{"sig": "reserved-accepted", "why": "a reserved word used as a bare attribute name was accepted: %r" % case.get("text")}]
        return []
    if prop == "C09" or "tree" not in case or case["tree"] is None:
        return []
    if case.get("bareReserved"):
        if letter != "E" and prop not in ("C12", "C10"):
            return [{"sig": "reserved-accepted", "why": "a reserved word used as a bare attribute name was accepted: %r" % case.get("text")}]
        return []
    if prop == "C16":
        return []
    try:
        allowed = evalc(case["tree"], case["item"])
    except Exception as e:
        return []
    if letter not in allowed:
        if prop in ("C12", "C10"):
            # only outcomes that the deviations unrelated to numbers do not explain are C12's (and C10's) business
            try:
                other = evalc(case["tree"], case["item"], spec.Opts(root_scalar_err=True, path_operand_err=True, contains_subset=True))
            except Exception:
                other = allowed
            if letter in other or not mentions_number(case):
                return []
        return [{"sig": "truth-value", "why": "%r evaluates to %s, DynamoDB semantics allow %s" % (case.get("text"), letter, sorted(allowed))}]
    return []


def has_number(av):
    t = tag(av)
    if t in ("N", "NS"):
        return True
    if t == "L":
        return any(has_number(e) for e in av["L"])
    if t == "M":
        return any(has_number(e) for _, e in av["M"])
    return False


def mentions_number(case):
    return any(has_number(v) for _, v in list(case.get("item") or []) + list(case.get("values") or []))


def judge_update(prop, case):
    o = case["impl"]
    k = okind(o)
    if k == "crash":
        return [{"sig": "crash", "why": "runtime fault: %s" % json.dumps(o)[:120]}]
    if case.get("garbage"):
        if k == "ok":
            return [{"sig": "garbage-accepted:" + case.get("garbageClass", ""), "why": "a string that is not a sentence of the update grammar was accepted: %r" % case.get("text")}]
        return []
    if prop in ("C09", "C16") or not case.get("tree"):
        if prop == "C16" and case.get("bareReserved") and k == "ok":
            return [{"sig": "reserved-accepted", "why": "a reserved word used as a bare attribute name was accepted: %r" % case.get("text")}]
        return []
    if case.get("bareReserved"):
        if k == "ok" and prop != "C12":
            return [{"sig": "reserved-accepted", "why": "a reserved word used as a bare attribute name was accepted: %r" % case.get("text")}]
        return []
    try:
        want = spec.apply_update(case["tree"], case["item"])
    except spec.Reject:
        # an update DynamoDB rejects as ill-typed is outside the property's quantifier
        # (well-formed updates): whatever the implementation does with it is not judged here
        return []
    except Exception:
        return []
    if k != "ok":
        if prop == "C12":
            return []       # a rejection is not about the value of a number
        return [{"sig": "update-rejected", "why": "%r was rejected (%s) although it is a valid update of the item" % (case.get("text"), json.dumps(o))}]
    if canon_item(want) != canon_item(o["ok"]):
        diff = [h2s(a) for a in sorted(set(x[0] for x in want) | set(x[0] for x in o["ok"]))
                if repr(canon(item_get(want, a)) if item_get(want, a) is not MISSING else None) != repr(canon(item_get(o["ok"], a)) if item_get(o["ok"], a) is not MISSING else None)]
        if prop == "C12":
            numeric = [a for a in sorted(set(x[0] for x in want) | set(x[0] for x in o["ok"]))
                       if (item_get(want, a) is not MISSING and has_number(item_get(want, a))) or (item_get(o["ok"], a) is not MISSING and has_number(item_get(o["ok"], a)))]
            if not any(h2s(a) in diff for a in numeric):
                return []
        return [{"sig": "update-result", "why": "%r produced another item than DynamoDB semantics define; attributes that differ: %s" % (case.get("text"), diff), "differ": diff}]
    return []


# ------------------------------------------------------------------ known findings

def classify(prop, case, v, findings):
    """id of the listed finding that explains this rejected outcome, or None"""
    import kfrules
    for f in findings:
        if f.get("status") != "open":
            continue
        rule = kfrules.RULES.get(f["id"])
        if rule is None:
            continue
        try:
            if rule(prop, case, v):
                return f["id"]
        except Exception:
            continue
    return None


def witness_manifests(f, verif, rerun):
    """re-run the finding's witness on the implementation: does it still fail the way the file says?"""
    wpath = f.get("witness")
    if not wpath:
        return None
    p = os.path.join(verif, wpath)
    if not os.path.exists(p):
        return None
    try:
        case = json.loads(open(p).readline())
    except ValueError:
        return None
    c, _ = rerun(case, "kf")
    if c is None:
        return None
    props = [f["property"]] + f.get("also", [])
    import kfrules
    rule = kfrules.RULES.get(f["id"])
    for pr in props:
        for v in judge(pr, c):
            if rule is None or rule(pr, c, v):
                return True
    return False
