"""Executable reading of the property statements (DynamoDB semantics) used as the oracle
that judges *implementation* outcomes (DESIGN §4).  It works on the structured trees the
harness generates (never on expression strings), with exact decimal arithmetic, and is
relation-valued: `evalc` returns the SET of outcomes the properties allow
('T', 'F', 'E' = rejected with a syntax/validation error).
"""
from fractions import Fraction
from decimal import Decimal

MISSING = None


def hx(s):
    return bytes.fromhex(s)


def tag(av):
    return next(iter(av))


def num(text_hex):
    return Fraction(Decimal(hx(text_hex).decode()))


def item_get(item, name_hex):
    for k, v in item:
        if k == name_hex:
            return v
    return MISSING


def resolve(item, operand):
    """value of a path in an item (None when the path leaves the document)"""
    v = item_get(item, operand["root"])
    for st in operand.get("steps", []):
        if v is MISSING:
            return MISSING
        if "idx" in st:
            if tag(v) != "L" or st["idx"] >= len(v["L"]):
                return MISSING
            v = v["L"][st["idx"]]
        else:
            if tag(v) != "M":
                return MISSING
            v = item_get(v["M"], st["key"])
    return v


def canon(av, floats=False):
    """structural identity: numbers by value, sets as sets, maps unordered"""
    t = tag(av)
    x = av[t]
    if t == "N":
        q = num(x)
        return ("N", float(q) if floats else q)
    if t in ("S", "B"):
        return (t, x)
    if t == "BOOL":
        return (t, bool(x))
    if t == "NULL":
        return (t,)
    if t == "L":
        return (t, tuple(canon(e, floats) for e in x))
    if t == "M":
        return (t, tuple(sorted((k, canon(v, floats)) for k, v in x)))
    if t == "NS":
        return (t, tuple(sorted(set((float(num(e)) if floats else num(e)) for e in x))))
    if t in ("SS", "BS"):
        return (t, tuple(sorted(set(x))))
    return (t, repr(x))


def canon_item(item, floats=False):
    return tuple(sorted((k, canon(v, floats)) for k, v in item))


ORDERABLE = ("N", "S", "B")


def order_key(av, floats=False):
    t = tag(av)
    if t == "N":
        q = num(av[t])
        return float(q) if floats else q
    return hx(av[t])


class Opts:
    """deviation switches: with all of them off this is the specification; a known finding is
    recognised by turning its switch on and seeing the implementation's outcome become allowed"""
    def __init__(self, floats=False, root_scalar_err=False, path_operand_err=False, contains_subset=False, size_missing_err=False):
        self.size_missing_err = size_missing_err
        self.floats = floats
        self.root_scalar_err = root_scalar_err
        self.path_operand_err = path_operand_err
        self.contains_subset = contains_subset


OPTS = Opts()


def operand_value(item, o, opts=None):
    """('val', av, is_constant) | ('missing',) | ('size', n | None) | ('error',)"""
    k = o["k"]
    if k == "val":
        return ("val", o["v"], True)  # constant
    if opts is not None and opts.root_scalar_err and o.get("steps"):
        root = item_get(item, o["root"])
        if root is not MISSING and tag(root) not in ("L", "M"):
            return ("error",)
    v = resolve(item, o)
    if k == "size":
        if v is MISSING:
            return ("size", None, "missing")
        t = tag(v)
        if t in ("S", "B"):
            return ("size", len(hx(v[t])))
        if t in ("SS", "NS", "BS", "L", "M"):
            return ("size", len(v[t]))
        return ("size", None)
    if v is MISSING:
        return ("missing",)
    return ("val", v, False)


def cmp_outcomes(op, l, r, opts):
    if l[0] == "error" or r[0] == "error":
        return {"E"}
    # size() yields a number
    def as_val(x):
        if x[0] == "size":
            if x[1] is None:
                return None
            return ("val", {"N": str(x[1]).encode().hex()}, False)
        return x
    sizeundef = (l[0] == "size" and l[1] is None) or (r[0] == "size" and r[1] is None)
    if sizeundef:
        wrong_type = any(x[0] == "size" and x[1] is None and len(x) == 2 for x in (l, r))
        if wrong_type:
            return {"F", "E"}      # size of a number, a boolean or NULL: the property does not say
        # size of an attribute the item does not have: an operand without a value, the comparison is false
        return {"E"} if (opts is not None and opts.size_missing_err) else {"F"}
    l, r = as_val(l), as_val(r)
    lm, rm = l[0] == "missing", r[0] == "missing"
    if op in ("=", "<>"):
        if lm or rm:
            return {"F"} if op == "=" else {"T"}
        eq = canon(l[1], opts.floats) == canon(r[1], opts.floats)
        return {"T"} if (eq == (op == "=")) else {"F"}
    # ordering
    # an operand of a type that has no order: DynamoDB answers false for an attribute of the wrong
    # type and rejects a constant of the wrong type; the property does not separate the two
    const_bad = any((not x[0] == "missing") and tag(x[1]) not in ORDERABLE for x in (l, r))
    if lm or rm:
        return {"F", "E"} if const_bad else {"F"}
    tl, tr = tag(l[1]), tag(r[1])
    if tl != tr or tl not in ORDERABLE:
        return {"F", "E"}
    a, b = order_key(l[1], opts.floats), order_key(r[1], opts.floats)
    res = {"<": a < b, "<=": a <= b, ">": a > b, ">=": a >= b}[op]
    return {"T"} if res else {"F"}


def both(a, b, f):
    out = set()
    for x in a - {"E"}:
        for y in b - {"E"}:
            out.add("T" if f(x == "T", y == "T") else "F")
    if "E" in a or "E" in b:
        out.add("E")
    return out


def evalc(tree, item, opts=None):
    opts = opts or Opts()
    k = tree["k"]
    if k == "cmp":
        return cmp_outcomes(tree["op"], operand_value(item, tree["l"], opts), operand_value(item, tree["r"], opts), opts)
    if k == "between":
        if opts.path_operand_err and any(tree[n]["k"] != "val" and tree[n].get("steps") for n in ("r", "x")):
            return {"E"}
        x, lo, hi = (operand_value(item, tree[n], opts) for n in ("l", "r", "x"))
        return both(cmp_outcomes("<=", lo, x, opts), cmp_outcomes("<=", x, hi, opts), lambda p, q: p and q)
    if k == "in":
        if opts.path_operand_err and any(o["k"] != "val" and o.get("steps") for o in tree["ins"]):
            return {"E"}
        l = operand_value(item, tree["l"], opts)
        if l[0] == "error" or any(operand_value(item, o, opts)[0] == "error" for o in tree["ins"]):
            return {"E"}
        if l[0] == "missing":
            return {"F"}
        hit = False
        for o in tree["ins"]:
            r = operand_value(item, o, opts)
            if r[0] == "val" and l[0] == "val" and canon(l[1], opts.floats) == canon(r[1], opts.floats):
                hit = True
        return {"T"} if hit else {"F"}
    if k == "not":
        a = evalc(tree["a"], item, opts)
        return {{"T": "F", "F": "T", "E": "E"}[x] for x in a}
    if k == "and":
        return both(evalc(tree["a"], item, opts), evalc(tree["b"], item, opts), lambda p, q: p and q)
    if k == "or":
        return both(evalc(tree["a"], item, opts), evalc(tree["b"], item, opts), lambda p, q: p or q)
    if k == "fn":
        fn, args = tree["fn"], tree["args"]
        p = operand_value(item, args[0], opts)
        if p[0] == "error" or (len(args) > 1 and operand_value(item, args[1], opts)[0] == "error"):
            return {"E"}
        if fn == "attribute_exists":
            return {"T"} if p[0] == "val" else {"F"}
        if fn == "attribute_not_exists":
            return {"F"} if p[0] == "val" else {"T"}
        x = operand_value(item, args[1], opts)
        if fn == "attribute_type":
            if x[0] != "val" or tag(x[1]) != "S" or hx(x[1]["S"]).decode("latin1") not in ("S", "N", "B", "BOOL", "NULL", "L", "M", "SS", "NS", "BS"):
                return {"E"}
            if p[0] != "val":
                return {"F"}
            return {"T"} if tag(p[1]) == hx(x[1]["S"]).decode("latin1") else {"F"}
        if fn == "begins_with":
            if x[0] != "val" or tag(x[1]) not in ("S", "B"):
                return {"E", "F"}
            if p[0] == "missing":
                return {"F"}          # an attribute the item does not have begins with nothing: false, not an error
            if p[0] != "val":
                return {"F", "E"}
            if tag(p[1]) != tag(x[1]) or tag(p[1]) not in ("S", "B"):
                return {"F", "E"}
            return {"T"} if hx(p[1][tag(p[1])]).startswith(hx(x[1][tag(x[1])])) else {"F"}
        if fn == "contains":
            if p[0] == "missing" and x[0] == "val":
                return {"F"}          # ... and contains nothing
            if p[0] != "val" or x[0] != "val":
                return {"F", "E"}
            tp, tx = tag(p[1]), tag(x[1])
            if tp in ("S", "B") and tx == tp:
                return {"T"} if hx(x[1][tx]) in hx(p[1][tp]) else {"F"}
            if opts.contains_subset and tp in ("SS", "NS", "BS") and tx == tp:
                members = canon(p[1], opts.floats)[1]
                return {"T"} if all(e in members for e in canon(x[1], opts.floats)[1]) else {"F"}
            if tp in ("SS", "NS", "BS") and tx == tp[0]:
                members = canon(p[1], opts.floats)[1]
                e = canon(x[1], opts.floats)[1]
                return {"T"} if e in members else {"F"}
            if tp == "L":
                return {"T"} if any(canon(e, opts.floats) == canon(x[1], opts.floats) for e in p[1]["L"]) else {"F"}
            return {"F", "E"}
    raise ValueError("unknown tree node " + k)


def features(tree, item):
    """syntactic/semantic features of a condition used to attribute a deviation to a known finding"""
    f = set()

    def vis_operand(o, role):
        if o["k"] in ("path", "size"):
            v = resolve(item, o)
            if role in ("in-left", "in", "between", "between-left") and o.get("steps"):
                f.add("path-operand")
            if role in ("in", "between") and o["k"] == "path":
                pass
            if o["k"] == "size":
                if v is not MISSING and tag(v) in ("SS", "NS", "BS", "L", "M"):
                    f.add("size-collection")
                if v is MISSING or (v is not MISSING and tag(v) not in ("S", "B", "SS", "NS", "BS", "L", "M")):
                    f.add("size-undefined")
            if v is not MISSING:
                scan_value(v)
        else:
            scan_value(o["v"])

    def scan_value(v):
        t = tag(v)
        if t == "N":
            q = num(v[t])
            if Fraction(float(q)) != q:
                f.add("inexact-number")
        elif t == "NS":
            for e in v[t]:
                q = num(e)
                if Fraction(float(q)) != q:
                    f.add("inexact-number")
        elif t == "B" and v[t] == "":
            f.add("empty-binary")
        elif t == "BS":
            f.add("binary-set")
        elif t == "L":
            for e in v[t]:
                scan_value(e)
        elif t == "M":
            for _, e in v[t]:
                scan_value(e)

    def vis(t):
        k = t["k"]
        if k == "cmp":
            vis_operand(t["l"], "cmp"); vis_operand(t["r"], "cmp")
        elif k == "between":
            vis_operand(t["l"], "between-left"); vis_operand(t["r"], "between"); vis_operand(t["x"], "between")
            for o in (t["r"], t["x"]):
                if o["k"] == "path" and o.get("steps"):
                    f.add("path-operand")
        elif k == "in":
            vis_operand(t["l"], "in-left")
            for o in t["ins"]:
                vis_operand(o, "in")
        elif k == "fn":
            for o in t["args"]:
                vis_operand(o, "fn")
        else:
            vis(t["a"])
            if "b" in t:
                vis(t["b"])
    vis(tree)
    for _, v in item:
        scan_value(v)
    return f


# ---------------------------------------------------------------- update expressions

class Reject(Exception):
    pass


def set_path(item, operand, value):
    """write value at the document path; a missing parent rejects"""
    root = operand["root"]
    steps = operand.get("steps", [])
    if not steps:
        return [kv for kv in item if kv[0] != root] + [[root, value]]
    cur = item_get(item, root)
    if cur is MISSING:
        raise Reject("missing parent")
    return [kv for kv in item if kv[0] != root] + [[root, set_in(cur, steps, value)]]


def set_in(cur, steps, value):
    st = steps[0]
    t = tag(cur)
    if "idx" in st:
        if t != "L":
            raise Reject("not a list")
        l = list(cur["L"])
        if len(steps) == 1:
            if st["idx"] < len(l):
                l[st["idx"]] = value
            else:
                l.append(value)
            return {"L": l}
        if st["idx"] >= len(l):
            raise Reject("missing parent")
        l[st["idx"]] = set_in(l[st["idx"]], steps[1:], value)
        return {"L": l}
    if t != "M":
        raise Reject("not a map")
    m = [list(kv) for kv in cur["M"]]
    if len(steps) == 1:
        m = [kv for kv in m if kv[0] != st["key"]] + [[st["key"], value]]
        return {"M": m}
    sub = item_get(m, st["key"])
    if sub is MISSING:
        raise Reject("missing parent")
    m = [kv for kv in m if kv[0] != st["key"]] + [[st["key"], set_in(sub, steps[1:], value)]]
    return {"M": m}


def remove_paths(item, operands):
    """REMOVE: all paths refer to the item before the update; removing something absent is a no-op"""
    # group by root
    out = []
    for k, v in item:
        targets = [o.get("steps", []) for o in operands if o["root"] == k]
        if [] in targets:
            continue
        if targets:
            v = remove_in(v, targets)
        out.append([k, v])
    return out


def remove_in(v, targets):
    t = tag(v)
    heads = {}
    for st in targets:
        key = ("i", st[0]["idx"]) if "idx" in st[0] else ("k", st[0]["key"])
        heads.setdefault(key, []).append(st[1:])
    if (t == "L" and any(k[0] == "k" for k in heads)) or (t == "M" and any(k[0] == "i" for k in heads)):
        raise Reject("accessor of the wrong kind in a REMOVE path")
    if t not in ("L", "M"):
        raise Reject("REMOVE path into a scalar")
    if t == "L":
        out = []
        for i, e in enumerate(v["L"]):
            rest = heads.get(("i", i))
            if rest is not None:
                if [] in rest:
                    continue
                e = remove_in(e, rest)
            out.append(e)
        return {"L": out}
    if t == "M":
        out = []
        for k, e in v["M"]:
            rest = heads.get(("k", k))
            if rest is not None:
                if [] in rest:
                    continue
                e = remove_in(e, rest)
            out.append([k, e])
        return {"M": out}
    return v


def numtext(q):
    """canonical numeral text of an exact rational with a finite decimal expansion"""
    if q == int(q):
        return str(int(q))
    d = Decimal(q.numerator) / Decimal(q.denominator)
    s = format(d, "f")
    if "." in s:
        s = s.rstrip("0").rstrip(".")
    return s


def floattext(x):
    """strconv.FormatFloat(x, 'f', -1, 64): the shortest digits that parse back to x, without exponent"""
    if x == 0:
        return "-0" if str(x).startswith("-") else "0"
    s = format(Decimal(repr(x)), "f")
    if "." in s:
        s = s.rstrip("0").rstrip(".")
    return s


FLOATS = False   # evaluate arithmetic as IEEE-754 doubles (the deviation of KF-C12-float-arithmetic)


def arith(a_hex, b_hex, plus):
    if FLOATS:
        x, y = float(num(a_hex)), float(num(b_hex))
        return floattext(x + y if plus else x - y).encode().hex()
    q = num(a_hex) + num(b_hex) if plus else num(a_hex) - num(b_hex)
    return numtext(q).encode().hex()


def apply_update_floats(actions, item):
    """the same update computed in binary64, as the code under test computes it"""
    global FLOATS
    FLOATS = True
    try:
        return apply_update(actions, item)
    finally:
        FLOATS = False


def eval_uval(v, item):
    k = v["k"]
    if k == "operand":
        o = v["o"]
        if o["k"] == "val":
            return o["v"]
        r = resolve(item, o)
        if r is MISSING:
            raise Reject("operand path missing")
        return r
    if k in ("plus", "minus"):
        a, b = eval_uval(v["a"], item), eval_uval(v["b"], item)
        if tag(a) != "N" or tag(b) != "N":
            raise Reject("arithmetic on non-numbers")
        return {"N": arith(a["N"], b["N"], k == "plus")}
    if k == "if_not_exists":
        r = resolve(item, v["p"])
        dflt = eval_uval(v["a"], item)   # an operand that cannot be evaluated rejects the update either way
        return r if r is not MISSING else dflt
    if k == "list_append":
        a, b = eval_uval(v["a"], item), eval_uval(v["b"], item)
        if tag(a) != "L" or tag(b) != "L":
            raise Reject("list_append on non-lists")
        return {"L": list(a["L"]) + list(b["L"])}
    raise ValueError(k)


def apply_update(actions, item):
    """the item DynamoDB semantics define, or Reject"""
    # all right-hand sides read the pre-update item
    sets = [(a["target"], eval_uval(a["val"], item)) for a in actions if a["k"] == "set"]
    out = [list(kv) for kv in item]
    for tgt, val in sets:
        if tgt.get("steps"):
            parent = dict(tgt)
            parent["steps"] = tgt["steps"][:-1]
            if resolve(item, parent) is MISSING:
                raise Reject("missing parent")
        out = set_path(out, tgt, val)
    rem = [a["target"] for a in actions if a["k"] == "remove"]
    # REMOVE paths were computed against the pre-update item; apply to what SET produced only where untouched
    out = remove_paths(out, rem)
    for a in actions:
        if a["k"] == "add":
            cur = item_get(item, a["target"]["root"])
            arg = a["arg"]["v"]
            ta = tag(arg)
            if a["target"].get("steps"):
                raise Reject("ADD on a nested path")
            if ta not in ("N", "SS", "NS", "BS"):
                raise Reject("ADD operand type")
            if cur is MISSING:
                new = arg
            elif tag(cur) != ta:
                raise Reject("ADD type mismatch")
            elif ta == "N":
                new = {"N": arith(cur["N"], arg["N"], True)}
            else:
                new = {ta: list(cur[ta]) + [e for e in arg[ta] if canon({ta[0]: e}, FLOATS) not in [canon({ta[0]: c}, FLOATS) for c in cur[ta]]]}
            out = [kv for kv in out if kv[0] != a["target"]["root"]] + [[a["target"]["root"], new]]
        elif a["k"] == "delete":
            cur = item_get(item, a["target"]["root"])
            arg = a["arg"]["v"]
            ta = tag(arg)
            if a["target"].get("steps"):
                raise Reject("DELETE on a nested path")
            if ta not in ("SS", "NS", "BS"):
                raise Reject("DELETE operand type")
            if cur is MISSING:
                continue
            if tag(cur) != ta:
                raise Reject("DELETE type mismatch")
            gone = [canon({ta[0]: e}, FLOATS) for e in arg[ta]]
            left = [c for c in cur[ta] if canon({ta[0]: c}, FLOATS) not in gone]
            out = [kv for kv in out if kv[0] != a["target"]["root"]]
            if left:
                out.append([a["target"]["root"], {ta: left}])
    return out
