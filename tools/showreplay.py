#!/usr/bin/env python3
import json,sys
def h(x):
    try: return bytes.fromhex(x).decode('latin1')
    except Exception: return x
d=json.load(open(sys.argv[1]))
print("WHY", json.dumps(d.get('why'))[:700])
c=d['case']
sdk=d['why'].get('sdk','v2') if isinstance(d.get('why'),dict) else 'v2'
if sdk not in ('v1','v2'): sdk='v2'
if c['kind']=='hist':
    for i,(op,o) in enumerate(zip(c['ops'],c['impl'][sdk])):
        print(i, op['op'], {k:(h(v) if isinstance(v,str) and k in('table','expr','cond','keyCond','filter','index') else v) for k,v in op.items() if k not in ('op','names','values','condTree','keyTree','filterTree') and v not in (None,[],'',False)})
        print('     ->', json.dumps(o)[:int(sys.argv[2]) if len(sys.argv)>2 else 300])
else:
    print(c.get('text'), json.dumps(c.get('item'))[:500]); print(json.dumps(c.get('values'))[:300], c.get('names')); print('impl', json.dumps(c['impl'])[:500])
