#!/usr/bin/env python3
"""Rewrite the per-property claim texts of MANIFEST.json from the strength table of docsrc/part1.md (§I.3),
so that the manifest and the design document cannot drift apart.  Nothing else of the manifest is touched."""
import json, re

VERIF = "/verif"
rows = {}
for line in open(VERIF + "/docsrc/part1.md"):
    m = re.match(r"\| (C\d\d) \| (.*) \| (.*) \| (.*) \|\s*$", line)
    if m:
        rows[m.group(1)] = [x.strip().replace("**", "").replace("`", "") for x in m.groups()[1:]]
man = json.load(open(VERIF + "/MANIFEST.json"))
for c in man["checks"]:
    pid = c["property_id"]
    if pid not in rows:
        continue
    general, tied, fams = rows[pid]
    text = "General theorems (Lean 4, kernel-checked, audited per theorem on every run): %s. " % general
    if tied and tied != "—":
        text += "Tied or witness facts: %s. " % tied
    text += ("Correspondence and violation search on case families: %s. The model is tied to /repo by the regenerating translator "
             "tools/gofacts and by running the model's executable definitions and the real Go code on the same generated cases; "
             "implementation outcomes are also judged against the property to find failing inputs (DESIGN.md §I.2, §I.3)." % fams)
    c["level_claimed"]["text"] = text
json.dump(man, open(VERIF + "/MANIFEST.json", "w"), indent=1, ensure_ascii=False)
print("rewrote", len(rows), "claims")
