#!/usr/bin/env python3
"""history correspondence diff"""
import json, sys, collections
cases = [json.loads(l) for l in open(sys.argv[1])]
outs = {}
for l in open(sys.argv[2]):
    o = json.loads(l); outs[o.get("id")] = o
lim = int(sys.argv[3]) if len(sys.argv) > 3 else 5
bad = 0; nops = 0
kinds = collections.Counter()
def h(x):
    try: return bytes.fromhex(x).decode('latin1')
    except Exception: return x
for c in cases:
    o = outs.get(c["id"])
    if o is None or "driverError" in o:
        print("DRIVER", c["id"], o); bad += 1; continue
    for sdk in ("v1", "v2"):
        for i, (op, a, b) in enumerate(zip(c["ops"], c["impl"][sdk], o["model"][sdk])):
            nops += 1
            kinds[op["op"] + ":" + next(iter(a))] += 1
            if a != b:
                bad += 1
                if bad <= lim:
                    print("DIFF case", c["id"], sdk, "op#", i, op["op"])
                    print("   op   ", {k: (h(v) if isinstance(v, str) and k not in ("op","f","kind") else v) for k, v in op.items() if v not in (None, [], "", False, 0)})
                    print("   impl ", json.dumps(a)[:600])
                    print("   model", json.dumps(b)[:600])
                break
        else:
            continue
        break
print("cases", len(cases), "ops", nops, "bad cases", bad)
print(sorted(kinds.items()))
