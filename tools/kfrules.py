"""Classifiers of known_findings.json: decide whether a spec-rejected implementation outcome
is explained by a listed finding.  One rule per mechanism (not per property), so a different
violation of the same property is still reported.  `v` is the judge's verdict dict."""
import json
import spec
from spec import hx, tag, item_get, MISSING, canon
from fractions import Fraction

RULES = {}


def rule(fid):
    def deco(f):
        RULES[fid] = f
        return f
    return deco


def key_attrs(case, table_hex):
    for op in case["ops"]:
        if op["op"] == "createTable" and op["table"] == table_hex:
            k = op["key"]
            return [k["hash"][0]] + ([k["range"][0]] if k.get("range") else [])
    return []


def update_targets(op):
    """the targets of the actions of an update expression as (root name, has steps), aliases resolved;
    None when the text cannot be split (then nothing is claimed about it)"""
    try:
        text = hx(op.get("expr") or "").decode("latin1")
    except Exception:
        return None
    names = {hx(a).decode("latin1"): hx(b).decode("latin1") for a, b in (op.get("names") or [])}
    out, depth, cur, clause, acts = [], 0, "", None, []
    toks, i = [], 0
    # split into (clause keyword, action text) at depth 0
    word = ""
    parts = []
    for ch in text + " ":
        if ch in "([":
            depth += 1
        elif ch in ")]":
            depth -= 1
        if depth == 0 and (ch.isspace() or ch == ","):
            if word in ("SET", "REMOVE", "ADD", "DELETE"):
                if clause is not None:
                    parts.append((clause, cur))
                clause, cur, word = word, "", ""
                continue
            if ch == "," and clause is not None:
                parts.append((clause, cur + word))
                cur, word = "", ""
                continue
            cur += word + ch
            word = ""
        else:
            word += ch
    if clause is not None:
        parts.append((clause, cur))
    for clause, act in parts:
        act = act.strip()
        if not act:
            continue
        tgt = act.split("=")[0].strip() if clause == "SET" else act.split()[0]
        root = tgt
        for sep in ".[":
            root = root.split(sep)[0]
        root = root.strip()
        out.append((names.get(root, root), tgt.strip() != root))
    return out


def targets_key_attr(case, op):
    ts = update_targets(op)
    if ts is None:
        return False
    keys = [hx(k).decode("latin1") for k in key_attrs(case, op["table"])]
    return any(root in keys and not steps for root, steps in ts)


def key_changing_update_before(case, sdk, step, table_hex=None):
    """a successful UpdateItem before `step` whose expression targets a key attribute returned an item whose key
    attributes differ from the request's key"""
    outs = case["impl"][sdk if sdk in ("v1", "v2") else "v2"]
    for i, (op, o) in enumerate(zip(case["ops"], outs)):
        if i > step:
            break
        if op["op"] != "update" or "item" not in o or o["item"] is None:
            continue
        if table_hex is not None and op["table"] != table_hex:
            continue
        if not targets_key_attr(case, op):
            continue
        for name in key_attrs(case, op["table"]):
            a, b = item_get(op.get("keyItem", []), name), item_get(o["item"], name)
            # the key string is built from the text of the value: another spelling of the same number changes it too
            if a is MISSING or b is MISSING or a != b:
                return True
    return False


@rule("KF-C13-update-changes-key")
def _(prop, case, v):
    if case["kind"] != "hist":
        return False
    if v.get("sig") == "update-changed-key":
        # only an update that names the key attribute itself as the target of an action — or a later update of
        # an item whose key attributes such an update changed before
        return "step" in v and (targets_key_attr(case, case["ops"][v["step"]]) or
                                key_changing_update_before(case, v.get("sdk", "v2"), v["step"], case["ops"][v["step"]].get("table")))
    # every later read of that table sees an item whose key attributes no longer identify it
    return v.get("sig") in ("stored-key-differs", "get-mismatch", "search-content", "index-content", "pages-content", "pages-duplicate",
                            "pages-unbounded", "pages-unfinished", "pages-lost-after-delete", "order", "describe-index-count",
                            "batchget-responses", "delete-old-item", "cond-should-pass", "cond-should-fail") and \
        key_changing_update_before(case, v.get("sdk", "v2"), v.get("step", 10 ** 9), case["ops"][v["step"]].get("table") if "step" in v else None)


def respelt_number_keys(case):
    """the history uses two spellings of one number as values of a number-typed key attribute"""
    import judges
    seen = {}
    types = {}
    for op in case["ops"]:
        if op["op"] == "createTable" and op.get("key"):
            k = op["key"]
            for a in [k["hash"]] + ([k["range"]] if k.get("range") else []):
                if judges.h2s(a[1]) == "N":
                    types.setdefault(op["table"], set()).add(a[0])
    def visit(table, it):
        for name, v in it or []:
            if name in types.get(table, ()) and tag(v) == "N":
                try:
                    val = spec.num(v["N"])
                except Exception:
                    continue
                seen.setdefault((table, name, val), set()).add(v["N"])
    for op in case["ops"]:
        tb = op.get("table")
        for f in ("item", "keyItem", "startKey"):
            visit(tb, op.get(f))
        for tn, rs in op.get("wreqs") or []:
            for r in rs:
                visit(tn, r.get("put")); visit(tn, r.get("del"))
        for tn, ks in op.get("greqs") or []:
            for kk in ks:
                visit(tn, kk)
    return any(len(sp) > 1 for sp in seen.values())


@rule("KF-C13-number-keys-by-text")
def _(prop, case, v):
    """the violation disappears when number keys are identified by their text instead of their value"""
    if case.get("kind") != "hist" or "step" not in v or not respelt_number_keys(case):
        return False
    import judges
    checks = judges.CHECKS.get(prop, {"crash"})
    judges.TEXT_KEYS = True
    try:
        again = judges.run_world(case, v.get("sdk", "v2") if v.get("sdk") in ("v1", "v2") else "v2", checks)
    except Exception:
        return False
    finally:
        judges.TEXT_KEYS = False
    return not any(x.get("step") == v["step"] and x.get("sig") == v.get("sig") for x in again)


@rule("KF-C08-batch-partial")
def _(prop, case, v):
    return v.get("sig") == "batch-partial"


def has_empty(av):
    t = tag(av)
    x = av[t]
    if t in ("B",) and x == "":
        return True
    if t in ("L", "SS", "NS", "BS") and len(x) == 0:
        return True
    if t == "M" and len(x) == 0:
        return True
    if t == "L":
        return any(has_empty(e) for e in x)
    if t == "M":
        return any(has_empty(e) for _, e in x)
    return False


def case_items(case, upto=None):
    for i, op in enumerate(case["ops"]):
        if upto is not None and i > upto:
            break
        for f in ("item", "keyItem"):
            if op.get(f):
                yield op[f]
        for tr in op.get("wreqs", []) or []:
            for r in tr[1]:
                if r.get("put"):
                    yield r["put"]
        for kv in op.get("values") or []:
            yield [kv]


@rule("KF-C10-v2-empty-as-null")
def _(prop, case, v):
    if case["kind"] != "hist" or v.get("sdk") not in ("v2", "v1/v2"):
        return False
    if v.get("sig") not in ("get-mismatch", "delete-old-item", "search-content", "index-content", "pages-content", "batchget-responses",
                            "cond-fail-item", "sdk-differ:get", "sdk-differ:query", "sdk-differ:pages", "sdk-differ:update", "sdk-differ:delete",
                            "sdk-differ:batchGet", "pages-lost-after-delete", "own-lek-rejected"):
        return False
    step = v.get("step", 10 ** 9)
    if any(any(has_empty(av) for _, av in it) for it in case_items(case, step)):
        return True
    # an update can empty a list or a set
    for op, o in zip(case["ops"][:step + 1], case["impl"]["v1"][:step + 1]):
        if op["op"] == "update" and o.get("item") and any(has_empty(av) for _, av in o["item"]):
            return True
    return False


@rule("KF-C19-absent-key-unprocessed")
def _(prop, case, v):
    # every error of the per-key GetItem is folded into UnprocessedKeys: no stored item, unknown table, malformed key
    return v.get("sig") in ("batchget-absent-unprocessed", "batchget-bad-key-unprocessed")


@rule("KF-C17-v1-no-batchget")
def _(prop, case, v):
    return v.get("sig") == "v1-no-batchget"


@rule("KF-C17-v1-no-return-on-condition-failure")
def _(prop, case, v):
    if not str(v.get("sig", "")).startswith("sdk-differ:update"):
        return False
    op = case["ops"][v["step"]]
    a, b = case["impl"]["v1"][v["step"]], case["impl"]["v2"][v["step"]]
    return bool(op.get("retOnFail")) and a.get("err") == "ConditionalCheckFailed" and b.get("err") == "ConditionalCheckFailed"


@rule("KF-C09-condition-as-operand")
def _(prop, case, v):
    sig = str(v.get("sig", ""))
    if sig == "garbage-accepted:condition-as-operand":
        return True
    # generated: a well-formed condition followed by "= :v0" (a comparison whose left operand is a condition)
    return sig == "garbage-accepted:trailing" and str(case.get("text", "")).rstrip().endswith("= :v0")


@rule("KF-C07-overlapping-paths")
def _(prop, case, v):
    return str(v.get("sig", "")) == "garbage-accepted:overlapping-paths"


@rule("KF-C07-add-delete-nested-path")
def _(prop, case, v):
    return str(v.get("sig", "")) == "garbage-accepted:add-delete-nested-path"


# ---- expression level (match / update cases) ----

def impl_letter(o):
    k = next(iter(o))
    if k == "ok":
        return "T" if o["ok"] is True else ("F" if o["ok"] is False else "OK")
    if k in ("err", "panicErr"):
        return "E" if o[k] in ("Syntax", "Validation") else "U"
    return "CRASH"


def explained_by(case, **flags):
    """the implementation's truth value becomes allowed once the deviation switches are on"""
    if case.get("kind") != "match" or not case.get("tree"):
        return False
    try:
        base = spec.evalc(case["tree"], case["item"])
        dev = spec.evalc(case["tree"], case["item"], spec.Opts(**flags))
    except Exception:
        return False
    l = impl_letter(case["impl"])
    return l not in base and l in dev


ALL_DEV = dict(floats=True, root_scalar_err=True, path_operand_err=True, contains_subset=True, size_missing_err=True)


def only_needs(case, flag):
    """explained with all known deviations on, and this deviation is involved: it explains the outcome
    alone, or the outcome is no longer explained without it"""
    if not explained_by(case, **ALL_DEV):
        return False
    if explained_by(case, **{flag: True}):
        return True
    rest = dict(ALL_DEV)
    rest[flag] = False
    return not explained_by(case, **rest)


@rule("KF-C12-float-arithmetic")
def _(prop, case, v):
    if case.get("kind") == "match" and v.get("sig") == "truth-value":
        return only_needs(case, "floats")
    if case.get("kind") == "update" and v.get("sig") in ("update-result",):
        return update_explained_by_floats(case)
    return False


@rule("KF-C12-sort-keys-by-text")
def _(prop, case, v):
    """a result that is out of order on a number- or binary-typed sort key"""
    if case.get("kind") != "hist" or v.get("sig") != "order":
        return False
    return v.get("sort_key_type") in ("N", "B")


@rule("KF-C16-key-condition-shape")
def _(prop, case, v):
    return case.get("kind") == "hist" and v.get("sig") == "key-condition-shape"


@rule("KF-C09-empty-expression")
def _(prop, case, v):
    # the shadow runs through the clients with an expression text of no bytes
    return case.get("kind") in ("match", "update") and str(v.get("sig", "")).startswith("client:") and (case.get("text") or "") == "" \
        and "UpdateItem" not in str(v.get("sig"))


@rule("KF-C16-unsupplied-placeholder")
def _(prop, case, v):
    # names only: an unsupplied :value is rejected since 464433d
    return case.get("kind") == "hist" and v.get("sig") == "placeholder-unsupplied" and all(x.startswith("#") for x in v.get("unsupplied", [":"]))


@rule("KF-C09-unevaluated-expression")
def _(prop, case, v):
    # the judge only raises this signature when no stored item reaches the malformed expression
    if case.get("kind") == "hist" and v.get("sig") == "placeholder-unsupplied" and v.get("returned") == 0 and \
            all(x.startswith(":") for x in v.get("unsupplied", ["#"])):
        # a read that returned nothing and uses a :value the request does not supply: an item that reaches the expression
        # has it rejected (464433d), so no item reached it
        return True
    return case.get("kind") == "hist" and v.get("sig") == "unevaluated-malformed-expression"


@rule("KF-C06-root-scalar-path")
def _(prop, case, v):
    if case.get("kind") == "update" and v.get("sig") == "update-rejected":
        return mentions_root_scalar_path(case)
    return case.get("kind") == "match" and v.get("sig") == "truth-value" and only_needs(case, "root_scalar_err")


@rule("KF-C06-size-of-missing")
def _(prop, case, v):
    return case.get("kind") == "match" and v.get("sig") == "truth-value" and only_needs(case, "size_missing_err")


@rule("KF-C06-path-operand")
def _(prop, case, v):
    return case.get("kind") == "match" and v.get("sig") == "truth-value" and only_needs(case, "path_operand_err")


@rule("KF-C06-contains-set-operand")
def _(prop, case, v):
    return case.get("kind") == "match" and v.get("sig") == "truth-value" and only_needs(case, "contains_subset")


def approx(av):
    """structural identity with numbers as doubles rounded to 12 significant digits"""
    t = tag(av)
    x = av[t]
    def r(e):
        f = float(spec.num(e))
        return float("%.12g" % f)
    if t == "N":
        return ("N", r(x))
    if t == "NS":
        return ("NS", tuple(sorted(set(r(e) for e in x))))
    if t == "L":
        return ("L", tuple(approx(e) for e in x))
    if t == "M":
        return ("M", tuple(sorted((k, approx(v)) for k, v in x)))
    return canon(av)


def has_inexact(av):
    t = tag(av)
    x = av[t]
    if t == "N":
        q = spec.num(x)
        return Fraction(float(q)) != q or len(hx(x).decode().lstrip("-").replace(".", "").lstrip("0")) > 15
    if t == "NS":
        return any(has_inexact({"N": e}) for e in x)
    if t == "L":
        return any(has_inexact(e) for e in x)
    if t == "M":
        return any(has_inexact(e) for _, e in x)
    return False


def update_explained_by_floats(case):
    """the outcome is exactly what the same update gives when numbers are IEEE-754 doubles written
    back with the shortest round-trip digits (and it is not what exact decimals give)"""
    try:
        want = spec.apply_update_floats(case["tree"], case["item"])
    except Exception:
        return False
    got = case["impl"].get("ok")
    if got is None:
        return False
    return spec.canon_item(want, True) == spec.canon_item(got, True)


def path_operands(node):
    """all path operands of an update tree / condition tree"""
    if isinstance(node, dict):
        if node.get("k") in ("path", "size") and "root" in node:
            yield node
        for v in node.values():
            yield from path_operands(v)
    elif isinstance(node, list):
        for v in node:
            yield from path_operands(v)


def mentions_root_scalar_path(case):
    for o in path_operands(case.get("tree")):
        if o.get("steps"):
            root = item_get(case["item"], o["root"])
            if root is not MISSING and tag(root) not in ("L", "M"):
                return True
    return False


def reserved_only_after_dot(text):
    import re
    from judges import tokens
    # every reserved word that appears as a whole name is preceded by a dot
    try:
        words = RESERVED
    except NameError:
        return False
    found_any = False
    for m in re.finditer(rb"[A-Za-z0-9_:#]+", text):
        w = m.group(0)
        if w in (b"AND", b"OR", b"NOT", b"BETWEEN", b"IN", b"SET", b"REMOVE", b"ADD", b"DELETE"):
            continue
        if text[m.end():].lstrip().startswith(b"("):
            continue  # a function name
        if w.upper().decode("latin1") in words:
            found_any = True
            before = text[:m.start()].rstrip()
            if not before.endswith(b"."):
                return False
    return found_any


def load_reserved():
    import os, re
    repo = os.environ.get("VERIF_REPO", "/repo")
    try:
        src = open(os.path.join(repo, "interpreter/language/token.go")).read()
    except OSError:
        return set()
    i = src.index("reservedWords = map[string]bool{")
    return set(re.findall(r'"([A-Z_]+)":\s+true', src[i:]))


RESERVED = load_reserved()


@rule("KF-C16-reserved-after-dot")
def _(prop, case, v):
    if v.get("sig") != "reserved-accepted":
        return False
    return reserved_only_after_dot(str(case.get("text", "")).encode("latin1", "replace"))
