"""Classifiers of known_findings.json: decide whether a spec-rejected implementation outcome
is explained by a listed finding.  One rule per mechanism (not per property), so a different
violation of the same property is still reported.  `v` is the judge's verdict dict."""
import json
import spec
from spec import hx, tag, item_get, MISSING, canon
from fractions import Fraction

RULES = {}


def rule(fid):
    def deco(f):
        RULES[fid] = f
        return f
    return deco


def key_attrs(case, table_hex):
    for op in case["ops"]:
        if op["op"] == "createTable" and op["table"] == table_hex:
            k = op["key"]
            return [k["hash"][0]] + ([k["range"][0]] if k.get("range") else [])
    return []


def key_changing_update_before(case, sdk, step, table_hex=None):
    """a successful UpdateItem before `step` returned an item whose key attributes differ from the request's key"""
    outs = case["impl"][sdk if sdk in ("v1", "v2") else "v2"]
    for i, (op, o) in enumerate(zip(case["ops"], outs)):
        if i > step:
            break
        if op["op"] != "update" or "item" not in o or o["item"] is None:
            continue
        if table_hex is not None and op["table"] != table_hex:
            continue
        for name in key_attrs(case, op["table"]):
            a, b = item_get(op.get("keyItem", []), name), item_get(o["item"], name)
            if a is MISSING or b is MISSING or canon(a) != canon(b):
                return True
    return False


@rule("KF-C13-update-changes-key")
def _(prop, case, v):
    if case["kind"] != "hist":
        return False
    if v.get("sig") == "update-changed-key":
        return True
    # every later read of that table sees an item whose key attributes no longer identify it
    return v.get("sig") in ("stored-key-differs", "get-mismatch", "search-content", "index-content", "pages-content", "pages-duplicate",
                            "pages-unbounded", "pages-unfinished", "pages-lost-after-delete", "order", "describe-index-count",
                            "batchget-responses", "delete-old-item", "cond-should-pass", "cond-should-fail") and \
        key_changing_update_before(case, v.get("sdk", "v2"), v.get("step", 10 ** 9), case["ops"][v["step"]].get("table") if "step" in v else None)


@rule("KF-C08-batch-partial")
def _(prop, case, v):
    return v.get("sig") == "batch-partial"
