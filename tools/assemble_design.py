#!/usr/bin/env python3
"""DESIGN.md = docsrc/part1.md + generated tables (tools/mkdesign.py) + docsrc/i8.md + docsrc/i9intro.md + docsrc/part2.md"""
import subprocess
V = "/verif"
subprocess.run(["python3", V + "/tools/mkdesign.py"], check=True, stdout=subprocess.DEVNULL)
part1 = open(V + "/docsrc/part1.md").read()
frag = open(V + "/work/design_fragments.md").read()
i8 = open(V + "/docsrc/i8.md").read()
i9 = open(V + "/docsrc/i9intro.md").read()
part2 = open(V + "/docsrc/part2.md").read()
head = "## I.9 Seeded changes and which checks catch them\n\n"
a = frag.index(head)
doc = part1.rstrip() + "\n\n" + frag[:a] + i8 + "\n" + head + i9 + frag[a + len(head):] + "\n---\n\n" + part2
open(V + "/DESIGN.md", "w").write(doc)
print(len(doc.splitlines()), "lines")
