#!/usr/bin/env python3
"""markdown fragments for DESIGN.md generated from the committed data: fixes, findings, seeded changes"""
import json, os, re, glob, subprocess
V = "/verif"
k = json.load(open(V + "/known_findings.json"))
out = []
out.append("## I.6 Genuine defects repaired (`fix:` commits in /repo)\n")
out.append("Each was first reported by a check as a VIOLATION on the then-current tree, replayed against the real code, repaired by one\n"
           "minimal commit, and mirrored in the model; its witness stays in `corpus/` and a demonstration in `findings/demo/` (fails before,\n"
           "passes after). The unedited baseline suite passes with all of them (201/201, and the baseline's always-failing\n"
           "`TestBatchWriteItemWithFailingDatabase` now passes as well).\n")
out.append("| property | commit | what failed |\n|---|---|---|")
for line in k["fixed"]:
    m = re.match(r"fixed: property=(\S+) (\S+) (.*)", line)
    out.append("| %s | `%s` | %s |" % (m.group(1), m.group(2), m.group(3).replace("|", "\\|")))
out.append("\nRepairs that were tried and withdrawn because a baseline test pins the defective behaviour are among the findings below (`pinned by`).\n")
out.append("## I.7 Known findings (open)\n")
out.append("Genuine defects that are recorded rather than repaired. Every check prints one `KNOWN-FINDING` line per finding that concerns its\n"
           "property, re-runs the finding's witness on the implementation, and still reports any rejected outcome that no listed classifier\n"
           "explains.\n")
out.append("| id | properties | what fails | why not repaired |\n|---|---|---|---|")
for f in k["findings"]:
    if f.get("status") != "open":
        continue
    props = ", ".join([f["property"]] + f.get("also", []))
    why = f.get("why_not_fixed", "")
    if f.get("pinned_by_test"):
        why += " (pinned by `%s`)" % f["pinned_by_test"]
    out.append("| %s | %s | %s | %s |" % (f["id"], props, f["what_fails"].replace("|", "\\|"), why.replace("|", "\\|")))
out.append("")
out.append("## I.9 Seeded changes and which checks catch them\n")
rows = []
for d in sorted(glob.glob(V + "/seeded/*/")):
    meta = json.load(open(d + "meta.json"))
    res = {}
    for tier in ("quick", "thorough"):
        p = d + "result_%s.json" % tier
        if os.path.exists(p):
            res[tier] = json.load(open(p))
    caught = []
    for tier, r in res.items():
        for prop, c in r["checks"].items():
            if c["exit"] == 1 and c["violations"]:
                how = "no failing input (broken tie)" if all("no-failing-input-found" in v for v in c["violations"]) else \
                      ("process death located" if any("harness-crash" in v for v in c["violations"]) and not any("-violation-" in v for v in c["violations"]) else "failing input")
                caught.append("%s %s: %s" % (prop, tier, how))
            else:
                caught.append("%s %s: MISSED" % (prop, tier))
    rows.append("| %s | %s | %s |" % (meta["id"], meta["description"].replace("|", "\\|"), "; ".join(caught)))
out.append("| seed | change | outcome of the checks |\n|---|---|---|")
out += rows
open(V + "/work/design_fragments.md", "w").write("\n".join(out) + "\n")
print(len(rows), "seeds")
