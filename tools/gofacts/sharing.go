package main

import (
	"go/ast"
	"go/token"
	"sort"
	"strings"
)

// ---------- C14: how each value field crosses the API boundary ----------

var valueFields = map[string]bool{"B": true, "BOOL": true, "BS": true, "L": true, "M": true, "N": true, "NS": true, "NULL": true, "S": true, "SS": true, "Value": true}

var freshHelpers = map[string]bool{"copyBytes": true, "copyBytesSlice": true, "copyString": true, "copyStringSlice": true, "copyBool": true,
	"toStringSlice": true, "toStringValueSlice": true, "types.ToString": true, "types.StringValue": true, "aws.String": true, "aws.Bool": true,
	"aws.StringValue": true, "aws.ToString": true}

var mapperFuncs = map[string]map[string]bool{
	"V1": {"mapAttributeValueToTypes": true, "mapAttributeValueListToTypes": true, "mapAttributeValueToDynamodb": true, "mapAttributeValueListToDynamodb": true},
	"V2": {"mapDynamoToTypesItem": true, "mapDynamoToTypesAttributeDefinitionMapOrList": true, "mapTypesToDynamoItem": true, "mapTypesToDynamoAttributeDefinitionMapOrList": true,
		"mapDynamoToTypesMapItem": true, "mapTypesToDynamoMapItem": true},
}

func classify(e ast.Expr, locals map[string]bool, mappers map[string]bool) string {
	switch x := e.(type) {
	case *ast.CallExpr:
		fn := exprStr(x.Fun)
		if freshHelpers[fn] {
			return "fresh"
		}
		if mappers[fn] {
			return "recursive"
		}
		return "unknown"
	case *ast.UnaryExpr:
		if x.Op == token.AND {
			if id, ok := x.X.(*ast.Ident); ok && locals[id.Name] {
				return "fresh"
			}
			return "share"
		}
	case *ast.StarExpr:
		return "fresh" // a value read through a pointer is copied
	case *ast.Ident:
		if x.Name == "true" || x.Name == "false" || x.Name == "nil" {
			return "fresh"
		}
		if locals[x.Name] {
			return "fresh"
		}
		return "share"
	case *ast.SelectorExpr:
		return "share"
	case *ast.BasicLit, *ast.CompositeLit:
		return "fresh"
	}
	return "unknown"
}

// localsOf: variables declared in the body with := from something that is not a
// plain selector/identifier of a parameter (i.e. values constructed in the function)
func localsOf(fd *ast.FuncDecl) map[string]bool {
	locals := map[string]bool{}
	ast.Inspect(fd.Body, func(n ast.Node) bool {
		as, ok := n.(*ast.AssignStmt)
		if !ok || as.Tok != token.DEFINE {
			return true
		}
		for i, l := range as.Lhs {
			id, ok := l.(*ast.Ident)
			if !ok || i >= len(as.Rhs) {
				continue
			}
			switch r := as.Rhs[i].(type) {
			case *ast.CompositeLit, *ast.BasicLit:
				locals[id.Name] = true
			case *ast.CallExpr:
				if exprStr(r.Fun) == "make" {
					locals[id.Name] = true
				}
			case *ast.SelectorExpr:
				// `value := itemBOOL.Value` copies a scalar field; only BOOL uses this shape
				if r.Sel.Name == "Value" && id.Name == "value" {
					locals[id.Name] = true
				}
			case *ast.Ident:
				if r.Name == "true" || r.Name == "false" {
					locals[id.Name] = true
				}
			}
		}
		return true
	})
	return locals
}

func genSharing(v1, v2, core, lang map[string]*ast.File) string {
	o := &out{}
	o.f("%snamespace Minidyn.Generated\n\n", header)
	o.f("inductive Transfer where | share | fresh | recursive | unknown\nderiving Repr, BEq, DecidableEq\n\n")
	for _, c := range []struct {
		files map[string]*ast.File
		tag   string
	}{{v1, "V1"}, {v2, "V2"}} {
		type row struct{ fn, field, mode, src string }
		rows := []row{}
		for _, f := range c.files {
			for _, d := range f.Decls {
				fd, ok := d.(*ast.FuncDecl)
				if !ok || fd.Body == nil || !mapperFuncs[c.tag][fd.Name.Name] {
					continue
				}
				locals := localsOf(fd)
				ast.Inspect(fd.Body, func(n ast.Node) bool {
					cl, ok := n.(*ast.CompositeLit)
					if !ok {
						return true
					}
					for _, e := range cl.Elts {
						kv, ok := e.(*ast.KeyValueExpr)
						if !ok {
							continue
						}
						k, ok := kv.Key.(*ast.Ident)
						if !ok || !valueFields[k.Name] {
							continue
						}
						rows = append(rows, row{fd.Name.Name, k.Name, classify(kv.Value, locals, mapperFuncs[c.tag]), exprStr(kv.Value)})
					}
					return true
				})
				// map/slice element stores: output[key] = f(x), mapItems[i] = …
				ast.Inspect(fd.Body, func(n ast.Node) bool {
					as, ok := n.(*ast.AssignStmt)
					if !ok || len(as.Lhs) != 1 || len(as.Rhs) != 1 {
						return true
					}
					if _, ok := as.Lhs[0].(*ast.IndexExpr); ok {
						if _, isLit := as.Rhs[0].(*ast.UnaryExpr); isLit {
							return true // &types.Item{…}: fields are classified above
						}
						rows = append(rows, row{fd.Name.Name, "[elem]", classify(as.Rhs[0], locals, mapperFuncs[c.tag]), exprStr(as.Rhs[0])})
					}
					return true
				})
			}
		}
		sort.Slice(rows, func(i, j int) bool {
			if rows[i].fn != rows[j].fn {
				return rows[i].fn < rows[j].fn
			}
			if rows[i].field != rows[j].field {
				return rows[i].field < rows[j].field
			}
			return rows[i].src < rows[j].src
		})
		o.f("/-- value-carrying field stores of the attribute-value mappers of aws-%s: function, field, transfer mode, source expression -/\ndef transfers%s : List (String × String × Transfer × String) := [", strings.ToLower(c.tag), c.tag)
		for i, r := range rows {
			if i > 0 {
				o.f(",")
			}
			o.f("\n  (%q, %q, .%s, %q)", r.fn, r.field, r.mode, r.src)
		}
		o.f("]\n\n")
	}
	// the evaluator's package-level singletons must never have their address handed out
	leaks := []string{}
	for _, f := range lang {
		ast.Inspect(f, func(n ast.Node) bool {
			if u, ok := n.(*ast.UnaryExpr); ok && u.Op == token.AND {
				s := exprStr(u.X)
				if strings.HasPrefix(s, "TRUE.") || strings.HasPrefix(s, "FALSE.") || strings.HasPrefix(s, "UNDEFINED.") {
					leaks = append(leaks, s)
				}
				if sel, ok := u.X.(*ast.SelectorExpr); ok {
					if id, ok := sel.X.(*ast.Ident); ok && (id.Name == "b" || id.Name == "n") && sel.Sel.Name == "Value" {
						leaks = append(leaks, s)
					}
				}
			}
			return true
		})
	}
	sort.Strings(leaks)
	o.f("/-- address-of expressions in interpreter/language that could hand out a pointer into a package-level object -/\ndef singletonLeaks : List String := [")
	for i, l := range leaks {
		if i > 0 {
			o.f(", ")
		}
		o.f("%q", l)
	}
	o.f("]\n\n")
	_ = core
	o.f("end Minidyn.Generated\n")
	return o.sb.String()
}
