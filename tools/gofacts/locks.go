package main

import (
	"go/ast"
	"go/token"
	"sort"
	"strings"
)

// ---------- C11: lock skeletons ----------

// package-level functions with a *Client parameter (filled per package)
var clientFuncs = map[string]bool{}

var sharedFields = map[string]bool{"tables": true, "itemCollectionMetrics": true, "langInterpreter": true,
	"nativeInterpreter": true, "useNativeInterpreter": true, "forceFailureErr": true}

type lockEv struct{ kind, arg string }

func recvNames(fd *ast.FuncDecl) map[string]bool {
	names := map[string]bool{}
	if fd.Recv != nil && len(fd.Recv.List) > 0 && strings.TrimPrefix(exprStr(fd.Recv.List[0].Type), "*") == "Client" {
		for _, n := range fd.Recv.List[0].Names {
			names[n.Name] = true
		}
	}
	// functions that take the client as a parameter
	if fd.Type.Params != nil {
		for _, prm := range fd.Type.Params.List {
			if strings.TrimPrefix(exprStr(prm.Type), "*") == "Client" {
				for _, n := range prm.Names {
					names[n.Name] = true
				}
			}
		}
	}
	// helper functions: `fakeClient, ok := client.(*Client)`
	ast.Inspect(fd.Body, func(n ast.Node) bool {
		as, ok := n.(*ast.AssignStmt)
		if !ok || len(as.Rhs) != 1 {
			return true
		}
		if ta, ok := as.Rhs[0].(*ast.TypeAssertExpr); ok && exprStr(ta.Type) == "*Client" {
			if id, ok := as.Lhs[0].(*ast.Ident); ok {
				names[id.Name] = true
			}
		}
		return true
	})
	return names
}

func skeleton(fd *ast.FuncDecl, methods map[string]bool) []lockEv {
	rn := recvNames(fd)
	if len(rn) == 0 {
		return nil
	}
	evs := []lockEv{}
	written := map[ast.Node]bool{}
	isRecv := func(e ast.Expr) bool {
		id, ok := e.(*ast.Ident)
		return ok && rn[id.Name]
	}
	// mark selectors that are written
	ast.Inspect(fd.Body, func(n ast.Node) bool {
		switch s := n.(type) {
		case *ast.AssignStmt:
			for _, l := range s.Lhs {
				base := l
				for {
					if ix, ok := base.(*ast.IndexExpr); ok {
						base = ix.X
						continue
					}
					break
				}
				if sel, ok := base.(*ast.SelectorExpr); ok {
					written[sel] = true
					if inner, ok := sel.X.(*ast.SelectorExpr); ok { // fd.langInterpreter.Debug = …
						written[inner] = true
					}
				}
			}
		case *ast.CallExpr:
			if id, ok := s.Fun.(*ast.Ident); ok && id.Name == "delete" && len(s.Args) > 0 {
				if sel, ok := s.Args[0].(*ast.SelectorExpr); ok {
					written[sel] = true
				}
			}
		}
		return true
	})
	deferDepth := 0
	var visit func(n ast.Node) bool
	visit = func(n ast.Node) bool {
		switch s := n.(type) {
		case *ast.DeferStmt:
			if sel, ok := s.Call.Fun.(*ast.SelectorExpr); ok && sel.Sel.Name == "Unlock" {
				if inner, ok := sel.X.(*ast.SelectorExpr); ok && inner.Sel.Name == "mu" && isRecv(inner.X) {
					evs = append(evs, lockEv{"deferUnlock", ""})
					return false
				}
			}
			deferDepth++
			ast.Inspect(s.Call, visit)
			deferDepth--
			return false
		case *ast.CallExpr:
			if sel, ok := s.Fun.(*ast.SelectorExpr); ok {
				if inner, ok := sel.X.(*ast.SelectorExpr); ok && inner.Sel.Name == "mu" && isRecv(inner.X) {
					switch sel.Sel.Name {
					case "Lock":
						evs = append(evs, lockEv{"lock", ""})
					case "Unlock":
						evs = append(evs, lockEv{"unlock", ""})
					}
					return false
				}
				if isRecv(sel.X) && methods[sel.Sel.Name] {
					for _, a := range s.Args {
						ast.Inspect(a, visit)
					}
					evs = append(evs, lockEv{"call", sel.Sel.Name})
					return false
				}
			}
			// a package-level function that is handed the client
			if id, ok := s.Fun.(*ast.Ident); ok && clientFuncs[id.Name] {
				for _, a := range s.Args {
					ast.Inspect(a, visit)
				}
				evs = append(evs, lockEv{"call", "func." + id.Name})
				return false
			}
			if sel, ok := s.Fun.(*ast.SelectorExpr); ok {
				// a method call on a table value: shared state reached through the catalogue
				if id, ok := sel.X.(*ast.Ident); ok && (id.Name == "table" || id.Name == "newTable") {
					for _, a := range s.Args {
						ast.Inspect(a, visit)
					}
					evs = append(evs, lockEv{"table", sel.Sel.Name})
					return false
				}
			}
		case *ast.SelectorExpr:
			if isRecv(s.X) && sharedFields[s.Sel.Name] {
				k := "read"
				if written[s] {
					k = "write"
				}
				evs = append(evs, lockEv{k, s.Sel.Name})
				return false
			}
		}
		return true
	}
	ast.Inspect(fd.Body, visit)
	return evs
}

func genLocks(v1, v2 map[string]*ast.File) string {
	o := &out{}
	o.f("%snamespace Minidyn.Generated\n\n", header)
	o.f("inductive LockEv where\n  | lock | deferUnlock | unlock\n  | read (field : String) | write (field : String)\n  | table (method : String) | call (method : String)\nderiving Repr, BEq, DecidableEq\n\n")
	for _, c := range []struct {
		files map[string]*ast.File
		tag   string
	}{{v1, "V1"}, {v2, "V2"}} {
		methods := map[string]bool{}
		clientFuncs = map[string]bool{}
		var fds []*ast.FuncDecl
		for fname, f := range c.files {
			if fname != "client.go" && fname != "minidyn.go" {
				continue
			}
			for _, d := range f.Decls {
				fd, ok := d.(*ast.FuncDecl)
				if !ok || fd.Body == nil {
					continue
				}
				if fd.Recv != nil && strings.TrimPrefix(exprStr(fd.Recv.List[0].Type), "*") == "Client" {
					methods[fd.Name.Name] = true
				}
				if fd.Recv == nil && fd.Type.Params != nil {
					for _, prm := range fd.Type.Params.List {
						if strings.TrimPrefix(exprStr(prm.Type), "*") == "Client" {
							clientFuncs[fd.Name.Name] = true
						}
					}
				}
				fds = append(fds, fd)
			}
		}
		type row struct {
			name string
			evs  []lockEv
		}
		rows := []row{}
		for _, fd := range fds {
			evs := skeleton(fd, methods)
			if evs == nil && !(fd.Recv != nil && methods[fd.Name.Name]) {
				continue
			}
			name := fd.Name.Name
			if fd.Recv == nil {
				name = "func." + name
			}
			rows = append(rows, row{name, evs})
		}
		sort.Slice(rows, func(i, j int) bool { return rows[i].name < rows[j].name })
		o.f("/-- lock skeleton of every method of `*Client` and of every helper that reaches a `*Client` (aws-%s):\n    name, exported (callable by users of the library), events -/\ndef locks%s : List (String × Bool × List LockEv) := [", strings.ToLower(c.tag), c.tag)
		for i, r := range rows {
			if i > 0 {
				o.f(",")
			}
			parts := []string{}
			for _, e := range r.evs {
				if e.arg == "" {
					parts = append(parts, "."+e.kind)
				} else {
					parts = append(parts, "."+e.kind+" \""+e.arg+"\"")
				}
			}
			base := strings.TrimPrefix(r.name, "func.")
			o.f("\n  (%q, %v, [%s])", r.name, ast.IsExported(base), strings.Join(parts, ", "))
		}
		o.f("]\n\n")
	}
	o.f("end Minidyn.Generated\n")
	return o.sb.String()
}

var _ = token.ADD
