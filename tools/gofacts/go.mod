module gofacts

go 1.20
