#!/usr/bin/env python3
"""Confirm a seeded change made by a sub-agent in its scratch worktree and keep it under
/verif/seeded/<id>/ (patch.diff, the demonstration, meta.json).

usage: seed_ingest.py <prop> <a|b> <pkgdir relative to the worktree> <TestName> <specific:yes|no> <description>
The worktree is /tmp/seed-<prop>; the patch is seed_<x>.patch; the demo is zz_seed_demo_<x>_test.go in <pkgdir>.
"""
import json, os, shutil, subprocess, sys

ENV = dict(os.environ, GOFLAGS="-mod=mod", GOPROXY="off", GOSUMDB="off", GOTOOLCHAIN="local")


def sh(cmd, cwd):
    p = subprocess.run(cmd, cwd=cwd, env=ENV, stdout=subprocess.PIPE, stderr=subprocess.STDOUT, text=True)
    return p.returncode, p.stdout


def main():
    prop, x, pkg, test, specific, desc = sys.argv[1:7]
    wt = os.environ.get("SEED_WT_PREFIX", "/tmp/seed-") + prop
    patch = os.path.join(wt, "seed_%s.patch" % x)
    demo = os.path.join(wt, pkg, "zz_seed_demo_%s_test.go" % x)
    assert os.path.exists(patch), patch
    assert os.path.exists(demo), demo
    sid = "%s-%s" % (prop, os.environ.get("SEED_ID_" + x.upper(), x))
    out = {"id": sid, "property": prop, "description": desc, "needs_something_specific": specific == "yes",
           "demo": {"package": pkg, "test": test, "file": "demo_test.go"}}
    # park every demo file so that the suite is the existing one
    park = os.path.join(wt, ".parked")
    os.makedirs(park, exist_ok=True)
    demos = []
    for root, _, files in os.walk(wt):
        if ".parked" in root or ".git" in root:
            continue
        for f in files:
            if f.startswith("zz_seed_demo_"):
                demos.append((os.path.join(root, f), os.path.join(park, f)))
    for a, b in demos:
        shutil.move(a, b)
    try:
        sh(["git", "checkout", "--", "."], wt)
        rc, o = sh(["git", "apply", "--check", patch], wt)
        assert rc == 0, "patch does not apply: " + o
        sh(["git", "apply", patch], wt)
        rc, o = sh(["go", "build", "./..."], wt)
        out["builds"] = rc == 0
        rc, o = sh(["go", "test", "-vet=off", "-count=1", "./..."], wt)
        out["suite_passes_with_change"] = rc == 0
        if rc != 0:
            out["suite_output"] = o[-1500:]
        # demo with the change
        shutil.copy(os.path.join(park, os.path.basename(demo)), demo)
        rc, o = sh(["go", "test", "-vet=off", "-count=1", "-run", "^%s$" % test, "."], os.path.join(wt, pkg))
        out["demo_fails_with_change"] = rc != 0
        out["demo_output_with_change"] = o[-1200:]
        sh(["git", "checkout", "--", "."], wt)
        rc, o = sh(["go", "test", "-vet=off", "-count=1", "-run", "^%s$" % test, "."], os.path.join(wt, pkg))
        out["demo_passes_without_change"] = rc == 0
        os.unlink(demo)
    finally:
        sh(["git", "checkout", "--", "."], wt)
        for a, b in demos:
            if os.path.exists(b):
                shutil.move(b, a)
    ok = out.get("builds") and out.get("suite_passes_with_change") and out.get("demo_fails_with_change") and out.get("demo_passes_without_change")
    out["confirmed"] = bool(ok)
    print(json.dumps({k: v for k, v in out.items() if k not in ("demo_output_with_change",)}, indent=1))
    if ok:
        d = os.path.join("/verif/seeded", sid)
        os.makedirs(d, exist_ok=True)
        shutil.copy(patch, os.path.join(d, "patch.diff"))
        shutil.copy(demo, os.path.join(d, "demo_test.go"))
        json.dump(out, open(os.path.join(d, "meta.json"), "w"), indent=1)
    sys.exit(0 if ok else 1)


main()
