#!/usr/bin/env python3
"""Run the registered checks against the seeded changes under /verif/seeded.

usage: seedrun.py [-t quick|thorough] [-p extra,props] [seed ids...]
For each seed: git -C /repo apply patch.diff; ./check <property> <tier> (plus extra properties);
git -C /repo checkout -- . ; the outcome goes to seeded/<id>/result.json and seeded/RESULTS.md.
"""
import json, os, re, subprocess, sys, time

VERIF = "/verif"
REPO = "/repo"


def sh(cmd, cwd=None, timeout=3600):
    p = subprocess.run(cmd, cwd=cwd, stdout=subprocess.PIPE, stderr=subprocess.STDOUT, text=True, timeout=timeout)
    return p.returncode, p.stdout


def main():
    args = sys.argv[1:]
    tier = "quick"
    extra = []
    while args and args[0].startswith("-"):
        if args[0] == "-t":
            tier = args[1]; args = args[2:]
        elif args[0] == "-p":
            extra = args[1].split(","); args = args[2:]
    seeds = args or sorted(os.listdir(os.path.join(VERIF, "seeded")))
    seeds = [s for s in seeds if os.path.isdir(os.path.join(VERIF, "seeded", s))]
    rc, out = sh(["git", "status", "--porcelain"], REPO)
    assert out.strip() == "", "/repo is not clean:\n" + out
    for sid in seeds:
        d = os.path.join(VERIF, "seeded", sid)
        meta = json.load(open(os.path.join(d, "meta.json")))
        props = [meta["property"]] + [p for p in extra if p != meta["property"]]
        res = {"seed": sid, "tier": tier, "checks": {}}
        rc, out = sh(["git", "apply", os.path.join(d, "patch.diff")], REPO)
        if rc != 0:
            print(sid, "PATCH DOES NOT APPLY", out)
            continue
        try:
            for p in props:
                t0 = time.time()
                rc, out = sh([os.path.join(VERIF, "check"), p, tier], VERIF)
                viol = [l for l in out.splitlines() if l.startswith("VIOLATION")]
                res["checks"][p] = {"exit": rc, "violations": viol[:5], "wall_s": round(time.time() - t0, 1),
                                    "tail": out.splitlines()[-1:] }
                replay = None
                m = re.search(r"replay=(\S+)", viol[0]) if viol else None
                if m and os.path.exists(m.group(1)):
                    try:
                        rp = json.load(open(m.group(1)))
                        res["checks"][p]["replay_kind"] = rp.get("kind") or rp.get("reason") or list(rp.keys())[:6]
                    except Exception:
                        pass
                print(sid, p, "exit", rc, viol[:1], flush=True)
        finally:
            sh(["git", "checkout", "--", "."], REPO)
        res["caught"] = any(c["exit"] == 1 and c["violations"] for c in res["checks"].values())
        json.dump(res, open(os.path.join(d, "result_%s.json" % tier), "w"), indent=1)
    rc, out = sh(["git", "status", "--porcelain"], REPO)
    assert out.strip() == "", "/repo left dirty:\n" + out


main()
