#!/usr/bin/env python3
"""run every registered check (quick by default) on the current tree and validate the evidence files"""
import json, subprocess, sys, time, os
V = os.path.dirname(os.path.dirname(os.path.abspath(__file__)))
tier = sys.argv[1] if len(sys.argv) > 1 else "quick"
props = sys.argv[2:] or ["C%02d" % i for i in range(1, 21)]
bad = 0
for p in props:
    t0 = time.time()
    r = subprocess.run(["./check", p, tier], cwd=V, stdout=subprocess.PIPE, stderr=subprocess.DEVNULL, text=True)
    lines = r.stdout.splitlines()
    viol = [l for l in lines if l.startswith("VIOLATION")]
    kf = [l for l in lines if l.startswith("KNOWN-FINDING")]
    print("%s exit=%d violations=%d known=%d %.0fs | %s" % (p, r.returncode, len(viol), len(kf), time.time() - t0, lines[-1][:150] if lines else ""), flush=True)
    if r.returncode != 0 or viol:
        bad += 1
        for l in viol[:3]:
            print("   ", l)
v = subprocess.run(["python3-vt", "-c", """
import json, jsonschema, glob
s = json.load(open('/root/.vp/EVIDENCE.schema.json'))
n = 0
for f in sorted(glob.glob('%s/evidence/*.json')):
    try:
        jsonschema.validate(json.load(open(f)), s)
    except Exception as e:
        n += 1
        print('INVALID', f, str(e)[:200])
m = json.load(open('%s/MANIFEST.json'))
jsonschema.validate(m, json.load(open('/root/.vp/MANIFEST.schema.json')))
print('evidence files invalid:', n, '; manifest valid')
""" % (V, V)], stdout=subprocess.PIPE, stderr=subprocess.STDOUT, text=True)
print(v.stdout)
sys.exit(1 if bad else 0)
