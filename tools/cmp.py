#!/usr/bin/env python3
"""quick correspondence diff: cases (with impl outcome) vs driver output"""
import json, sys, collections
cases = [json.loads(l) for l in open(sys.argv[1])]
outs = {}
for l in open(sys.argv[2]):
    o = json.loads(l)
    outs[o.get("id")] = o
bad = 0
dist = collections.Counter()
for c in cases:
    o = outs.get(c["id"])
    if o is None or "driverError" in o:
        print("DRIVER", c["id"], o); bad += 1; continue
    dist[json.dumps(c["impl"] if "ok" not in c["impl"] or isinstance(c["impl"]["ok"], bool) else "ok-item")[:40]] += 1
    if o["model"] != c["impl"]:
        bad += 1
        if bad <= int(sys.argv[3]) if len(sys.argv) > 3 else 10:
            print("DIFF id", c["id"], c.get("text"))
            print("   impl ", json.dumps(c["impl"])[:400])
            print("   model", json.dumps(o["model"])[:400])
            print("   item ", json.dumps(c.get("item"))[:300], "names", c.get("names"), "values", json.dumps(c.get("values"))[:200])
print("cases", len(cases), "diffs", bad, dist.most_common(8))
