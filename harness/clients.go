package main

import (
	"context"
	"fmt"
	"strings"

	"github.com/aws/aws-sdk-go-v2/service/dynamodb"
	v2types "github.com/aws/aws-sdk-go-v2/service/dynamodb/types"
	v1sdk "github.com/aws/aws-sdk-go/service/dynamodb"
	v1 "github.com/truora/minidyn/aws-v1/client"
	v2 "github.com/truora/minidyn/aws-v2/client"
)

// The expression families call the interpreter directly. Here the same expression, item, names and values go through
// the two clients as well — PutItem, then a filtered Scan, a conditional PutItem and a conditional DeleteItem, or an
// UpdateItem followed by GetItem — so that the request mappers and the request handling around the interpreter are
// held to the interpreter's own answer.

const shadowKey = "zzpk"

func withShadowKey(item Item) Item {
	out := Item{{[]byte(shadowKey), S("k")}}
	for _, kv := range item {
		if string(kv.K) != shadowKey {
			out = append(out, kv)
		}
	}
	return out
}

// v2Norm: the v2 client hands an empty binary, list, map or set back as NULL (listed finding KF-C10-v2-empty-as-null)
func v2Norm(v AV) AV {
	switch v.T {
	case "B":
		if len(v.V) == 0 {
			return AV{T: "NULL"}
		}
	case "SS", "NS", "BS":
		if len(v.Set) == 0 {
			return AV{T: "NULL"}
		}
	case "L":
		if len(v.L) == 0 {
			return AV{T: "NULL"}
		}
		out := AV{T: "L", L: []AV{}}
		for _, e := range v.L {
			out.L = append(out.L, v2Norm(e))
		}
		return out
	case "M":
		if len(v.M) == 0 {
			return AV{T: "NULL"}
		}
		out := AV{T: "M", M: []KV{}}
		for _, kv := range v.M {
			out.M = append(out.M, KV{kv.K, v2Norm(kv.V)})
		}
		return out
	}
	return v
}

func v2NormItem(it Item) Item {
	out := Item{}
	for _, kv := range it {
		out = append(out, KV{kv.K, v2Norm(kv.V)})
	}
	return out
}

// clientsObject: the clients reject a request that supplies a name or a value no expression uses, before any evaluation
func clientsObject(expr string, names map[string]string, values map[string]AV) bool {
	for k := range names {
		if !strings.Contains(expr, k) {
			return true
		}
	}
	for k := range values {
		if !strings.Contains(expr, k) {
			return true
		}
	}
	return false
}

// letter: T (the condition held / the call succeeded), F (ConditionalCheckFailed / nothing selected), E (any other error)
func letterOf(o Outcome) string {
	if _, ok := o["crash"]; ok {
		return "CRASH"
	}
	if e, ok := o["err"]; ok {
		if e == "ConditionalCheckFailed" {
			return "F"
		}
		return "E"
	}
	if _, ok := o["panicErr"]; ok {
		return "E"
	}
	return "T"
}

func wantLetter(want Outcome) string {
	if b, ok := want["ok"].(bool); ok {
		if b {
			return "T"
		}
		return "F"
	}
	if _, ok := want["crash"]; ok {
		return "CRASH"
	}
	return "E"
}

func guard(f func() Outcome) (out Outcome) {
	defer func() {
		if r := recover(); r != nil {
			out = crashOutcome(r)
		}
	}()
	return f()
}

// both: hold the clients to the interpreter's verdict whatever it is; otherwise only to its rejections (the near misses of the
// grammar come with placeholders the clients may object to on their own account)
func clientsMatch(expr string, item Item, names map[string]string, values map[string]AV, want Outcome, both bool) (vs []pokeViolation) {
	if noImpl {
		return nil
	}
	wl := wantLetter(want)
	if wl == "CRASH" || (wl != "E" && clientsObject(expr, names, values)) {
		return nil
	}
	full := withShadowKey(item)
	key := Item{full[0]}
	nm := namesList(names)
	vl := valuesItem(values)
	ex := &Op{}
	ex.setExprs(names, values)
	_ = nm
	_ = vl
	check := func(sdk, what string, got Outcome) {
		gl := letterOf(got)
		if gl != wl && (both || (wl == "E" && gl != "E")) {
			vs = append(vs, pokeViolation{sdk + ":" + what, fmt.Sprintf("the interpreter answers %s for this condition on this item, %s through the %s client answers %s (%v)", wl, what, sdk, gl, got)})
		}
	}
	// ---- v1
	func() {
		c := v1.NewClient()
		if err := v1.AddTable(c, "shadow", shadowKey, ""); err != nil {
			vs = append(vs, pokeViolation{"v1:AddTable", err.Error()})
			return
		}
		tbl := "shadow"
		if po := guard(func() Outcome {
			if _, err := c.PutItem(&v1sdk.PutItemInput{TableName: &tbl, Item: toV1Item(full)}); err != nil {
				return errOutcomeV1(err)
			}
			return okOut()
		}); letterOf(po) != "T" {
			vs = append(vs, pokeViolation{"v1:PutItem", fmt.Sprintf("PutItem of the item through the v1 client fails: %v", po)})
			return
		}
		check("v1", "a filtered Scan", guard(func() Outcome {
			out, err := c.Scan(&v1sdk.ScanInput{TableName: &tbl, FilterExpression: &expr, ExpressionAttributeNames: v1Names(ex), ExpressionAttributeValues: v1Values(ex)})
			if err != nil {
				return errOutcomeV1(err)
			}
			if len(out.Items) == 0 {
				return Outcome{"err": "ConditionalCheckFailed"}
			}
			return okOut()
		}))
		check("v1", "a conditional PutItem", guard(func() Outcome {
			_, err := c.PutItem(&v1sdk.PutItemInput{TableName: &tbl, Item: toV1Item(full), ConditionExpression: &expr, ExpressionAttributeNames: v1Names(ex), ExpressionAttributeValues: v1Values(ex)})
			if err != nil {
				return errOutcomeV1(err)
			}
			return okOut()
		}))
		check("v1", "a conditional DeleteItem", guard(func() Outcome {
			_, err := c.DeleteItemWithContext(context.Background(), &v1sdk.DeleteItemInput{TableName: &tbl, Key: toV1Item(key), ConditionExpression: &expr, ExpressionAttributeNames: v1Names(ex), ExpressionAttributeValues: v1Values(ex)})
			if err != nil {
				return errOutcomeV1(err)
			}
			return okOut()
		}))
	}()
	// ---- v2
	func() {
		c := v2.NewClient()
		if err := v2.AddTable(ctx, c, "shadow", shadowKey, ""); err != nil {
			vs = append(vs, pokeViolation{"v2:AddTable", err.Error()})
			return
		}
		tbl := "shadow"
		if po := guard(func() Outcome {
			if _, err := c.PutItem(ctx, &dynamodb.PutItemInput{TableName: &tbl, Item: toV2Item(full)}); err != nil {
				return errOutcomeV2(err)
			}
			return okOut()
		}); letterOf(po) != "T" {
			vs = append(vs, pokeViolation{"v2:PutItem", fmt.Sprintf("PutItem of the item through the v2 client fails: %v", po)})
			return
		}
		check("v2", "a filtered Scan", guard(func() Outcome {
			out, err := c.Scan(ctx, &dynamodb.ScanInput{TableName: &tbl, FilterExpression: &expr, ExpressionAttributeNames: strMap(ex.names), ExpressionAttributeValues: v2Values(ex)})
			if err != nil {
				return errOutcomeV2(err)
			}
			if len(out.Items) == 0 {
				return Outcome{"err": "ConditionalCheckFailed"}
			}
			return okOut()
		}))
		check("v2", "a conditional PutItem", guard(func() Outcome {
			_, err := c.PutItem(ctx, &dynamodb.PutItemInput{TableName: &tbl, Item: toV2Item(full), ConditionExpression: &expr, ExpressionAttributeNames: strMap(ex.names), ExpressionAttributeValues: v2Values(ex)})
			if err != nil {
				return errOutcomeV2(err)
			}
			return okOut()
		}))
		check("v2", "a conditional DeleteItem", guard(func() Outcome {
			_, err := c.DeleteItem(ctx, &dynamodb.DeleteItemInput{TableName: &tbl, Key: toV2Item(key), ConditionExpression: &expr, ExpressionAttributeNames: strMap(ex.names), ExpressionAttributeValues: v2Values(ex)})
			if err != nil {
				return errOutcomeV2(err)
			}
			return okOut()
		}))
	}()
	return vs
}

func clientsUpdate(expr string, item Item, names map[string]string, values map[string]AV, want Outcome, both bool) (vs []pokeViolation) {
	if noImpl {
		return nil
	}
	if _, ok := want["crash"]; ok {
		return nil
	}
	if _, ok := want["ok"]; ok && clientsObject(expr, names, values) {
		return nil
	}
	full := withShadowKey(item)
	key := Item{full[0]}
	ex := &Op{}
	ex.setExprs(names, values)
	var wantItem Item
	wantOK := false
	if w, ok := want["ok"].(Item); ok {
		wantOK = true
		wantItem = withShadowKey(w)
	}
	judge := func(sdk string, got Outcome, ret, stored Item, norm func(Item) Item) {
		gl := letterOf(got)
		switch {
		case gl == "CRASH":
			vs = append(vs, pokeViolation{sdk + ":UpdateItem", fmt.Sprintf("runtime fault through the %s client: %v", sdk, got)})
		case wantOK && !both:
		case wantOK && gl != "T":
			vs = append(vs, pokeViolation{sdk + ":UpdateItem", fmt.Sprintf("the interpreter applies this update, UpdateItem through the %s client fails (%v)", sdk, got)})
		case !wantOK && gl == "T":
			vs = append(vs, pokeViolation{sdk + ":UpdateItem", fmt.Sprintf("the interpreter rejects this update, UpdateItem through the %s client applies it", sdk)})
		case wantOK:
			if !sameItem(norm(wantItem), ret) {
				vs = append(vs, pokeViolation{sdk + ":UpdateItem-result", fmt.Sprintf("the item returned by UpdateItem through the %s client is not the item the interpreter computes", sdk)})
			}
			if !sameItem(norm(wantItem), stored) {
				vs = append(vs, pokeViolation{sdk + ":UpdateItem-stored", fmt.Sprintf("GetItem after UpdateItem through the %s client does not return the item the interpreter computes", sdk)})
			}
		}
	}
	id := func(it Item) Item { return it }
	func() {
		c := v1.NewClient()
		if err := v1.AddTable(c, "shadow", shadowKey, ""); err != nil {
			vs = append(vs, pokeViolation{"v1:AddTable", err.Error()})
			return
		}
		tbl := "shadow"
		if po := guard(func() Outcome {
			if _, err := c.PutItem(&v1sdk.PutItemInput{TableName: &tbl, Item: toV1Item(full)}); err != nil {
				return errOutcomeV1(err)
			}
			return okOut()
		}); letterOf(po) != "T" {
			vs = append(vs, pokeViolation{"v1:PutItem", fmt.Sprintf("PutItem of the item through the v1 client fails: %v", po)})
			return
		}
		var ret, stored Item
		got := guard(func() Outcome {
			out, err := c.UpdateItemWithContext(context.Background(), &v1sdk.UpdateItemInput{TableName: &tbl, Key: toV1Item(key), UpdateExpression: &expr, ExpressionAttributeNames: v1Names(ex), ExpressionAttributeValues: v1Values(ex)})
			if err != nil {
				return errOutcomeV1(err)
			}
			ret = fromV1Item(out.Attributes)
			g, err := c.GetItem(&v1sdk.GetItemInput{TableName: &tbl, Key: toV1Item(key)})
			if err != nil {
				return errOutcomeV1(err)
			}
			stored = fromV1Item(g.Item)
			return okOut()
		})
		judge("v1", got, ret, stored, id)
	}()
	func() {
		c := v2.NewClient()
		if err := v2.AddTable(ctx, c, "shadow", shadowKey, ""); err != nil {
			vs = append(vs, pokeViolation{"v2:AddTable", err.Error()})
			return
		}
		tbl := "shadow"
		if po := guard(func() Outcome {
			if _, err := c.PutItem(ctx, &dynamodb.PutItemInput{TableName: &tbl, Item: toV2Item(full)}); err != nil {
				return errOutcomeV2(err)
			}
			return okOut()
		}); letterOf(po) != "T" {
			vs = append(vs, pokeViolation{"v2:PutItem", fmt.Sprintf("PutItem of the item through the v2 client fails: %v", po)})
			return
		}
		var ret, stored Item
		got := guard(func() Outcome {
			out, err := c.UpdateItem(ctx, &dynamodb.UpdateItemInput{TableName: &tbl, Key: toV2Item(key), UpdateExpression: &expr, ExpressionAttributeNames: strMap(ex.names), ExpressionAttributeValues: v2Values(ex)})
			if err != nil {
				return errOutcomeV2(err)
			}
			ret = fromV2Item(out.Attributes)
			g, err := c.GetItem(ctx, &dynamodb.GetItemInput{TableName: &tbl, Key: toV2Item(key)})
			if err != nil {
				return errOutcomeV2(err)
			}
			stored = fromV2Item(g.Item)
			return okOut()
		})
		judge("v2", got, ret, stored, v2NormItem)
	}()
	return vs
}

var _ = v2types.ReturnValueAllNew
