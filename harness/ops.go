package main

import (
	"encoding/json"
)

// ---------- abstract operations (wire format shared with the Lean driver) ----------

type HexS string // a byte string, hex on the wire

func H(s string) HexS { return HexS(s) }

func (h HexS) MarshalJSON() ([]byte, error) { return json.Marshal(hx([]byte(h))) }

type KeyDef struct {
	Hash  [2]HexS  `json:"hash"`
	Range *[2]HexS `json:"range"`
}

type IndexDef struct {
	Name HexS   `json:"name"`
	Key  KeyDef `json:"key"`
	TP   bool   `json:"tp"`
	// NoDefs: the request carries no attribute definitions for this index (UpdateTable only): the table must know them already
	NoDefs bool `json:"noDefs,omitempty"`
}

type IndexChange struct {
	Create *IndexDef `json:"create,omitempty"`
	Delete *HexS     `json:"delete,omitempty"`
}

type WReq struct {
	Put     Item     `json:"put,omitempty"`
	Del     Item     `json:"del,omitempty"`
	Both    *[2]Item `json:"both,omitempty"`
	Neither bool     `json:"neither,omitempty"`
}

type TableReqs struct {
	Table HexS
	Reqs  []WReq
}

func (t TableReqs) MarshalJSON() ([]byte, error) {
	return json.Marshal([2]interface{}{t.Table, t.Reqs})
}

type TableKeys struct {
	Table HexS
	Keys  []Item
}

func (t TableKeys) MarshalJSON() ([]byte, error) {
	k := t.Keys
	if k == nil {
		k = []Item{}
	}
	return json.Marshal([2]interface{}{t.Table, k})
}

type Op struct {
	// EmptyStart: a read without start key sends an empty ExclusiveStartKey map instead of none
	EmptyStart bool `json:"emptyStart,omitempty"`
	// RetOther: the ReturnValues of a DeleteItem that does not ask for the old item (NONE, or a value the operation has no use for)
	RetOther string `json:"retOther,omitempty"`
	// Cancelled: the v2 call gets a context that is already cancelled (the fake never looks at it)
	Cancelled bool `json:"cancelled,omitempty"`
	Op    string `json:"op"`
	Table HexS   `json:"table"`
	// createTable
	Key *KeyDef     `json:"key,omitempty"`
	GSI *[]IndexDef `json:"gsi"`
	LSI *[]IndexDef `json:"lsi"`
	PPR bool        `json:"ppr"`
	TP  bool        `json:"tp"`
	// updateTable
	Changes []IndexChange `json:"changes,omitempty"`
	// items and expressions
	Item      Item         `json:"item,omitempty"`
	KeyItem   Item         `json:"keyItem,omitempty"`
	Expr      HexS         `json:"expr"`
	Cond      *HexS        `json:"cond"`
	Names     [][2]string  `json:"names"`
	Values    Item         `json:"values"`
	RetOnFail bool         `json:"retOnFail"`
	RetOld    bool         `json:"retOld"`
	// query / scan / pages
	Index    HexS `json:"index"`
	Limit    int  `json:"limit"`
	StartKey Item `json:"startKey"`
	KeyCond  HexS `json:"keyCond"`
	Filter   HexS `json:"filter"`
	Forward  bool `json:"forward"`
	Scan     bool `json:"scan"`
	DelAfter *int `json:"delAfter"`
	MaxPages int  `json:"maxPages"`
	// batch
	WReqs []TableReqs `json:"wreqs,omitempty"`
	GReqs []TableKeys `json:"greqs,omitempty"`
	// failure, native
	F    string `json:"f,omitempty"`
	Kind string `json:"kind,omitempty"`
	ID   int    `json:"id"`

	// the specification's view of the expressions (absent for garbage and native texts)
	CondTree   *Cond `json:"condTree,omitempty"`
	KeyTree    *Cond `json:"keyTree,omitempty"`
	BadKeyCond string `json:"badKeyCond,omitempty"` // class of a condition that is no key condition
	// texts that are no sentences of the grammar (taken from garbageExprs): the request must be rejected
	GarbageKey    bool `json:"garbageKey,omitempty"`
	GarbageFilter bool `json:"garbageFilter,omitempty"`
	GarbageCond   bool `json:"garbageCond,omitempty"`
	GarbageUpdate bool `json:"garbageUpdate,omitempty"`
	// an UpdateTable whose attribute definitions give a key attribute in use another type: must be rejected
	Retype bool `json:"retype,omitempty"`
	// an UpdateItem without UpdateExpression (a nil pointer in the request)
	NoExpr bool `json:"noExpr,omitempty"`
	// setFailure through the older helpers ActiveForceFailure / DeactiveForceFailure (same effect as EmulateFailure)
	Legacy bool `json:"legacy,omitempty"`
	FilterTree *Cond `json:"filterTree,omitempty"`

	// not on the wire: placeholders as Go maps
	names   map[string]string
	values  map[string]AV
	pkAttrs []string // primary key attribute names of the table (for pages/delAfter)
}

func (o *Op) setExprs(names map[string]string, values map[string]AV) {
	o.names, o.values = names, values
	o.Names = namesList(names)
	o.Values = valuesItem(values)
}

// ---------- canonical outcomes ----------

type IndexDescOut struct {
	Name   HexS      `json:"name"`
	Count  int64     `json:"count"`
	Schema [][2]HexS `json:"schema"`
}

type DescOut struct {
	Count  int64          `json:"count"`
	Schema [][2]HexS      `json:"schema"`
	GSI    []IndexDescOut `json:"gsi"`
	LSI    []IndexDescOut `json:"lsi"`
}

type SearchOut struct {
	Items []Item `json:"items"`
	Count int64  `json:"count"`
	LEK   Item   `json:"lek"`
}

type PageOut struct {
	Items []Item `json:"items"`
	LEK   Item   `json:"lek"`
}

func okOut() Outcome { return Outcome{"ok": true} }

func itemOrEmpty(it Item) Item {
	if it == nil {
		return Item{}
	}
	return it
}


// viaHelper: a CreateTable request that the AddTable helper of the client packages builds as well (string keys, no
// indexes, pay per request, a throughput): half of those go through the helper
func viaHelper(o *Op) bool {
	if o.Key == nil || o.Key.Hash[1] != "S" || (o.Key.Range != nil && o.Key.Range[1] != "S") || o.GSI != nil || o.LSI != nil || !o.PPR || !o.TP {
		return false
	}
	return len(o.Table)%2 == 0 || len(o.Key.Hash[0])%2 == 0
}

// indexViaHelper: an UpdateTable request that the AddIndex helper builds as well (one index, string keys, definitions sent, no throughput)
func indexViaHelper(o *Op) *IndexDef {
	if len(o.Changes) != 1 || o.Changes[0].Create == nil {
		return nil
	}
	d := o.Changes[0].Create
	if d.TP || d.NoDefs || d.Key.Hash[1] != "S" || (d.Key.Range != nil && d.Key.Range[1] != "S") {
		return nil
	}
	return d
}
