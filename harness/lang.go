package main

import (
	"errors"
	"fmt"

	"github.com/truora/minidyn/interpreter"
	"github.com/truora/minidyn/types"
)

// Outcome is the canonical result of one call.
type Outcome map[string]interface{}

func errClass(err error) string {
	switch {
	case errors.Is(err, interpreter.ErrSyntaxError):
		return "Syntax"
	case errors.Is(err, interpreter.ErrUnsupportedFeature):
		return "Unsupported"
	}
	return "Other:" + err.Error()
}

func crashOutcome(r interface{}) Outcome {
	if e, ok := r.(error); ok {
		if errors.Is(e, interpreter.ErrSyntaxError) {
			return Outcome{"panicErr": "Syntax"}
		}
		if errors.Is(e, interpreter.ErrUnsupportedFeature) {
			return Outcome{"panicErr": "Unsupported"}
		}
	}
	s := fmt.Sprint(r)
	if len(s) > 120 {
		s = s[:120]
	}
	return Outcome{"crash": s}
}

func strMap(names map[string]string) map[string]string {
	if names == nil {
		return nil
	}
	out := map[string]string{}
	for k, v := range names {
		out[k] = v
	}
	return out
}

func runMatch(expr string, item Item, names map[string]string, values map[string]AV) (out Outcome) {
	if noImpl {
		return Outcome{"skipped": true}
	}
	if skipThis() {
		return fatalOutcome()
	}
	defer func() {
		if r := recover(); r != nil {
			out = crashOutcome(r)
		}
	}()
	li := interpreter.Language{}
	vals := map[string]*types.Item{}
	for k, v := range values {
		vals[k] = toTypes(v)
	}
	res, err := li.Match(interpreter.MatchInput{TableName: "t", Expression: expr, ExpressionType: interpreter.ExpressionTypeFilter,
		Item: toTypesItem(item), Attributes: vals, Aliases: strMap(names)})
	if err != nil {
		return Outcome{"err": errClass(err)}
	}
	return Outcome{"ok": res}
}

func runUpdate(expr string, item Item, names map[string]string, values map[string]AV) (out Outcome) {
	if noImpl {
		return Outcome{"skipped": true}
	}
	if skipThis() {
		return fatalOutcome()
	}
	defer func() {
		if r := recover(); r != nil {
			out = crashOutcome(r)
		}
	}()
	li := interpreter.Language{}
	vals := map[string]*types.Item{}
	for k, v := range values {
		vals[k] = toTypes(v)
	}
	it := toTypesItem(item)
	err := li.Update(interpreter.UpdateInput{TableName: "t", Expression: expr, Item: it, Attributes: vals, Aliases: strMap(names)})
	if err != nil {
		return Outcome{"err": errClass(err)}
	}
	return Outcome{"ok": fromTypesItem(it)}
}
