package main

import (
	"fmt"

	"github.com/aws/aws-sdk-go-v2/service/dynamodb"
	v2types "github.com/aws/aws-sdk-go-v2/service/dynamodb/types"
	v1sdk "github.com/aws/aws-sdk-go/service/dynamodb"
	v1 "github.com/truora/minidyn/aws-v1/client"
	v2 "github.com/truora/minidyn/aws-v2/client"
)

// ---------- C14: write through every mutable location the caller can reach ----------

func scribbleV1(av *v1sdk.AttributeValue) {
	if av == nil {
		return
	}
	if av.S != nil {
		*av.S = "POKED"
	}
	if av.N != nil {
		*av.N = "424242"
	}
	if av.BOOL != nil {
		*av.BOOL = !*av.BOOL
	}
	if av.NULL != nil {
		*av.NULL = !*av.NULL
	}
	for i := range av.B {
		av.B[i] ^= 0xFF
	}
	for _, b := range av.BS {
		for i := range b {
			b[i] ^= 0xFF
		}
	}
	for _, s := range av.SS {
		if s != nil {
			*s = "POKED"
		}
	}
	for _, s := range av.NS {
		if s != nil {
			*s = "424242"
		}
	}
	for i, e := range av.L {
		scribbleV1(e)
		x := "REPLACED"
		av.L[i] = &v1sdk.AttributeValue{S: &x}
	}
	for k, e := range av.M {
		scribbleV1(e)
		delete(av.M, k)
	}
	if av.M != nil {
		x := "ADDED"
		av.M["poked"] = &v1sdk.AttributeValue{S: &x}
	}
}

func scribbleV1Item(m map[string]*v1sdk.AttributeValue) {
	for k, v := range m {
		scribbleV1(v)
		if k != "h" {
			delete(m, k)
		}
	}
	x := "ADDED"
	m["poked"] = &v1sdk.AttributeValue{S: &x}
}

func scribbleV2(av v2types.AttributeValue) {
	switch x := av.(type) {
	case *v2types.AttributeValueMemberS:
		x.Value = "POKED"
	case *v2types.AttributeValueMemberN:
		x.Value = "424242"
	case *v2types.AttributeValueMemberBOOL:
		x.Value = !x.Value
	case *v2types.AttributeValueMemberNULL:
		x.Value = !x.Value
	case *v2types.AttributeValueMemberB:
		for i := range x.Value {
			x.Value[i] ^= 0xFF
		}
	case *v2types.AttributeValueMemberBS:
		for _, b := range x.Value {
			for i := range b {
				b[i] ^= 0xFF
			}
		}
	case *v2types.AttributeValueMemberSS:
		for i := range x.Value {
			x.Value[i] = "POKED"
		}
	case *v2types.AttributeValueMemberNS:
		for i := range x.Value {
			x.Value[i] = "424242"
		}
	case *v2types.AttributeValueMemberL:
		for i, e := range x.Value {
			scribbleV2(e)
			x.Value[i] = &v2types.AttributeValueMemberS{Value: "REPLACED"}
		}
	case *v2types.AttributeValueMemberM:
		for k, e := range x.Value {
			scribbleV2(e)
			delete(x.Value, k)
		}
		x.Value["poked"] = &v2types.AttributeValueMemberS{Value: "ADDED"}
	}
}

func scribbleV2Item(m map[string]v2types.AttributeValue) {
	for k, v := range m {
		scribbleV2(v)
		if k != "h" {
			delete(m, k)
		}
	}
	m["poked"] = &v2types.AttributeValueMemberS{Value: "ADDED"}
}

func sameItem(a, b Item) bool {
	x, _ := canonItem(a).MarshalJSON()
	y, _ := canonItem(b).MarshalJSON()
	return string(x) == string(y)
}

type pokeViolation struct {
	Where string `json:"where"`
	What  string `json:"what"`
}

func pokeV1(item Item) (vs []pokeViolation) {
	defer func() {
		if r := recover(); r != nil {
			vs = append(vs, pokeViolation{"v1:crash", fmt.Sprint(r)})
		}
	}()
	c := v1.NewClient()
	if err := v1.AddTable(c, "tbl", "h", ""); err != nil {
		return []pokeViolation{{"v1:setup", err.Error()}}
	}
	tbl := "tbl"
	key := func() map[string]*v1sdk.AttributeValue { return toV1Item(Item{item[0]}) }
	get := func() Item {
		o, err := c.GetItem(&v1sdk.GetItemInput{TableName: &tbl, Key: key()})
		if err != nil {
			return Item{{[]byte("error"), S(err.Error())}}
		}
		return fromV1Item(o.Item)
	}
	// (i) the input of a write
	in := toV1Item(item)
	if _, err := c.PutItem(&v1sdk.PutItemInput{TableName: &tbl, Item: in}); err != nil {
		return []pokeViolation{{"v1:put", err.Error()}}
	}
	stored := get()
	scribbleV1Item(in)
	if !sameItem(get(), stored) {
		vs = append(vs, pokeViolation{"v1:input-of-PutItem", "modifying the structure passed to PutItem changed what GetItem returns"})
	}
	// (ii) the output of every read
	o1, _ := c.GetItem(&v1sdk.GetItemInput{TableName: &tbl, Key: key()})
	scribbleV1Item(o1.Item)
	if !sameItem(get(), stored) {
		vs = append(vs, pokeViolation{"v1:output-of-GetItem", "modifying the item returned by GetItem changed the stored item"})
	}
	sc, _ := c.Scan(&v1sdk.ScanInput{TableName: &tbl})
	for _, it := range sc.Items {
		scribbleV1Item(it)
	}
	if !sameItem(get(), stored) {
		vs = append(vs, pokeViolation{"v1:output-of-Scan", "modifying the items returned by Scan changed the stored item"})
	}
	expr, hv := "h = :h", ":h"
	q, err := c.Query(&v1sdk.QueryInput{TableName: &tbl, KeyConditionExpression: &expr, ExpressionAttributeValues: map[string]*v1sdk.AttributeValue{hv: toV1(item[0].V)}})
	if err == nil {
		for _, it := range q.Items {
			scribbleV1Item(it)
		}
	}
	if !sameItem(get(), stored) {
		vs = append(vs, pokeViolation{"v1:output-of-Query", "modifying the items returned by Query changed the stored item"})
	}
	// (iii) an update's input values and output
	ue := "SET upd = :u"
	uvals := map[string]*v1sdk.AttributeValue{":u": toV1(AV{T: "L", L: []AV{S("u1"), {T: "B", V: []byte("bin")}, {T: "BOOL", Bool: true}}})}
	uo, err := c.UpdateItem(&v1sdk.UpdateItemInput{TableName: &tbl, Key: key(), UpdateExpression: &ue, ExpressionAttributeValues: uvals})
	if err == nil {
		stored = get()
		scribbleV1(uvals[":u"])
		if !sameItem(get(), stored) {
			vs = append(vs, pokeViolation{"v1:values-of-UpdateItem", "modifying the expression attribute values after UpdateItem changed the stored item"})
		}
		scribbleV1Item(uo.Attributes)
		if !sameItem(get(), stored) {
			vs = append(vs, pokeViolation{"v1:output-of-UpdateItem", "modifying the attributes returned by UpdateItem changed the stored item"})
		}
	}
	// (iv) a result already returned is not changed by a later write
	before, _ := c.GetItem(&v1sdk.GetItemInput{TableName: &tbl, Key: key()})
	snap := fromV1Item(before.Item)
	ue2 := "SET upd = :u, later = :u REMOVE x0"
	c.UpdateItem(&v1sdk.UpdateItemInput{TableName: &tbl, Key: key(), UpdateExpression: &ue2, ExpressionAttributeValues: map[string]*v1sdk.AttributeValue{":u": toV1(S("changed"))}})
	c.PutItem(&v1sdk.PutItemInput{TableName: &tbl, Item: toV1Item(Item{item[0], {[]byte("only"), S("this")}})})
	if !sameItem(fromV1Item(before.Item), snap) {
		vs = append(vs, pokeViolation{"v1:result-changed-by-later-write", "an item returned by GetItem changed when the stored item was written again"})
	}
	// (v) the old item returned by a delete
	del := "ALL_OLD"
	do, err := c.DeleteItem(&v1sdk.DeleteItemInput{TableName: &tbl, Key: key(), ReturnValues: &del})
	if err == nil {
		c.PutItem(&v1sdk.PutItemInput{TableName: &tbl, Item: toV1Item(item)})
		stored = get()
		scribbleV1Item(do.Attributes)
		if !sameItem(get(), stored) {
			vs = append(vs, pokeViolation{"v1:output-of-DeleteItem", "modifying the old item returned by DeleteItem changed the stored item"})
		}
	}
	// (vi) the input of a batch write, and what a failing database hands back as unprocessed
	bin := toV1Item(item)
	if _, err := c.BatchWriteItem(&v1sdk.BatchWriteItemInput{RequestItems: map[string][]*v1sdk.WriteRequest{tbl: {{PutRequest: &v1sdk.PutRequest{Item: bin}}}}}); err == nil {
		stored = get()
		scribbleV1Item(bin)
		if !sameItem(get(), stored) {
			vs = append(vs, pokeViolation{"v1:input-of-BatchWriteItem", "modifying the item passed to BatchWriteItem changed what GetItem returns"})
		}
	}
	return vs
}

func pokeV2(item Item) (vs []pokeViolation) {
	defer func() {
		if r := recover(); r != nil {
			vs = append(vs, pokeViolation{"v2:crash", fmt.Sprint(r)})
		}
	}()
	c := v2.NewClient()
	if err := v2.AddTable(ctx, c, "tbl", "h", ""); err != nil {
		return []pokeViolation{{"v2:setup", err.Error()}}
	}
	tbl := "tbl"
	key := func() map[string]v2types.AttributeValue { return toV2Item(Item{item[0]}) }
	get := func() Item {
		o, err := c.GetItem(ctx, &dynamodb.GetItemInput{TableName: &tbl, Key: key()})
		if err != nil {
			return Item{{[]byte("error"), S(err.Error())}}
		}
		return fromV2Item(o.Item)
	}
	in := toV2Item(item)
	if _, err := c.PutItem(ctx, &dynamodb.PutItemInput{TableName: &tbl, Item: in}); err != nil {
		return []pokeViolation{{"v2:put", err.Error()}}
	}
	stored := get()
	scribbleV2Item(in)
	if !sameItem(get(), stored) {
		vs = append(vs, pokeViolation{"v2:input-of-PutItem", "modifying the structure passed to PutItem changed what GetItem returns"})
	}
	o1, _ := c.GetItem(ctx, &dynamodb.GetItemInput{TableName: &tbl, Key: key()})
	scribbleV2Item(o1.Item)
	if !sameItem(get(), stored) {
		vs = append(vs, pokeViolation{"v2:output-of-GetItem", "modifying the item returned by GetItem changed the stored item"})
	}
	sc, _ := c.Scan(ctx, &dynamodb.ScanInput{TableName: &tbl})
	for _, it := range sc.Items {
		scribbleV2Item(it)
	}
	if !sameItem(get(), stored) {
		vs = append(vs, pokeViolation{"v2:output-of-Scan", "modifying the items returned by Scan changed the stored item"})
	}
	expr := "h = :h"
	q, err := c.Query(ctx, &dynamodb.QueryInput{TableName: &tbl, KeyConditionExpression: &expr, ExpressionAttributeValues: map[string]v2types.AttributeValue{":h": toV2(item[0].V)}})
	if err == nil {
		for _, it := range q.Items {
			scribbleV2Item(it)
		}
	}
	if !sameItem(get(), stored) {
		vs = append(vs, pokeViolation{"v2:output-of-Query", "modifying the items returned by Query changed the stored item"})
	}
	bg, err := c.BatchGetItem(ctx, &dynamodb.BatchGetItemInput{RequestItems: map[string]v2types.KeysAndAttributes{tbl: {Keys: []map[string]v2types.AttributeValue{key()}}}})
	if err == nil {
		for _, it := range bg.Responses[tbl] {
			scribbleV2Item(it)
		}
	}
	if !sameItem(get(), stored) {
		vs = append(vs, pokeViolation{"v2:output-of-BatchGetItem", "modifying the items returned by BatchGetItem changed the stored item"})
	}
	ue := "SET upd = :u"
	uvals := map[string]v2types.AttributeValue{":u": toV2(AV{T: "L", L: []AV{S("u1"), {T: "B", V: []byte("bin")}, {T: "BOOL", Bool: true}}})}
	uo, err := c.UpdateItem(ctx, &dynamodb.UpdateItemInput{TableName: &tbl, Key: key(), UpdateExpression: &ue, ExpressionAttributeValues: uvals})
	if err == nil {
		stored = get()
		scribbleV2(uvals[":u"])
		if !sameItem(get(), stored) {
			vs = append(vs, pokeViolation{"v2:values-of-UpdateItem", "modifying the expression attribute values after UpdateItem changed the stored item"})
		}
		scribbleV2Item(uo.Attributes)
		if !sameItem(get(), stored) {
			vs = append(vs, pokeViolation{"v2:output-of-UpdateItem", "modifying the attributes returned by UpdateItem changed the stored item"})
		}
	}
	before, _ := c.GetItem(ctx, &dynamodb.GetItemInput{TableName: &tbl, Key: key()})
	snap := fromV2Item(before.Item)
	ue2 := "SET upd = :u, later = :u REMOVE x0"
	c.UpdateItem(ctx, &dynamodb.UpdateItemInput{TableName: &tbl, Key: key(), UpdateExpression: &ue2, ExpressionAttributeValues: map[string]v2types.AttributeValue{":u": toV2(S("changed"))}})
	c.PutItem(ctx, &dynamodb.PutItemInput{TableName: &tbl, Item: toV2Item(Item{item[0], {[]byte("only"), S("this")}})})
	if !sameItem(fromV2Item(before.Item), snap) {
		vs = append(vs, pokeViolation{"v2:result-changed-by-later-write", "an item returned by GetItem changed when the stored item was written again"})
	}
	// the condition-failure item
	cond := "attribute_not_exists(h)"
	ue3 := "SET z = :u"
	_, err = c.UpdateItem(ctx, &dynamodb.UpdateItemInput{TableName: &tbl, Key: key(), UpdateExpression: &ue3, ConditionExpression: &cond,
		ExpressionAttributeValues: map[string]v2types.AttributeValue{":u": toV2(S("z"))}, ReturnValuesOnConditionCheckFailure: v2types.ReturnValuesOnConditionCheckFailureAllOld})
	var ccf *v2types.ConditionalCheckFailedException
	if err != nil && asCCF(err, &ccf) && ccf.Item != nil {
		stored = get()
		scribbleV2Item(ccf.Item)
		if !sameItem(get(), stored) {
			vs = append(vs, pokeViolation{"v2:item-of-ConditionalCheckFailed", "modifying the item carried by the condition failure changed the stored item"})
		}
	}
	// the input of a batch write
	bin := toV2Item(item)
	if _, err := c.BatchWriteItem(ctx, &dynamodb.BatchWriteItemInput{RequestItems: map[string][]v2types.WriteRequest{tbl: {{PutRequest: &v2types.PutRequest{Item: bin}}}}}); err == nil {
		stored = get()
		scribbleV2Item(bin)
		if !sameItem(get(), stored) {
			vs = append(vs, pokeViolation{"v2:input-of-BatchWriteItem", "modifying the item passed to BatchWriteItem changed what GetItem returns"})
		}
	}
	return vs
}

func genPokeCases(r *Rng, n int) {
	for i := 0; i < n; i++ {
		cr := r.Fork()
		o := ValOpts{ExactNums: true, AllowEmpty: false, MaxDepth: 3}
		item := Item{{[]byte("h"), S(fmt.Sprintf("k%d", i))}}
		for j := 0; j < 2+cr.Intn(5); j++ {
			item = append(item, KV{[]byte(fmt.Sprintf("x%d", j)), genVal(cr, 0, o)})
		}
		// one attribute of every type, so that every kind of location is exercised
		for _, t := range allTypes {
			if cr.Chance(60) {
				item = append(item, KV{[]byte("t" + t), genOfType(cr, t, 0, o)})
			}
		}
		vs := append(pokeV1(item), pokeV2(item)...)
		// the table definition: with and without a range key and a local index, every projection type
		ptype := pick(cr, []string{"ALL", "KEYS_ONLY", "INCLUDE"})
		nonKey := []string{}
		if ptype == "INCLUDE" {
			for j := 0; j < 1+cr.Intn(3); j++ {
				nonKey = append(nonKey, fmt.Sprintf("nk%d", j))
			}
		}
		wr := cr.Chance(50)
		vs = append(vs, pokeMetaV1(wr, ptype, nonKey)...)
		vs = append(vs, pokeMetaV2(wr, ptype, nonKey)...)
		// the keys of requests, for every key type
		kt := []string{"S", "N", "B"}[i%3]
		vs = append(vs, pokeKeyV1(kt, i)...)
		vs = append(vs, pokeKeyV2(kt, i)...)
		if vs == nil {
			vs = []pokeViolation{}
		}
		emit(Case{"kind": "poke", "item": item, "impl": Outcome{"violations": vs}})
	}
}
