// Package race is the dynamic part of C11: pairs of client methods run concurrently on one
// client under the Go race detector, plus the two atomicity litmus tests of the property
// (N concurrent ADD 1 yield N; exactly one of N racing attribute_not_exists puts succeeds).
// It supports the search for a failing schedule; the property is decided by the lock
// discipline theorems (Minidyn.Tie.Locks, Minidyn.Props.C11).
package race

import (
	"context"
	"fmt"
	"os"
	"strconv"
	"sync"
	"testing"
	"time"

	"github.com/aws/aws-sdk-go-v2/aws"
	"github.com/aws/aws-sdk-go-v2/service/dynamodb"
	v2types "github.com/aws/aws-sdk-go-v2/service/dynamodb/types"
	v1sdk "github.com/aws/aws-sdk-go/service/dynamodb"
	v1 "github.com/truora/minidyn/aws-v1/client"
	v2 "github.com/truora/minidyn/aws-v2/client"
	"github.com/truora/minidyn/interpreter"
)

var ctx = context.Background()

func rounds() int {
	if n, err := strconv.Atoi(os.Getenv("VERIF_RACE_ROUNDS")); err == nil && n > 0 {
		return n
	}
	return 30
}

func s2(v string) v2types.AttributeValue { return &v2types.AttributeValueMemberS{Value: v} }
func n2(v string) v2types.AttributeValue { return &v2types.AttributeValueMemberN{Value: v} }

type v2op struct {
	name string
	f    func(c *v2.Client, g, i int)
}

func v2ops() []v2op {
	return []v2op{
		{"PutItem", func(c *v2.Client, g, i int) {
			c.PutItem(ctx, &dynamodb.PutItemInput{TableName: aws.String("base"), Item: map[string]v2types.AttributeValue{"h": s2(fmt.Sprint(g, i)), "g": s2("x")}})
		}},
		{"GetItem", func(c *v2.Client, g, i int) {
			c.GetItem(ctx, &dynamodb.GetItemInput{TableName: aws.String("base"), Key: map[string]v2types.AttributeValue{"h": s2(fmt.Sprint(g, i))}})
		}},
		{"UpdateItem", func(c *v2.Client, g, i int) {
			c.UpdateItem(ctx, &dynamodb.UpdateItemInput{TableName: aws.String("base"), Key: map[string]v2types.AttributeValue{"h": s2("ctr")},
				UpdateExpression: aws.String("ADD n :one"), ExpressionAttributeValues: map[string]v2types.AttributeValue{":one": n2("1")}})
		}},
		{"DeleteItem", func(c *v2.Client, g, i int) {
			c.DeleteItem(ctx, &dynamodb.DeleteItemInput{TableName: aws.String("base"), Key: map[string]v2types.AttributeValue{"h": s2(fmt.Sprint(g, i))}})
		}},
		{"Query", func(c *v2.Client, g, i int) {
			c.Query(ctx, &dynamodb.QueryInput{TableName: aws.String("base"), KeyConditionExpression: aws.String("h = :h"), ExpressionAttributeValues: map[string]v2types.AttributeValue{":h": s2("ctr")}})
		}},
		{"QueryIndex", func(c *v2.Client, g, i int) {
			c.Query(ctx, &dynamodb.QueryInput{TableName: aws.String("base"), IndexName: aws.String("idx"), KeyConditionExpression: aws.String("g = :g"), ExpressionAttributeValues: map[string]v2types.AttributeValue{":g": s2("x")}})
		}},
		{"Scan", func(c *v2.Client, g, i int) {
			c.Scan(ctx, &dynamodb.ScanInput{TableName: aws.String("base"), IndexName: aws.String("idx")})
		}},
		{"BatchWriteItem", func(c *v2.Client, g, i int) {
			c.BatchWriteItem(ctx, &dynamodb.BatchWriteItemInput{RequestItems: map[string][]v2types.WriteRequest{"base": {{PutRequest: &v2types.PutRequest{Item: map[string]v2types.AttributeValue{"h": s2(fmt.Sprint("b", g, i))}}}}}})
		}},
		{"BatchGetItem", func(c *v2.Client, g, i int) {
			c.BatchGetItem(ctx, &dynamodb.BatchGetItemInput{RequestItems: map[string]v2types.KeysAndAttributes{"base": {Keys: []map[string]v2types.AttributeValue{{"h": s2("ctr")}}}}})
		}},
		{"TransactWriteItems", func(c *v2.Client, g, i int) { c.TransactWriteItems(ctx, &dynamodb.TransactWriteItemsInput{}) }},
		{"CreateDeleteTable", func(c *v2.Client, g, i int) {
			name := fmt.Sprintf("t%d_%d", g, i)
			v2.AddTable(ctx, c, name, "h", "r")
			v2.AddIndex(ctx, c, name, "ix", "g", "")
			c.DescribeTable(ctx, &dynamodb.DescribeTableInput{TableName: aws.String(name)})
			v2.ClearTable(c, name)
			c.DeleteTable(ctx, &dynamodb.DeleteTableInput{TableName: aws.String(name)})
		}},
		{"DescribeTable", func(c *v2.Client, g, i int) { c.DescribeTable(ctx, &dynamodb.DescribeTableInput{TableName: aws.String("base")}) }},
		{"UpdateTable", func(c *v2.Client, g, i int) {
			v2.AddIndex(ctx, c, "base", fmt.Sprintf("ix%d", g), "g", "")
		}},
		{"ClearOther", func(c *v2.Client, g, i int) { v2.ClearTable(c, "other") }},
		// the helper on the table every other operation works on
		{"ClearBase", func(c *v2.Client, g, i int) {
			if i%2 == 0 {
				v2.ClearTable(c, "base")
			}
		}},
		{"Failure", func(c *v2.Client, g, i int) {
			v2.EmulateFailure(c, v2.FailureConditionInternalServerError)
			v2.EmulateFailure(c, v2.FailureConditionNone)
		}},
		{"Native", func(c *v2.Client, g, i int) {
			c.ActivateDebug()
			_ = c.GetNativeInterpreter()
			c.SetInterpreter(interpreter.NewNativeInterpreter())
		}},
	}
}

func newV2(t *testing.T) *v2.Client {
	c := v2.NewClient()
	for _, n := range []string{"base", "other"} {
		if err := v2.AddTable(ctx, c, n, "h", ""); err != nil {
			t.Fatal(err)
		}
	}
	if err := v2.AddIndex(ctx, c, "base", "idx", "g", ""); err != nil {
		t.Fatal(err)
	}
	return c
}

func runPair(t *testing.T, name string, body func(done func())) {
	finished := make(chan struct{})
	go func() { body(func() {}); close(finished) }()
	select {
	case <-finished:
	case <-time.After(10 * time.Minute): // a deadlock hangs for ever; a loaded machine is merely slow
		t.Fatalf("DEADLOCK-OR-HANG pair=%s", name)
	}
}

// every ordered pair of method classes, two goroutines each, on one shared v2 client
func TestPairsV2(t *testing.T) {
	ops := v2ops()
	for a := range ops {
		for b := a; b < len(ops); b++ {
			name := ops[a].name + "||" + ops[b].name
			c := newV2(t)
			runPair(t, name, func(func()) {
				var wg sync.WaitGroup
				for g := 0; g < 4; g++ {
					wg.Add(1)
					go func(g int) {
						defer wg.Done()
						defer func() {
							if r := recover(); r != nil {
								// documented panics carry an interpreter error; anything else is reported
								if _, ok := r.(error); !ok {
									t.Errorf("PANIC pair=%s: %v", name, r)
								}
							}
						}()
						op := ops[a]
						if g%2 == 1 {
							op = ops[b]
						}
						for i := 0; i < rounds(); i++ {
							op.f(c, g, i)
						}
					}(g)
				}
				wg.Wait()
			})
		}
	}
}

// the same for the v1 client on a representative subset
func TestPairsV1(t *testing.T) {
	c := v1.NewClient()
	v1.AddTable(c, "base", "h", "")
	v1.AddIndex(c, "base", "idx", "g", "")
	ops := []func(g, i int){
		func(g, i int) {
			c.PutItem(&v1sdk.PutItemInput{TableName: aws.String("base"), Item: map[string]*v1sdk.AttributeValue{"h": {S: aws.String(fmt.Sprint(g, i))}, "g": {S: aws.String("x")}}})
		},
		func(g, i int) {
			c.UpdateItem(&v1sdk.UpdateItemInput{TableName: aws.String("base"), Key: map[string]*v1sdk.AttributeValue{"h": {S: aws.String("ctr")}},
				UpdateExpression: aws.String("ADD n :one"), ExpressionAttributeValues: map[string]*v1sdk.AttributeValue{":one": {N: aws.String("1")}}})
		},
		func(g, i int) { c.Scan(&v1sdk.ScanInput{TableName: aws.String("base"), IndexName: aws.String("idx")}) },
		func(g, i int) {
			c.Query(&v1sdk.QueryInput{TableName: aws.String("base"), IndexName: aws.String("idx"), KeyConditionExpression: aws.String("g = :g"),
				ExpressionAttributeValues: map[string]*v1sdk.AttributeValue{":g": {S: aws.String("x")}}})
		},
		func(g, i int) {
			c.Query(&v1sdk.QueryInput{TableName: aws.String("base"), IndexName: aws.String("idx"), KeyConditionExpression: aws.String("g = :g"),
				ExpressionAttributeValues: map[string]*v1sdk.AttributeValue{":g": {S: aws.String("x")}}})
		},
		func(g, i int) {
			c.GetItem(&v1sdk.GetItemInput{TableName: aws.String("base"), Key: map[string]*v1sdk.AttributeValue{"h": {S: aws.String("ctr")}}})
		},
		func(g, i int) {
			name := fmt.Sprintf("t%d_%d", g, i)
			v1.AddTable(c, name, "h", "")
			c.DescribeTable(&v1sdk.DescribeTableInput{TableName: aws.String(name)})
			v1.ClearTable(c, name)
			c.DeleteTable(&v1sdk.DeleteTableInput{TableName: aws.String(name)})
		},
		func(g, i int) {
			c.BatchWriteItem(&v1sdk.BatchWriteItemInput{RequestItems: map[string][]*v1sdk.WriteRequest{"base": {{PutRequest: &v1sdk.PutRequest{Item: map[string]*v1sdk.AttributeValue{"h": {S: aws.String(fmt.Sprint("b", g, i))}}}}}}})
		},
		func(g, i int) {
			v1.EmulateFailure(c, v1.FailureConditionDeprecated)
			v1.EmulateFailure(c, v1.FailureConditionNone)
			c.SetInterpreter(interpreter.NewNativeInterpreter())
			c.TransactWriteItems(&v1sdk.TransactWriteItemsInput{})
		},
		// the helper on the table every other operation works on
		func(g, i int) {
			if i%2 == 0 {
				v1.ClearTable(c, "base")
			}
			c.DescribeTable(&v1sdk.DescribeTableInput{TableName: aws.String("base")})
		},
	}
	var wg sync.WaitGroup
	for g := 0; g < len(ops)*2; g++ {
		wg.Add(1)
		go func(g int) {
			defer wg.Done()
			for i := 0; i < rounds(); i++ {
				ops[g%len(ops)](g, i)
			}
		}(g)
	}
	wg.Wait()
}

// concurrent reads through one index, no writer: every read returns every item (an index search uses
// scratch state of the index, so reads are not read-only)
func TestConcurrentIndexReads(t *testing.T) {
	const items = 40
	c2 := newV2(t)
	c1 := v1.NewClient()
	v1.AddTable(c1, "base", "h", "")
	v1.AddIndex(c1, "base", "idx", "g", "")
	for i := 0; i < items; i++ {
		c2.PutItem(ctx, &dynamodb.PutItemInput{TableName: aws.String("base"), Item: map[string]v2types.AttributeValue{"h": s2(fmt.Sprint("k", i)), "g": s2("x")}})
		c1.PutItem(&v1sdk.PutItemInput{TableName: aws.String("base"), Item: map[string]*v1sdk.AttributeValue{"h": {S: aws.String(fmt.Sprint("k", i))}, "g": {S: aws.String("x")}}})
	}
	var wg sync.WaitGroup
	var mu sync.Mutex
	short := 0
	for g := 0; g < 8; g++ {
		wg.Add(1)
		go func(g int) {
			defer wg.Done()
			defer func() {
				if r := recover(); r != nil {
					mu.Lock()
					short++
					mu.Unlock()
				}
			}()
			for i := 0; i < rounds(); i++ {
				n := 0
				switch g % 4 {
				case 0:
					o, err := c2.Query(ctx, &dynamodb.QueryInput{TableName: aws.String("base"), IndexName: aws.String("idx"), KeyConditionExpression: aws.String("g = :g"), ExpressionAttributeValues: map[string]v2types.AttributeValue{":g": s2("x")}})
					if err == nil {
						n = len(o.Items)
					}
				case 1:
					o, err := c2.Scan(ctx, &dynamodb.ScanInput{TableName: aws.String("base"), IndexName: aws.String("idx")})
					if err == nil {
						n = len(o.Items)
					}
				case 2:
					o, err := c1.Query(&v1sdk.QueryInput{TableName: aws.String("base"), IndexName: aws.String("idx"), KeyConditionExpression: aws.String("g = :g"),
						ExpressionAttributeValues: map[string]*v1sdk.AttributeValue{":g": {S: aws.String("x")}}})
					if err == nil {
						n = len(o.Items)
					}
				default:
					o, err := c1.Scan(&v1sdk.ScanInput{TableName: aws.String("base"), IndexName: aws.String("idx")})
					if err == nil {
						n = len(o.Items)
					}
				}
				if n != items {
					mu.Lock()
					short++
					mu.Unlock()
				}
			}
		}(g)
	}
	wg.Wait()
	if short != 0 {
		t.Fatalf("INDEX-READS: %d concurrent index reads did not return all %d items", short, items)
	}
}

// N concurrent ADD 1 updates yield N
func TestConcurrentAdd(t *testing.T) {
	c := newV2(t)
	const n, per = 8, 50
	var wg sync.WaitGroup
	for g := 0; g < n; g++ {
		wg.Add(1)
		go func() {
			defer wg.Done()
			for i := 0; i < per; i++ {
				_, err := c.UpdateItem(ctx, &dynamodb.UpdateItemInput{TableName: aws.String("base"), Key: map[string]v2types.AttributeValue{"h": s2("ctr")},
					UpdateExpression: aws.String("ADD n :one"), ExpressionAttributeValues: map[string]v2types.AttributeValue{":one": n2("1")}})
				if err != nil {
					t.Errorf("ATOMICITY add failed: %v", err)
				}
			}
		}()
	}
	wg.Wait()
	out, _ := c.GetItem(ctx, &dynamodb.GetItemInput{TableName: aws.String("base"), Key: map[string]v2types.AttributeValue{"h": s2("ctr")}})
	if got := out.Item["n"].(*v2types.AttributeValueMemberN).Value; got != strconv.Itoa(n*per) {
		t.Errorf("ATOMICITY %d concurrent ADD 1 produced %s", n*per, got)
	}
}

// exactly one of N racing attribute_not_exists puts succeeds
func TestOneWinner(t *testing.T) {
	for round := 0; round < 20; round++ {
		c := newV2(t)
		const n = 8
		var wg sync.WaitGroup
		var mu sync.Mutex
		wins := 0
		for g := 0; g < n; g++ {
			wg.Add(1)
			go func(g int) {
				defer wg.Done()
				_, err := c.PutItem(ctx, &dynamodb.PutItemInput{TableName: aws.String("base"), Item: map[string]v2types.AttributeValue{"h": s2("once"), "who": s2(fmt.Sprint(g))},
					ConditionExpression: aws.String("attribute_not_exists(h)")})
				if err == nil {
					mu.Lock()
					wins++
					mu.Unlock()
				}
			}(g)
		}
		wg.Wait()
		if wins != 1 {
			t.Errorf("ATOMICITY %d of %d racing conditional puts succeeded", wins, n)
		}
	}
}

// the ClearTable helper while other goroutines write to the same table: no data race, and afterwards the table and
// its index agree on what is stored
func TestClearTableWhileWriting(t *testing.T) {
	// v1
	c1 := v1.NewClient()
	v1.AddTable(c1, "base", "h", "")
	v1.AddIndex(c1, "base", "idx", "g", "")
	var wg sync.WaitGroup
	for g := 0; g < 4; g++ {
		wg.Add(1)
		go func(g int) {
			defer wg.Done()
			for i := 0; i < 40*rounds()/30; i++ {
				c1.PutItem(&v1sdk.PutItemInput{TableName: aws.String("base"), Item: map[string]*v1sdk.AttributeValue{"h": {S: aws.String(fmt.Sprint(g, "-", i))}, "g": {S: aws.String("x")}}})
			}
		}(g)
	}
	wg.Add(1)
	go func() {
		defer wg.Done()
		for i := 0; i < 20*rounds()/30; i++ {
			v1.ClearTable(c1, "base")
		}
	}()
	wg.Wait()
	d1, err := c1.DescribeTable(&v1sdk.DescribeTableInput{TableName: aws.String("base")})
	if err != nil {
		t.Fatal(err)
	}
	s1, _ := c1.Scan(&v1sdk.ScanInput{TableName: aws.String("base")})
	x1, _ := c1.Scan(&v1sdk.ScanInput{TableName: aws.String("base"), IndexName: aws.String("idx")})
	if int(*d1.Table.ItemCount) != len(s1.Items) || len(x1.Items) != len(s1.Items) || *d1.Table.GlobalSecondaryIndexes[0].ItemCount != *d1.Table.ItemCount {
		t.Errorf("ATOMICITY v1 ClearTable||PutItem: table count %d, scan %d, index scan %d, index count %d", *d1.Table.ItemCount, len(s1.Items), len(x1.Items), *d1.Table.GlobalSecondaryIndexes[0].ItemCount)
	}
	// v2
	c2 := newV2(t)
	for g := 0; g < 4; g++ {
		wg.Add(1)
		go func(g int) {
			defer wg.Done()
			for i := 0; i < 40*rounds()/30; i++ {
				c2.PutItem(ctx, &dynamodb.PutItemInput{TableName: aws.String("base"), Item: map[string]v2types.AttributeValue{"h": s2(fmt.Sprint(g, "-", i)), "g": s2("x")}})
			}
		}(g)
	}
	wg.Add(1)
	go func() {
		defer wg.Done()
		for i := 0; i < 20*rounds()/30; i++ {
			v2.ClearTable(c2, "base")
		}
	}()
	wg.Wait()
	d2, err := c2.DescribeTable(ctx, &dynamodb.DescribeTableInput{TableName: aws.String("base")})
	if err != nil {
		t.Fatal(err)
	}
	sc2, _ := c2.Scan(ctx, &dynamodb.ScanInput{TableName: aws.String("base")})
	x2, _ := c2.Scan(ctx, &dynamodb.ScanInput{TableName: aws.String("base"), IndexName: aws.String("idx")})
	if int(*d2.Table.ItemCount) != len(sc2.Items) || len(x2.Items) != len(sc2.Items) {
		t.Errorf("ATOMICITY v2 ClearTable||PutItem: table count %d, scan %d, index scan %d", *d2.Table.ItemCount, len(sc2.Items), len(x2.Items))
	}
}

// every call that ends in an error gives the client's lock back: after each of them another call on the same client completes
func TestErrorPathsReleaseTheLock(t *testing.T) {
	within := func(what string, f func()) {
		done := make(chan struct{})
		go func() { defer close(done); defer func() { recover() }(); f() }()
		select {
		case <-done:
		case <-time.After(30 * time.Second):
			t.Errorf("DEADLOCK-OR-HANG after %s: a later call on the same client does not return", what)
		}
	}
	missing := aws.String("nosuchtable")
	// v2
	c2 := newV2(t)
	probe2 := func() {
		c2.PutItem(ctx, &dynamodb.PutItemInput{TableName: aws.String("base"), Item: map[string]v2types.AttributeValue{"h": s2("probe")}})
	}
	v2calls := []struct {
		name string
		f    func()
	}{
		{"v2 ClearTable on a missing table", func() { v2.ClearTable(c2, "nosuchtable") }},
		{"v2 PutItem on a missing table", func() { c2.PutItem(ctx, &dynamodb.PutItemInput{TableName: missing, Item: map[string]v2types.AttributeValue{"h": s2("a")}}) }},
		{"v2 GetItem on a missing table", func() { c2.GetItem(ctx, &dynamodb.GetItemInput{TableName: missing, Key: map[string]v2types.AttributeValue{"h": s2("a")}}) }},
		{"v2 DeleteItem on a missing table", func() { c2.DeleteItem(ctx, &dynamodb.DeleteItemInput{TableName: missing, Key: map[string]v2types.AttributeValue{"h": s2("a")}}) }},
		{"v2 UpdateItem on a missing table", func() {
			c2.UpdateItem(ctx, &dynamodb.UpdateItemInput{TableName: missing, Key: map[string]v2types.AttributeValue{"h": s2("a")}, UpdateExpression: aws.String("SET v = :v"),
				ExpressionAttributeValues: map[string]v2types.AttributeValue{":v": s2("1")}})
		}},
		{"v2 Query on a missing table", func() {
			c2.Query(ctx, &dynamodb.QueryInput{TableName: missing, KeyConditionExpression: aws.String("h = :h"), ExpressionAttributeValues: map[string]v2types.AttributeValue{":h": s2("a")}})
		}},
		{"v2 Scan on a missing table", func() { c2.Scan(ctx, &dynamodb.ScanInput{TableName: missing}) }},
		{"v2 DescribeTable on a missing table", func() { c2.DescribeTable(ctx, &dynamodb.DescribeTableInput{TableName: missing}) }},
		{"v2 DeleteTable on a missing table", func() { c2.DeleteTable(ctx, &dynamodb.DeleteTableInput{TableName: missing}) }},
		{"v2 UpdateTable on a missing table", func() { c2.UpdateTable(ctx, &dynamodb.UpdateTableInput{TableName: missing}) }},
		{"v2 CreateTable of an existing table", func() { v2.AddTable(ctx, c2, "base", "h", "") }},
		{"v2 PutItem with a key of the wrong type", func() { c2.PutItem(ctx, &dynamodb.PutItemInput{TableName: aws.String("base"), Item: map[string]v2types.AttributeValue{"h": n2("1")}}) }},
		{"v2 PutItem with a failing condition", func() {
			c2.PutItem(ctx, &dynamodb.PutItemInput{TableName: aws.String("base"), Item: map[string]v2types.AttributeValue{"h": s2("probe")}, ConditionExpression: aws.String("attribute_not_exists(h)")})
		}},
		{"v2 PutItem with a condition that is no sentence", func() {
			c2.PutItem(ctx, &dynamodb.PutItemInput{TableName: aws.String("base"), Item: map[string]v2types.AttributeValue{"h": s2("probe")}, ConditionExpression: aws.String("h = = h")})
		}},
		{"v2 Query on a missing index", func() {
			c2.Query(ctx, &dynamodb.QueryInput{TableName: aws.String("base"), IndexName: aws.String("nosuchindex"), KeyConditionExpression: aws.String("h = :h"), ExpressionAttributeValues: map[string]v2types.AttributeValue{":h": s2("a")}})
		}},
		{"v2 UpdateItem with an unused value", func() {
			c2.UpdateItem(ctx, &dynamodb.UpdateItemInput{TableName: aws.String("base"), Key: map[string]v2types.AttributeValue{"h": s2("probe")}, UpdateExpression: aws.String("SET v = :v"),
				ExpressionAttributeValues: map[string]v2types.AttributeValue{":v": s2("1"), ":unused": s2("1")}})
		}},
		{"v2 BatchWriteItem with a malformed request", func() {
			c2.BatchWriteItem(ctx, &dynamodb.BatchWriteItemInput{RequestItems: map[string][]v2types.WriteRequest{"base": {{}}}})
		}},
		{"v2 a call under an emulated failure", func() {
			v2.EmulateFailure(c2, v2.FailureConditionInternalServerError)
			c2.GetItem(ctx, &dynamodb.GetItemInput{TableName: aws.String("base"), Key: map[string]v2types.AttributeValue{"h": s2("a")}})
			v2.EmulateFailure(c2, v2.FailureConditionNone)
		}},
	}
	for _, call := range v2calls {
		func() { defer func() { recover() }(); call.f() }()
		within(call.name, probe2)
		if t.Failed() {
			break // the lock is gone for good: every later probe would wait as long
		}
	}
	// v1
	c1 := v1.NewClient()
	v1.AddTable(c1, "base", "h", "")
	probe1 := func() {
		c1.PutItem(&v1sdk.PutItemInput{TableName: aws.String("base"), Item: map[string]*v1sdk.AttributeValue{"h": {S: aws.String("probe")}}})
	}
	v1calls := []struct {
		name string
		f    func()
	}{
		{"v1 ClearTable on a missing table", func() { v1.ClearTable(c1, "nosuchtable") }},
		{"v1 PutItem on a missing table", func() { c1.PutItem(&v1sdk.PutItemInput{TableName: missing, Item: map[string]*v1sdk.AttributeValue{"h": {S: aws.String("a")}}}) }},
		{"v1 GetItem on a missing table", func() { c1.GetItem(&v1sdk.GetItemInput{TableName: missing, Key: map[string]*v1sdk.AttributeValue{"h": {S: aws.String("a")}}}) }},
		{"v1 DeleteItem on a missing table", func() { c1.DeleteItem(&v1sdk.DeleteItemInput{TableName: missing, Key: map[string]*v1sdk.AttributeValue{"h": {S: aws.String("a")}}}) }},
		{"v1 Query on a missing table", func() {
			c1.Query(&v1sdk.QueryInput{TableName: missing, KeyConditionExpression: aws.String("h = :h"), ExpressionAttributeValues: map[string]*v1sdk.AttributeValue{":h": {S: aws.String("a")}}})
		}},
		{"v1 Scan on a missing table", func() { c1.Scan(&v1sdk.ScanInput{TableName: missing}) }},
		{"v1 DescribeTable on a missing table", func() { c1.DescribeTable(&v1sdk.DescribeTableInput{TableName: missing}) }},
		{"v1 DeleteTable on a missing table", func() { c1.DeleteTable(&v1sdk.DeleteTableInput{TableName: missing}) }},
		{"v1 UpdateTable on a missing table", func() { c1.UpdateTable(&v1sdk.UpdateTableInput{TableName: missing}) }},
		{"v1 CreateTable of an existing table", func() { v1.AddTable(c1, "base", "h", "") }},
		{"v1 PutItem with a key of the wrong type", func() { c1.PutItem(&v1sdk.PutItemInput{TableName: aws.String("base"), Item: map[string]*v1sdk.AttributeValue{"h": {N: aws.String("1")}}}) }},
		{"v1 PutItem with a failing condition", func() {
			c1.PutItem(&v1sdk.PutItemInput{TableName: aws.String("base"), Item: map[string]*v1sdk.AttributeValue{"h": {S: aws.String("probe")}}, ConditionExpression: aws.String("attribute_not_exists(h)")})
		}},
		{"v1 PutItem with a condition that is no sentence", func() {
			c1.PutItem(&v1sdk.PutItemInput{TableName: aws.String("base"), Item: map[string]*v1sdk.AttributeValue{"h": {S: aws.String("probe")}}, ConditionExpression: aws.String("h = = h")})
		}},
		{"v1 Query on a missing index", func() {
			c1.Query(&v1sdk.QueryInput{TableName: aws.String("base"), IndexName: aws.String("nosuchindex"), KeyConditionExpression: aws.String("h = :h"), ExpressionAttributeValues: map[string]*v1sdk.AttributeValue{":h": {S: aws.String("a")}}})
		}},
		{"v1 BatchWriteItem with a malformed request", func() {
			c1.BatchWriteItem(&v1sdk.BatchWriteItemInput{RequestItems: map[string][]*v1sdk.WriteRequest{"base": {{}}}})
		}},
		{"v1 a call under an emulated failure", func() {
			v1.EmulateFailure(c1, v1.FailureConditionInternalServerError)
			c1.GetItem(&v1sdk.GetItemInput{TableName: aws.String("base"), Key: map[string]*v1sdk.AttributeValue{"h": {S: aws.String("a")}}})
			v1.EmulateFailure(c1, v1.FailureConditionNone)
		}},
	}
	for _, call := range v1calls {
		func() { defer func() { recover() }(); call.f() }()
		within(call.name, probe1)
		if t.Failed() {
			break
		}
	}
}
