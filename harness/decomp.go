package main

import (
	"fmt"
	"sort"

	"github.com/aws/aws-sdk-go-v2/service/dynamodb"
	v2types "github.com/aws/aws-sdk-go-v2/service/dynamodb/types"
	v2 "github.com/truora/minidyn/aws-v2/client"
)

// ---------- C19: a batch read equals its item-by-item decomposition, whatever options it carries ----------
//
// The read options (ProjectionExpression with or without #names, AttributesToGet, ConsistentRead) are not
// part of the Lean model (the library only uses them to validate placeholders), so this family compares the
// implementation with itself: BatchGetItem against GetItem called once per key with the same options.

func canonItems(items []Item) []string {
	out := []string{}
	for _, it := range items {
		b, _ := canonItem(it).MarshalJSON()
		out = append(out, string(b))
	}
	sort.Strings(out)
	return out
}

func decompBatchGet(r *Rng, id int) (vs []pokeViolation, req Case) {
	defer func() {
		if rec := recover(); rec != nil {
			vs = append(vs, pokeViolation{"decomp:crash", fmt.Sprint(rec)})
		}
	}()
	c := v2.NewClient()
	tables := []string{"ta", "tb"}
	o := ValOpts{ExactNums: true, MaxDepth: 2}
	stored := map[string][]Item{}
	for _, tn := range tables {
		if err := v2.AddTable(ctx, c, tn, "h", "r"); err != nil {
			return []pokeViolation{{"decomp:setup", err.Error()}}, nil
		}
		for i := 0; i < 2+r.Intn(4); i++ {
			it := Item{{[]byte("h"), S(pick(r, []string{"a", "b"}))}, {[]byte("r"), S(fmt.Sprintf("%s%d", tn, i))}, {[]byte("name"), S("n" + tn)}, {[]byte("v"), genVal(r, 0, o)}}
			name := tn
			if _, err := c.PutItem(ctx, &dynamodb.PutItemInput{TableName: &name, Item: toV2Item(it)}); err == nil {
				stored[tn] = append(stored[tn], it)
			}
		}
	}
	// the options of the request
	var proj *string
	var names map[string]string
	var atg []string
	optClass := pick(r, []string{"none", "proj", "proj-names", "proj-names", "atg", "names-unused"})
	switch optClass {
	case "proj":
		p := "h, r, v"
		proj = &p
	case "proj-names":
		p := "h, #n, r"
		proj = &p
		names = map[string]string{"#n": "name"}
	case "atg":
		atg = []string{"h", "r", "v"}
	case "names-unused":
		names = map[string]string{"#n": "name"}
	}
	nt := 1 + r.Intn(2)
	reqItems := map[string]v2types.KeysAndAttributes{}
	type keyOf struct {
		table string
		key   Item
	}
	keys := []keyOf{}
	for _, tn := range tables[:nt] {
		ka := v2types.KeysAndAttributes{ProjectionExpression: proj, ExpressionAttributeNames: names, AttributesToGet: atg}
		for _, it := range stored[tn] {
			if r.Chance(70) {
				k := Item{it[0], it[1]}
				ka.Keys = append(ka.Keys, toV2Item(k))
				keys = append(keys, keyOf{tn, k})
			}
		}
		if len(ka.Keys) > 0 {
			reqItems[tn] = ka
		}
	}
	req = Case{"options": optClass, "tables": nt, "keys": len(keys)}
	if len(keys) == 0 {
		return nil, req
	}
	bo, berr := c.BatchGetItem(ctx, &dynamodb.BatchGetItemInput{RequestItems: reqItems})
	// item by item
	want := map[string][]Item{}
	var firstErr error
	for _, k := range keys {
		tn := k.table
		g, err := c.GetItem(ctx, &dynamodb.GetItemInput{TableName: &tn, Key: toV2Item(k.key), ProjectionExpression: proj, ExpressionAttributeNames: names, AttributesToGet: atg})
		if err != nil {
			if firstErr == nil {
				firstErr = err
			}
			continue
		}
		if len(g.Item) > 0 {
			want[tn] = append(want[tn], fromV2Item(g.Item))
		}
	}
	if firstErr != nil {
		// every single read is refused: the batch must not deliver items either
		if berr == nil && bo != nil {
			for tn, items := range bo.Responses {
				if len(items) > 0 {
					vs = append(vs, pokeViolation{"decomp:batchget-error", fmt.Sprintf("GetItem refuses the request (%v) but BatchGetItem returned %d items of %s", firstErr, len(items), tn)})
				}
			}
		}
		return vs, req
	}
	if berr != nil {
		return append(vs, pokeViolation{"decomp:batchget-error", fmt.Sprintf("every GetItem succeeds but BatchGetItem failed: %v", berr)}), req
	}
	for tn := range reqItems {
		got := []Item{}
		for _, it := range bo.Responses[tn] {
			got = append(got, fromV2Item(it))
		}
		a, b := canonItems(got), canonItems(want[tn])
		if fmt.Sprint(a) != fmt.Sprint(b) {
			vs = append(vs, pokeViolation{"decomp:batchget-items", fmt.Sprintf("table %s: BatchGetItem returned %d items, the same keys read one by one give %d (options %s)", tn, len(a), len(b), optClass)})
		}
		if un, ok := bo.UnprocessedKeys[tn]; ok && len(un.Keys) > 0 {
			vs = append(vs, pokeViolation{"decomp:batchget-unprocessed", fmt.Sprintf("table %s: %d stored keys reported as unprocessed although GetItem returns them (options %s)", tn, len(un.Keys), optClass)})
		}
	}
	return vs, req
}

func genDecompCases(r *Rng, n int) {
	for i := 0; i < n; i++ {
		cr := r.Fork()
		vs, req := decompBatchGet(cr, i)
		if vs == nil {
			vs = []pokeViolation{}
		}
		emit(Case{"kind": "decomp", "request": req, "impl": Outcome{"violations": vs}})
	}
}
