package main

import (
	"fmt"

	"github.com/aws/aws-sdk-go-v2/service/dynamodb"
	v2types "github.com/aws/aws-sdk-go-v2/service/dynamodb/types"
	v1sdk "github.com/aws/aws-sdk-go/service/dynamodb"
	v1 "github.com/truora/minidyn/aws-v1/client"
	v2 "github.com/truora/minidyn/aws-v2/client"
)

// ---------- C14: the Key of a request is caller-owned memory too ----------
// An UpdateItem that creates the item builds it from the request's key; the key maps of GetItem,
// DeleteItem and of a Query's ExclusiveStartKey are only read.  After each call the key structure is
// overwritten and the stored items are read back with fresh keys.

func keyAVs(kt string, i int) (AV, AV) {
	switch kt {
	case "N":
		return AV{T: "N", V: []byte(fmt.Sprintf("%d", 10+i))}, AV{T: "N", V: []byte(fmt.Sprintf("%d.5", i))}
	case "B":
		return AV{T: "B", V: []byte{byte(1 + i), 46, 92}}, AV{T: "B", V: []byte{0, byte(i)}}
	}
	return S(fmt.Sprintf("hk%d", i)), S(fmt.Sprintf("r.k%d", i))
}

func pokeKeyV1(kt string, i int) (vs []pokeViolation) {
	defer func() {
		if r := recover(); r != nil {
			vs = append(vs, pokeViolation{"v1:key-crash", fmt.Sprint(r)})
		}
	}()
	c := v1.NewClient()
	tbl := "keyed"
	_, err := c.CreateTable(&v1sdk.CreateTableInput{TableName: &tbl, BillingMode: sp("PAY_PER_REQUEST"),
		AttributeDefinitions: []*v1sdk.AttributeDefinition{{AttributeName: sp("h"), AttributeType: sp(kt)}, {AttributeName: sp("r"), AttributeType: sp(kt)}},
		KeySchema:            []*v1sdk.KeySchemaElement{{AttributeName: sp("h"), KeyType: sp("HASH")}, {AttributeName: sp("r"), KeyType: sp("RANGE")}}})
	if err != nil {
		return []pokeViolation{{"v1:key-setup", err.Error()}}
	}
	hv, rv := keyAVs(kt, i)
	keyItem := Item{{[]byte("h"), hv}, {[]byte("r"), rv}}
	scan := func() string {
		o, err := c.Scan(&v1sdk.ScanInput{TableName: &tbl})
		if err != nil {
			return "error: " + err.Error()
		}
		s := ""
		for _, it := range o.Items {
			b, _ := canonItem(fromV1Item(it)).MarshalJSON()
			s += string(b) + ";"
		}
		return s
	}
	// an update that creates the item
	k := toV1Item(keyItem)
	ue := "SET v = :v"
	if _, err := c.UpdateItem(&v1sdk.UpdateItemInput{TableName: &tbl, Key: k, UpdateExpression: &ue, ExpressionAttributeValues: map[string]*v1sdk.AttributeValue{":v": toV1(S("1"))}}); err != nil {
		return []pokeViolation{{"v1:key-upsert", err.Error()}}
	}
	before := scan()
	scribbleV1Item(k)
	if scan() != before {
		vs = append(vs, pokeViolation{"v1:key-of-UpdateItem", "modifying the Key passed to an UpdateItem that created the item changed the stored item"})
	}
	// an update of the existing item, a read and a paginated read by key
	k = toV1Item(keyItem)
	c.UpdateItem(&v1sdk.UpdateItemInput{TableName: &tbl, Key: k, UpdateExpression: &ue, ExpressionAttributeValues: map[string]*v1sdk.AttributeValue{":v": toV1(S("2"))}})
	before = scan()
	scribbleV1Item(k)
	k = toV1Item(keyItem)
	c.GetItem(&v1sdk.GetItemInput{TableName: &tbl, Key: k})
	scribbleV1Item(k)
	k = toV1Item(keyItem)
	c.Scan(&v1sdk.ScanInput{TableName: &tbl, ExclusiveStartKey: k})
	scribbleV1Item(k)
	if scan() != before {
		vs = append(vs, pokeViolation{"v1:key-of-request", "modifying the Key / ExclusiveStartKey of a finished request changed the stored item"})
	}
	// what a read returns when there is nothing to return: the item of an absent key, the LastEvaluatedKey of a complete
	// read — the caller may write into those maps (get-or-create, building a resume token) without any later read seeing it
	hv2, rv2 := keyAVs(kt, i+100)
	absent := Item{{[]byte("h"), hv2}, {[]byte("r"), rv2}}
	if ga, err := c.GetItem(&v1sdk.GetItemInput{TableName: &tbl, Key: toV1Item(absent)}); err == nil {
		if ga.Item != nil {
			ga.Item["scribbled"] = &v1sdk.AttributeValue{S: sp("x")}
		}
		if gb, err := c.GetItem(&v1sdk.GetItemInput{TableName: &tbl, Key: toV1Item(absent)}); err == nil && len(gb.Item) != 0 {
			vs = append(vs, pokeViolation{"v1:output-of-GetItem-absent", "writing into the item returned for an absent key changed what a later GetItem of an absent key returns"})
		}
	}
	if sa, err := c.Scan(&v1sdk.ScanInput{TableName: &tbl}); err == nil {
		if sa.LastEvaluatedKey != nil {
			sa.LastEvaluatedKey["scribbled"] = &v1sdk.AttributeValue{S: sp("x")}
		}
		if sb, err := c.Scan(&v1sdk.ScanInput{TableName: &tbl}); err == nil && len(sb.LastEvaluatedKey) != 0 {
			vs = append(vs, pokeViolation{"v1:LastEvaluatedKey-of-Scan", "writing into the LastEvaluatedKey of a complete Scan made a later complete Scan report a key"})
		}
	}
	// the key of a delete whose old item is returned, then a re-creation by update
	k = toV1Item(keyItem)
	do, err := c.DeleteItem(&v1sdk.DeleteItemInput{TableName: &tbl, Key: k, ReturnValues: sp("ALL_OLD")})
	if err == nil {
		snap, _ := canonItem(fromV1Item(do.Attributes)).MarshalJSON()
		scribbleV1Item(k)
		now, _ := canonItem(fromV1Item(do.Attributes)).MarshalJSON()
		if string(snap) != string(now) {
			vs = append(vs, pokeViolation{"v1:key-of-DeleteItem", "modifying the Key of a DeleteItem changed the old item it returned"})
		}
	}
	return vs
}

func pokeKeyV2(kt string, i int) (vs []pokeViolation) {
	defer func() {
		if r := recover(); r != nil {
			vs = append(vs, pokeViolation{"v2:key-crash", fmt.Sprint(r)})
		}
	}()
	c := v2.NewClient()
	tbl := "keyed"
	_, err := c.CreateTable(ctx, &dynamodb.CreateTableInput{TableName: &tbl, BillingMode: v2types.BillingModePayPerRequest,
		AttributeDefinitions: []v2types.AttributeDefinition{{AttributeName: sp("h"), AttributeType: v2types.ScalarAttributeType(kt)}, {AttributeName: sp("r"), AttributeType: v2types.ScalarAttributeType(kt)}},
		KeySchema:            []v2types.KeySchemaElement{{AttributeName: sp("h"), KeyType: v2types.KeyTypeHash}, {AttributeName: sp("r"), KeyType: v2types.KeyTypeRange}}})
	if err != nil {
		return []pokeViolation{{"v2:key-setup", err.Error()}}
	}
	hv, rv := keyAVs(kt, i)
	keyItem := Item{{[]byte("h"), hv}, {[]byte("r"), rv}}
	scan := func() string {
		o, err := c.Scan(ctx, &dynamodb.ScanInput{TableName: &tbl})
		if err != nil {
			return "error: " + err.Error()
		}
		s := ""
		for _, it := range o.Items {
			b, _ := canonItem(fromV2Item(it)).MarshalJSON()
			s += string(b) + ";"
		}
		return s
	}
	k := toV2Item(keyItem)
	ue := "SET v = :v"
	if _, err := c.UpdateItem(ctx, &dynamodb.UpdateItemInput{TableName: &tbl, Key: k, UpdateExpression: &ue, ExpressionAttributeValues: map[string]v2types.AttributeValue{":v": toV2(S("1"))}}); err != nil {
		return []pokeViolation{{"v2:key-upsert", err.Error()}}
	}
	before := scan()
	scribbleV2Item(k)
	if scan() != before {
		vs = append(vs, pokeViolation{"v2:key-of-UpdateItem", "modifying the Key passed to an UpdateItem that created the item changed the stored item"})
	}
	k = toV2Item(keyItem)
	c.UpdateItem(ctx, &dynamodb.UpdateItemInput{TableName: &tbl, Key: k, UpdateExpression: &ue, ExpressionAttributeValues: map[string]v2types.AttributeValue{":v": toV2(S("2"))}})
	before = scan()
	scribbleV2Item(k)
	k = toV2Item(keyItem)
	c.GetItem(ctx, &dynamodb.GetItemInput{TableName: &tbl, Key: k})
	scribbleV2Item(k)
	k = toV2Item(keyItem)
	c.Scan(ctx, &dynamodb.ScanInput{TableName: &tbl, ExclusiveStartKey: k})
	scribbleV2Item(k)
	if scan() != before {
		vs = append(vs, pokeViolation{"v2:key-of-request", "modifying the Key / ExclusiveStartKey of a finished request changed the stored item"})
	}
	hv2, rv2 := keyAVs(kt, i+100)
	absent := Item{{[]byte("h"), hv2}, {[]byte("r"), rv2}}
	if ga, err := c.GetItem(ctx, &dynamodb.GetItemInput{TableName: &tbl, Key: toV2Item(absent)}); err == nil {
		if ga.Item != nil {
			ga.Item["scribbled"] = &v2types.AttributeValueMemberS{Value: "x"}
		}
		if gb, err := c.GetItem(ctx, &dynamodb.GetItemInput{TableName: &tbl, Key: toV2Item(absent)}); err == nil && len(gb.Item) != 0 {
			vs = append(vs, pokeViolation{"v2:output-of-GetItem-absent", "writing into the item returned for an absent key changed what a later GetItem of an absent key returns"})
		}
	}
	kc := "h = :h"
	for _, read := range []func() (map[string]v2types.AttributeValue, error){
		func() (map[string]v2types.AttributeValue, error) {
			o, err := c.Scan(ctx, &dynamodb.ScanInput{TableName: &tbl})
			if err != nil {
				return nil, err
			}
			return o.LastEvaluatedKey, nil
		},
		func() (map[string]v2types.AttributeValue, error) {
			o, err := c.Query(ctx, &dynamodb.QueryInput{TableName: &tbl, KeyConditionExpression: &kc, ExpressionAttributeValues: map[string]v2types.AttributeValue{":h": toV2(hv)}})
			if err != nil {
				return nil, err
			}
			return o.LastEvaluatedKey, nil
		},
	} {
		if lek, err := read(); err == nil {
			if lek != nil {
				lek["scribbled"] = &v2types.AttributeValueMemberS{Value: "x"}
			}
			if lek2, err := read(); err == nil && len(lek2) != 0 {
				vs = append(vs, pokeViolation{"v2:LastEvaluatedKey-of-read", "writing into the LastEvaluatedKey of a complete read made a later complete read report a key"})
			}
		}
	}
	k = toV2Item(keyItem)
	do, err := c.DeleteItem(ctx, &dynamodb.DeleteItemInput{TableName: &tbl, Key: k, ReturnValues: v2types.ReturnValueAllOld})
	if err == nil {
		snap, _ := canonItem(fromV2Item(do.Attributes)).MarshalJSON()
		scribbleV2Item(k)
		now, _ := canonItem(fromV2Item(do.Attributes)).MarshalJSON()
		if string(snap) != string(now) {
			vs = append(vs, pokeViolation{"v2:key-of-DeleteItem", "modifying the Key of a DeleteItem changed the old item it returned"})
		}
	}
	return vs
}
