package main

import (
	"context"

	v1 "github.com/truora/minidyn/aws-v1/client"
	v2 "github.com/truora/minidyn/aws-v2/client"
)

var profiles = map[string]Profile{
	"general": {Name: "general", Put: 22, Update: 14, Delete: 8, Get: 8, Query: 10, Scan: 5, Pages: 6, BatchWrite: 4, BatchGet: 3, Describe: 3, Failure: 2, Mgmt: 4, Native: 0, Transact: 1,
		CondPct: 30, BadPct: 10, Tables: 1, MaxIndexes: 2, OpsMin: 8, OpsMax: 30, ExactNums: true, DotKeys: false, FinalObserve: true, DelBoundary: 30},
	"keys": {Name: "keys", Put: 30, Update: 12, Delete: 10, Get: 20, Query: 8, Scan: 5, Pages: 3, BatchWrite: 3, BatchGet: 3, Describe: 2, Failure: 0, Mgmt: 1,
		CondPct: 15, BadPct: 12, Tables: 1, MaxIndexes: 1, OpsMin: 8, OpsMax: 25, ExactNums: true, DotKeys: true, NumericKeys: true, FinalObserve: true, DelBoundary: 20},
	"index": {Name: "index", Put: 28, Update: 26, Delete: 10, Get: 3, Query: 8, Scan: 6, Pages: 3, BatchWrite: 3, BatchGet: 0, Describe: 4, Failure: 0, Mgmt: 9,
		CondPct: 15, BadPct: 8, Tables: 1, MaxIndexes: 3, OpsMin: 8, OpsMax: 30, ExactNums: true, FinalObserve: true, DelBoundary: 20, BinIndexKeys: true},
	"search": {Name: "search", Put: 40, Update: 8, Delete: 8, Get: 0, Query: 22, Scan: 8, Pages: 14, BatchWrite: 0, BatchGet: 0, Describe: 0, Failure: 0, Mgmt: 0,
		CondPct: 5, BadPct: 3, Tables: 1, MaxIndexes: 2, OpsMin: 12, OpsMax: 36, ExactNums: true, NumericKeys: true, FewHash: true, FinalObserve: false, DelBoundary: 50},
	"cond": {Name: "cond", Put: 30, Update: 25, Delete: 22, Get: 6, Query: 2, Scan: 4, Pages: 0, BatchWrite: 0, BatchGet: 0, Describe: 1, Failure: 0, Mgmt: 0,
		CondPct: 75, BadPct: 6, Tables: 1, MaxIndexes: 1, OpsMin: 8, OpsMax: 24, ExactNums: true, DotKeys: true, FinalObserve: true},
	"fail": {Name: "fail", Put: 20, Update: 18, Delete: 10, Get: 6, Query: 8, Scan: 4, Pages: 2, BatchWrite: 6, BatchGet: 3, Describe: 3, Failure: 0, Mgmt: 4,
		CondPct: 45, BadPct: 45, Tables: 1, MaxIndexes: 2, OpsMin: 8, OpsMax: 24, ExactNums: true, FinalObserve: true},
	"emul": {Name: "emul", Put: 18, Update: 10, Delete: 8, Get: 8, Query: 6, Scan: 4, Pages: 2, BatchWrite: 12, BatchGet: 6, Describe: 3, Failure: 16, Mgmt: 2, Transact: 4,
		CondPct: 20, BadPct: 6, Tables: 2, MaxIndexes: 1, OpsMin: 10, OpsMax: 30, ExactNums: true, FinalObserve: true},
	"lifecycle": {Name: "lifecycle", Put: 22, Update: 8, Delete: 6, Get: 6, Query: 4, Scan: 8, Pages: 0, BatchWrite: 3, BatchGet: 2, Describe: 12, Failure: 1, Mgmt: 26, Native: 3,
		CondPct: 10, BadPct: 10, Tables: 2, MaxIndexes: 2, OpsMin: 10, OpsMax: 30, ExactNums: true, FinalObserve: true},
	"batch": {Name: "batch", Put: 14, Update: 4, Delete: 6, Get: 6, Query: 2, Scan: 6, Pages: 0, BatchWrite: 34, BatchGet: 22, Describe: 2, Failure: 2, Mgmt: 2,
		CondPct: 5, BadPct: 8, Tables: 2, MaxIndexes: 1, OpsMin: 8, OpsMax: 24, ExactNums: true, FinalObserve: true},
	"native": {Name: "native", Put: 20, Update: 16, Delete: 8, Get: 3, Query: 16, Scan: 10, Pages: 0, BatchWrite: 0, BatchGet: 0, Describe: 0, Failure: 0, Mgmt: 2, Native: 25,
		CondPct: 40, BadPct: 3, Tables: 2, MaxIndexes: 1, OpsMin: 10, OpsMax: 30, ExactNums: true, FinalObserve: true},
	"values": {Name: "values", Put: 40, Update: 6, Delete: 4, Get: 30, Query: 6, Scan: 10, Pages: 0, BatchWrite: 4, BatchGet: 10, Describe: 0, Failure: 0, Mgmt: 0,
		CondPct: 0, BadPct: 0, Tables: 2, MaxIndexes: 1, OpsMin: 8, OpsMax: 22, ExactNums: false, DotKeys: true, NumericKeys: true, RichValues: true, FinalObserve: true},
	"numbers": {Name: "numbers", Put: 30, Update: 22, Delete: 6, Get: 10, Query: 14, Scan: 8, Pages: 6, BatchWrite: 0, BatchGet: 0, Describe: 0, Failure: 0, Mgmt: 0,
		CondPct: 35, BadPct: 0, Tables: 1, MaxIndexes: 1, OpsMin: 8, OpsMax: 24, ExactNums: false, NumericKeys: true, FewHash: true, FinalObserve: true, DelBoundary: 10},
}

func runHistory(ops []*Op) (Outcome, Outcome) {
	if noImpl {
		return Outcome{"skipped": true}, Outcome{"skipped": true}
	}
	if skipThis() {
		return Outcome{"outs": []Outcome{fatalOutcome()}}, Outcome{"outs": []Outcome{fatalOutcome()}}
	}
	// separate clients share no state: next to each client under test lives a sibling of the same SDK that was used
	// before (same table names, other schema, items, native registrations for every text the histories use, the native
	// interpreter active, a failure switched on); the model knows nothing of it
	s1, s2 := siblingV1(), siblingV2()
	defer func() { _, _ = s1, s2 }()
	c1 := v1.NewClient()
	c2 := v2.NewClient()
	o1 := make([]Outcome, 0, len(ops))
	o2 := make([]Outcome, 0, len(ops))
	for _, op := range ops {
		o1 = append(o1, runV1(c1, op))
		o2 = append(o2, runV2(c2, op))
	}
	return Outcome{"outs": o1}, Outcome{"outs": o2}
}

func genHistCases(r *Rng, n int, profile string) {
	p, ok := profiles[profile]
	if !ok {
		panic("unknown profile " + profile)
	}
	for i := 0; i < n; i++ {
		cr := r.Fork()
		g := &HistGen{r: cr, p: p}
		ops := g.Gen()
		a, b := runHistory(ops)
		emit(Case{"kind": "hist", "profile": profile, "ops": ops, "impl": Outcome{"v1": a["outs"], "v2": b["outs"]}})
	}
}


func siblingV1() *v1.Client {
	defer func() { recover() }()
	c := v1.NewClient()
	c.ActivateNativeInterpreter()
	for _, tn := range []string{"tab0", "tab1", "tab2"} {
		_ = v1.AddTable(c, tn, "sib", "")
		_ = v1.AddIndex(c, tn, "gsi0", "v", "")
		op := &Op{Op: "put", Table: HexS(tn), Item: Item{{[]byte("sib"), S("a")}, {[]byte("h"), S("a")}, {[]byte("r"), S("a")}, {[]byte("v"), S("1")}}}
		runV1(c, op)
		for _, e := range nativeTexts {
			for _, k := range []string{"key", "filter", "cond"} {
				c.GetNativeInterpreter().AddMatcher(tn, exprKind(k), e, matcherFunc(4))
			}
			c.GetNativeInterpreter().AddUpdater(tn, e, updaterFunc(4))
		}
	}
	v1.EmulateFailure(c, v1.FailureCondition("internal_server"))
	return c
}

func siblingV2() *v2.Client {
	defer func() { recover() }()
	c := v2.NewClient()
	c.ActivateNativeInterpreter()
	ctx := context.Background()
	for _, tn := range []string{"tab0", "tab1", "tab2"} {
		_ = v2.AddTable(ctx, c, tn, "sib", "")
		_ = v2.AddIndex(ctx, c, tn, "gsi0", "v", "")
		op := &Op{Op: "put", Table: HexS(tn), Item: Item{{[]byte("sib"), S("a")}, {[]byte("h"), S("a")}, {[]byte("r"), S("a")}, {[]byte("v"), S("1")}}}
		runV2(c, op)
		for _, e := range nativeTexts {
			for _, k := range []string{"key", "filter", "cond"} {
				c.GetNativeInterpreter().AddMatcher(tn, exprKind(k), e, matcherFunc(4))
			}
			c.GetNativeInterpreter().AddUpdater(tn, e, updaterFunc(4))
		}
	}
	v2.EmulateFailure(c, v2.FailureCondition("internal_server"))
	return c
}
