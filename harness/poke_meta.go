package main

import (
	"encoding/json"
	"fmt"
	"sort"

	"github.com/aws/aws-sdk-go-v2/service/dynamodb"
	v2types "github.com/aws/aws-sdk-go-v2/service/dynamodb/types"
	v1sdk "github.com/aws/aws-sdk-go/service/dynamodb"
	v1 "github.com/truora/minidyn/aws-v1/client"
	v2 "github.com/truora/minidyn/aws-v2/client"
)

// ---------- C14: the strings of a table definition are caller-owned memory too ----------

func sp(s string) *string { return &s }

// pokeMetaV1 creates a table from caller-owned strings, overwrites every one of them afterwards
// and then every string of a DescribeTable result; the table must describe and behave as before.
func pokeMetaV1(withRange bool, ptype string, nonKey []string) (vs []pokeViolation) {
	defer func() {
		if r := recover(); r != nil {
			vs = append(vs, pokeViolation{"v1:meta-crash", fmt.Sprint(r)})
		}
	}()
	c := v1.NewClient()
	strs := []*string{}
	own := func(s string) *string { p := sp(s); strs = append(strs, p); return p }
	nk := []*string{}
	for _, s := range nonKey {
		nk = append(nk, own(s))
	}
	ks := []*v1sdk.KeySchemaElement{{AttributeName: own("h"), KeyType: own("HASH")}}
	defs := []*v1sdk.AttributeDefinition{{AttributeName: own("h"), AttributeType: own("S")}, {AttributeName: own("g"), AttributeType: own("S")}}
	if withRange {
		ks = append(ks, &v1sdk.KeySchemaElement{AttributeName: own("r"), KeyType: own("RANGE")})
		defs = append(defs, &v1sdk.AttributeDefinition{AttributeName: own("r"), AttributeType: own("S")})
	}
	prj := &v1sdk.Projection{ProjectionType: own(ptype)}
	if len(nk) > 0 {
		prj.NonKeyAttributes = nk
	}
	in := &v1sdk.CreateTableInput{TableName: own("meta"), BillingMode: own("PAY_PER_REQUEST"), AttributeDefinitions: defs, KeySchema: ks,
		GlobalSecondaryIndexes: []*v1sdk.GlobalSecondaryIndex{{IndexName: own("idx"), KeySchema: []*v1sdk.KeySchemaElement{{AttributeName: own("g"), KeyType: own("HASH")}}, Projection: prj}}}
	if withRange {
		in.LocalSecondaryIndexes = []*v1sdk.LocalSecondaryIndex{{IndexName: own("lidx"), KeySchema: []*v1sdk.KeySchemaElement{{AttributeName: own("h"), KeyType: own("HASH")}, {AttributeName: own("g"), KeyType: own("RANGE")}},
			Projection: &v1sdk.Projection{ProjectionType: own(ptype)}}}
	}
	if _, err := c.CreateTable(in); err != nil {
		return []pokeViolation{{"v1:meta-setup", err.Error()}}
	}
	describe := func() (*v1sdk.DescribeTableOutput, string) {
		o, err := c.DescribeTable(&v1sdk.DescribeTableInput{TableName: sp("meta")})
		if err != nil {
			return nil, "error: " + err.Error()
		}
		// the indexes come out of a Go map: canonical order
		sort.Slice(o.Table.GlobalSecondaryIndexes, func(i, j int) bool {
			return *o.Table.GlobalSecondaryIndexes[i].IndexName < *o.Table.GlobalSecondaryIndexes[j].IndexName
		})
		sort.Slice(o.Table.LocalSecondaryIndexes, func(i, j int) bool {
			return *o.Table.LocalSecondaryIndexes[i].IndexName < *o.Table.LocalSecondaryIndexes[j].IndexName
		})
		b, _ := json.Marshal(o.Table)
		return o, string(b)
	}
	_, before := describe()
	for _, p := range strs {
		*p = "scribbled"
	}
	_, after := describe()
	if after != before {
		vs = append(vs, pokeViolation{"v1:input-of-CreateTable", "modifying the strings passed to CreateTable changed what DescribeTable returns"})
	}
	// the table is pay-per-request: a new index needs no throughput
	_, err := c.UpdateTable(&v1sdk.UpdateTableInput{TableName: sp("meta"), AttributeDefinitions: []*v1sdk.AttributeDefinition{{AttributeName: sp("k"), AttributeType: sp("S")}},
		GlobalSecondaryIndexUpdates: []*v1sdk.GlobalSecondaryIndexUpdate{{Create: &v1sdk.CreateGlobalSecondaryIndexAction{IndexName: sp("idx2"),
			KeySchema: []*v1sdk.KeySchemaElement{{AttributeName: sp("k"), KeyType: sp("HASH")}}, Projection: &v1sdk.Projection{ProjectionType: sp("ALL")}}}}})
	if err != nil {
		vs = append(vs, pokeViolation{"v1:input-of-CreateTable", "modifying the strings passed to CreateTable changed how the table behaves: " + err.Error()})
	}
	o, before2 := describe()
	if o != nil {
		scribbleStrings(o.Table)
		_, after2 := describe()
		if after2 != before2 {
			vs = append(vs, pokeViolation{"v1:output-of-DescribeTable", "modifying a DescribeTable result changed what DescribeTable returns"})
		}
	}
	return vs
}

// scribbleStrings overwrites every *string reachable from a v1 table description
func scribbleStrings(td *v1sdk.TableDescription) {
	w := func(p *string) {
		if p != nil {
			*p = "scribbled"
		}
	}
	w(td.TableName)
	for _, k := range td.KeySchema {
		w(k.AttributeName)
		w(k.KeyType)
	}
	for _, g := range td.GlobalSecondaryIndexes {
		w(g.IndexName)
		for _, k := range g.KeySchema {
			w(k.AttributeName)
			w(k.KeyType)
		}
		if g.Projection != nil {
			w(g.Projection.ProjectionType)
			for _, n := range g.Projection.NonKeyAttributes {
				w(n)
			}
		}
	}
	for _, g := range td.LocalSecondaryIndexes {
		w(g.IndexName)
		for _, k := range g.KeySchema {
			w(k.AttributeName)
			w(k.KeyType)
		}
		if g.Projection != nil {
			w(g.Projection.ProjectionType)
			for _, n := range g.Projection.NonKeyAttributes {
				w(n)
			}
		}
	}
}

func pokeMetaV2(withRange bool, ptype string, nonKey []string) (vs []pokeViolation) {
	defer func() {
		if r := recover(); r != nil {
			vs = append(vs, pokeViolation{"v2:meta-crash", fmt.Sprint(r)})
		}
	}()
	c := v2.NewClient()
	strs := []*string{}
	own := func(s string) *string { p := sp(s); strs = append(strs, p); return p }
	nk := append([]string{}, nonKey...)
	ks := []v2types.KeySchemaElement{{AttributeName: own("h"), KeyType: v2types.KeyTypeHash}}
	defs := []v2types.AttributeDefinition{{AttributeName: own("h"), AttributeType: v2types.ScalarAttributeTypeS}, {AttributeName: own("g"), AttributeType: v2types.ScalarAttributeTypeS}}
	if withRange {
		ks = append(ks, v2types.KeySchemaElement{AttributeName: own("r"), KeyType: v2types.KeyTypeRange})
		defs = append(defs, v2types.AttributeDefinition{AttributeName: own("r"), AttributeType: v2types.ScalarAttributeTypeS})
	}
	gks := []v2types.KeySchemaElement{{AttributeName: own("g"), KeyType: v2types.KeyTypeHash}}
	in := &dynamodb.CreateTableInput{TableName: own("meta"), BillingMode: v2types.BillingModePayPerRequest, AttributeDefinitions: defs, KeySchema: ks,
		GlobalSecondaryIndexes: []v2types.GlobalSecondaryIndex{{IndexName: own("idx"), KeySchema: gks, Projection: &v2types.Projection{ProjectionType: v2types.ProjectionType(ptype), NonKeyAttributes: nk}}}}
	if _, err := c.CreateTable(ctx, in); err != nil {
		return []pokeViolation{{"v2:meta-setup", err.Error()}}
	}
	describe := func() (*dynamodb.DescribeTableOutput, string) {
		o, err := c.DescribeTable(ctx, &dynamodb.DescribeTableInput{TableName: sp("meta")})
		if err != nil {
			return nil, "error: " + err.Error()
		}
		sort.Slice(o.Table.GlobalSecondaryIndexes, func(i, j int) bool {
			return *o.Table.GlobalSecondaryIndexes[i].IndexName < *o.Table.GlobalSecondaryIndexes[j].IndexName
		})
		b, _ := json.Marshal(o.Table)
		return o, string(b)
	}
	_, before := describe()
	for _, p := range strs {
		*p = "scribbled"
	}
	for i := range nk {
		nk[i] = "scribbled"
	}
	for i := range ks {
		ks[i].KeyType = "scribbled"
	}
	for i := range gks {
		gks[i].KeyType = "scribbled"
	}
	for i := range defs {
		defs[i].AttributeType = "scribbled"
	}
	in.BillingMode = "PROVISIONED"
	_, after := describe()
	if after != before {
		vs = append(vs, pokeViolation{"v2:input-of-CreateTable", "modifying the structures passed to CreateTable changed what DescribeTable returns"})
	}
	_, err := c.UpdateTable(ctx, &dynamodb.UpdateTableInput{TableName: sp("meta"), AttributeDefinitions: []v2types.AttributeDefinition{{AttributeName: sp("k"), AttributeType: v2types.ScalarAttributeTypeS}},
		GlobalSecondaryIndexUpdates: []v2types.GlobalSecondaryIndexUpdate{{Create: &v2types.CreateGlobalSecondaryIndexAction{IndexName: sp("idx2"),
			KeySchema: []v2types.KeySchemaElement{{AttributeName: sp("k"), KeyType: v2types.KeyTypeHash}}, Projection: &v2types.Projection{ProjectionType: v2types.ProjectionTypeAll}}}}})
	if err != nil {
		vs = append(vs, pokeViolation{"v2:input-of-CreateTable", "modifying the structures passed to CreateTable changed how the table behaves: " + err.Error()})
	}
	o, before2 := describe()
	if o != nil {
		td := o.Table
		w := func(p *string) {
			if p != nil {
				*p = "scribbled"
			}
		}
		w(td.TableName)
		for i := range td.KeySchema {
			w(td.KeySchema[i].AttributeName)
			td.KeySchema[i].KeyType = "scribbled"
		}
		for i := range td.GlobalSecondaryIndexes {
			g := &td.GlobalSecondaryIndexes[i]
			w(g.IndexName)
			for j := range g.KeySchema {
				w(g.KeySchema[j].AttributeName)
				g.KeySchema[j].KeyType = "scribbled"
			}
			if g.Projection != nil {
				for j := range g.Projection.NonKeyAttributes {
					g.Projection.NonKeyAttributes[j] = "scribbled"
				}
			}
		}
		_, after2 := describe()
		if after2 != before2 {
			vs = append(vs, pokeViolation{"v2:output-of-DescribeTable", "modifying a DescribeTable result changed what DescribeTable returns"})
		}
	}
	return vs
}
