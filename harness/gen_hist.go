package main

import (
	"sort"
	"fmt"
	"strings"
)

// ---------- history generator ----------

type TableSpec struct {
	Name    string
	Hash    [2]string
	Range   *[2]string
	GSI     []IndexSpec
	LSI     []IndexSpec
	Dropped bool
	PPR     bool
}

type IndexSpec struct {
	Name  string
	Hash  [2]string
	Range *[2]string
}

type Profile struct {
	Name string
	// weights of operation classes
	Put, Update, Delete, Get, Query, Scan, Pages, BatchWrite, BatchGet, Describe, Failure, Mgmt, Native, Transact int
	CondPct      int  // share of writes that carry a condition
	BadPct       int  // share of requests made invalid on purpose (bad key, bad index key type, garbage expression, unknown table)
	Tables       int  // number of tables
	MaxIndexes   int
	OpsMin, OpsMax int
	ExactNums    bool
	DotKeys      bool // key alphabet rich in separator characters
	NumericKeys  bool // allow N / B typed keys
	FinalObserve bool
	DelBoundary  int // percent of pages ops that delete the boundary item
	FewHash      bool // two partition values only: many items share a partition
	RichValues   bool // items carry deep value trees of all ten types incl. boundary members
	BinIndexKeys bool // indexes on a binary attribute, created over items one of which holds an empty binary there
}

type HistGen struct {
	r      *Rng
	p      Profile
	tables []*TableSpec
	ops    []*Op
	native bool
	regs   []string // registered native expression texts
	// keys of the items the history has put so far, per table: reads aim at them half of the time
	putKeys map[string][]Item
}

// knownKey: the key of an item that was put into t earlier (it may have been deleted since), or a fresh one
func (g *HistGen) knownKey(t *TableSpec) Item {
	if ks := g.putKeys[t.Name]; len(ks) > 0 && g.r.Chance(55) {
		return pick(g.r, ks)
	}
	return g.genKey(t)
}

func (g *HistGen) notePut(t *TableSpec, it Item) {
	if g.putKeys == nil {
		g.putKeys = map[string][]Item{}
	}
	k := Item{}
	for _, kv := range it {
		if string(kv.K) == t.Hash[0] || (t.Range != nil && string(kv.K) == t.Range[0]) {
			k = append(k, kv)
		}
	}
	if len(k) == 1+map[bool]int{true: 1, false: 0}[t.Range != nil] {
		g.putKeys[t.Name] = append(g.putKeys[t.Name], k)
	}
}

var hashVals = []string{"a", "b", "c", "p", "q"}
var hashValsDot = []string{"a", "b", "a.b", "a\\", "a\\.b", "b.c", "a.", ".", "\\", "c", ""}
var rangeVals = []string{"a", "b", "c", "d", "e", "ab", "b.c", "c", "x"}

// values of the table's own range key: the empty value is rejected there (index key attributes keep
// the pinned behaviour of the library and stay non-empty in generated items)
var rangeValsPrimary = []string{"a", "b", "c", "d", "e", "ab", "b.c", "c", "x", ""}
// number key values; 10 in three spellings (one number, one key)
var rangeValsNum = []string{"1", "2", "3", "10", "9", "5", "7", "10.0", "010"}

// distinct numbers that a binary64 (or a 17-digit rendering) cannot tell apart: distinct keys
var rangeValsNumClose = []string{"9007199254740993", "9007199254740992", "0.1234567890123456789", "0.1234567890123456788", "12345678901234567890123456789012345678", "12345678901234567890123456789012345679"}
// index key values: a value, the same followed by the separator, by a byte below it and by one above it
var gVals = []string{"x", "y", "z", "x.y", "w", "x-", "x/y"}
var vVals = []string{"0", "1", "2", "3", "4", "5"}

func (g *HistGen) keyVal(t string, pool []string) AV {
	switch t {
	case "N":
		if g.p.FewHash && len(pool) <= 2 {
			return AV{T: "N", V: []byte(pick(g.r, []string{"1", "2"}))}
		}
		if g.p.DotKeys && g.r.Chance(30) {
			return AV{T: "N", V: []byte(pick(g.r, rangeValsNumClose))}
		}
		return AV{T: "N", V: []byte(pick(g.r, rangeValsNum))}
	case "B":
		return AV{T: "B", V: []byte(pick(g.r, pool))}
	}
	return AV{T: "S", V: []byte(pick(g.r, pool))}
}

func (g *HistGen) hashPool() []string {
	if g.p.FewHash {
		return []string{"a", "b"} // few partitions, many items in each
	}
	if g.p.DotKeys {
		return hashValsDot
	}
	return hashVals
}

// hash/range pairs that render to one key string under a plausible mistake in the escaping of the
// separator: none, '.' only, '\' only, or both in the wrong order
var collisionPairs = [][2]string{{"a.b", "c"}, {"a", "b.c"}, {"a\\", "b.c"}, {"a.", "b"}, {"a", ".b"}, {"a\\.b", "c"}, {"a\\", ".b.c"}}

// the same for a number hash key (a decimal point is the separator character too)
var collisionPairsNS = [][2]string{{"1.5", "x"}, {"1", "5.x"}, {"2.5", "b"}, {"2", "5.b"}}
var collisionPairsNN = [][2]string{{"1", "2.3"}, {"1.2", "3"}, {"4", "5.6"}, {"4.5", "6"}}

func (g *HistGen) genKey(t *TableSpec) Item {
	if g.p.DotKeys && t.Range != nil && g.r.Chance(40) {
		switch {
		case t.Hash[1] == "S" && t.Range[1] == "S":
			p := pick(g.r, collisionPairs)
			return Item{{[]byte(t.Hash[0]), S(p[0])}, {[]byte(t.Range[0]), S(p[1])}}
		case t.Hash[1] == "N" && t.Range[1] == "S":
			p := pick(g.r, collisionPairsNS)
			return Item{{[]byte(t.Hash[0]), Nn(p[0])}, {[]byte(t.Range[0]), S(p[1])}}
		case t.Hash[1] == "N" && t.Range[1] == "N":
			p := pick(g.r, collisionPairsNN)
			return Item{{[]byte(t.Hash[0]), Nn(p[0])}, {[]byte(t.Range[0]), Nn(p[1])}}
		}
	}
	k := Item{{[]byte(t.Hash[0]), g.keyVal(t.Hash[1], g.hashPool())}}
	if t.Range != nil {
		k = append(k, KV{[]byte(t.Range[0]), g.keyVal(t.Range[1], rangeValsPrimary)})
	}
	return k
}

func (g *HistGen) badKey(t *TableSpec) Item {
	switch g.r.Intn(4) {
	case 0:
		return Item{}
	case 1: // wrong type for the hash key
		wt := "N"
		if t.Hash[1] == "N" {
			wt = "S"
		}
		k := Item{{[]byte(t.Hash[0]), genOfType(g.r, wt, 1, ValOpts{ExactNums: true})}}
		if t.Range != nil {
			k = append(k, KV{[]byte(t.Range[0]), g.keyVal(t.Range[1], rangeVals)})
		}
		return k
	case 2: // range missing / hash only
		if t.Range != nil {
			return Item{{[]byte(t.Hash[0]), g.keyVal(t.Hash[1], g.hashPool())}}
		}
		return Item{{[]byte("other"), S("x")}}
	default:
		k := g.genKey(t)
		if t.Range != nil {
			k[1].V = AV{T: "BOOL", Bool: true}
		} else {
			k[0].V = AV{T: "NULL"}
		}
		return k
	}
}

func (g *HistGen) genItemFor(t *TableSpec) Item {
	it := g.genKey(t)
	has := map[string]bool{}
	for _, kv := range it {
		has[string(kv.K)] = true
	}
	add := func(name string, v AV) {
		if !has[name] {
			has[name] = true
			it = append(it, KV{[]byte(name), v})
		}
	}
	for _, ix := range append(append([]IndexSpec{}, t.GSI...), t.LSI...) {
		if g.r.Chance(75) {
			add(ix.Hash[0], g.keyVal(ix.Hash[1], gVals))
		}
		if ix.Range != nil && g.r.Chance(75) {
			add(ix.Range[0], g.keyVal(ix.Range[1], rangeVals))
		}
	}
	// attributes that could become index keys later — sometimes with a type no later index will accept:
	// such an item stays outside the index when it is created, and must still be deletable and writable
	if g.p.BadPct >= 30 && g.r.Chance(25) {
		add(pick(g.r, []string{"g", "g2"}), AV{T: "N", V: []byte("5")})
	}
	if g.r.Chance(50) {
		add("g", S(pick(g.r, gVals)))
	}
	if g.r.Chance(30) {
		add("g2", S(pick(g.r, gVals)))
	}
	add("v", S(pick(g.r, vVals)))
	if g.p.CondPct >= 30 && g.r.Chance(15) {
		// an attribute literally named like a value placeholder of the requests: the request's value is the request's
		add(pick(g.r, []string{":v0", ":v1", ":x"}), S(pick(g.r, vVals)))
	}
	if g.p.DotKeys && g.r.Chance(45) {
		// a map whose members are named like the key attributes (nested names are no key attributes)
		m := AV{T: "M", M: []KV{{[]byte(t.Hash[0]), S("inner")}, {[]byte("k"), S("1")}}}
		if t.Range != nil {
			m.M = append(m.M, KV{[]byte(t.Range[0]), S("inner")})
		}
		add("m1", m)
	}
	if g.r.Chance(60) {
		add("n1", AV{T: "N", V: genNum(g.r, g.p.ExactNums)})
	}
	o := ValOpts{ExactNums: g.p.ExactNums, MaxDepth: 1}
	if g.r.Chance(30) {
		add("s1", AV{T: "S", V: genStr(g.r)})
	}
	if g.r.Chance(20) {
		add("l1", genOfType(g.r, "L", 0, o))
	}
	if g.r.Chance(15) {
		add("ss1", genOfType(g.r, "SS", 0, o))
	}
	if g.r.Chance(15) {
		add("flag", genOfType(g.r, "BOOL", 0, o))
	}
	if g.r.Chance(10) {
		add("nul", AV{T: "NULL"})
	}
	if g.p.RichValues {
		ro := ValOpts{ExactNums: g.r.Chance(50), AllowEmpty: true, MaxDepth: 4}
		for i := 0; i < 1+g.r.Intn(4); i++ {
			add(fmt.Sprintf("x%d", g.r.Intn(6)), genVal(g.r, 0, ro))
		}
		if g.r.Chance(30) {
			add("deep", genOfType(g.r, pick(g.r, []string{"L", "M"}), 0, ro))
		}
		if g.r.Chance(20) {
			add("emptyS", AV{T: "S", V: []byte{}})
		}
		if g.r.Chance(15) {
			add("emptyL", AV{T: "L", L: []AV{}})
		}
		if g.r.Chance(15) {
			add("emptyM", AV{T: "M", M: Item{}})
		}
		if g.r.Chance(10) {
			add("emptyB", AV{T: "B", V: []byte{}})
		}
		if g.r.Chance(15) {
			add("ff", AV{T: "BOOL", Bool: false})
		}
	}
	return it
}

func (g *HistGen) live() []*TableSpec {
	out := []*TableSpec{}
	for _, t := range g.tables {
		if !t.Dropped {
			out = append(out, t)
		}
	}
	return out
}

func (g *HistGen) pickTable() *TableSpec {
	l := g.live()
	if len(l) == 0 || g.r.Chance(g.p.BadPct/4) {
		return &TableSpec{Name: "nosuchtable", Hash: [2]string{"h", "S"}}
	}
	return pick(g.r, l)
}

func keyDefOf(h [2]string, r *[2]string) *KeyDef {
	k := &KeyDef{Hash: [2]HexS{HexS(h[0]), HexS(h[1])}}
	if r != nil {
		k.Range = &[2]HexS{HexS(r[0]), HexS(r[1])}
	}
	return k
}

func (g *HistGen) indexDef(ix IndexSpec, tp bool) IndexDef {
	return IndexDef{Name: HexS(ix.Name), Key: *keyDefOf(ix.Hash, ix.Range), TP: tp}
}

// an index whose key attributes are all key attributes of the table: the inverted index
// (hash and range swapped) or the range attribute alone
func (g *HistGen) keyOnlyIndexSpec(t *TableSpec, name string) IndexSpec {
	if g.r.Chance(60) {
		h := t.Hash
		return IndexSpec{Name: name, Hash: *t.Range, Range: &h}
	}
	return IndexSpec{Name: name, Hash: *t.Range}
}

func (g *HistGen) newIndexSpecFor(t *TableSpec, name string) IndexSpec {
	if t.Range != nil && g.r.Chance(20) {
		return g.keyOnlyIndexSpec(t, name)
	}
	return g.newIndexSpec(name)
}

func (g *HistGen) newIndexSpec(name string) IndexSpec {
	ix := IndexSpec{Name: name, Hash: [2]string{pick(g.r, []string{"g", "g", "g2"}), "S"}}
	if g.r.Chance(40) {
		rt := "S"
		if g.p.NumericKeys && g.r.Chance(30) {
			rt = "N"
		}
		rn := pick(g.r, []string{"r2", "v"})
		if rt == "N" {
			rn = "n1"
		}
		ix.Range = &[2]string{rn, rt}
	}
	return ix
}

func (g *HistGen) createTable(name string) {
	t := &TableSpec{Name: name, Hash: [2]string{"h", "S"}}
	if g.p.NumericKeys && g.r.Chance(30) {
		t.Hash[1] = pick(g.r, []string{"N", "N", "B"})
	}
	if g.r.Chance(55) || (g.p.NumericKeys && g.r.Chance(40)) {
		rt := "S"
		if g.p.NumericKeys && g.r.Chance(45) {
			rt = pick(g.r, []string{"N", "N", "B"})
		}
		t.Range = &[2]string{"r", rt}
	}
	n := g.r.Intn(g.p.MaxIndexes + 1)
	for i := 0; i < n; i++ {
		if t.Range != nil && g.r.Chance(25) {
			t.LSI = append(t.LSI, IndexSpec{Name: fmt.Sprintf("lsi%d", i), Hash: t.Hash, Range: &[2]string{"l", "S"}})
		} else {
			t.GSI = append(t.GSI, g.newIndexSpecFor(t, fmt.Sprintf("gsi%d", i)))
		}
	}
	op := &Op{Op: "createTable", Table: HexS(name), Key: keyDefOf(t.Hash, t.Range), PPR: g.r.Chance(80)}
	t.PPR = op.PPR
	op.TP = !op.PPR || g.r.Chance(30)
	if !op.PPR && g.r.Chance(g.p.BadPct) {
		op.TP = false // provisioned without throughput: rejected
	}
	if len(t.GSI) > 0 {
		l := []IndexDef{}
		for _, ix := range t.GSI {
			l = append(l, g.indexDef(ix, op.TP))
		}
		op.GSI = &l
	} else if g.r.Chance(g.p.BadPct / 2) {
		op.GSI = &[]IndexDef{}
	}
	if len(t.LSI) > 0 {
		l := []IndexDef{}
		for _, ix := range t.LSI {
			l = append(l, g.indexDef(ix, false))
		}
		op.LSI = &l
	}
	rejected := (!op.PPR && !op.TP) || (op.GSI != nil && len(*op.GSI) == 0)
	exists := false
	for _, e := range g.tables {
		if e.Name == name && !e.Dropped {
			exists = true
		}
	}
	g.ops = append(g.ops, op)
	if !rejected && !exists {
		g.tables = append(g.tables, t)
	}
}

func pathOp(name string) *Operand { return &Operand{Kind: "path", Root: []byte(name)} }
func valOp(v AV) *Operand         { return &Operand{Kind: "val", Val: v} }

// condition on the target item, built so that it is true about half of the time
func (g *HistGen) condTree(t *TableSpec) *Cond {
	num := func() AV { return AV{T: "N", V: []byte(pick(g.r, simpleNumerals))} }
	switch g.r.Intn(10) {
	case 8:
		// operands of two different types: never equal, always different, no order between them
		op := pick(g.r, []string{"=", "<>", "=", "<>", "<"})
		if g.r.Bool() {
			return &Cond{K: "cmp", Op: op, L: pathOp("v"), R: valOp(AV{T: "N", V: []byte(pick(g.r, vVals))})}
		}
		return &Cond{K: "cmp", Op: op, L: pathOp("n1"), R: valOp(S(pick(g.r, simpleNumerals)))}
	case 9:
		// two attributes compared with one another: the item may have both, one or neither
		a, b := pick(g.r, []string{"v", "nosuch", "g", "w"}), pick(g.r, []string{"v", "zz", "g2", "nosuch2"})
		return &Cond{K: "cmp", Op: pick(g.r, []string{"=", "<>"}), L: pathOp(a), R: pathOp(b)}
	case 0:
		return &Cond{K: "fn", Fn: "attribute_exists", Args: []Operand{*pathOp(t.Hash[0])}}
	case 1:
		return &Cond{K: "fn", Fn: "attribute_not_exists", Args: []Operand{*pathOp(t.Hash[0])}}
	case 2:
		return &Cond{K: "cmp", Op: "=", L: pathOp("v"), R: valOp(S(pick(g.r, vVals)))}
	case 3:
		return &Cond{K: "cmp", Op: "<>", L: pathOp("v"), R: valOp(S(pick(g.r, vVals)))}
	case 4:
		return &Cond{K: "cmp", Op: pick(g.r, []string{"<", ">", "<=", ">="}), L: pathOp("n1"), R: valOp(num())}
	case 5:
		return &Cond{K: "and", A: &Cond{K: "fn", Fn: "attribute_exists", Args: []Operand{*pathOp("g")}},
			B: &Cond{K: "in", L: pathOp("v"), Ins: []Operand{*valOp(S(pick(g.r, vVals))), *valOp(S(pick(g.r, vVals)))}}}
	case 6:
		return &Cond{K: "or", A: &Cond{K: "not", A: &Cond{K: "cmp", Op: "=", L: pathOp("v"), R: valOp(S(pick(g.r, vVals)))}},
			B: &Cond{K: "fn", Fn: "attribute_not_exists", Args: []Operand{*pathOp("n1")}}}
	default:
		return &Cond{K: "fn", Fn: "begins_with", Args: []Operand{*pathOp("v"), *valOp(S(pick(g.r, []string{"", "1", "2"})))}}
	}
}

var garbageExprs = []string{"this is ((( garbage", "v = ", "= :x", "v == :x", "v = :x AND", "(v = :x", "v = :x )", "v BETWEEN :x", "SET", "NOT", "v = :x v = :x", "v = :x and v = :x", "size(", "v IN (", "\x00", "v = :x \x00 zz"}

func (g *HistGen) maybeCond(t *TableSpec, op *Op) {
	ctx := NewExprCtx(g.r)
	if op.names != nil {
		ctx.Names, ctx.Values = op.names, op.values
		for a, n := range op.names {
			ctx.nameOf[n] = a
		}
	}
	if g.r.Chance(g.p.CondPct) {
		var c string
		if g.r.Chance(g.p.BadPct) {
			c = pick(g.r, garbageExprs)
			op.GarbageCond = true
			if strings.Contains(c, ":x") {
				ctx.Values[":x"] = S("1")
			}
		} else if nt, ok := g.nativeText(50, append(append([]string{}, nativeTexts[:4]...), nativeTexts[6:]...)); ok {
			c = nt
			if strings.Contains(c, ":x") {
				ctx.Values[":x"] = S("1")
			}
		} else {
			op.CondTree = g.condTree(t)
			c = ctx.Print(op.CondTree, 0)
		}
		h := HexS(c)
		op.Cond = &h
	}
	op.setExprs(ctx.Names, ctx.Values)
	// unused / malformed placeholders (often together with a second fault: a table that does not exist)
	if g.r.Chance(g.p.BadPct/2) || (t.Name == "nosuchtable" && g.r.Chance(60)) {
		switch g.r.Intn(6) {
		case 0:
			ctx.Names["#unused"] = "v"
		case 1:
			ctx.Values[":unused"] = S("1")
		case 2:
			ctx.Names["#bad-name"] = "v"
		case 3:
			ctx.Values[":bad-value"] = S("1")
		default:
			// a placeholder the expressions use does not come with the request
			if g.dropPlaceholder(ctx) {
				op.CondTree = nil
			}
		}
		op.setExprs(ctx.Names, ctx.Values)
	}
}

// dropPlaceholder removes one of the supplied names or values: the expressions still use it
func (g *HistGen) dropPlaceholder(ctx *ExprCtx) bool {
	keys := []string{}
	for k := range ctx.Names {
		keys = append(keys, k)
	}
	for k := range ctx.Values {
		keys = append(keys, k)
	}
	if len(keys) == 0 {
		return false
	}
	sort.Strings(keys)
	k := pick(g.r, keys)
	delete(ctx.Names, k)
	delete(ctx.Values, k)
	return true
}

func (g *HistGen) genPut() {
	t := g.pickTable()
	op := &Op{Op: "put", Table: HexS(t.Name), Item: g.genItemFor(t)}
	if g.r.Chance(g.p.BadPct) {
		switch g.r.Intn(3) {
		case 0:
			op.Item = append(g.badKey(t), KV{[]byte("v"), S("1")})
		default:
			// ill-typed index key attribute
			all := append(append([]IndexSpec{}, t.GSI...), t.LSI...)
			if len(all) > 0 {
				ix := pick(g.r, all)
				// the index hash key, or its range key (always the range key when the hash is the table's own)
				attr, ty := ix.Hash[0], ix.Hash[1]
				if ix.Range != nil && (attr == t.Hash[0] || g.r.Chance(50)) {
					attr, ty = ix.Range[0], ix.Range[1]
				}
				bad := AV{T: "N", V: []byte("5")}
				if ty == "N" {
					bad = S("ten")
				}
				it := Item{}
				for _, kv := range op.Item {
					if string(kv.K) != attr {
						it = append(it, kv)
					}
				}
				op.Item = append(it, KV{[]byte(attr), bad})
			}
		}
	}
	g.maybeCond(t, op)
	g.notePut(t, op.Item)
	g.ops = append(g.ops, op)
}

func (g *HistGen) updateExpr(t *TableSpec, ctx *ExprCtx) string {
	// the key attributes of the indexes the table really has: gaining, changing and losing an index key
	if all := append(append([]IndexSpec{}, t.GSI...), t.LSI...); len(all) > 0 && g.r.Chance(25) {
		ix := pick(g.r, all)
		attr := ix.Hash
		if ix.Range != nil && g.r.Bool() {
			attr = *ix.Range
		}
		if attr[0] != t.Hash[0] && (t.Range == nil || attr[0] != t.Range[0]) {
			if g.r.Chance(45) {
				return "REMOVE " + ctx.name([]byte(attr[0]))
			}
			pool := gVals
			if attr[1] == "N" {
				pool = rangeValsNum
			}
			return "SET " + ctx.name([]byte(attr[0])) + " = " + ctx.value(g.keyVal(attr[1], pool))
		}
	}
	ixAttrs := []string{"g", "g2", "r2", "l"}
	switch g.r.Intn(14) {
	case 12: // a map whose members are named like the key attributes
		m := AV{T: "M", M: []KV{{[]byte(t.Hash[0]), S("inner")}, {[]byte("k"), S("1")}}}
		if t.Range != nil {
			m.M = append(m.M, KV{[]byte(t.Range[0]), S("inner")})
		}
		return "SET " + ctx.name([]byte("m1")) + " = " + ctx.value(m)
	case 13: // a nested path whose member is named like a key attribute: the key attribute itself is not targeted
		member := t.Hash[0]
		if t.Range != nil && g.r.Bool() {
			member = t.Range[0]
		}
		if g.r.Chance(30) {
			return "REMOVE " + ctx.name([]byte("m1")) + "." + ctx.name([]byte(member))
		}
		return "SET " + ctx.name([]byte("m1")) + "." + ctx.name([]byte(member)) + " = " + ctx.value(S(pick(g.r, vVals)))
	case 0, 1:
		return "SET " + ctx.name([]byte(pick(g.r, ixAttrs))) + " = " + ctx.value(S(pick(g.r, gVals)))
	case 2:
		return "REMOVE " + ctx.name([]byte(pick(g.r, ixAttrs)))
	case 3:
		return "SET " + ctx.name([]byte("v")) + " = " + ctx.value(S(pick(g.r, vVals)))
	case 4:
		return "ADD " + ctx.name([]byte("n1")) + " " + ctx.value(AV{T: "N", V: []byte(pick(g.r, []string{"1", "2", "-1"}))})
	case 5:
		return "SET " + ctx.name([]byte("n1")) + " = " + ctx.name([]byte("n1")) + " + " + ctx.value(AV{T: "N", V: []byte("1")}) + ", " + ctx.name([]byte("s1")) + " = " + ctx.value(S("upd"))
	case 6:
		return "SET " + ctx.name([]byte("s1")) + " = if_not_exists(" + ctx.name([]byte("s1")) + ", " + ctx.value(S("dflt")) + ") REMOVE " + ctx.name([]byte("flag"))
	case 7:
		return "SET " + ctx.name([]byte("l1")) + " = list_append(if_not_exists(" + ctx.name([]byte("l1")) + ", " + ctx.value(AV{T: "L", L: []AV{}}) + "), " + ctx.value(AV{T: "L", L: []AV{S("e")}}) + ")"
	case 8:
		return "ADD " + ctx.name([]byte("ss1")) + " " + ctx.value(AV{T: "SS", Set: [][]byte{[]byte(pick(g.r, []string{"a", "b", "z"}))}})
	case 9:
		return "DELETE " + ctx.name([]byte("ss1")) + " " + ctx.value(AV{T: "SS", Set: [][]byte{[]byte(pick(g.r, []string{"a", "b", "z"}))}})
	case 10: // ill-typed index key
		return "SET " + ctx.name([]byte(pick(g.r, ixAttrs))) + " = " + ctx.value(AV{T: "N", V: []byte("5")})
	default: // names a key attribute
		if g.r.Chance(50) && t.Range != nil {
			return "SET " + ctx.name([]byte(t.Range[0])) + " = " + ctx.value(g.keyVal(t.Range[1], rangeVals))
		}
		return "SET " + ctx.name([]byte("v")) + " = " + ctx.value(S("k")) + ", " + ctx.name([]byte("g")) + " = " + ctx.value(S(pick(g.r, gVals)))
	}
}

func (g *HistGen) genUpdate() {
	t := g.pickTable()
	op := &Op{Op: "update", Table: HexS(t.Name), KeyItem: g.genKey(t), RetOnFail: g.r.Chance(40)}
	if g.r.Chance(g.p.BadPct / 2) {
		op.KeyItem = g.badKey(t)
	}
	ctx := NewExprCtx(g.r)
	all := append(append([]IndexSpec{}, t.GSI...), t.LSI...)
	if len(all) > 0 && g.r.Chance(g.p.BadPct/2) {
		// well-formed, evaluates fine, but leaves an index key attribute with the wrong type: must be
		// rejected without a trace, also when the item exists
		ix := pick(g.r, all)
		attr, ty := ix.Hash[0], ix.Hash[1]
		if ix.Range != nil && (attr == t.Hash[0] || g.r.Chance(50)) {
			attr, ty = ix.Range[0], ix.Range[1]
		}
		bad := AV{T: "N", V: []byte("5")}
		if ty == "N" {
			bad = S("ten")
		}
		op.Expr = HexS("SET " + ctx.name([]byte("v")) + " = " + ctx.value(S("touched")) + ", " + ctx.name([]byte(attr)) + " = " + ctx.value(bad) + " REMOVE " + ctx.name([]byte("s1")))
	} else if g.r.Chance(g.p.BadPct / 3) {
		// no UpdateExpression at all (a nil pointer in the request): an error like an empty text, never a fault
		op.NoExpr = true
		op.GarbageUpdate = true
		op.Expr = ""
	} else if g.r.Chance(g.p.BadPct) {
		op.GarbageUpdate = true
		op.Expr = HexS(pick(g.r, []string{"SET", "SET v = ", "v = :x", "SET v = :x SET v = :x", "FOO v :x", "SET v = :x,", "REMOVE", "ADD v"}))
		if strings.Contains(string(op.Expr), ":x") {
			ctx.Values[":x"] = S("1")
		}
	} else if nt, ok := g.nativeText(70, nativeTexts[4:6]); ok {
		op.Expr = HexS(nt)
		if strings.Contains(string(op.Expr), ":x") {
			ctx.Values[":x"] = S("1")
		}
	} else {
		op.Expr = HexS(g.updateExpr(t, ctx))
		if strings.Contains(string(op.Expr), ".") && g.r.Chance(70) {
			// make sure the map the nested path walks into is there: the same key first receives it
			pre := &Op{Op: "update", Table: HexS(t.Name), KeyItem: op.KeyItem}
			pctx := NewExprCtx(g.r)
			m := AV{T: "M", M: []KV{{[]byte(t.Hash[0]), S("inner")}, {[]byte("k"), S("1")}}}
			if t.Range != nil {
				m.M = append(m.M, KV{[]byte(t.Range[0]), S("inner")})
			}
			pre.Expr = HexS("SET " + pctx.name([]byte("m1")) + " = " + pctx.value(m))
			pre.setExprs(pctx.Names, pctx.Values)
			g.ops = append(g.ops, pre)
		}
	}
	op.names, op.values = ctx.Names, ctx.Values
	g.maybeCond(t, op)
	g.ops = append(g.ops, op)
}

func (g *HistGen) genDelete() {
	t := g.pickTable()
	op := &Op{Op: "delete", Table: HexS(t.Name), KeyItem: g.knownKey(t), RetOld: g.r.Chance(50)}
	if !op.RetOld && g.r.Chance(30) {
		op.RetOther = pick(g.r, []string{"NONE", "UPDATED_OLD", "ALL_NEW", "UPDATED_NEW"})
	}
	if g.r.Chance(g.p.BadPct / 2) {
		op.KeyItem = g.badKey(t)
	}
	g.maybeCond(t, op)
	g.ops = append(g.ops, op)
}

func (g *HistGen) genGet() {
	t := g.pickTable()
	op := &Op{Op: "get", Table: HexS(t.Name), KeyItem: g.knownKey(t)}
	if g.r.Chance(g.p.BadPct / 2) {
		op.KeyItem = g.badKey(t)
	}
	g.ops = append(g.ops, op)
}

// variant of a registered native expression: same text, extra white space, or an anagram
func (g *HistGen) variant(e string) string {
	switch g.r.Intn(10) {
	case 9: // a blank inside a word or between ':' and its name: another text, and no sentence
		b := []byte(e)
		var cand []int
		for i := 1; i < len(b); i++ {
			w := func(c byte) bool { return c == '_' || c == ':' || c == '#' || (c >= 'a' && c <= 'z') || (c >= 'A' && c <= 'Z') || (c >= '0' && c <= '9') }
			if w(b[i-1]) && w(b[i]) {
				cand = append(cand, i)
			}
		}
		if len(cand) > 0 {
			i := pick(g.r, cand)
			return string(b[:i]) + " " + string(b[i:])
		}
		return e
	case 7: // exactly one space in front: the same expression
		return " " + e
	case 8: // exactly one space (or one tab, one newline) behind: the same expression
		return e + pick(g.r, []string{" ", " ", "\t", "\n"})
	case 6: // a space character the lexer does not know: a different (and malformed) expression
		return strings.Replace(e, " ", pick(g.r, []string{"\u00a0", "\v", "\f", "\u0085", "\u2003"}), 1)
	case 5: // another letter case somewhere outside the placeholders: a different expression
		b := []byte(e)
		var cand []int
		for i, c := range b {
			isL := (c >= 'a' && c <= 'z') || (c >= 'A' && c <= 'Z')
			if isL && (i == 0 || (b[i-1] != ':' && b[i-1] != '#')) {
				cand = append(cand, i)
			}
		}
		if len(cand) > 0 {
			i := pick(g.r, cand)
			b[i] ^= 0x20
		}
		return string(b)
	case 0:
		return "  " + strings.ReplaceAll(e, " ", "  ") + "\n"
	case 1:
		return strings.ReplaceAll(e, " ", "\t")
	case 2: // swap two adjacent non-space characters: an anagram
		b := []byte(e)
		for i := 0; i+1 < len(b); i++ {
			if b[i] != ' ' && b[i+1] != ' ' && b[i] != b[i+1] && g.r.Chance(30) {
				b[i], b[i+1] = b[i+1], b[i]
				break
			}
		}
		return string(b)
	}
	return e
}

func (g *HistGen) searchOp(kind string) *Op { return g.searchOpX(kind, false) }

func (g *HistGen) searchOpX(kind string, forceScan bool) *Op {
	t := g.pickTable()
	op := &Op{Op: kind, Table: HexS(t.Name), Forward: true, MaxPages: 40}
	op.pkAttrs = []string{t.Hash[0]}
	if t.Range != nil {
		op.pkAttrs = append(op.pkAttrs, t.Range[0])
	}
	hash, rng := t.Hash, t.Range
	all := append(append([]IndexSpec{}, t.GSI...), t.LSI...)
	if len(all) > 0 && g.r.Chance(50) {
		ix := pick(g.r, all)
		op.Index = HexS(ix.Name)
		hash, rng = ix.Hash, ix.Range
	} else if g.r.Chance(g.p.BadPct / 3) {
		op.Index = "nosuchindex"
	}
	ctx := NewExprCtx(g.r)
	isScan := g.r.Chance(40) || forceScan
	if kind == "query" || kind == "pages" {
		op.Scan = isScan
	}
	if !op.Scan {
		op.Forward = g.r.Chance(65)
		pool := g.hashPool()
		if string(op.Index) != "" && op.Index != "nosuchindex" {
			pool = gVals
		}
		keyTree := &Cond{K: "cmp", Op: "=", L: pathOp(hash[0]), R: valOp(g.keyVal(hash[1], pool))}
		if rng != nil && g.r.Chance(55) {
			rv := func() *Operand { return valOp(g.keyVal(rng[1], rangeVals)) }
			rn := pathOp(rng[0])
			var rc *Cond
			switch g.r.Intn(7) {
			case 0:
				rc = &Cond{K: "cmp", Op: "=", L: rn, R: rv()}
			case 1:
				rc = &Cond{K: "cmp", Op: "<", L: rn, R: rv()}
			case 2:
				rc = &Cond{K: "cmp", Op: "<=", L: rn, R: rv()}
			case 3:
				rc = &Cond{K: "cmp", Op: ">", L: rn, R: rv()}
			case 4:
				rc = &Cond{K: "cmp", Op: ">=", L: rn, R: rv()}
			case 5:
				rc = &Cond{K: "between", L: rn, R: rv(), X: rv()}
			default:
				if rng[1] == "N" {
					rc = &Cond{K: "cmp", Op: ">=", L: rn, R: rv()}
				} else {
					rc = &Cond{K: "fn", Fn: "begins_with", Args: []Operand{*rn, *valOp(AV{T: rng[1], V: []byte(pick(g.r, []string{"", "a", "b", "b."}))})}}
				}
			}
			keyTree = &Cond{K: "and", A: keyTree, B: rc}
		}
		op.KeyTree = keyTree
		kc := ctx.Print(keyTree, 0)
		if nt, ok := g.nativeText(50, nativeTexts[:4]); ok {
			kc = nt
			op.KeyTree = nil
			if strings.Contains(kc, ":x") {
				ctx.Values[":x"] = S("1")
			}
		}
		if g.r.Chance(g.p.BadPct) {
			op.KeyTree = nil
			op.GarbageKey = true
			kc = pick(g.r, garbageExprs)
			if strings.Contains(kc, ":x") {
				ctx.Values[":x"] = S("1")
			}
		} else if op.KeyTree != nil && g.r.Chance(g.p.BadPct/2) {
			// a well-formed condition that is not a key condition: DynamoDB only takes an equality on the
			// partition key, optionally AND one comparison / BETWEEN / begins_with on the sort key
			ctx = NewExprCtx(g.r)
			hn := ctx.name([]byte(hash[0]))
			hv := ctx.value(g.keyVal(hash[1], pool))
			rn, rv := "", ""
			if rng != nil {
				rn = ctx.name([]byte(rng[0]))
				rv = ctx.value(g.keyVal(rng[1], rangeVals))
			}
			class := pick(g.r, []string{"hash-inequality", "no-hash", "or", "non-key", "range-ne", "two-range", "not", "function", "hash-in"})
			switch class {
			case "hash-inequality":
				kc = hn + pick(g.r, []string{" > ", " < ", " <> ", " >= "}) + hv
			case "no-hash":
				if rng != nil {
					kc = rn + " = " + rv
				} else {
					kc = ctx.name([]byte("v")) + " = " + hv
				}
			case "or":
				if rng != nil {
					kc = hn + " = " + hv + " OR " + rn + " = " + rv
				} else {
					kc = hn + " = " + hv + " OR " + hn + " = " + ctx.value(g.keyVal(hash[1], pool))
				}
			case "non-key":
				kc = hn + " = " + hv + " AND " + ctx.name([]byte("v")) + " = " + ctx.value(S(pick(g.r, vVals)))
			case "range-ne":
				if rng != nil {
					kc = hn + " = " + hv + " AND " + rn + " <> " + rv
				} else {
					kc = hn + " <> " + hv
				}
			case "two-range":
				if rng != nil {
					kc = hn + " = " + hv + " AND " + rn + " >= " + rv + " AND " + rn + " <= " + ctx.value(g.keyVal(rng[1], rangeVals))
				} else {
					kc = hn + " = " + hv + " AND " + hn + " = " + ctx.value(g.keyVal(hash[1], pool))
				}
			case "not":
				kc = "NOT " + hn + " = " + hv
			case "function":
				if rng != nil {
					kc = hn + " = " + hv + " AND " + pick(g.r, []string{"contains(", "attribute_type("}) + rn + ", " + rv + ")"
				} else {
					kc = "attribute_exists(" + hn + ")"
				}
			default:
				kc = hn + " IN (" + hv + ")"
			}
			op.KeyTree = nil
			op.BadKeyCond = class
		}
		op.KeyCond = HexS(kc)
	}
	if g.r.Chance(40) {
		op.FilterTree = g.condTree(t)
		f := ctx.Print(op.FilterTree, 0)
		if nt, ok := g.nativeText(50, nativeTexts); ok {
			op.FilterTree = nil
			f = nt
			if strings.Contains(f, ":x") {
				ctx.Values[":x"] = S("1")
			}
		} else if g.r.Chance(g.p.BadPct) {
			op.FilterTree = nil
			op.GarbageFilter = true
			f = pick(g.r, garbageExprs)
			if strings.Contains(f, ":x") {
				ctx.Values[":x"] = S("1")
			}
		}
		op.Filter = HexS(f)
	}
	if g.r.Chance(g.p.BadPct/3) || ((t.Name == "nosuchtable" || op.Index == "nosuchindex") && g.r.Chance(60)) {
		// two faults at once: which one is reported must not depend on the client
		switch g.r.Intn(4) {
		case 0:
			ctx.Names["#unused"] = "v"
		case 1:
			ctx.Values[":unused"] = S("1")
		case 2:
			ctx.Names["#bad-name"] = "v"
		default:
			ctx.Values[":bad-value"] = S("1")
		}
	}
	if g.r.Chance(8) {
		op.EmptyStart = true
	}
	if g.r.Chance(g.p.BadPct/3) && !g.native && g.dropPlaceholder(ctx) {
		op.KeyTree, op.FilterTree = nil, nil
	}
	op.setExprs(ctx.Names, ctx.Values)
	if g.r.Chance(50) || kind == "pages" {
		op.Limit = 1 + g.r.Intn(4)
	}
	if kind == "query" && t.Name != "nosuchtable" && g.r.Chance(12) {
		// an ExclusiveStartKey built by hand: a key of the table that may not be stored (the read resumes
		// after its position), completed with the index key for a read through an index — or a malformed
		// one (attribute missing, wrong type, index attributes missing), which must be rejected
		sk := g.genKey(t)
		if op.Index != "" && op.Index != "nosuchindex" {
			has := map[string]bool{}
			for _, kv := range sk {
				has[string(kv.K)] = true
			}
			if !has[hash[0]] {
				sk = append(sk, KV{[]byte(hash[0]), g.keyVal(hash[1], gVals)})
			}
			if rng != nil && !has[rng[0]] {
				sk = append(sk, KV{[]byte(rng[0]), g.keyVal(rng[1], rangeVals)})
			}
		}
		switch g.r.Intn(6) {
		case 0:
			sk = g.badKey(t)
		case 1: // only the table key on an index read / one attribute short
			if len(sk) > 1 {
				sk = sk[:len(sk)-1]
			} else {
				sk = Item{{[]byte("other"), S("x")}}
			}
		case 2: // the last attribute with another type
			last := &sk[len(sk)-1]
			if last.V.T == "N" {
				last.V = S("x")
			} else {
				last.V = AV{T: "N", V: []byte("5")}
			}
		}
		op.StartKey = sk
	}
	return op
}

func (g *HistGen) genQuery() {
	// a partition whose number sort keys are 1, 10 and 2 — adjacent by value, not by text — read with a range condition
	// and nothing else: every match comes back, whatever lies between two matches in the key list
	if t := g.pickTable(); t.Range != nil && t.Range[1] == "N" && t.Hash[1] == "S" && t.Name != "nosuchtable" && g.r.Chance(12) {
		h := pick(g.r, g.hashPool())
		if h != "" {
			for _, r := range []string{"1", "10", "2"} {
				it := Item{{[]byte(t.Hash[0]), S(h)}, {[]byte(t.Range[0]), Nn(r)}, {[]byte("v"), S("1")}}
				g.ops = append(g.ops, &Op{Op: "put", Table: HexS(t.Name), Item: it})
				g.notePut(t, it)
			}
			ctx := NewExprCtx(g.r)
			op := &Op{Op: "query", Table: HexS(t.Name), Forward: g.r.Bool(), MaxPages: 40}
			cmp := pick(g.r, []string{"<=", "<", ">=", ">"})
			bound := pick(g.r, []string{"2", "3", "9", "1"})
			op.KeyTree = &Cond{K: "and", A: &Cond{K: "cmp", Op: "=", L: pathOp(t.Hash[0]), R: valOp(S(h))},
				B: &Cond{K: "cmp", Op: cmp, L: pathOp(t.Range[0]), R: valOp(Nn(bound))}}
			op.KeyCond = HexS(ctx.Print(op.KeyTree, 0))
			op.setExprs(ctx.Names, ctx.Values)
			g.ops = append(g.ops, op)
			return
		}
	}
	g.ops = append(g.ops, g.searchOp("query"))
}

func pkAttrsOf(t *TableSpec) []string {
	out := []string{t.Hash[0]}
	if t.Range != nil {
		out = append(out, t.Range[0])
	}
	return out
}

func (g *HistGen) genPages() {
	// several items under one index key, read page by page through the index while the item a page ends on is deleted:
	// the next page goes on behind the deleted one, among the items that share its index key
	if t := g.pickTable(); len(t.GSI) > 0 && t.Name != "nosuchtable" && g.r.Chance(12) {
		ix := pick(g.r, t.GSI)
		if ix.Hash[1] == "S" && ix.Hash[0] != t.Hash[0] && (t.Range == nil || ix.Hash[0] != t.Range[0]) && (ix.Range == nil || ix.Range[1] == "S") {
			for i := 0; i < 3; i++ {
				it := g.genKey(t)
				has := map[string]bool{}
				for _, kv := range it {
					has[string(kv.K)] = true
				}
				if has[ix.Hash[0]] {
					continue
				}
				it = append(it, KV{[]byte(ix.Hash[0]), S("tie")})
				if ix.Range != nil && !has[ix.Range[0]] {
					it = append(it, KV{[]byte(ix.Range[0]), S("same")})
					has[ix.Range[0]] = true
				}
				if !has["v"] {
					it = append(it, KV{[]byte("v"), S("1")})
				}
				g.ops = append(g.ops, &Op{Op: "put", Table: HexS(t.Name), Item: it})
				g.notePut(t, it)
			}
			n := 0
			// ... first in descending order with a key condition (no random draw here: the histories of other scenarios stay as they are)
			kt := &Cond{K: "cmp", Op: "=", L: pathOp(ix.Hash[0]), R: valOp(S("tie"))}
			qp := &Op{Op: "pages", Table: HexS(t.Name), Index: HexS(ix.Name), Forward: false, Limit: 1, MaxPages: 40, KeyTree: kt, pkAttrs: pkAttrsOf(t)}
			qp.KeyCond = HexS(ix.Hash[0] + " = :tie")
			qp.setExprs(map[string]string{}, map[string]AV{":tie": S("tie")})
			g.ops = append(g.ops, qp)
			g.ops = append(g.ops, &Op{Op: "pages", Table: HexS(t.Name), Index: HexS(ix.Name), Scan: true, Forward: true, Limit: 1, MaxPages: 40, DelAfter: &n,
				pkAttrs: pkAttrsOf(t)})
			return
		}
	}
	op := g.searchOp("pages")
	if op.BadKeyCond == "" && g.r.Chance(g.p.DelBoundary) {
		n := g.r.Intn(2)
		op.DelAfter = &n
	}
	g.ops = append(g.ops, op)
}

// illTypedForIndex: the item holds an index key attribute with another type than the index declares (the write is rejected)
func illTypedForIndex(t *TableSpec, it Item) bool {
	for _, ix := range append(append([]IndexSpec{}, t.GSI...), t.LSI...) {
		for _, kv := range it {
			if (string(kv.K) == ix.Hash[0] && kv.V.T != ix.Hash[1]) || (ix.Range != nil && string(kv.K) == ix.Range[0] && kv.V.T != ix.Range[1]) {
				return true
			}
		}
	}
	return false
}

func hasEmptyKey(t *TableSpec, it Item) bool {
	for _, kv := range it {
		if (string(kv.K) == t.Hash[0] || (t.Range != nil && string(kv.K) == t.Range[0])) && len(kv.V.V) == 0 && (kv.V.T == "S" || kv.V.T == "N" || kv.V.T == "B") {
			return true
		}
	}
	return false
}

func (g *HistGen) genBatchWrite() {
	live := g.live()
	if len(live) == 0 {
		return
	}
	op := &Op{Op: "batchWrite"}
	nt := 1
	bad := g.r.Chance(g.p.BadPct)
	// a request that is neither or both put and delete is rejected before anything is written, in whatever
	// order the tables are visited: such a batch may span two tables; a bad key only fails when its turn comes
	shapeOnly := bad && g.r.Chance(50)
	if (!bad || shapeOnly) && len(live) > 1 && (g.r.Chance(40) || shapeOnly) {
		nt = 2
	}
	total := 0
	// two tables that are each within the limit of 25 while the call as a whole is around it
	around := nt == 2 && g.r.Chance(20)
	first := g.r.Intn(len(live))
	for ti := 0; ti < nt; ti++ {
		t := live[(first+ti)%len(live)]
		dup := false
		for _, e := range op.WReqs {
			if string(e.Table) == t.Name {
				dup = true
			}
		}
		if dup {
			continue
		}
		n := 1 + g.r.Intn(5)
		if g.r.Chance(6) {
			n = 20 + g.r.Intn(10)
		}
		if around {
			n = 11 + g.r.Intn(4)
		}
		tr := TableReqs{Table: HexS(t.Name)}
		for i := 0; i < n; i++ {
			// several tables are visited in Go's random map order: only requests that cannot fail go into
			// such a batch, so that the order is not observable
			if g.r.Chance(60) {
				it := g.genItemFor(t)
				for nt > 1 && (hasEmptyKey(t, it) || illTypedForIndex(t, it)) {
					it = g.genItemFor(t)
				}
				tr.Reqs = append(tr.Reqs, WReq{Put: it})
			} else {
				k := g.genKey(t)
				for nt > 1 && hasEmptyKey(t, k) {
					k = g.genKey(t)
				}
				tr.Reqs = append(tr.Reqs, WReq{Del: k})
			}
		}
		total += n
		if bad && (!shapeOnly || ti == nt-1) {
			k := g.r.Intn(3)
			if shapeOnly {
				k = g.r.Intn(2)
			}
			switch k {
			case 0:
				tr.Reqs = append(tr.Reqs, WReq{Neither: true})
			case 1:
				tr.Reqs = append(tr.Reqs, WReq{Both: &[2]Item{g.genItemFor(t), g.genKey(t)}})
			default:
				tr.Reqs = append(tr.Reqs, WReq{Put: append(g.badKey(t), KV{[]byte("v"), S("1")})})
			}
		}
		op.WReqs = append(op.WReqs, tr)
	}
	if shapeOnly && g.r.Chance(30) {
		// the batch rules hold whatever state the database is in: the malformed batch is sent while a failure is emulated
		g.ops = append(g.ops, &Op{Op: "setFailure", F: "internal_server"})
		g.ops = append(g.ops, op)
		g.ops = append(g.ops, &Op{Op: "setFailure", F: "none"})
		return
	}
	g.ops = append(g.ops, op)
}

func (g *HistGen) genBatchGet() {
	live := g.live()
	if len(live) == 0 {
		return
	}
	op := &Op{Op: "batchGet"}
	nt := 1 + g.r.Intn(2)
	for ti := 0; ti < nt && ti < len(live); ti++ {
		t := live[(g.r.Intn(len(live))+ti)%len(live)]
		dup := false
		for _, e := range op.GReqs {
			if string(e.Table) == t.Name {
				dup = true
			}
		}
		if dup {
			continue
		}
		tk := TableKeys{Table: HexS(t.Name)}
		for i := 0; i < 1+g.r.Intn(5); i++ {
			tk.Keys = append(tk.Keys, g.knownKey(t))
		}
		if g.r.Chance(g.p.BadPct) {
			// a key that lacks an attribute or gives it another type: the request is invalid as a whole
			tk.Keys = append(tk.Keys, g.badKey(t))
		}
		op.GReqs = append(op.GReqs, tk)
	}
	if g.r.Chance(g.p.BadPct / 2) {
		op.GReqs = append(op.GReqs, TableKeys{Table: "nosuchtable", Keys: []Item{{{[]byte("h"), S("a")}}}})
	}
	g.ops = append(g.ops, op)
}

func (g *HistGen) genMgmt() {
	live := g.live()
	switch g.r.Intn(8) {
	case 0:
		g.createTable(fmt.Sprintf("tab%d", len(g.tables)))
	case 1: // create an existing table again
		if len(live) > 0 {
			g.createTable(pick(g.r, live).Name)
		}
	case 2, 3: // add an index to a table with data
		if len(live) > 0 && g.r.Chance(18) {
			// an UpdateTable that fails leaves nothing behind: neither the index changes that came before the failing one
			// nor the attribute definitions it brought (a later index on such an attribute, sent without definitions, is refused)
			t := pick(g.r, live)
			nosuch := HexS("nosuchindex")
			attr := fmt.Sprintf("q%d", len(g.ops))
			fresh := IndexDef{Name: HexS(fmt.Sprintf("tmp%d", len(g.ops))), Key: *keyDefOf([2]string{attr, "S"}, nil), TP: true}
			switch g.r.Intn(3) {
			case 0: // create, then a failing delete
				g.ops = append(g.ops, &Op{Op: "updateTable", Table: HexS(t.Name), Changes: []IndexChange{{Create: &fresh}, {Delete: &nosuch}}})
			case 1: // delete an index the table has, then a failing create
				if len(t.GSI) > 0 {
					name := HexS(pick(g.r, t.GSI).Name)
					bad := IndexDef{Name: HexS("undef"), Key: *keyDefOf([2]string{"undefinedattr", "S"}, nil), TP: true, NoDefs: true}
					g.ops = append(g.ops, &Op{Op: "updateTable", Table: HexS(t.Name), Changes: []IndexChange{{Delete: &name}, {Create: &bad}}})
				} else {
					g.ops = append(g.ops, &Op{Op: "updateTable", Table: HexS(t.Name), Changes: []IndexChange{{Create: &fresh}, {Delete: &nosuch}}})
				}
			default: // a single failing change that brings a definition
				g.ops = append(g.ops, &Op{Op: "updateTable", Table: HexS(t.Name), Changes: []IndexChange{{Delete: &nosuch}, {Create: &fresh}}})
			}
			// the definition of attr came with a request that failed: an index on it without definitions is refused
			again := fresh
			again.NoDefs = true
			g.ops = append(g.ops, &Op{Op: "updateTable", Table: HexS(t.Name), Changes: []IndexChange{{Create: &again}}})
			g.ops = append(g.ops, &Op{Op: "describeTable", Table: HexS(t.Name)})
		} else if len(live) > 0 && g.r.Chance(15) {
			// an index over a key attribute that is in use, declared with another type than it has: the
			// request must be rejected and the attribute keep its type (or the stored items become unreachable)
			t := pick(g.r, live)
			attr := t.Hash
			if t.Range != nil && g.r.Bool() {
				attr = *t.Range
			}
			if all := append(append([]IndexSpec{}, t.GSI...), t.LSI...); len(all) > 0 && g.r.Chance(40) {
				attr = pick(g.r, all).Hash
			}
			other := "N"
			if attr[1] == "N" {
				other = "S"
			}
			ix := IndexSpec{Name: fmt.Sprintf("retype%d", len(g.ops)), Hash: [2]string{attr[0], other}}
			g.ops = append(g.ops, &Op{Op: "updateTable", Table: HexS(t.Name), Retype: true, Changes: []IndexChange{{Create: &IndexDef{Name: HexS(ix.Name), Key: *keyDefOf(ix.Hash, ix.Range), TP: true}}}})
			g.ops = append(g.ops, &Op{Op: "get", Table: HexS(t.Name), KeyItem: g.knownKey(t)})
		} else if len(live) > 0 && g.p.BinIndexKeys && g.r.Chance(12) {
			// an index on a binary attribute, created over items that have it — one of them with no bytes in it:
			// the item has the attribute, so it is in the index
			t := pick(g.r, live)
			used := false
			for _, o := range append(append([]IndexSpec{}, t.GSI...), t.LSI...) {
				if o.Hash[0] == "gb" || (o.Range != nil && o.Range[0] == "gb") {
					used = true
				}
			}
			if !used {
				for _, b := range [][]byte{{}, []byte("x"), {0, 255}} {
					it := append(g.genKey(t), KV{[]byte("gb"), AV{T: "B", V: b}}, KV{[]byte("v"), S("1")})
					g.ops = append(g.ops, &Op{Op: "put", Table: HexS(t.Name), Item: it})
					g.notePut(t, it)
				}
				ix := IndexSpec{Name: fmt.Sprintf("bin%d", len(t.GSI)), Hash: [2]string{"gb", "B"}}
				g.ops = append(g.ops, &Op{Op: "updateTable", Table: HexS(t.Name), Changes: []IndexChange{{Create: &IndexDef{Name: HexS(ix.Name), Key: *keyDefOf(ix.Hash, ix.Range), TP: true}}}})
				t.GSI = append(t.GSI, ix)
				g.ops = append(g.ops, &Op{Op: "query", Table: HexS(t.Name), Index: HexS(ix.Name), Scan: true, Forward: true})
				// page by page through the new index: the key a page ends on is a start key the library accepts
				g.ops = append(g.ops, &Op{Op: "pages", Table: HexS(t.Name), Index: HexS(ix.Name), Scan: true, Forward: true, Limit: 1, MaxPages: 40})
				g.ops = append(g.ops, &Op{Op: "describeTable", Table: HexS(t.Name)})
			}
		} else if len(live) > 0 {
			t := pick(g.r, live)
			ix := g.newIndexSpecFor(t, fmt.Sprintf("late%d", len(t.GSI)))
			// an item the new index cannot take (its key attribute has another type): it stays outside the
			// index, and deleting or rewriting it afterwards must work like for any other item
			var stray Item
			covered := false
			for _, o := range append(append([]IndexSpec{}, t.GSI...), t.LSI...) {
				if o.Hash[0] == ix.Hash[0] || (o.Range != nil && o.Range[0] == ix.Hash[0]) {
					covered = true
				}
			}
			if !covered && ix.Hash[0] != t.Hash[0] && (t.Range == nil || ix.Hash[0] != t.Range[0]) && g.r.Chance(50) {
				stray = append(g.genKey(t), KV{[]byte(ix.Hash[0]), AV{T: "N", V: []byte("5")}}, KV{[]byte("v"), S("1")})
				g.ops = append(g.ops, &Op{Op: "put", Table: HexS(t.Name), Item: stray})
			}
			g.ops = append(g.ops, &Op{Op: "updateTable", Table: HexS(t.Name), Changes: []IndexChange{{Create: &IndexDef{Name: HexS(ix.Name), Key: *keyDefOf(ix.Hash, ix.Range), TP: !t.PPR || g.r.Chance(40)}}}})
			t.GSI = append(t.GSI, ix)
			// the items that were there before are in the new index: read it at once
			g.ops = append(g.ops, &Op{Op: "query", Table: HexS(t.Name), Index: HexS(ix.Name), Scan: true, Forward: true})
			if stray != nil {
				key := Item{stray[0]}
				if t.Range != nil {
					key = append(key, stray[1])
				}
				if g.r.Chance(60) {
					g.ops = append(g.ops, &Op{Op: "delete", Table: HexS(t.Name), KeyItem: key, RetOld: g.r.Bool()})
				} else {
					up := &Op{Op: "update", Table: HexS(t.Name), KeyItem: key, Expr: HexS("SET v = :x")}
					up.setExprs(map[string]string{}, map[string]AV{":x": S("2")})
					g.ops = append(g.ops, up)
				}
			}
		}
	case 4: // delete an index
		if len(live) > 0 {
			t := pick(g.r, live)
			name := HexS("nosuchindex")
			if len(t.GSI) > 0 && g.r.Chance(80) {
				i := g.r.Intn(len(t.GSI))
				name = HexS(t.GSI[i].Name)
				t.GSI = append(t.GSI[:i:i], t.GSI[i+1:]...)
			}
			g.ops = append(g.ops, &Op{Op: "updateTable", Table: HexS(t.Name), Changes: []IndexChange{{Delete: &name}}})
		}
	case 5:
		if len(live) > 0 {
			g.ops = append(g.ops, &Op{Op: "clearTable", Table: HexS(pick(g.r, live).Name)})
		} else {
			g.ops = append(g.ops, &Op{Op: "clearTable", Table: "nosuchtable"})
		}
	case 6:
		if len(live) > 1 || (len(live) == 1 && g.r.Chance(30)) {
			t := pick(g.r, live)
			g.ops = append(g.ops, &Op{Op: "deleteTable", Table: HexS(t.Name)})
			t.Dropped = true
		} else {
			g.ops = append(g.ops, &Op{Op: "deleteTable", Table: "nosuchtable"})
		}
	default:
		g.ops = append(g.ops, &Op{Op: "updateTable", Table: "nosuchtable", Changes: []IndexChange{}})
	}
}

var nativeTexts = []string{"v = :x", "h = :x", "ab = :x", "ba = :x", "SET v = :x", "SET w = :x", "attribute_exists(v)", "h = :x AND v = :x"}

// nativeText: while the native interpreter is active, a variant of a registered text or one of the
// texts that may only be registered later (a registration made after a first use must still fire)
func (g *HistGen) nativeText(pct int, later []string) (string, bool) {
	if !g.native || !g.r.Chance(pct) {
		return "", false
	}
	if len(g.regs) > 0 && g.r.Chance(70) {
		return g.variant(pick(g.r, g.regs)), true
	}
	if g.r.Chance(60) {
		return pick(g.r, later), true
	}
	return "", false
}

func (g *HistGen) genNative() {
	live := g.live()
	if len(live) == 0 {
		return
	}
	t := pick(g.r, live)
	texts := nativeTexts
	switch g.r.Intn(10) {
	case 9:
		// a fresh registry installed with SetInterpreter reaches the tables that exist already, whether the native
		// interpreter is active at that moment or only afterwards
		g.ops = append(g.ops, &Op{Op: "setInterpreter"})
		g.regs = nil
		e := "v = :x"
		g.ops = append(g.ops, &Op{Op: "registerMatcher", Table: HexS(t.Name), Kind: "filter", Expr: HexS(e), ID: 2 + g.r.Intn(4)})
		g.ops = append(g.ops, &Op{Op: "registerUpdater", Table: HexS(t.Name), Expr: HexS("SET w = :x"), ID: g.r.Intn(6)})
		g.regs = append(g.regs, e, "SET w = :x")
		if !g.native {
			g.ops = append(g.ops, &Op{Op: "activateNative"})
			g.native = true
		}
		it := Item{}
		for _, kv := range g.genItemFor(t) {
			if string(kv.K) != "v" {
				it = append(it, kv)
			}
		}
		it = append(it, KV{[]byte("v"), S("1")})
		g.ops = append(g.ops, &Op{Op: "put", Table: HexS(t.Name), Item: it})
		g.notePut(t, it)
		op := &Op{Op: "query", Table: HexS(t.Name), Scan: true, Forward: true, Filter: HexS(e)}
		op.setExprs(map[string]string{}, map[string]AV{":x": S("1")})
		g.ops = append(g.ops, op)
		key := Item{}
		for _, kv := range it {
			if string(kv.K) == t.Hash[0] || (t.Range != nil && string(kv.K) == t.Range[0]) {
				key = append(key, kv)
			}
		}
		up := &Op{Op: "update", Table: HexS(t.Name), KeyItem: key, Expr: HexS("SET w = :x")}
		up.setExprs(map[string]string{}, map[string]AV{":x": S("2")})
		g.ops = append(g.ops, up)
	case 8:
		// a table created while the native interpreter is active is under it like the others: its registrations fire,
		// an update without a registered updater is refused
		if !g.native {
			g.ops = append(g.ops, &Op{Op: "activateNative"})
			g.native = true
		}
		bad := g.p.BadPct
		g.p.BadPct = 0
		g.createTable(fmt.Sprintf("late%d", len(g.tables)))
		g.p.BadPct = bad
		lt := g.tables[len(g.tables)-1]
		it := Item{}
		for _, kv := range g.genItemFor(lt) {
			if string(kv.K) != "v" {
				it = append(it, kv)
			}
		}
		it = append(it, KV{[]byte("v"), S("1")})
		g.ops = append(g.ops, &Op{Op: "put", Table: HexS(lt.Name), Item: it})
		g.notePut(lt, it)
		key := Item{}
		for _, kv := range it {
			if string(kv.K) == lt.Hash[0] || (lt.Range != nil && string(kv.K) == lt.Range[0]) {
				key = append(key, kv)
			}
		}
		if g.r.Bool() {
			e := "v = :x"
			g.ops = append(g.ops, &Op{Op: "registerMatcher", Table: HexS(lt.Name), Kind: "filter", Expr: HexS(e), ID: 2 + g.r.Intn(4)})
			op := &Op{Op: "query", Table: HexS(lt.Name), Scan: true, Forward: true, Filter: HexS(e)}
			op.setExprs(map[string]string{}, map[string]AV{":x": S("1")})
			g.ops = append(g.ops, op)
			g.regs = append(g.regs, e)
		} else {
			up := &Op{Op: "update", Table: HexS(lt.Name), KeyItem: key, Expr: HexS("SET w = :x")}
			up.setExprs(map[string]string{}, map[string]AV{":x": S("2")})
			g.ops = append(g.ops, up)
			g.ops = append(g.ops, &Op{Op: "get", Table: HexS(lt.Name), KeyItem: key})
		}
	case 7:
		// a registration is for one kind of expression: a matcher registered as a filter (or key condition) says
		// nothing about a write condition with the same text, and the other way round
		if !g.native {
			g.ops = append(g.ops, &Op{Op: "activateNative"})
			g.native = true
		}
		e := pick(g.r, []string{"v = :x", "attribute_exists(v)"})
		it := Item{}
		for _, kv := range g.genItemFor(t) {
			if string(kv.K) != "v" {
				it = append(it, kv)
			}
		}
		it = append(it, KV{[]byte("v"), S("1")})
		g.ops = append(g.ops, &Op{Op: "put", Table: HexS(t.Name), Item: it})
		g.notePut(t, it)
		vals := map[string]AV{}
		if strings.Contains(e, ":x") {
			vals[":x"] = S("1")
		}
		id := 2 + g.r.Intn(4)
		if g.r.Bool() {
			g.ops = append(g.ops, &Op{Op: "registerMatcher", Table: HexS(t.Name), Kind: pick(g.r, []string{"filter", "key"}), Expr: HexS(e), ID: id})
			h := HexS(e)
			op := &Op{Op: "put", Table: HexS(t.Name), Item: it, Cond: &h}
			op.setExprs(map[string]string{}, vals)
			g.ops = append(g.ops, op)
		} else {
			g.ops = append(g.ops, &Op{Op: "registerMatcher", Table: HexS(t.Name), Kind: "cond", Expr: HexS(e), ID: id})
			op := &Op{Op: "query", Table: HexS(t.Name), Scan: true, Forward: true, Filter: HexS(e)}
			op.setExprs(map[string]string{}, vals)
			g.ops = append(g.ops, op)
		}
		g.regs = append(g.regs, e)
	case 6:
		// use, register, use again: a matcher registered after the table already evaluated the
		// very same text must fire from then on (and a text that loses its registration falls back)
		if !g.native {
			g.ops = append(g.ops, &Op{Op: "activateNative"})
			g.native = true
		}
		e := pick(g.r, []string{"v = :x", "attribute_exists(v)", "ab = :x"})
		scan := func() {
			op := &Op{Op: "query", Table: HexS(t.Name), Scan: true, Forward: true, Filter: HexS(e)}
			vals := map[string]AV{}
			if strings.Contains(e, ":x") {
				vals[":x"] = S("1")
			}
			op.setExprs(map[string]string{}, vals)
			g.ops = append(g.ops, op)
		}
		scan()
		g.ops = append(g.ops, &Op{Op: "registerMatcher", Table: HexS(t.Name), Kind: "filter", Expr: HexS(e), ID: g.r.Intn(6)})
		g.regs = append(g.regs, e)
		scan()
		if g.r.Chance(40) {
			g.ops = append(g.ops, &Op{Op: "setInterpreter"})
			g.regs = nil
			scan()
		}
	case 0:
		g.ops = append(g.ops, &Op{Op: "activateNative"})
		g.native = true
	case 1:
		if g.r.Chance(60) {
			g.ops = append(g.ops, &Op{Op: "setInterpreter"})
			g.regs = nil
		}
	case 2:
		e := pick(g.r, texts[4:6])
		g.ops = append(g.ops, &Op{Op: "registerUpdater", Table: HexS(t.Name), Expr: HexS(e), ID: g.r.Intn(6)})
		g.regs = append(g.regs, e)
	case 3:
		// a registration under a name that continues a live table's name with the separator a
		// concatenated key would use: it belongs to another (here non-existent) table and must
		// never answer for t, whose request text starts with the rest of that name
		sep := pick(g.r, []string{"|", ".", "\\", "\\.", "|v|"})
		e := pick(g.r, []string{"= :x", "v = :x", "SET v = :x"})
		if strings.HasPrefix(e, "SET") {
			g.ops = append(g.ops, &Op{Op: "registerUpdater", Table: HexS(t.Name + sep + "w"), Expr: HexS(e), ID: g.r.Intn(6)})
		} else {
			g.ops = append(g.ops, &Op{Op: "registerMatcher", Table: HexS(t.Name + sep + "w"), Kind: pick(g.r, []string{"key", "filter", "cond"}), Expr: HexS(e), ID: g.r.Intn(6)})
		}
		g.regs = append(g.regs, "w"+sep+e)
	default:
		e := pick(g.r, texts)
		g.ops = append(g.ops, &Op{Op: "registerMatcher", Table: HexS(t.Name), Kind: pick(g.r, []string{"key", "filter", "cond"}), Expr: HexS(e), ID: g.r.Intn(6)})
		g.regs = append(g.regs, e)
	}
}

func (g *HistGen) observe() {
	for _, t := range g.live() {
		g.ops = append(g.ops, &Op{Op: "describeTable", Table: HexS(t.Name)})
		g.ops = append(g.ops, &Op{Op: "query", Table: HexS(t.Name), Scan: true, Forward: true})
		for _, ix := range append(append([]IndexSpec{}, t.GSI...), t.LSI...) {
			g.ops = append(g.ops, &Op{Op: "query", Table: HexS(t.Name), Index: HexS(ix.Name), Scan: true, Forward: true})
		}
	}
}

func (g *HistGen) Gen() []*Op {
	p := g.p
	bad := g.p.BadPct
	g.p.BadPct = 0 // the initial tables are valid
	for i := 0; i < p.Tables; i++ {
		g.createTable(fmt.Sprintf("tab%d", i))
	}
	g.p.BadPct = bad
	n := p.OpsMin + g.r.Intn(p.OpsMax-p.OpsMin+1)
	ws := []int{p.Put, p.Update, p.Delete, p.Get, p.Query, p.Scan, p.Pages, p.BatchWrite, p.BatchGet, p.Describe, p.Failure, p.Mgmt, p.Native, p.Transact}
	tot := 0
	for _, w := range ws {
		tot += w
	}
	for i := 0; i < n; i++ {
		x := g.r.Intn(tot)
		k := 0
		for ; k < len(ws); k++ {
			if x < ws[k] {
				break
			}
			x -= ws[k]
		}
		switch k {
		case 0:
			g.genPut()
		case 1:
			g.genUpdate()
		case 2:
			g.genDelete()
		case 3:
			g.genGet()
		case 4:
			g.genQuery()
		case 5:
			g.ops = append(g.ops, g.searchOpX("query", true))
		case 6:
			g.genPages()
		case 7:
			g.genBatchWrite()
		case 8:
			g.genBatchGet()
		case 9:
			g.ops = append(g.ops, &Op{Op: "describeTable", Table: HexS(g.pickTable().Name)})
		case 10:
			g.ops = append(g.ops, &Op{Op: "setFailure", F: pick(g.r, []string{"none", "internal_server", "deprecated", "none"}), Legacy: g.r.Chance(40)})
		case 11:
			g.genMgmt()
		case 12:
			g.genNative()
		case 13:
			g.ops = append(g.ops, &Op{Op: "transactWrite"})
		}
	}
	if p.FinalObserve {
		g.ops = append(g.ops, &Op{Op: "setFailure", F: "none", Legacy: g.r.Chance(40)})
		g.observe()
	}
	// a few calls get a cancelled context: no operation of the fake observes its context
	for _, op := range g.ops {
		switch op.Op {
		case "put", "update", "delete", "get", "query", "pages", "batchWrite", "batchGet", "describeTable", "updateTable", "transactWrite":
			if g.r.Chance(3) {
				op.Cancelled = true
			}
		}
	}
	return g.ops
}
