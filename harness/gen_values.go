package main

import (
	"fmt"
	"strings"
)

// ---------- value generators ----------

var strAlphabet = []string{"", "a", "b", "ab", "abc", "b.c", "a.b", "x", "Z", "hello", "he", "é", "a b", "0", "10", "9", "zz"}

var numerals = []string{"0", "1", "2", "3", "5", "7", "10", "9", "-1", "-3", "100", "0.5", "1.5", "2.25", "0.1", "0.2", "0.3",
	"1.0", "01", "1e2", "1E2", "-0", "1.10", "9007199254740993", "9007199254740992", "123456789012345678901234567890",
	"010", "0010", "-010", "017", "3.14159", "1e-3", "0.001", "12345678901234567890123456789012345678", "1e21", "1e-7", "4.35", "99.99", "-2.5", "1000000"}

var zeroSpellings = []string{"0", "-0", "0.0", "-0.0", "0e0", "-0e5"}

var simpleNumerals = []string{"0", "1", "2", "3", "5", "7", "10", "9", "-1", "-3", "100", "0.5", "1.5", "2.25", "42", "1000"}

func genStr(r *Rng) []byte {
	if r.Chance(10) {
		n := r.Intn(6)
		b := make([]byte, n)
		for i := range b {
			b[i] = byte(97 + r.Intn(4))
		}
		return b
	}
	return []byte(pick(r, strAlphabet))
}

func genBin(r *Rng, allowEmpty bool) []byte {
	n := r.Intn(4)
	if !allowEmpty && n == 0 {
		n = 1
	}
	b := make([]byte, n)
	for i := range b {
		b[i] = pick(r, []byte{0, 1, 2, 97, 98, 255, 46, 10})
	}
	return b
}

func genNum(r *Rng, exact bool) []byte {
	if exact {
		return []byte(pick(r, simpleNumerals))
	}
	if r.Chance(15) {
		// random decimal
		ip := r.Intn(100000)
		fp := r.Intn(1000)
		s := fmt.Sprintf("%d.%03d", ip, fp)
		if r.Chance(30) {
			s = "-" + s
		}
		return []byte(s)
	}
	return []byte(pick(r, numerals))
}

type ValOpts struct {
	ExactNums  bool // only numerals that are exact in binary64 and canonical in text
	AllowEmpty bool // empty binary / list / map
	MaxDepth   int
}

var scalarTypes = []string{"S", "N", "B", "BOOL", "NULL"}
var allTypes = []string{"S", "N", "B", "BOOL", "NULL", "L", "M", "SS", "NS", "BS"}

func genOfType(r *Rng, t string, depth int, o ValOpts) AV {
	switch t {
	case "S":
		return AV{T: "S", V: genStr(r)}
	case "N":
		return AV{T: "N", V: genNum(r, o.ExactNums)}
	case "B":
		return AV{T: "B", V: genBin(r, o.AllowEmpty && r.Chance(10))}
	case "BOOL":
		return AV{T: "BOOL", Bool: r.Bool()}
	case "NULL":
		return AV{T: "NULL"}
	case "L":
		n := r.Intn(4)
		if !o.AllowEmpty && n == 0 {
			n = 1
		}
		l := make([]AV, 0, n)
		for i := 0; i < n; i++ {
			l = append(l, genVal(r, depth+1, o))
		}
		return AV{T: "L", L: l}
	case "M":
		n := r.Intn(4)
		if !o.AllowEmpty && n == 0 {
			n = 1
		}
		m := Item{}
		used := map[string]bool{}
		for i := 0; i < n; i++ {
			k := pick(r, []string{"k", "k2", "x", "y", "name", "a"})
			if used[k] {
				continue
			}
			used[k] = true
			m = append(m, KV{[]byte(k), genVal(r, depth+1, o)})
		}
		return AV{T: "M", M: m}
	case "SS":
		return AV{T: "SS", Set: genSet(r, func() []byte { return genStr(r) })}
	case "NS":
		return AV{T: "NS", Set: genSet(r, func() []byte { return genNum(r, o.ExactNums) })}
	case "BS":
		return AV{T: "BS", Set: genSet(r, func() []byte { return genBin(r, false) })}
	}
	return AV{T: "NULL"}
}

func genSet(r *Rng, f func() []byte) [][]byte {
	n := 1 + r.Intn(3)
	out := [][]byte{}
	seen := map[string]bool{}
	for i := 0; i < n; i++ {
		x := f()
		if seen[string(x)] {
			continue
		}
		seen[string(x)] = true
		out = append(out, x)
	}
	return out
}

func genVal(r *Rng, depth int, o ValOpts) AV {
	if depth >= o.MaxDepth {
		return genOfType(r, pick(r, scalarTypes), depth, o)
	}
	return genOfType(r, pick(r, allTypes), depth, o)
}

// attribute names with a conventional type, so that expression generators can
// pick operands that make comparisons non-trivially true or false
var attrPool = []struct{ Name, T string }{
	{"s1", "S"}, {"s2", "S"}, {"n1", "N"}, {"n2", "N"}, {"b1", "B"}, {"flag", "BOOL"}, {"nul", "NULL"},
	{"l1", "L"}, {"m1", "M"}, {"ss1", "SS"}, {"ns1", "NS"}, {"bs1", "BS"}, {"v", "S"}, {"w", "N"},
	{"name", "S"}, {"size", "N"}, {"a.b", "S"}, {"x", "*"}, {"y", "*"},
	// names that differ from others in letter case only: attribute names are case-sensitive
	{"V", "S"}, {"N1", "N"}, {"S1", "S"},
}

func genItem(r *Rng, o ValOpts) Item {
	it := Item{}
	for _, a := range attrPool {
		if !r.Chance(45) {
			continue
		}
		t := a.T
		if t == "*" || r.Chance(8) {
			t = pick(r, allTypes)
		}
		it = append(it, KV{[]byte(a.Name), genOfType(r, t, 0, o)})
	}
	// zero in its spellings, alone and inside a list: -0 and 0 are one number
	if r.Chance(25) {
		it = append(it, KV{[]byte("z0"), AV{T: "N", V: []byte(pick(r, zeroSpellings))}})
	}
	if r.Chance(20) {
		it = append(it, KV{[]byte("lz"), AV{T: "L", L: []AV{{T: "N", V: []byte(pick(r, zeroSpellings))}, S("a")}}})
	}
	// attributes that are literally named like the placeholders the printer allocates: an attribute
	// keeps its own name, a placeholder only stands for a name inside the expression
	if r.Chance(12) {
		it = append(it, KV{[]byte("#n0"), genOfType(r, pick(r, []string{"S", "N"}), 0, o)})
	}
	if r.Chance(8) {
		it = append(it, KV{[]byte("#n1"), genOfType(r, pick(r, []string{"S", "N", "L"}), 0, o)})
	}
	// ... and like the value placeholders: the request's :v0 is the request's, whatever the item holds under that name
	if r.Chance(10) {
		it = append(it, KV{[]byte(":v0"), genOfType(r, pick(r, []string{"S", "N", "BOOL"}), 0, o)})
	}
	if r.Chance(6) {
		it = append(it, KV{[]byte(":v1"), genOfType(r, pick(r, []string{"S", "N"}), 0, o)})
	}
	return it
}

func (it Item) get(name string) (AV, bool) {
	for _, kv := range it {
		if string(kv.K) == name {
			return kv.V, true
		}
	}
	return AV{}, false
}

// twinNumeral: another way to write the same number (DynamoDB numbers are values, not texts)
func twinNumeral(r *Rng, t []byte) []byte {
	s := string(t)
	switch {
	case s == "0":
		return []byte(pick(r, []string{"-0", "0.0", "-0.0", "0e0", "00"}))
	case s == "-0":
		return []byte(pick(r, []string{"0", "0.0", "-0.0"}))
	case !strings.ContainsAny(s, ".eE"):
		neg := strings.HasPrefix(s, "-")
		switch r.Intn(3) {
		case 0:
			return []byte(s + ".0")
		case 1:
			return []byte(s + "e0")
		default:
			if neg {
				return []byte("-0" + s[1:])
			}
			return []byte("0" + s)
		}
	case strings.Contains(s, ".") && !strings.ContainsAny(s, "eE"):
		return []byte(s + "0")
	}
	return t
}

// twinOf: the same value written differently — numerals respelt, the elements of sets and the
// entries of maps in another order, recursively
func twinOf(r *Rng, v AV) AV {
	switch v.T {
	case "N":
		return AV{T: "N", V: twinNumeral(r, v.V)}
	case "SS", "BS", "NS":
		out := AV{T: v.T}
		for _, i := range r.Perm(len(v.Set)) {
			e := v.Set[i]
			if v.T == "NS" && r.Chance(50) {
				e = twinNumeral(r, e)
			}
			out.Set = append(out.Set, e)
		}
		return out
	case "L":
		out := AV{T: "L", L: []AV{}}
		for _, e := range v.L {
			out.L = append(out.L, twinOf(r, e))
		}
		return out
	case "M":
		out := AV{T: "M", M: []KV{}}
		for _, i := range r.Perm(len(v.M)) {
			out.M = append(out.M, KV{v.M[i].K, twinOf(r, v.M[i].V)})
		}
		return out
	}
	return v
}
